/-
  Store-level lemmas for the sorted-set model over the sorted reference store `Z.Ref`:
  counting under an arbitrary key predicate, membership ↔ `get`, write batches keep the store sorted,
  `delRange`, and the shape of filters of a sorted list (prefix up to a key: ZRANK).
-/
import ZanVerif.Engine.Ref
import ZanVerif.Data.ZSetExec

namespace Z.ZSetStore
open Z.Ref Z.ZSetExec

/-- number of stored keys that satisfy `P` -/
def cnt (m : List KV) (P : Bytes → Bool) : Nat := (m.filter (fun p => P p.1)).length

theorem cnt_cons (a : KV) (t : List KV) (P : Bytes → Bool) :
    cnt (a :: t) P = (if P a.1 then 1 else 0) + cnt t P := by
  unfold cnt
  rw [List.filter_cons]
  split <;> (try simp) <;> omega

theorem cnt_put (m : List KV) (hm : Sorted m) (k v : Bytes) (P : Bytes → Bool) :
    cnt (put m k v) P = cnt m P + (if P k && (get m k).isNone then 1 else 0) := by
  induction m with
  | nil => simp [put, Z.Ref.get, cnt]; split <;> simp_all
  | cons a t ih =>
    unfold put
    split
    · rename_i hlt
      have hnone : get (a :: t) k = none := by
        apply get_none_of_lt
        intro p hp
        rcases List.mem_cons.mp hp with rfl | hp
        · exact hlt
        · exact List.lt_trans hlt (hm.head_lt p hp)
      rw [cnt_cons (k, v)]
      simp only [hnone, Option.isNone_none, Bool.and_true]
      have e : ((a.1, a.2) :: t) = a :: t := rfl
      rw [e]
      split <;> (try simp) <;> omega
    · split
      · rename_i _ heq
        subst heq
        rw [cnt_cons, cnt_cons]
        simp [Z.Ref.get]
      · rename_i hnlt hne
        have hne' : a.1 ≠ k := fun e => hne e.symm
        rw [cnt_cons, cnt_cons a, ih hm.tail]
        simp only [Z.Ref.get, hne', ↓reduceIte]
        omega

theorem cnt_del (m : List KV) (hm : Sorted m) (k : Bytes) (P : Bytes → Bool) :
    cnt (del m k) P + (if P k && (get m k).isSome then 1 else 0) = cnt m P := by
  induction m with
  | nil => simp [del, Z.Ref.get, cnt]
  | cons a t ih =>
    unfold del
    split
    · rename_i heq
      subst heq
      rw [cnt_cons]
      simp [Z.Ref.get]
      split <;> (try simp) <;> omega
    · rename_i hne
      rw [cnt_cons, cnt_cons a, ← ih hm.tail]
      simp only [Z.Ref.get, hne, ↓reduceIte]
      omega

theorem mem_of_get {m : List KV} {k v : Bytes} (h : get m k = some v) : (k, v) ∈ m := by
  induction m with
  | nil => simp [Z.Ref.get] at h
  | cons a t ih =>
    unfold Z.Ref.get at h
    split at h
    · rename_i heq
      cases h
      have : a = (k, a.2) := by rw [← heq]
      rw [this]; exact List.mem_cons_self
    · exact List.mem_cons_of_mem _ (ih h)

theorem get_of_mem {m : List KV} (hm : Sorted m) {p : KV} (h : p ∈ m) : get m p.1 = some p.2 := by
  induction m with
  | nil => cases h
  | cons a t ih =>
    rcases List.mem_cons.mp h with rfl | ht
    · simp [Z.Ref.get]
    · have hlt := hm.head_lt p ht
      have hne : a.1 ≠ p.1 := fun e => List.lt_irrefl p.1 (e ▸ hlt)
      simp [Z.Ref.get, hne, ih hm.tail ht]

theorem mem_iff_get {m : List KV} (hm : Sorted m) (p : KV) : p ∈ m ↔ get m p.1 = some p.2 :=
  ⟨get_of_mem hm, fun h => mem_of_get h⟩

/-- a filter of a sorted list is sorted -/
theorem filter_sorted {m : List KV} (hm : Sorted m) (P : KV → Bool) : Sorted (m.filter P) := by
  induction m with
  | nil => trivial
  | cons a t ih =>
    rw [List.filter_cons]
    split
    · apply sorted_cons (ih hm.tail)
      intro p hp
      exact hm.head_lt p (List.mem_filter.mp hp).1
    · exact ih hm.tail

theorem get_filter (m : List KV) (P : Bytes → Bool) (k : Bytes) :
    get (m.filter (fun p => P p.1)) k = if P k then get m k else none := by
  induction m with
  | nil => simp [Z.Ref.get]
  | cons a t ih =>
    rw [List.filter_cons]
    by_cases hk : a.1 = k
    · subst hk
      by_cases hp : P a.1
      · simp [hp, Z.Ref.get]
      · simp [hp, Z.Ref.get, ih]
    · by_cases hp : P a.1
      · simp [hp, Z.Ref.get, hk, ih]
      · simp [hp, Z.Ref.get, hk, ih]

theorem delRange_sorted {m : List KV} (hm : Sorted m) (lo hi : Bytes) : Sorted (delRange m lo hi) :=
  filter_sorted hm _

theorem get_delRange (m : List KV) (lo hi k : Bytes) :
    get (delRange m lo hi) k = if decide (lo ≤ k) && decide (k < hi) then none else get m k := by
  unfold delRange
  have := get_filter m (fun x => !(decide (lo ≤ x) && decide (x < hi))) k
  rw [this]
  by_cases h : (decide (lo ≤ k) && decide (k < hi)) = true
  · simp [h]
  · simp only [Bool.not_eq_true] at h; simp [h]

theorem applyOp_sorted {m : List KV} (hm : Sorted m) (o : Op) : Sorted (applyOp m o) := by
  cases o with
  | put k v => exact put_sorted hm k v
  | del k => exact del_sorted hm k
  | delRange lo hi => exact delRange_sorted hm lo hi

theorem applyOps_sorted {m : List KV} (hm : Sorted m) (ops : List Op) : Sorted (applyOps m ops) := by
  induction ops generalizing m with
  | nil => exact hm
  | cons o t ih => exact ih (applyOp_sorted hm o)

theorem applyOps_append (m : List KV) (a b : List Op) : applyOps m (a ++ b) = applyOps (applyOps m a) b := by
  simp [applyOps, List.foldl_append]

theorem applyOps_nil (m : List KV) : applyOps m [] = m := rfl
theorem applyOps_cons (m : List KV) (o : Op) (t : List Op) : applyOps m (o :: t) = applyOps (applyOp m o) t := rfl

/-- keys of a sorted list are pairwise distinct -/
theorem sorted_nodup_keys {m : List KV} (hm : Sorted m) : (m.map (·.1)).Nodup := by
  induction m with
  | nil => simp
  | cons a t ih =>
    simp only [List.map_cons, List.nodup_cons]
    refine ⟨?_, ih hm.tail⟩
    intro hmem
    obtain ⟨p, hp, he⟩ := List.mem_map.mp hmem
    have := hm.head_lt p hp
    rw [he] at this
    exact List.lt_irrefl _ this

/-! ### the prefix of a sorted list up to a stored key (ZRANK) -/

/-- for a sorted list, the entries with key ≤ x (and ≥ lo) end with x's entry when x is stored and lo ≤ x -/
theorem filter_le_getLast {m : List KV} (hm : Sorted m) (lo x v : Bytes) (hx : get m x = some v) (hlo : lo ≤ x) :
    (m.filter (fun p => decide (lo ≤ p.1) && decide (p.1 ≤ x))).getLast? = some (x, v) := by
  induction m with
  | nil => simp [Z.Ref.get] at hx
  | cons a t ih =>
    rw [List.filter_cons]
    unfold Z.Ref.get at hx
    split at hx
    · rename_i heq
      cases hx
      -- a is x's entry; everything after is > x
      have htail : t.filter (fun p => decide (lo ≤ p.1) && decide (p.1 ≤ x)) = [] := by
        apply List.filter_eq_nil_iff.mpr
        intro p hp
        have := hm.head_lt p hp
        rw [heq] at this
        have : ¬ p.1 ≤ x := List.not_le.mpr this
        simp [this]
      have ha : a = (x, a.2) := by rw [← heq]
      simp only [heq, hlo, List.le_refl, decide_true, Bool.and_self, ↓reduceIte, htail]
      rw [ha]; simp
    · rename_i hne
      have ih' := ih hm.tail hx
      split
      · rw [List.getLast?_cons]
        rw [ih']; rfl
      · exact ih'

/-- in a sorted list, the entries with key in [lo, x] are the entries with key in [lo, hi] up to x, when x ≤ hi -/
theorem filter_le_eq_takeWhile {m : List KV} (hm : Sorted m) (lo hi x : Bytes) (hxhi : x ≤ hi) :
    m.filter (fun p => decide (lo ≤ p.1) && decide (p.1 ≤ x)) =
      (m.filter (fun p => decide (lo ≤ p.1) && decide (p.1 ≤ hi))).takeWhile (fun p => decide (p.1 ≤ x)) := by
  induction m with
  | nil => simp
  | cons a t ih =>
    rw [List.filter_cons, List.filter_cons]
    by_cases hlo : lo ≤ a.1
    · by_cases hax : a.1 ≤ x
      · have hahi : a.1 ≤ hi := List.le_trans hax hxhi
        simp only [hlo, hax, hahi, decide_true, Bool.and_self, ↓reduceIte, List.takeWhile_cons]
        rw [ih hm.tail]
      · -- a.1 > x: nothing later is ≤ x either
        have hnone : t.filter (fun p => decide (lo ≤ p.1) && decide (p.1 ≤ x)) = [] := by
          apply List.filter_eq_nil_iff.mpr
          intro p hp
          have h1 := hm.head_lt p hp
          have h2 : x < a.1 := List.not_le.mp hax
          have : ¬ p.1 ≤ x := List.not_le.mpr (List.lt_trans h2 h1)
          simp [this]
        simp only [hlo, hax, decide_true, decide_false, Bool.and_false, Bool.false_eq_true, ↓reduceIte, hnone]
        split
        · simp [List.takeWhile_cons, hax]
        · -- a not in the [lo,hi] filter: the rest of that filter is > x as well
          cases hf : t.filter (fun p => decide (lo ≤ p.1) && decide (p.1 ≤ hi)) with
          | nil => simp
          | cons b r =>
            have hb : b ∈ t := (List.mem_filter.mp (by rw [hf]; exact List.mem_cons_self)).1
            have h1 := hm.head_lt b hb
            have h2 : x < a.1 := List.not_le.mp hax
            have : ¬ b.1 ≤ x := List.not_le.mpr (List.lt_trans h2 h1)
            simp [List.takeWhile_cons, this]
    · simp only [hlo, decide_false, Bool.false_and, Bool.false_eq_true, ↓reduceIte]
      exact ih hm.tail

/-- a sorted store is determined by its `get` function -/
theorem sorted_ext : ∀ {m1 m2 : List KV}, Sorted m1 → Sorted m2 → (∀ x, get m1 x = get m2 x) → m1 = m2
  | [], [], _, _, _ => rfl
  | [], b :: u, _, _, h => by
    have := h b.1
    simp [Z.Ref.get] at this
  | a :: t, [], _, _, h => by
    have := h a.1
    simp [Z.Ref.get] at this
  | a :: t, b :: u, h1, h2, h => by
    have hkey : a.1 = b.1 := by
      by_cases hab : a.1 < b.1
      · exfalso
        have e1 : get (b :: u) a.1 = none := by
          apply get_none_of_lt
          intro p hp
          rcases List.mem_cons.mp hp with rfl | hp
          · exact hab
          · exact List.lt_trans hab (h2.head_lt p hp)
        have e2 := h a.1
        rw [e1] at e2
        simp [Z.Ref.get] at e2
      · by_cases hba : b.1 < a.1
        · exfalso
          have e1 : get (a :: t) b.1 = none := by
            apply get_none_of_lt
            intro p hp
            rcases List.mem_cons.mp hp with rfl | hp
            · exact hba
            · exact List.lt_trans hba (h1.head_lt p hp)
          have e2 := h b.1
          rw [e1] at e2
          simp [Z.Ref.get] at e2
        · have hle1 : b.1 ≤ a.1 := List.not_lt.mp hab
          have hle2 : a.1 ≤ b.1 := List.not_lt.mp hba
          exact List.le_antisymm hle2 hle1
    have hval : a.2 = b.2 := by
      have e := h a.1
      simp [Z.Ref.get, hkey] at e
      exact e
    have hab : a = b := Prod.ext hkey hval
    subst hab
    congr 1
    apply sorted_ext h1.tail h2.tail
    intro x
    by_cases hx : a.1 = x
    · subst hx
      have e1 : get t a.1 = none := get_none_of_lt (fun p hp => h1.head_lt p hp)
      have e2 : get u a.1 = none := get_none_of_lt (fun p hp => h2.head_lt p hp)
      rw [e1, e2]
    · have e := h x
      simpa [Z.Ref.get, hx] using e

end Z.ZSetStore
