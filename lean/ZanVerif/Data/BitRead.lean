/-
  Readers of the bitmap model: what `getBitmapMeta` decodes from a meta written by SETBIT (at any read time); every
  bitmap read is a function of the keys it looks at (its own meta key, its own segment keys, the string of the same
  name) — the frame lemma behind "other keys / other types are untouched"; a dead bitmap without a string of the same
  name reads as all-zero.
-/
import ZanVerif.Data.BitSet

namespace Z.BitExec
open Z.Ref (get put del scan Sorted)
open Z.Coll
open Z.Codec Z.Header

theorem expiredAt_user (pol : Pol) (H : Hdr) (u : Option Bytes) (t : Int) : expiredAt pol { H with user := u } t = expiredAt pol H t := by
  cases pol <;> rfl

/-- a reader of a meta that SETBIT wrote -/
theorem bmeta_of_written (pol : Pol) (m : List KV) (table rk : Bytes) (H : Hdr) (size ts : Int) (ho : HdrOk pol H) (hsz : inI64 size)
    (hg : get m (metaK table rk) = some (encodeMeta pol { H with user := some (metaUser size ts) })) (t : Int) :
    bmeta pol m t table rk = .mk { H with user := some (metaUser size ts) } (expiredAt pol H t) size (!expiredAt pol H t) := by
  unfold bmeta mview
  rw [hg]
  simp only
  rw [decode_encodeMeta pol H _ ho]
  simp only [Option.getD_some, metaUser_length, expiredAt_user]
  rw [if_neg (by omega), if_neg (by omega), metaUser_size size ts hsz]

/-- what `bmeta = .mk …` says -/
theorem bmeta_inv (pol : Pol) (m : List KV) (ts : Int) (table rk : Bytes) (h : Hdr) (ex : Bool) (size : Int) (ok : Bool)
    (hm : bmeta pol m ts table rk = .mk h ex size ok) :
    mview pol m ts table rk = .mv h ex ∧
    (((h.user.getD []).length = 0 ∧ size = 0 ∧ ok = false) ∨
     (16 ≤ (h.user.getD []).length ∧ size = ofU64 (fromBE ((h.user.getD []).take 8)) ∧ ok = !ex)) := by
  have hmv := bmeta_mview pol m ts table rk h ex size ok hm
  refine ⟨hmv, ?_⟩
  unfold bmeta at hm
  rw [hmv] at hm
  simp only at hm
  split at hm
  · rename_i h0
    injection hm with _ _ h3 h4
    exact Or.inl ⟨h0, h3.symm, h4.symm⟩
  · split at hm
    · cases hm
    · injection hm with _ _ h3 h4
      exact Or.inr ⟨by omega, h3.symm, h4.symm⟩

theorem bmeta_size_in (pol : Pol) (m : List KV) (ts : Int) (table rk : Bytes) (h : Hdr) (ex : Bool) (size : Int) (ok : Bool)
    (hm : bmeta pol m ts table rk = .mk h ex size ok) : inI64 size := by
  rcases (bmeta_inv pol m ts table rk h ex size ok hm).2 with ⟨_, h2, _⟩ | ⟨_, h2, _⟩
  · rw [h2]; unfold inI64; omega
  · rw [h2]; exact inI64_ofU64 _ (by have := fromBE_take_lt (h.user.getD []) 8; omega)

theorem bmeta_live_notExist (pol : Pol) (m : List KV) (ts : Int) (table rk : Bytes) (h : Hdr) (ex : Bool) (size : Int)
    (hm : bmeta pol m ts table rk = .mk h ex size true) : notExist h ex = false := by
  rcases (bmeta_inv pol m ts table rk h ex size true hm).2 with ⟨_, _, h3⟩ | ⟨h1, _, h3⟩
  · cases h3
  · have hex : ex = false := by
      cases ex
      · rfl
      · cases h3
    subst hex
    unfold notExist
    cases hu : h.user with
    | none => rw [hu] at h1; simp at h1
    | some u => rfl

/-! ### every read is a function of the keys it looks at -/

theorem mview_congr (pol : Pol) (m m' : List KV) (ts : Int) (table rk : Bytes) (h : get m' (metaK table rk) = get m (metaK table rk)) :
    mview pol m' ts table rk = mview pol m ts table rk := by
  unfold mview; rw [h]

theorem bmeta_congr (pol : Pol) (m m' : List KV) (ts : Int) (table rk : Bytes) (h : get m' (metaK table rk) = get m (metaK table rk)) :
    bmeta pol m' ts table rk = bmeta pol m ts table rk := by
  unfold bmeta; rw [mview_congr pol m m' ts table rk h]

theorem strGet_congr (pol : Pol) (m m' : List KV) (now : Int) (table rk : Bytes) (h : get m' (strK table rk) = get m (strK table rk)) :
    strGet pol m' now table rk = strGet pol m now table rk := by
  unfold strGet Z.KVExec.view
  cases pol
  · simp only; rw [show kvKey (packRedisKey table rk) = strK table rk from rfl, h]
  · simp only; rw [h]

theorem strExists_congr (pol : Pol) (m m' : List KV) (now : Int) (table rk : Bytes) (h : get m' (strK table rk) = get m (strK table rk)) :
    strExists pol m' now table rk = strExists pol m now table rk := by
  unfold strExists Z.KVExec.view
  cases pol
  · simp only; rw [show kvKey (packRedisKey table rk) = strK table rk from rfl, h]
  · simp only; rw [h]

/-- the keys of the bitmap `(table, rk)`: its meta key, the string of the same name, every segment key of every generation -/
structure SameKeys (pol : Pol) (m m' : List KV) (table rk : Bytes) : Prop where
  hmeta : get m' (metaK table rk) = get m (metaK table rk)
  hstr : get m' (strK table rk) = get m (strK table rk)
  hseg : ∀ (ver idx : Int), get m' (segK table (vkey pol rk ver) idx) = get m (segK table (vkey pol rk ver) idx)

/-- GETBIT, the prescribed BITCOUNT, BKEYEXIST and BTTL answer the same in two stores that agree on the bitmap's keys -/
theorem reads_congr (pol : Pol) (m m' : List KV) (table rk : Bytes) (S : SameKeys pol m m' table rk) (now : Int) :
    (∀ o, getbit pol m' now table rk o = getbit pol m now table rk o) ∧
    (∀ a b, bitcountSpec pol m' now table rk a b = bitcountSpec pol m now table rk a b) ∧
    bkeyexist pol m' now table rk = bkeyexist pol m now table rk ∧
    bttl pol m' now table rk = bttl pol m now table rk := by
  have hb := bmeta_congr pol m m' now table rk S.hmeta
  have hs := strGet_congr pol m m' now table rk S.hstr
  refine ⟨fun o => ?_, fun a b => ?_, ?_, ?_⟩
  · unfold getbit bitGetOld
    rw [hb, hs]
    cases bmeta pol m now table rk with
    | err e => rfl
    | mk h ex size ok => simp only [S.hseg]
  · unfold bitcountSpec bitCountOld
    rw [hb, hs]
    cases bmeta pol m now table rk with
    | err e => rfl
    | mk h ex size ok => simp only [S.hseg]
  · unfold bkeyexist
    rw [mview_congr pol m m' now table rk S.hmeta, strExists_congr pol m m' now table rk S.hstr]
  · unfold bttl
    cases pol
    · simp only [S.hmeta]
    · rfl

/-! ### key separation between bitmaps -/

theorem segK_inj_tv {t t' v v' : Bytes} {i i' : Int} (ht : t.length < 65536) (ht' : t'.length < 65536)
    (h : segK t v i = segK t' v' i') : t = t' ∧ v = v' := by
  rw [segK_unfold, segK_unfold] at h
  obtain ⟨rfl, h2⟩ := tpre_inj ht ht' h
  obtain ⟨rfl, _⟩ := encBytes_append_inj v v' 0 _ _ (by omega) h2
  exact ⟨rfl, rfl⟩

theorem verKey_inj_key {k k' : Bytes} {v v' : Int} (h : verKey k v = verKey k' v') : k = k' := by
  have unf : ∀ (k : Bytes) (v : Int), verKey k v = Gen.cBytesFlag :: (encBytes 0 k ++ (Gen.cIntFlag :: (encInt (Gen.cDefaultSep.toNat : Int) ++
      (Gen.cIntFlag :: (encInt v ++ (Gen.cIntFlag :: encInt (Gen.cDefaultSep.toNat : Int))))))) := by
    intro k v; simp [verKey, memcmpEncode, encOne]
  rw [unf, unf] at h
  simp only [List.cons.injEq, true_and] at h
  exact (encBytes_append_inj k k' 0 _ _ (by omega) h).1

theorem vkey_inj_key (pol : Pol) {k k' : Bytes} {v v' : Int} (h : vkey pol k v = vkey pol k' v') : k = k' := by
  cases pol
  · exact verKey_inj_key h
  · exact h

/-- a raw key `table:key` determines both parts when the table name has no ':' -/
theorem packRedisKey_inj {t t' k k' : Bytes} (hc : Gen.cTableStartSep ∉ t) (hc' : Gen.cTableStartSep ∉ t')
    (h : packRedisKey t k = packRedisKey t' k') : t = t' ∧ k = k' := by
  unfold packRedisKey at h
  have aux : ∀ (a a' r r' : Bytes), Gen.cTableStartSep ∉ a → Gen.cTableStartSep ∉ a' →
      a ++ [Gen.cTableStartSep] ++ r = a' ++ [Gen.cTableStartSep] ++ r' → a = a' ∧ r = r' := by
    intro a
    induction a with
    | nil =>
      intro a' r r' _ h2 h
      cases a' with
      | nil => simpa using h
      | cons y ys =>
        simp only [List.nil_append, List.singleton_append, List.cons_append, List.cons.injEq] at h
        exact absurd (h.1 ▸ List.mem_cons_self) h2
    | cons x xs ih =>
      intro a' r r' h1 h2 h
      cases a' with
      | nil =>
        simp only [List.nil_append, List.singleton_append, List.cons_append, List.cons.injEq] at h
        exact absurd (h.1 ▸ List.mem_cons_self) h1
      | cons y ys =>
        simp only [List.cons_append, List.cons.injEq] at h
        obtain ⟨hxy, ht⟩ := h
        have := ih ys r r' (fun hm => h1 (List.mem_cons_of_mem _ hm)) (fun hm => h2 (List.mem_cons_of_mem _ hm)) (by simpa using ht)
        exact ⟨by rw [hxy, this.1], this.2⟩
  exact aux t t' k k' hc hc' h

theorem metaK_inj {t t' k k' : Bytes} (hc : Gen.cTableStartSep ∉ t) (hc' : Gen.cTableStartSep ∉ t')
    (h : metaK t k = metaK t' k') : t = t' ∧ k = k' := by
  unfold metaK metaKey at h
  simp only [List.cons.injEq, true_and] at h
  exact packRedisKey_inj hc hc' (List.append_cancel_left h)

theorem strK_inj {t t' k k' : Bytes} (hc : Gen.cTableStartSep ∉ t) (hc' : Gen.cTableStartSep ∉ t')
    (h : strK t k = strK t' k') : t = t' ∧ k = k' := by
  unfold strK kvKey at h
  simp only [List.cons.injEq, true_and] at h
  exact packRedisKey_inj hc hc' h

/-- a store that differs from `m` only on one segment key and the meta key of `(table, rk)` agrees with `m` on the keys
    of every OTHER bitmap -/
theorem sameKeys_other (pol : Pol) (m m' : List KV) (table rk table' rk' vk : Bytes) (idx : Int)
    (ht : table.length < 65536) (ht' : table'.length < 65536) (hc : Gen.cTableStartSep ∉ table) (hc' : Gen.cTableStartSep ∉ table')
    (hvk : ∃ ver, vk = vkey pol rk ver)
    (hframe : ∀ x, x ≠ segK table vk idx → x ≠ metaK table rk → get m' x = get m x)
    (hne : ¬ (table' = table ∧ rk' = rk)) : SameKeys pol m m' table' rk' := by
  obtain ⟨ver, rfl⟩ := hvk
  refine ⟨?_, ?_, fun ver' idx' => ?_⟩
  · apply hframe
    · exact fun e => segK_ne_metaK _ _ _ _ _ e.symm
    · exact fun e => hne (metaK_inj hc' hc e)
  · apply hframe
    · exact fun e => segK_ne_strK _ _ _ _ _ e.symm
    · exact fun e => metaK_ne_strK _ _ _ _ e.symm
  · apply hframe
    · intro e
      obtain ⟨h1, h2⟩ := segK_inj_tv ht' ht e
      exact hne ⟨h1, vkey_inj_key pol h2⟩
    · exact segK_ne_metaK _ _ _ _ _

/-! ### a dead bitmap -/

/-- no v2 bitmap is visible (no meta, or an expired one) and no string of that name either: every bit reads 0 -/
theorem getbit_dead (pol : Pol) (m : List KV) (now : Int) (table rk : Bytes) (h : Hdr) (ex : Bool) (size : Int)
    (hm : bmeta pol m now table rk = .mk h ex size false) (hstr : strGet pol m now table rk = .ok none) (o : Int) :
    getbit pol m now table rk o = .ok 0 := by
  unfold getbit bitGetOld
  rw [hm, hstr]
  simp

theorem bitcount_dead (pol : Pol) (m : List KV) (now : Int) (table rk : Bytes) (h : Hdr) (ex : Bool) (size : Int)
    (hm : bmeta pol m now table rk = .mk h ex size false) (hstr : strGet pol m now table rk = .ok none) (a b : Int) :
    bitcount pol m now table rk a b = .ok 0 ∧ bitcountSpec pol m now table rk a b = .ok 0 := by
  have hz : bitCountOld pol m now table rk a b = .ok 0 := by
    unfold bitCountOld
    rw [hstr]
    simp only [Option.getD_none, List.length_nil]
    have : (Gen.getRange a b (0 : Nat)).1 > (Gen.getRange a b (0 : Nat)).2 := by
      unfold Gen.getRange; simp only; (repeat' split) <;> omega
    generalize Gen.getRange a b (0 : Nat) = r at this
    obtain ⟨s, e⟩ := r
    simp only at this ⊢
    rw [if_pos this]
  unfold bitcount bitcountSpec
  rw [hm]
  simp [hz]

end Z.BitExec
