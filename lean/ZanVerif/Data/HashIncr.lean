/-
  HINCRBY on the storage-level hash of `Z.HashInv` (local-deletion layout, codec abstracted by the facts C12 proves),
  mirroring rockredis/t_hash.go `HIncrBy` and node/hash.go `localHIncrbyCommand`:

    localHIncrbyCommand:  delta := strconv.ParseInt(args[3], 10, 64)            -- error ⇒ answered, store untouched
    HIncrBy:              fv := hGetRawFieldValue(ts, key, field, checkExpired = true)
                                 -- `IsNotExistOrExpired`: NO SIZE META ⇒ the field counts as missing (nil)
                          if fv != nil { n, err = StrInt64(fv without its 8-byte modification time) ; err ⇒ return }
                                 -- strconv.ParseInt(·, 10, 64): "+5", "-0", "007" accepted; "", " 5", "5 ", "0x10", "1_0",
                                 --   "1.5" ErrSyntax (class notint); beyond int64 ErrRange (class numrange)
                          n += delta                                             -- int64 arithmetic: NO overflow check, wraps
                          hSetField(ts, checkNX = false, key, field, FormatInt64ToSlice(n))   -- = the model's `hset`
                          reply n
  The stored modification time is not part of this layout's model (values are the user values), as for HSET.
  Theorems: size-meta invariant preserved (C09), refinement to the plain redis hash under the invariant (C08; the
  invariant is needed: without a size meta the code reads a stored field as 0), error ⇒ store untouched (C11).
-/
import ZanVerif.Data.HashInv
import ZanVerif.Data.HashRef
import ZanVerif.Data.KVExec
import ZanVerif.Gen.HIncr

namespace Z.HashIncr
open Z.Ref Z.HashInv Z.HashRef
open Z.KVExec (PRes parseInt fmtInt wrap64)

inductive IErr
  | notint      -- strconv.ErrSyntax
  | numrange    -- strconv.ErrRange
  deriving DecidableEq, Repr

inductive IReply
  | int (n : Int)
  | err (e : IErr)
  deriving DecidableEq, Repr

/-- `StrInt64` on what was read: a missing field counts as 0 -/
def curInt : Option Bytes → PRes
  | none => .ok 0
  | some v => parseInt v

/-- the tail of `HIncrBy` that is common to both layouts' callers: parse, add (wrapping), hand the decimal text to
    `write`; an unparsable old value answers the error and writes nothing -/
def incrWith {σ : Type} (m : σ) (cur : Option Bytes) (d : Int) (write : Bytes → σ) : σ × IReply :=
  match curInt cur with
  | .syntax => (m, .err .notint)
  | .range => (m, .err .numrange)
  | .ok c => (write (fmtInt (wrap64 (c + d))), .int (wrap64 (c + d)))

/-- `localHIncrbyCommand`: the increment text is parsed first; its error is answered before the store is read -/
def cmdWith {σ : Type} (m : σ) (dtxt : Bytes) (run : Int → σ × IReply) : σ × IReply :=
  match parseInt dtxt with
  | .syntax => (m, .err .notint)
  | .range => (m, .err .numrange)
  | .ok d => run d

variable (E : Enc)

/-- what `HIncrBy` reads, `hGetRawFieldValue(…, checkExpired)`, over the REGENERATED guard (`Gen.hincrFieldMissing`:
    checkExpired && (Expired || no size meta)); under local deletion nothing is ever "expired" (`localExpiration.isExpired`
    answers false): without a size meta the field counts as missing -/
def hincrCur (m : List KV) (k f : Bytes) : Option Bytes :=
  if Gen.hincrFieldMissing false (get m (E.metaK k)).isNone then none else get m (E.fieldK k f)

/-- `RockDB.HIncrBy` -/
def hincrby (m : List KV) (k f : Bytes) (d : Int) : List KV × IReply :=
  incrWith m (hincrCur E m k f) d (fun v => hset E m k f v)

/-- the apply handler `localHIncrbyCommand` on the raw increment argument -/
def hincrbyCmd (m : List KV) (k f dtxt : Bytes) : List KV × IReply :=
  cmdWith m dtxt (hincrby E m k f)

/-! ### C11: an error answer leaves the store untouched -/

theorem incrWith_error {σ : Type} (m : σ) (cur : Option Bytes) (d : Int) (write : Bytes → σ) (e : IErr)
    (h : (incrWith m cur d write).2 = .err e) : (incrWith m cur d write).1 = m := by
  unfold incrWith at h ⊢
  cases hc : curInt cur with
  | «syntax» => rfl
  | range => rfl
  | ok c => rw [hc] at h; cases h

theorem cmdWith_error {σ : Type} (m : σ) (dtxt : Bytes) (run : Int → σ × IReply) (e : IErr)
    (hrun : ∀ d, (run d).2 = .err e → (run d).1 = m)
    (h : (cmdWith m dtxt run).2 = .err e) : (cmdWith m dtxt run).1 = m := by
  unfold cmdWith at h ⊢
  cases hp : parseInt dtxt with
  | «syntax» => rfl
  | range => rfl
  | ok d => rw [hp] at h; simp only; exact hrun d h

theorem hincrby_error_no_effect (m : List KV) (k f : Bytes) (d : Int) (e : IErr)
    (h : (hincrby E m k f d).2 = .err e) : (hincrby E m k f d).1 = m :=
  incrWith_error m _ d _ e h

theorem hincrbyCmd_error_no_effect (m : List KV) (k f dtxt : Bytes) (e : IErr)
    (h : (hincrbyCmd E m k f dtxt).2 = .err e) : (hincrbyCmd E m k f dtxt).1 = m :=
  cmdWith_error m dtxt _ e (fun d => hincrby_error_no_effect E m k f d e) h

/-! ### C09: the size-meta invariant is preserved -/

/-- every outcome of HINCRBY is the old store or an HSET of the field -/
theorem hincrby_cases (m : List KV) (k f : Bytes) (d : Int) :
    (hincrby E m k f d).1 = m ∨ ∃ v, (hincrby E m k f d).1 = hset E m k f v := by
  unfold hincrby incrWith
  cases curInt (hincrCur E m k f) with
  | «syntax» => exact Or.inl rfl
  | range => exact Or.inl rfl
  | ok c => exact Or.inr ⟨_, rfl⟩

/-- **HINCRBY preserves the size invariant** (new field: size + 1 with the field; existing field: value only; error:
    nothing) -/
theorem inv_hincrby {m : List KV} (inv : Inv E m) (k f : Bytes) (d : Int) : Inv E (hincrby E m k f d).1 := by
  rcases hincrby_cases E m k f d with h | ⟨v, h⟩
  · rw [h]; exact inv
  · rw [h]; exact inv_hset E inv k f v

theorem inv_hincrbyCmd {m : List KV} (inv : Inv E m) (k f dtxt : Bytes) : Inv E (hincrbyCmd E m k f dtxt).1 := by
  unfold hincrbyCmd cmdWith
  cases parseInt dtxt with
  | «syntax» => exact inv
  | range => exact inv
  | ok d => exact inv_hincrby E inv k f d

/-! ### C08: refinement to the plain redis hash -/

def inI64 (v : Int) : Prop := -9223372036854775808 ≤ v ∧ v < 9223372036854775808

theorem wrap64_of {x : Int} (h : inI64 x) : wrap64 x = x := by
  unfold wrap64 Z.Codec.ofU64 Z.Codec.toU64; unfold inI64 at h; omega

/-- the specification of HINCRBY on `key → field → value` with unbounded integers: field := old + delta (a missing
    field counts as 0), reply = the new value; a value that is not an integer text: error, nothing changes.
    (Integer texts are those of `strconv.ParseInt(·, 10, 64)`, as for the KV type's INCRBY.) -/
def specIncr (h : Spec) (k f : Bytes) (d : Int) : Spec × IReply :=
  match h k f with
  | none => (specSet h k f (fmtInt d), .int d)
  | some u =>
    match parseInt u with
    | .syntax => (h, .err .notint)
    | .range => (h, .err .numrange)
    | .ok n => (specSet h k f (fmtInt (n + d)), .int (n + d))

/-- the one deviation from the specification: int64 arithmetic wraps silently (witness `C08_dev_hincrby_wraps`) -/
def NoWrap (h : Spec) (k f : Bytes) (d : Int) : Prop :=
  match h k f with
  | none => inI64 d
  | some u => ∀ n, parseInt u = .ok n → inI64 (n + d)

theorem get_mem {m : List KV} {k v : Bytes} (h : get m k = some v) : (k, v) ∈ m := by
  induction m with
  | nil => simp [Z.Ref.get] at h
  | cons a t ih =>
    simp only [Z.Ref.get] at h
    by_cases he : a.1 = k
    · rw [if_pos he] at h
      have : a = (k, v) := by
        cases a with
        | mk a1 a2 => simp only at he; simp only [Option.some.injEq] at h; rw [he, h]
      exact this ▸ List.mem_cons_self
    · rw [if_neg he] at h; exact List.mem_cons_of_mem _ (ih h)

/-- under the size invariant a hash without size meta stores no field -/
theorem no_meta_no_field {m : List KV} (inv : Inv E m) (k f : Bytes) (h : get m (E.metaK k) = none) :
    get m (E.fieldK k f) = none := by
  have hc : count E m k = 0 := (inv.metaIff k).mp h
  cases hg : get m (E.fieldK k f) with
  | none => rfl
  | some v =>
    exfalso
    have hmem : (E.fieldK k f, v) ∈ m := get_mem hg
    have hr := (E.range_iff k (E.fieldK k f)).mpr ⟨f, rfl⟩
    have : (E.fieldK k f, v) ∈ scan m (E.start k) (E.stop k) := mem_scan.mpr ⟨hmem, hr.1, hr.2⟩
    unfold count at hc
    rw [List.length_eq_zero_iff] at hc
    rw [hc] at this
    cases this

/-- what HINCRBY reads is, under the invariant, what the abstraction says about the field -/
theorem hincrCur_abs {m : List KV} (inv : Inv E m) (k f : Bytes) : hincrCur E m k f = abs E m k f := by
  unfold hincrCur abs
  cases h : get m (E.metaK k) with
  | none =>
    rw [no_meta_no_field E inv k f h]
    split <;> rfl
  | some _ => simp [Gen.hincrFieldMissing, Gen.hgetRawMissing, Gen.notExistOrExpired]

/-- **HINCRBY refines the reference map**: reply and abstraction are the specification's — field := old + delta,
    every other field and key untouched (`specSet`), an error changes nothing -/
theorem abs_hincrby {m : List KV} (inv : Inv E m) (k f : Bytes) (d : Int) (hw : NoWrap (abs E m) k f d) :
    (abs E (hincrby E m k f d).1, (hincrby E m k f d).2) = specIncr (abs E m) k f d := by
  unfold hincrby incrWith specIncr
  unfold NoWrap at hw
  rw [hincrCur_abs E inv k f]
  cases ha : abs E m k f with
  | none =>
    rw [ha] at hw
    simp only [curInt, Int.zero_add, wrap64_of hw]
    rw [abs_hset E inv.sorted]
  | some u =>
    rw [ha] at hw
    simp only [curInt]
    cases hp : parseInt u with
    | «syntax» => rfl
    | range => rfl
    | ok n =>
      simp only [wrap64_of (hw n hp)]
      rw [abs_hset E inv.sorted]


/-- the empty store satisfies the size invariant -/
theorem inv_empty : Inv E [] :=
  ⟨trivial, fun _ => rfl, fun _ => ⟨fun _ => rfl, fun _ => rfl⟩⟩

/-- HINCRBY leaves every other (key, field) alone — with or without wrap-around, error or not -/
theorem hincrby_frame {m : List KV} (hs : Sorted m) (k f : Bytes) (d : Int) (k' f' : Bytes) (hne : ¬ (k' = k ∧ f' = f)) :
    abs E (hincrby E m k f d).1 k' f' = abs E m k' f' := by
  rcases hincrby_cases E m k f d with h | ⟨v, h⟩
  · rw [h]
  · rw [h, abs_hset E hs]; simp [specSet, hne]

/-- the command level: a well-formed increment text runs `hincrby`, an ill-formed one answers its error -/
theorem hincrbyCmd_ok (m : List KV) (k f dtxt : Bytes) (d : Int) (h : parseInt dtxt = .ok d) :
    hincrbyCmd E m k f dtxt = hincrby E m k f d := by
  unfold hincrbyCmd cmdWith; rw [h]

end Z.HashIncr
