/-
Scratch prototype for C07: apply-time batching.  Inside one batch the writes go to a shared write
batch that reads do NOT see until commit; the batch operator only admits commands on pairwise
distinct keys that read nothing but their own key.  Then batched = sequential (same store, same
replies), for every batch.
-/
namespace Z.Batch

variable {K V R : Type} [DecidableEq K]

abbrev Store (K V : Type) := K → Option V

/-- a batchable command: one key, reads only that key's value -/
structure Cmd (K V R : Type) where
  key : K
  run : Option V → Option V × R       -- new value (none = delete) and reply

def put (s : Store K V) (k : K) (v : Option V) : Store K V := fun j => if j = k then v else s j

/-- sequential application -/
def applySeq (s : Store K V) : List (Cmd K V R) → Store K V × List R
  | [] => (s, [])
  | c :: cs =>
    let (v, r) := c.run (s c.key)
    let (s', rs) := applySeq (put s c.key v) cs
    (s', r :: rs)

/-- batched: every command reads the store as it was when the batch started; writes are buffered
    in order and applied at commit -/
def runBatch (s0 : Store K V) : List (Cmd K V R) → List (K × Option V) × List R
  | [] => ([], [])
  | c :: cs =>
    let (v, r) := c.run (s0 c.key)
    let (ws, rs) := runBatch s0 cs
    ((c.key, v) :: ws, r :: rs)

def commit (s : Store K V) : List (K × Option V) → Store K V
  | [] => s
  | (k, v) :: ws => commit (put s k v) ws

def applyBatched (s : Store K V) (cs : List (Cmd K V R)) : Store K V × List R :=
  let (ws, rs) := runBatch s cs
  (commit s ws, rs)

theorem runBatch_congr (s s' : Store K V) : ∀ (cs : List (Cmd K V R)),
    (∀ c ∈ cs, s c.key = s' c.key) → runBatch s cs = runBatch s' cs := by
  intro cs
  induction cs with
  | nil => intro _; rfl
  | cons c cs ih =>
    intro h
    simp only [runBatch]
    rw [h c List.mem_cons_self, ih (fun c' hc' => h c' (List.mem_cons_of_mem _ hc'))]

/-- **batch independence** -/
theorem batched_eq_seq : ∀ (cs : List (Cmd K V R)) (s : Store K V),
    (cs.map (·.key)).Nodup → applyBatched s cs = applySeq s cs := by
  intro cs
  induction cs with
  | nil => intro s _; rfl
  | cons c cs ih =>
    intro s hnd
    simp only [List.map_cons, List.nodup_cons] at hnd
    obtain ⟨hnot, hnd'⟩ := hnd
    have hfresh : ∀ c' ∈ cs, s c'.key = put s c.key (c.run (s c.key)).1 c'.key := by
      intro c' hc'
      have : c'.key ≠ c.key := fun e => hnot (List.mem_map.mpr ⟨c', hc', e⟩)
      simp [put, this]
    have := ih (put s c.key (c.run (s c.key)).1) hnd'
    simp only [applyBatched] at this ⊢
    simp only [applySeq, runBatch]
    rw [← this, runBatch_congr s _ cs hfresh]
    rfl

#print axioms batched_eq_seq

/-- and the reason the operator must cut a batch at a repeated key: with a duplicate key the two
    disagree (second INCR reads the stale value) -/
def incr : Cmd Nat Nat Nat := ⟨0, fun v => (some (v.getD 0 + 1), v.getD 0 + 1)⟩
example : (applyBatched (fun _ => none) [incr, incr]).2 = [1, 1] := by decide
example : (applySeq (fun _ => none) [incr, incr]).2 = [1, 2] := by decide

end Z.Batch
