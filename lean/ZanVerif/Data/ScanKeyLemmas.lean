/-
  C13, key scans (ADVSCAN / ADVREVSCAN over one table): the client loop `advFull` over `advPage` of
  `Z.Scan` (node/scan.go `advanceScanCommand` on top of the store page of rockredis `scanGenericUseBuffer`)
  returns exactly the keys of the addressed table beyond the start cursor, each once, in scan order.

  Ingredients:
  * bytes: `<` on a common prefix (`lt_append_left_iff`), keys between two keys with prefix `p` have prefix `p`
    (`between_prefix`) - so the keys of one table `t` (58 ∉ t) are CONTIGUOUS in the store;
  * `extractTable (t ++ 58 :: rest) = some (t, rest)` when 58 ∉ t, `tableIs t k ↔ k = t ++ 58 :: _`;
  * `beyond ks c rev` = the candidates beyond the raw cursor in scan order; a store page is a prefix of it
    (`storePage_eq_take`); the candidates beyond an element of it are the rest of it (`beyond_step`);
  * `advPage_eq`: the node rule in normal form; `advFull_core`: the loop, for every regime of COUNT in which a
    page that the node calls "last" is really short (`1 ≤ COUNT ≤ 5000`, and `COUNT ≤ 0` = page size 100 with one
    extra round); `advFull_over`: for `COUNT > 5000` EVERY page is called last, the loop is one page of 5000.
-/
import ZanVerif.Data.ScanLemmas

namespace Z.Scan

/-! ### lexicographic order on a common prefix -/

theorem lt_append_left_iff (p a b : Bytes) : p ++ a < p ++ b ↔ a < b := by
  induction p with
  | nil => simp
  | cons x p ih =>
    simp [ih]

/-- a key between two keys with prefix `p` has prefix `p` -/
theorem between_prefix (p : Bytes) : ∀ (a b k : Bytes), p ++ a < k → k < p ++ b → ∃ z, k = p ++ z := by
  induction p with
  | nil => intro a b k _ _; exact ⟨k, rfl⟩
  | cons x p ih =>
    intro a b k h1 h2
    cases k with
    | nil => exact absurd h1 (List.not_lt_nil _)
    | cons y k =>
      simp only [List.cons_append, List.cons_lt_cons_iff] at h1 h2
      have hxy : x = y := by
        rcases h1 with h1 | ⟨h1, _⟩
        · rcases h2 with h2 | ⟨h2, _⟩
          · exact absurd (UInt8.lt_trans h1 h2) (UInt8.lt_irrefl x)
          · subst h2; exact absurd h1 (UInt8.lt_irrefl y)
        · exact h1
      subst hxy
      have h1' : p ++ a < k := by
        rcases h1 with h1 | ⟨_, h1⟩
        · exact absurd h1 (UInt8.lt_irrefl x)
        · exact h1
      have h2' : k < p ++ b := by
        rcases h2 with h2 | ⟨_, h2⟩
        · exact absurd h2 (UInt8.lt_irrefl x)
        · exact h2
      obtain ⟨z, hz⟩ := ih a b k h1' h2'
      exact ⟨z, by rw [hz]; rfl⟩

theorem not_append_lt_self (p z : Bytes) : ¬ p ++ z < p := by
  intro h
  have : p ++ z < p ++ [] := by simpa using h
  exact List.not_lt_nil _ ((lt_append_left_iff p z []).mp this)

/-! ### `extractTable` / `tableIs` -/

theorem indexByte_sep (t rest : Bytes) (ht : (58 : UInt8) ∉ t) :
    Z.Codec.indexByte (t ++ 58 :: rest) 58 = some t.length := by
  induction t with
  | nil => simp [Z.Codec.indexByte]
  | cons x t ih =>
    have hx : x ≠ 58 := fun h => ht (h ▸ List.mem_cons_self)
    have ht' : (58 : UInt8) ∉ t := fun h => ht (List.mem_cons_of_mem _ h)
    simp [Z.Codec.indexByte, hx, ih ht']

theorem extractTable_sep (t rest : Bytes) (ht : (58 : UInt8) ∉ t) :
    extractTable (t ++ 58 :: rest) = some (t, rest) := by
  unfold extractTable
  rw [indexByte_sep t rest ht]
  simp

theorem indexByte_some (c : UInt8) : ∀ (k : Bytes) (i : Nat), Z.Codec.indexByte k c = some i →
    k = k.take i ++ c :: k.drop (i + 1) := by
  intro k
  induction k with
  | nil => intro i h; simp [Z.Codec.indexByte] at h
  | cons x k ih =>
    intro i h
    simp only [Z.Codec.indexByte] at h
    by_cases hx : x = c
    · simp only [hx, if_true, Option.some.injEq] at h
      subst h; subst hx; simp
    · simp only [hx, if_false, Option.map_eq_some_iff] at h
      obtain ⟨j, hj, rfl⟩ := h
      have := ih j hj
      simp only [List.take_succ_cons, List.drop_succ_cons, List.cons_append]
      rw [← this]

theorem extractTable_some {k t' rk : Bytes} (h : extractTable k = some (t', rk)) : k = t' ++ 58 :: rk := by
  unfold extractTable at h
  cases hi : Z.Codec.indexByte k 58 with
  | none => rw [hi] at h; cases h
  | some i =>
    rw [hi] at h
    simp only [Option.some.injEq, Prod.mk.injEq] at h
    have := indexByte_some 58 k i hi
    rw [h.1, h.2] at this
    exact this

/-- membership in a table = the raw key starts with `table:` (table names hold no ':') -/
theorem tableIs_iff (t k : Bytes) (ht : (58 : UInt8) ∉ t) : tableIs t k = true ↔ ∃ rk, k = t ++ 58 :: rk := by
  constructor
  · intro h
    unfold tableIs at h
    cases he : extractTable k with
    | none => rw [he] at h; cases h
    | some pr =>
      obtain ⟨t', rk⟩ := pr
      rw [he] at h
      have : t' = t := by simpa using h
      subst this
      exact ⟨rk, extractTable_some he⟩
  · rintro ⟨rk, rfl⟩
    unfold tableIs
    rw [extractTable_sep t rk ht]
    simp

/-- the key part of a raw key (what the node hands out as the next cursor) -/
def keyPart (k : Bytes) : Bytes :=
  match extractTable k with
  | some (_, rk) => rk
  | none => []

theorem keyPart_sep (t rk : Bytes) (ht : (58 : UInt8) ∉ t) : keyPart (t ++ 58 :: rk) = rk := by
  unfold keyPart; rw [extractTable_sep t rk ht]

theorem sep_assoc (t cur : Bytes) : t ++ [58] ++ cur = t ++ 58 :: cur := by simp

/-! ### generic list facts -/

theorem takeWhile_append_of_neg {α : Type} (p : α → Bool) (a b : List α) (h : ∃ y ∈ a, p y = false) :
    (a ++ b).takeWhile p = a.takeWhile p := by
  induction a with
  | nil => obtain ⟨y, hy, _⟩ := h; cases hy
  | cons x a ih =>
    obtain ⟨y, hy, hpy⟩ := h
    simp only [List.cons_append, List.takeWhile_cons]
    cases hx : p x with
    | false => simp
    | true =>
      simp only [if_true]
      rcases List.mem_cons.mp hy with rfl | hy
      · rw [hx] at hpy; cases hpy
      · rw [ih ⟨y, hy, hpy⟩]

theorem length_takeWhile_lt {α : Type} (p : α → Bool) (l : List α) (h : ∃ y ∈ l, p y = false) :
    (l.takeWhile p).length < l.length := by
  induction l with
  | nil => obtain ⟨y, hy, _⟩ := h; cases hy
  | cons x l ih =>
    obtain ⟨y, hy, hpy⟩ := h
    simp only [List.takeWhile_cons]
    cases hx : p x with
    | false => simp
    | true =>
      simp only [if_true, List.length_cons]
      rcases List.mem_cons.mp hy with rfl | hy
      · rw [hx] at hpy; cases hpy
      · exact Nat.succ_lt_succ (ih ⟨y, hy, hpy⟩)

/-- on a list ordered by `R`, a predicate that is closed towards the front selects a prefix -/
theorem filter_eq_takeWhile_of_closed {α : Type} (R : α → α → Prop) (p : α → Bool) :
    ∀ (l : List α), l.Pairwise R → (∀ x y, x ∈ l → y ∈ l → R y x → p x = true → p y = true) →
      l.filter p = l.takeWhile p := by
  intro l
  induction l with
  | nil => intro _ _; rfl
  | cons a l ih =>
    intro hl hc
    have hl' := List.pairwise_cons.mp hl
    simp only [List.filter_cons, List.takeWhile_cons]
    cases ha : p a with
    | true =>
      simp only [if_true]
      rw [ih hl'.2 (fun x y hx hy => hc x y (List.mem_cons_of_mem _ hx) (List.mem_cons_of_mem _ hy))]
    | false =>
      simp only [Bool.false_eq_true, if_false]
      apply List.filter_eq_nil_iff.mpr
      intro x hx hpx
      have := hc x a (List.mem_cons_of_mem _ hx) List.mem_cons_self (hl'.1 x hx) hpx
      rw [ha] at this; cases this

/-- the candidates beyond an element of the candidate list are the rest of the list -/
theorem filter_step {α : Type} (R : α → α → Prop) [DecidableRel R] (htr : ∀ a b c, R a b → R b c → R a c)
    (hir : ∀ a, ¬ R a a) (l : List α) (hl : l.Pairwise R) (c x : α) (pre post : List α)
    (h : l.filter (fun k => decide (R c k)) = pre ++ x :: post) :
    l.filter (fun k => decide (R x k)) = post := by
  have hcx : R c x := by
    have : x ∈ l.filter (fun k => decide (R c k)) := by rw [h]; simp
    simpa using (List.mem_filter.mp this).2
  have e1 : l.filter (fun k => decide (R x k)) = (l.filter (fun k => decide (R c k))).filter (fun k => decide (R x k)) := by
    rw [List.filter_filter]
    apply List.filter_congr
    intro y _
    by_cases hy : R x y
    · simp [hy, htr c x y hcx hy]
    · simp [hy]
  have hp : (pre ++ x :: post).Pairwise R := h ▸ hl.filter _
  obtain ⟨_, hxp, hcross⟩ := List.pairwise_append.mp hp
  have hxp' := List.pairwise_cons.mp hxp
  rw [e1, h, List.filter_append, List.filter_cons]
  have h1 : pre.filter (fun k => decide (R x k)) = [] := by
    apply List.filter_eq_nil_iff.mpr
    intro y hy hxy
    have hxy : R x y := by simpa using hxy
    exact hir y (htr y x y (hcross y hy x List.mem_cons_self) hxy)
  have h2 : post.filter (fun k => decide (R x k)) = post := by
    apply List.filter_eq_self.mpr
    intro y hy
    simpa using hxp'.1 y hy
  simp [h1, h2, hir x]

/-! ### the candidates beyond a raw cursor, in scan order -/

/-- scan order: ascending, or descending for the reverse scans -/
def ordR (rev : Bool) (a b : Bytes) : Prop := if rev = true then b < a else a < b

instance (rev : Bool) : DecidableRel (ordR rev) := fun a b => by unfold ordR; exact inferInstance

theorem ordR_trans (rev : Bool) (a b c : Bytes) (h1 : ordR rev a b) (h2 : ordR rev b c) : ordR rev a c := by
  cases rev
  · exact List.lt_trans h1 h2
  · exact List.lt_trans h2 h1

theorem ordR_irrefl (rev : Bool) (a : Bytes) : ¬ ordR rev a a := by
  cases rev <;> exact List.lt_irrefl a

/-- the population in scan order -/
def inOrder (ks : List Bytes) (rev : Bool) : List Bytes := if rev = true then ks.reverse else ks

/-- the keys beyond the raw cursor `c`, in scan order -/
def beyond (ks : List Bytes) (c : Bytes) (rev : Bool) : List Bytes :=
  (inOrder ks rev).filter (fun k => decide (ordR rev c k))

theorem beyond_fwd (ks : List Bytes) (c : Bytes) : beyond ks c false = ks.filter (fun k => decide (c < k)) := rfl

theorem beyond_rev (ks : List Bytes) (c : Bytes) :
    beyond ks c true = (ks.filter (fun k => decide (k < c))).reverse := by
  unfold beyond inOrder ordR
  simp only [if_true]
  exact List.filter_reverse

theorem storePage_eq_take (ks : List Bytes) (c : Bytes) (count : Int) (rev : Bool) :
    storePage ks c count rev = (beyond ks c rev).take (checkScanCount count) := by
  cases rev
  · rw [beyond_fwd]; simp [storePage]
  · rw [beyond_rev]; simp [storePage]

theorem inOrder_pairwise {ks : List Bytes} (hks : ks.Pairwise (· < ·)) (rev : Bool) :
    (inOrder ks rev).Pairwise (ordR rev) := by
  cases rev
  · exact hks
  · exact List.pairwise_reverse.mpr hks

theorem beyond_pairwise {ks : List Bytes} (hks : ks.Pairwise (· < ·)) (c : Bytes) (rev : Bool) :
    (beyond ks c rev).Pairwise (ordR rev) := (inOrder_pairwise hks rev).filter _

theorem mem_beyond {ks : List Bytes} {c x : Bytes} {rev : Bool} (h : x ∈ beyond ks c rev) : ordR rev c x := by
  simpa using (List.mem_filter.mp h).2

theorem beyond_step {ks : List Bytes} (hks : ks.Pairwise (· < ·)) (rev : Bool) (c x : Bytes) (pre post : List Bytes)
    (h : beyond ks c rev = pre ++ x :: post) : beyond ks x rev = post :=
  filter_step (ordR rev) (ordR_trans rev) (ordR_irrefl rev) (inOrder ks rev) (inOrder_pairwise hks rev) c x pre post h

/-- between the cursor `t:cur` and a key of table `t` (in scan order) there are only keys of table `t` -/
theorem table_closed (t cur : Bytes) (ht : (58 : UInt8) ∉ t) (rev : Bool) (x y : Bytes)
    (hcy : ordR rev (t ++ 58 :: cur) y) (hyx : ordR rev y x) (hx : tableIs t x = true) : tableIs t y = true := by
  obtain ⟨rk, rfl⟩ := (tableIs_iff t x ht).mp hx
  have e : ∀ z : Bytes, t ++ 58 :: z = (t ++ [58]) ++ z := fun z => by simp
  rw [e] at hcy hyx
  have : ∃ z, y = (t ++ [58]) ++ z := by
    cases rev
    · exact between_prefix (t ++ [58]) cur rk y hcy hyx
    · exact between_prefix (t ++ [58]) rk cur y hyx hcy
  obtain ⟨z, rfl⟩ := this
  exact (tableIs_iff t _ ht).mpr ⟨z, by simp⟩

theorem beyond_closed {ks : List Bytes} (t cur : Bytes) (ht : (58 : UInt8) ∉ t) (rev : Bool) :
    ∀ x y, x ∈ beyond ks (t ++ 58 :: cur) rev → y ∈ beyond ks (t ++ 58 :: cur) rev → ordR rev y x →
      tableIs t x = true → tableIs t y = true :=
  fun x y _ hy hyx hx => table_closed t cur ht rev x y (mem_beyond hy) hyx hx

/-- beyond the key `t:` (empty key part) in scan order there is nothing of table `t` left; going forwards the key `t:`
    is never beyond a cursor `t:cur` -/
theorem after_empty_key (t cur : Bytes) (ht : (58 : UInt8) ∉ t) (rev : Bool)
    (hc : ordR rev (t ++ 58 :: cur) (t ++ [58])) (y : Bytes) (hy : ordR rev (t ++ [58]) y) : tableIs t y = false := by
  cases rev
  · exfalso
    have : (t ++ [58]) ++ cur < (t ++ [58]) := by simpa [ordR] using hc
    exact not_append_lt_self _ _ this
  · cases h : tableIs t y with
    | false => rfl
    | true =>
      exfalso
      obtain ⟨z, rfl⟩ := (tableIs_iff t y ht).mp h
      have : (t ++ [58]) ++ z < (t ++ [58]) := by simpa [ordR] using hy
      exact not_append_lt_self _ _ this

/-! ### the node rule in normal form -/

theorem advPage_eq (ks : List Bytes) (t cur : Bytes) (count : Int) (rev : Bool) (ht : (58 : UInt8) ∉ t) :
    advPage ks (t ++ [58] ++ cur) count rev =
      match (storePage ks (t ++ [58] ++ cur) count rev).getLast? with
      | none => some ([], [])
      | some item =>
        if tableIs t item then
          some (storePage ks (t ++ [58] ++ cur) count rev,
                if isLastPage (storePage ks (t ++ [58] ++ cur) count rev).length count then [] else keyPart item)
        else some ((storePage ks (t ++ [58] ++ cur) count rev).takeWhile (tableIs t), []) := by
  unfold advPage
  rw [sep_assoc, extractTable_sep t cur ht]
  simp only
  cases hl : (storePage ks (t ++ 58 :: cur) count rev).getLast? with
  | none =>
    have : storePage ks (t ++ 58 :: cur) count rev = [] := List.getLast?_eq_none_iff.mp hl
    simp [this]
  | some item =>
    simp only [keyPart]
    rfl

/-- the table part of the candidates: the keys the scan has to return -/
def tpart (ks : List Bytes) (t cur : Bytes) (rev : Bool) : List Bytes :=
  (beyond ks (t ++ 58 :: cur) rev).takeWhile (tableIs t)

theorem tpart_eq_filter {ks : List Bytes} (hks : ks.Pairwise (· < ·)) (t cur : Bytes) (ht : (58 : UInt8) ∉ t) (rev : Bool) :
    tpart ks t cur rev = (beyond ks (t ++ 58 :: cur) rev).filter (tableIs t) :=
  (filter_eq_takeWhile_of_closed (ordR rev) (tableIs t) _ (beyond_pairwise hks _ rev) (beyond_closed t cur ht rev)).symm

/-- nothing beyond the cursor: one round, empty answer -/
theorem advFull_nil (ks : List Bytes) (t cur : Bytes) (count : Int) (rev : Bool) (ht : (58 : UInt8) ∉ t)
    (hL : beyond ks (t ++ 58 :: cur) rev = []) (fuel r : Nat) :
    advFull ks t count rev (fuel + 1) cur r = some ([], r + 1) := by
  simp only [advFull]
  rw [advPage_eq ks t cur count rev ht, sep_assoc, storePage_eq_take, hL]
  simp

/-- **the loop.** `n` = the store's page size; `hshort`: a non-empty page that the node calls the last one is shorter
    than `n`; `e` = 0 if conversely every short page is called last, else one extra round is allowed. -/
theorem advFull_core (ks : List Bytes) (hks : ks.Pairwise (· < ·)) (t : Bytes) (ht : (58 : UInt8) ∉ t)
    (count : Int) (rev : Bool) (n : Nat) (hn : 1 ≤ n) (hnc : checkScanCount count = n) (e : Nat)
    (hshort : ∀ len, 0 < len → len ≤ n → isLastPage len count = true → len < n)
    (hconv : e = 0 → ∀ len, len < n → isLastPage len count = true) :
    ∀ (fuel : Nat) (cur : Bytes) (r : Nat), (tpart ks t cur rev).length / n + 1 + e ≤ fuel →
      ∃ r', advFull ks t count rev fuel cur r = some (tpart ks t cur rev, r') ∧
        r + (tpart ks t cur rev).length / n ≤ r' ∧ r < r' ∧ r' ≤ r + (tpart ks t cur rev).length / n + 1 + e ∧
        (e = 0 → (t ++ [58]) ∉ tpart ks t cur rev → r' = r + (tpart ks t cur rev).length / n + 1) := by
  intro fuel
  induction fuel with
  | zero => intro cur r h; generalize (tpart ks t cur rev).length / n = q at h; omega
  | succ fuel ih =>
    intro cur r hf
    generalize hL : beyond ks (t ++ 58 :: cur) rev = L
    have hT : tpart ks t cur rev = L.takeWhile (tableIs t) := by unfold tpart; rw [hL]
    rw [hT] at hf ⊢
    have hdiv1 : ∀ l : List Bytes, l.length ≤ n → l.length / n ≤ 1 := by
      intro l hl
      have := Nat.div_le_div_right (c := n) hl
      rwa [Nat.div_self (by omega)] at this
    simp only [advFull]
    rw [advPage_eq ks t cur count rev ht, sep_assoc, storePage_eq_take, hL, hnc]
    cases hl : (L.take n).getLast? with
    | none =>
      have h0 : L.take n = [] := List.getLast?_eq_none_iff.mp hl
      have hL0 : L = [] := by
        cases L with
        | nil => rfl
        | cons a L =>
          cases n with
          | zero => omega
          | succ n => simp at h0
      subst hL0
      refine ⟨r + 1, by simp, by simp, by omega, by simp, by simp⟩
    | some item =>
      simp only
      obtain ⟨pre, hpre⟩ := List.getLast?_eq_some_iff.mp hl
      have hLsplit : L = pre ++ item :: L.drop n := by
        have := List.take_append_drop n L
        rw [hpre] at this
        simpa using this.symm
      have hpw : L.Pairwise (ordR rev) := hL ▸ beyond_pairwise hks _ rev
      have hlen_le : (L.take n).length ≤ n := by rw [List.length_take]; exact Nat.min_le_left _ _
      have hlen_pos : 0 < (L.take n).length := by rw [hpre]; simp
      by_cases hti : tableIs t item = true
      · simp only [hti, if_true]
        -- the whole page lies in the table (contiguity)
        have hall : ∀ y ∈ L.take n, tableIs t y = true := by
          intro y hy
          rw [hpre] at hy
          rcases List.mem_append.mp hy with hy | hy
          · have hyx : ordR rev y item := by
              rw [hLsplit] at hpw
              exact (List.pairwise_append.mp hpw).2.2 y hy item List.mem_cons_self
            refine beyond_closed (ks := ks) t cur ht rev item y ?_ ?_ hyx hti
            · rw [hL, hLsplit]; simp
            · rw [hL, hLsplit]; simp [hy]
          · have : y = item := by simpa using hy
            subst this; exact hti
        have hTsplit : L.takeWhile (tableIs t) = L.take n ++ (L.drop n).takeWhile (tableIs t) := by
          conv => lhs; rw [← List.take_append_drop n L]
          exact List.takeWhile_append_of_pos hall
        obtain ⟨rk, hrk⟩ := (tableIs_iff t item ht).mp hti
        have hkp : keyPart item = rk := by rw [hrk]; exact keyPart_sep t rk ht
        by_cases hlast : isLastPage (L.take n).length count = true
        · -- the node says: last page; then it is short and nothing is left
          simp only [hlast, if_true, List.isEmpty_nil]
          have hlt := hshort _ hlen_pos hlen_le hlast
          have hdrop : L.drop n = [] := by
            apply List.drop_eq_nil_of_le
            rw [List.length_take] at hlt
            omega
          have hTe : L.takeWhile (tableIs t) = L.take n := by rw [hTsplit, hdrop]; simp
          rw [hTe]
          have := hdiv1 _ hlen_le
          have hq0 := Nat.div_eq_of_lt hlt
          generalize (L.take n).length / n = q at *
          exact ⟨r + 1, rfl, by omega, by omega, by omega, fun _ _ => by omega⟩
        · simp only [hlast, Bool.false_eq_true, if_false, hkp]
          by_cases hrke : rk = []
          · -- the page ends with the key `t:`: nothing of the table is left
            subst hrke
            simp only [List.isEmpty_nil, if_true]
            have hnone : (L.drop n).takeWhile (tableIs t) = [] := by
              cases hd : L.drop n with
              | nil => rfl
              | cons y rest =>
                have hy : ordR rev item y := by
                  rw [hLsplit, hd] at hpw
                  exact (List.pairwise_cons.mp (List.pairwise_append.mp hpw).2.1).1 y List.mem_cons_self
                have hc : ordR rev (t ++ 58 :: cur) item := mem_beyond (ks := ks) (by rw [hL, hLsplit]; simp)
                rw [hrk] at hy hc
                have := after_empty_key t cur ht rev hc y hy
                simp [this]
            have hTe : L.takeWhile (tableIs t) = L.take n := by rw [hTsplit, hnone]; simp
            rw [hTe]
            have := hdiv1 _ hlen_le
            have hmem : t ++ [58] ∈ L.take n := by rw [hpre, hrk]; simp
            generalize (L.take n).length / n = q at *
            exact ⟨r + 1, rfl, by omega, by omega, by omega, fun _ hnot => absurd hmem hnot⟩
          · have hne : rk.isEmpty = false := by
              cases rk with
              | nil => exact absurd rfl hrke
              | cons a b => rfl
            simp only [hne, Bool.false_eq_true, if_false]
            -- the next raw cursor is the last key of the page, the candidates beyond it are the rest
            have hnext : beyond ks (t ++ 58 :: rk) rev = L.drop n := by
              rw [← hrk]
              exact beyond_step hks rev (t ++ 58 :: cur) item pre (L.drop n) (by rw [hL]; exact hLsplit)
            have hT' : tpart ks t rk rev = (L.drop n).takeWhile (tableIs t) := by unfold tpart; rw [hnext]
            by_cases hfull : (L.take n).length = n
            · have hm : (L.takeWhile (tableIs t)).length = ((L.drop n).takeWhile (tableIs t)).length + n := by
                rw [hTsplit, List.length_append, hfull]; omega
              have hd : (L.takeWhile (tableIs t)).length / n = ((L.drop n).takeWhile (tableIs t)).length / n + 1 := by
                rw [hm]; exact Nat.add_div_right _ (by omega)
              obtain ⟨r', h1, h2, h3, h4, h5⟩ := ih rk (r + 1) (by rw [hT']; omega)
              rw [hT'] at h1 h2 h4 h5
              rw [h1]
              simp only
              rw [hTsplit] at hd ⊢
              generalize (L.take n ++ (L.drop n).takeWhile (tableIs t)).length / n = q at *
              generalize ((L.drop n).takeWhile (tableIs t)).length / n = q' at *
              exact ⟨r', rfl, by omega, by omega, by omega,
                fun he hnot => by have := h5 he (fun hm => hnot (List.mem_append_right _ hm)); omega⟩
            · -- a short page that the node does not call last (COUNT ≤ 0): one more, empty, round
              have hlt : (L.take n).length < n := by omega
              have he : e ≠ 0 := fun h0 => hlast (hconv h0 _ hlt)
              have hdrop : L.drop n = [] := by
                apply List.drop_eq_nil_of_le
                rw [List.length_take] at hlt
                omega
              have hTe : L.takeWhile (tableIs t) = L.take n := by rw [hTsplit, hdrop]; simp
              have hz : (L.take n).length / n = 0 := Nat.div_eq_of_lt hlt
              rw [hTe, hz] at hf
              obtain ⟨fuel', rfl⟩ : ∃ f, fuel = f + 1 := ⟨fuel - 1, by omega⟩
              rw [advFull_nil ks t rk count rev ht (by rw [hnext, hdrop]) fuel' (r + 1)]
              simp only [List.append_nil]
              rw [hTe, hz]
              exact ⟨r + 1 + 1, rfl, by omega, by omega, by omega, fun h0 => absurd h0 he⟩
      · -- the page crosses into another table: cut at the boundary, end of the scan
        simp only [hti, Bool.false_eq_true, if_false, List.isEmpty_nil, if_true]
        have hcut : (L.take n).takeWhile (tableIs t) = L.takeWhile (tableIs t) := by
          conv => rhs; rw [← List.take_append_drop n L]
          refine (takeWhile_append_of_neg _ _ _ ⟨item, ?_, by simpa using hti⟩).symm
          rw [hpre]; simp
        rw [hcut]
        have hlt' : (L.takeWhile (tableIs t)).length < n := by
          rw [← hcut]
          refine Nat.lt_of_lt_of_le (length_takeWhile_lt _ _ ⟨item, ?_, by simpa using hti⟩) hlen_le
          rw [hpre]; simp
        have hq0 := Nat.div_eq_of_lt hlt'
        generalize (L.takeWhile (tableIs t)).length / n = q at *
        exact ⟨r + 1, rfl, by omega, by omega, by omega, fun _ _ => by omega⟩

theorem take_takeWhile_of_all {α : Type} (p : α → Bool) : ∀ (n : Nat) (l : List α), (∀ y ∈ l.take n, p y = true) →
    (l.takeWhile p).take n = l.take n := by
  intro n
  induction n with
  | zero => intro l _; simp
  | succ n ih =>
    intro l h
    cases l with
    | nil => rfl
    | cons a l =>
      have ha : p a = true := h a (by simp)
      simp only [List.takeWhile_cons, ha, if_true, List.take_succ_cons]
      rw [ih l (fun y hy => h y (by simp [hy]))]

/-- **COUNT > 5000**: the store clamps the page to 5000 keys while the node compares the page length with the unclamped
    COUNT, so EVERY page is "the last one": the loop is one round and returns the first 5000 keys only. -/
theorem advFull_over (ks : List Bytes) (hks : ks.Pairwise (· < ·)) (t : Bytes) (ht : (58 : UInt8) ∉ t)
    (count : Int) (hc : 5000 < count) (rev : Bool) (fuel : Nat) (cur : Bytes) (r : Nat) :
    advFull ks t count rev (fuel + 1) cur r = some ((tpart ks t cur rev).take 5000, r + 1) := by
  have hnc : checkScanCount count = 5000 := by
    unfold checkScanCount; rw [if_neg (by omega), if_pos hc]
  generalize hL : beyond ks (t ++ 58 :: cur) rev = L
  have hT : tpart ks t cur rev = L.takeWhile (tableIs t) := by unfold tpart; rw [hL]
  rw [hT]
  simp only [advFull]
  rw [advPage_eq ks t cur count rev ht, sep_assoc, storePage_eq_take, hL, hnc]
  cases hl : (L.take 5000).getLast? with
  | none =>
    have h0 : L.take 5000 = [] := List.getLast?_eq_none_iff.mp hl
    have hL0 : L = [] := by
      cases L with
      | nil => rfl
      | cons a L => simp at h0
    subst hL0
    simp
  | some item =>
    simp only
    obtain ⟨pre, hpre⟩ := List.getLast?_eq_some_iff.mp hl
    have hLsplit : L = pre ++ item :: L.drop 5000 := by
      have := List.take_append_drop 5000 L
      rw [hpre] at this
      simpa using this.symm
    have hpw : L.Pairwise (ordR rev) := hL ▸ beyond_pairwise hks _ rev
    have hlen_le : (L.take 5000).length ≤ 5000 := by rw [List.length_take]; exact Nat.min_le_left _ _
    by_cases hti : tableIs t item = true
    · simp only [hti, if_true]
      have hall : ∀ y ∈ L.take 5000, tableIs t y = true := by
        intro y hy
        rw [hpre] at hy
        rcases List.mem_append.mp hy with hy | hy
        · have hyx : ordR rev y item := by
            rw [hLsplit] at hpw
            exact (List.pairwise_append.mp hpw).2.2 y hy item List.mem_cons_self
          refine beyond_closed (ks := ks) t cur ht rev item y ?_ ?_ hyx hti
          · rw [hL, hLsplit]; simp
          · rw [hL, hLsplit]; simp [hy]
        · have : y = item := by simpa using hy
          subst this; exact hti
      have hlast : isLastPage (L.take 5000).length count = true := by
        unfold isLastPage
        have : ((L.take 5000).length : Int) < count := by omega
        rw [decide_eq_true this, Bool.true_or]
      simp only [hlast, if_true, List.isEmpty_nil]
      rw [take_takeWhile_of_all _ _ _ hall]
    · simp only [hti, Bool.false_eq_true, if_false, List.isEmpty_nil, if_true]
      have hcut : (L.take 5000).takeWhile (tableIs t) = L.takeWhile (tableIs t) := by
        conv => rhs; rw [← List.take_append_drop 5000 L]
        refine (takeWhile_append_of_neg _ _ _ ⟨item, ?_, by simpa using hti⟩).symm
        rw [hpre]; simp
      rw [hcut]
      have hle : (L.takeWhile (tableIs t)).length ≤ 5000 := by
        rw [← hcut]
        exact Nat.le_trans (List.takeWhile_sublist _).length_le hlen_le
      rw [List.take_of_length_le hle]

/-! ### the three regimes of COUNT, and the answer as a filter of the population -/

theorem tpart_fwd {ks : List Bytes} (hks : ks.Pairwise (· < ·)) (t cur : Bytes) (ht : (58 : UInt8) ∉ t) :
    tpart ks t cur false = ks.filter (fun k => tableIs t k && decide (t ++ [58] ++ cur < k)) := by
  rw [tpart_eq_filter hks t cur ht, beyond_fwd, List.filter_filter, sep_assoc]

theorem tpart_rev {ks : List Bytes} (hks : ks.Pairwise (· < ·)) (t cur : Bytes) (ht : (58 : UInt8) ∉ t) :
    tpart ks t cur true = (ks.filter (fun k => tableIs t k && decide (k < t ++ [58] ++ cur))).reverse := by
  rw [tpart_eq_filter hks t cur ht, beyond_rev, ← List.filter_reverse, ← List.filter_reverse, List.filter_filter, sep_assoc]

/-- `1 ≤ COUNT ≤ 5000`: rounds = ⌊results / COUNT⌋ or that + 1 -/
theorem advFull_main (ks : List Bytes) (hks : ks.Pairwise (· < ·)) (t : Bytes) (ht : (58 : UInt8) ∉ t)
    (c : Int) (h1 : 1 ≤ c) (h2 : c ≤ 5000) (rev : Bool) (fuel : Nat) (cur : Bytes)
    (hfuel : (tpart ks t cur rev).length / c.toNat < fuel) :
    ∃ rounds, advFull ks t c rev fuel cur 0 = some (tpart ks t cur rev, rounds) ∧
      (tpart ks t cur rev).length / c.toNat ≤ rounds ∧ 1 ≤ rounds ∧ rounds ≤ (tpart ks t cur rev).length / c.toNat + 1 ∧
      ((t ++ [58]) ∉ tpart ks t cur rev → rounds = (tpart ks t cur rev).length / c.toNat + 1) := by
  have := advFull_core ks hks t ht c rev c.toNat (by omega) (checkScanCount_of_range h1 h2) 0
    (fun len _ _ h => by rw [isLastPage_of_pos h1] at h; simpa using h)
    (fun _ len h => by rw [isLastPage_of_pos h1]; simpa using h)
    fuel cur 0 (by generalize (tpart ks t cur rev).length / c.toNat = q at *; omega)
  obtain ⟨r', h1, h2, h3, h4, h5⟩ := this
  exact ⟨r', h1, by simpa using h2, h3, by simpa using h4, fun hn => by simpa using h5 rfl hn⟩

/-- `COUNT ≤ 0` (0 = COUNT omitted; the handlers refuse a negative COUNT before they get here): pages of 100, and the
    node never calls a non-empty page the last one, so there may be one more (empty) round -/
theorem advFull_default (ks : List Bytes) (hks : ks.Pairwise (· < ·)) (t : Bytes) (ht : (58 : UInt8) ∉ t)
    (c : Int) (h0 : c ≤ 0) (rev : Bool) (fuel : Nat) (cur : Bytes)
    (hfuel : (tpart ks t cur rev).length / 100 + 1 < fuel) :
    ∃ rounds, advFull ks t c rev fuel cur 0 = some (tpart ks t cur rev, rounds) ∧
      (tpart ks t cur rev).length / 100 ≤ rounds ∧ 1 ≤ rounds ∧ rounds ≤ (tpart ks t cur rev).length / 100 + 2 := by
  have hlp : ∀ len : Nat, 0 < len → isLastPage len c = false := by
    intro len hlen
    unfold isLastPage
    have a : ¬ ((len : Int) < c) := by omega
    have b : (len == 0) = false := by simp; omega
    simp [a, b]
  have := advFull_core ks hks t ht c rev 100 (by omega) (by unfold checkScanCount; rw [if_pos h0]) 1
    (fun len hpos _ h => by rw [hlp len hpos] at h; cases h)
    (fun h => by cases h)
    fuel cur 0 (by omega)
  obtain ⟨r', h1, h2, h3, h4, _⟩ := this
  exact ⟨r', h1, by simpa using h2, h3, by simpa using h4⟩

/-- going forwards the key `t:` is never beyond a cursor of table `t` -/
theorem empty_key_not_in_tpart_fwd (ks : List Bytes) (t cur : Bytes) : (t ++ [58]) ∉ tpart ks t cur false := by
  intro h
  have h1 : t ++ [58] ∈ beyond ks (t ++ 58 :: cur) false := (List.takeWhile_sublist _).subset h
  have h2 := mem_beyond h1
  have : (t ++ [58]) ++ cur < (t ++ [58]) := by simpa [ordR] using h2
  exact not_append_lt_self _ _ this

/-! ### what the property theorems are stated with -/

/-- the answer the property prescribes: the keys of table `t` beyond the raw cursor `t:cur`, in scan order -/
def keyScanSpec (ks : List Bytes) (t cur : Bytes) (rev : Bool) : List Bytes :=
  if rev = true then (ks.filter (fun k => tableIs t k && decide (k < t ++ [58] ++ cur))).reverse
  else ks.filter (fun k => tableIs t k && decide (t ++ [58] ++ cur < k))

theorem tpart_eq_spec {ks : List Bytes} (hks : ks.Pairwise (· < ·)) (t cur : Bytes) (ht : (58 : UInt8) ∉ t) (rev : Bool) :
    tpart ks t cur rev = keyScanSpec ks t cur rev := by
  cases rev
  · exact tpart_fwd hks t cur ht
  · exact tpart_rev hks t cur ht

/-- fuel (= rounds of the client loop) that is enough for `results` keys with `1 ≤ COUNT ≤ 5000`: one round per full
    page and one more -/
def keyScanFuel (results : Nat) (c : Int) : Nat := results / c.toNat + 1

/-- `n` keys `t:<hi><lo>` of one table, ascending (population of the COUNT > 5000 witness) -/
def manyKeys (n : Nat) : List Bytes :=
  (List.range n).map (fun i => [116, 58, UInt8.ofNat (i / 256), UInt8.ofNat (i % 256)])

/-- linear-time sortedness test (for `decide` on long concrete populations) -/
def chainLt : List Bytes → Bool
  | a :: b :: l => decide (a < b) && chainLt (b :: l)
  | _ => true

theorem pairwise_of_chainLt : ∀ (l : List Bytes), chainLt l = true → l.Pairwise (· < ·) := by
  intro l h
  refine (Z.Store.iterSorted_iff_pairwise l).mp ?_
  induction l with
  | nil => trivial
  | cons a l ih =>
    cases l with
    | nil => trivial
    | cons b l =>
      simp only [chainLt, Bool.and_eq_true, decide_eq_true_eq] at h
      exact ⟨h.1, ih h.2⟩

/-- demo population for the non-vacuity examples: tables `s`, `t!`, `t0`, `t`, `u` (`t!:` < `t0:` < `t:` in byte order),
    the key `t:` with the empty key part, keys that are prefixes of each other, a key part with ':':
    `s:a  t!:a  t0:b  t:  t:a  t:a:b  t:b  u:a  u:b` -/
def demoKeys : List Bytes :=
  [[115, 58, 97], [116, 33, 58, 97], [116, 48, 58, 98], [116, 58], [116, 58, 97], [116, 58, 97, 58, 98], [116, 58, 98],
   [117, 58, 97], [117, 58, 98]]

end Z.Scan
