/-
  C13 model (core only): cursor scans.
  rockredis/scan.go (`scanGenericUseBuffer`: open range beyond the cursor, first `checkScanCount count`
  keys, forwards or backwards; the collection scans likewise over the members of one collection) and
  node/scan.go (`advanceScanCommand`: next cursor = key part of the last key unless the page is shorter
  than COUNT; a page that crosses into another table is cut at the boundary and ends the scan;
  `hscanCommand` …: next cursor = last element unless the page is short), plus the client loop.
-/
import ZanVerif.Data.Codec
import ZanVerif.Gen.Scan

namespace Z.Scan
abbrev Bytes := List UInt8

/-- `parseScanArgs` (node/scan.go, regenerated: Gen/Scan.lean): a COUNT above the store's page limit is clamped to it (since fix
    fbc9256; before it the handlers compared the page length with the unclamped COUNT and every full page looked like the last) -/
def parseCount (c : Int) : Int := Gen.parseCount c

/-- `checkScanCount` -/
def checkScanCount (c : Int) : Nat := if c ≤ 0 then 100 else if c > 5000 then 5000 else c.toNat

/-- one store-level page over the (ascending, duplicate-free) population -/
def storePage (ks : List Bytes) (cursor : Bytes) (count : Int) (rev : Bool) : List Bytes :=
  if rev then ((ks.filter (fun k => decide (k < cursor))).reverse).take (checkScanCount count)
  else (ks.filter (fun k => decide (cursor < k))).take (checkScanCount count)

/-- `common.ExtractTable`: (table, rest) at the first ':' -/
def extractTable (raw : Bytes) : Option (Bytes × Bytes) :=
  match Z.Codec.indexByte raw 58 with
  | none => none
  | some i => some (raw.take i, raw.drop (i + 1))

def tableIs (t : Bytes) (k : Bytes) : Bool :=
  match extractTable k with
  | some (t', _) => t' == t
  | none => false

/-- the node's rule for a short page: `length < count || (count == 0 && length == 0)` -/
def isLastPage (len : Nat) (count : Int) : Bool := decide ((len : Int) < count) || (count == 0 && len == 0)

/-- `advanceScanCommand`: (keys, next cursor); `none` = invalid cursor -/
def advPage (ks : List Bytes) (cursor : Bytes) (count : Int) (rev : Bool) : Option (List Bytes × Bytes) :=
  match extractTable cursor with
  | none => none
  | some (table, _) =>
    let ay := storePage ks cursor count rev
    let next0 : Bytes :=
      if isLastPage ay.length count then [] else
      match ay.getLast? with
      | none => []
      | some item => match extractTable item with
        | some (_, rk) => rk
        | none => []
    match ay.getLast? with
    | none => some (ay, next0)
    | some item =>
      if tableIs table item then some (ay, next0)
      else some (ay.takeWhile (tableIs table), [])

/-- the client loop: feed the returned cursor back (as `table:cursor`) until it is empty -/
def advFull (ks : List Bytes) (table : Bytes) (count : Int) (rev : Bool) : Nat → Bytes → Nat → Option (List Bytes × Nat)
  | 0, _, rounds => some ([], rounds)
  | fuel + 1, cur, rounds =>
    match advPage ks (table ++ [58] ++ cur) count rev with
    | none => none
    | some (page, next) =>
      if next.isEmpty then some (page, rounds + 1)
      else match advFull ks table count rev fuel next (rounds + 1) with
        | none => none
        | some (rest, r) => some (page ++ rest, r)

/-- collection scans (`hscan`, `sscan`, `zscan` and the reverse forms): (items, next cursor) -/
def collPage (ms : List Bytes) (cursor : Bytes) (count : Int) (rev : Bool) : List Bytes × Bytes :=
  let ay := storePage ms cursor count rev
  let next : Bytes := if isLastPage ay.length count then [] else (ay.getLast?.getD [])
  (ay, next)

def collFull (ms : List Bytes) (count : Int) (rev : Bool) : Nat → Bytes → Nat → List Bytes × Nat
  | 0, _, rounds => ([], rounds)
  | fuel + 1, cur, rounds =>
    let (page, next) := collPage ms cur count rev
    if next.isEmpty then (page, rounds + 1)
    else
      let (rest, r) := collFull ms count rev fuel next (rounds + 1)
      (page ++ rest, r)

/-- sorted duplicate-free insertion -/
def insertSorted : List Bytes → Bytes → List Bytes
  | [], k => [k]
  | a :: t, k => if k < a then k :: a :: t else if k = a then a :: t else a :: insertSorted t k

end Z.Scan
