/-
  C08 for the sorted set: the storage-level model REFINES the plain redis sorted set `key ↦ member ↦ score`.
  `abs` reads the logical content out of the store (member keys only: the score index and the size meta never
  show through); ZSCORE reads the abstraction; ZADD / ZREM / ZINCRBY answer what the specification answers and
  commute with the abstraction; ZRANGE / ZREVRANGE are the redis index arithmetic (`redisSlice`) on THE
  enumeration of the abstraction sorted by (score, member) (`ZSetRef.zall`, characterised there).
-/
import ZanVerif.Data.ZSetRef

namespace Z.ZSetSpec
open Z.Ref Z.ZSetExec Z.ZSetStore Z.ZSetInv Z.ZSetRef

variable (E : Enc)

/-- the specification state: key ↦ member ↦ score (bit pattern) -/
abbrev Spec := Bytes → Bytes → Option Nat

/-- abstraction: what the store says about (key, member) -/
def abs (m : List KV) : Spec := fun k mem =>
  match get m (E.memK k mem) with
  | some v => E.decScore v
  | none => none

/-- one ZADD update per distinct member: the given score, unless the stored one is `==` (then nothing changes) -/
def specAdd (h : Spec) (k : Bytes) (ps : List (Nat × Bytes)) : Spec := fun k' mem' =>
  if k' = k then
    match ps.find? (fun p => p.2 == mem') with
    | some p => some (match h k mem' with
                      | some old => if feqB old p.1 then old else p.1
                      | none => p.1)
    | none => h k' mem'
  else h k' mem'

def specRem (h : Spec) (k : Bytes) (mems : List Bytes) : Spec := fun k' mem' =>
  if k' = k ∧ mem' ∈ mems then none else h k' mem'

def specSet (h : Spec) (k mem : Bytes) (s : Nat) : Spec := fun k' mem' =>
  if k' = k ∧ mem' = mem then some s else h k' mem'

/-! ### stored members decode -/

theorem abs_some_iff {m : List KV} (hb : Bij E m) {k mem : Bytes} (hk : E.ok k) :
    (abs E m k mem).isSome = (get m (E.memK k mem)).isSome := by
  unfold abs
  cases hv : get m (E.memK k mem) with
  | none => rfl
  | some v =>
    obtain ⟨s1, _, _, hd1, _⟩ := mem_value E hb hk hv
    simp [hd1]

theorem abs_good {m : List KV} (hb : Bij E m) {k mem : Bytes} {s : Nat} (hk : E.ok k) (h : abs E m k mem = some s) :
    E.good s ∧ get m (E.memK k mem) = some (E.encScore s) := by
  unfold abs at h
  cases hv : get m (E.memK k mem) with
  | none => simp [hv] at h
  | some v =>
    obtain ⟨s1, hs1, hv1, hd1, _⟩ := mem_value E hb hk hv
    simp only [hv, hd1, Option.some.injEq] at h
    subst h
    exact ⟨hs1, by rw [hv1]⟩

theorem cnt_pos_of_mem {m : List KV} {P : Bytes → Bool} {p : KV} (hp : p ∈ m) (h : P p.1 = true) : 0 < cnt m P := by
  unfold cnt
  exact List.length_pos_of_mem (List.mem_filter.mpr ⟨hp, h⟩)

/-- an absent meta means no member is stored -/
theorem absent_no_member {m : List KV} (inv : Inv E m) {k : Bytes} (hk : E.ok k) (h : absent E.toEncFns m k = true)
    (mem : Bytes) : get m (E.memK k mem) = none := by
  obtain ⟨n, _, h1, _, h3⟩ := size_read E inv hk
  have hn : n = 0 := h3.mp h
  cases hv : get m (E.memK k mem) with
  | none => rfl
  | some v =>
    have := cnt_pos_of_mem (P := inMemB E k) (mem_of_get hv) ((inMemB_iff E hk).mpr ⟨mem, rfl⟩)
    omega

/-- **ZSCORE reads the abstraction** -/
theorem zscore_refines {m : List KV} (inv : Inv E m) {k : Bytes} (hk : E.ok k) (mem : Bytes) :
    zscore E.toEncFns m k mem = .ok (abs E m k mem) := by
  unfold zscore abs
  cases hab : absent E.toEncFns m k with
  | true => simp [absent_no_member E inv hk hab mem]
  | false =>
    cases hv : get m (E.memK k mem) with
    | none => simp
    | some v =>
      obtain ⟨s1, _, _, hd1, _⟩ := mem_value E inv.bij hk hv
      simp [hd1]

/-! ### ZADD -/

theorem incrSizeOps_shape {mv : Option Bytes} {ts : Int} {k : Bytes} {d : Int} {sops : List Op} {sz : Int}
    (h : incrSizeOps E.toEncFns mv ts k d = .ok (sops, sz)) :
    sops = [.del (E.metaK k)] ∨ ∃ v, sops = [.put (E.metaK k) v] := by
  unfold incrSizeOps at h
  split at h
  · cases h
  · simp only at h
    split at h
    · simp only [Except.ok.injEq, Prod.mk.injEq] at h; exact Or.inl h.1.symm
    · simp only [Except.ok.injEq, Prod.mk.injEq] at h; exact Or.inr ⟨_, h.1.symm⟩

/-- the size-meta write does not show through the abstraction -/
theorem get_mem_after_size {m : List KV} (hm : Sorted m) {sops : List Op} {k : Bytes}
    (hshape : sops = [.del (E.metaK k)] ∨ ∃ v, sops = [.put (E.metaK k) v]) (k' mem' : Bytes) :
    get (applyOps m sops) (E.memK k' mem') = get m (E.memK k' mem') := by
  have hne : E.memK k' mem' ≠ E.metaK k := (E.meta_ne_mem k k' mem').symm
  rcases hshape with rfl | ⟨v, rfl⟩
  · rw [get_applyOps hm]; simp [effOp, hne]
  · rw [get_applyOps hm]; simp [effOp, hne]

theorem sum_indicator {α : Type} (P : α → Bool) : ∀ (l : List α),
    (l.map (fun a => if P a then 1 else 0)).sum = (l.filter P).length
  | [] => rfl
  | a :: t => by
    rw [List.map_cons, List.sum_cons, List.filter_cons, sum_indicator P t]
    cases P a <;> simp <;> omega

/-- **ZADD commutes with the abstraction, and answers the number of new members** (after dropping repeated members,
    last score wins; at most `MAX_BATCH_NUM` pairs — more is the batch-size error) -/
theorem zadd_refines {m : List KV} (inv : Inv E m) {k : Bytes} (hk : E.ok k) (ts : Int) (pairs : List (Nat × Bytes))
    (hgood : ∀ p ∈ pairs, E.good p.1) (hsmall : ¬ ((pairs.length : Int) > maxBatch)) :
    ∃ ops, zadd E.toEncFns m ts k pairs =
        .ok (ops, (((dedupPairs pairs).filter (fun p => (abs E m k p.2).isNone)).length : Int)) ∧
      ∀ k' mem', E.ok k' → abs E (applyOps m ops) k' mem' = specAdd (abs E m) k (dedupPairs pairs) k' mem' := by
  rw [zadd_eq]
  by_cases h1 : pairs.isEmpty = true
  · have : pairs = [] := List.isEmpty_iff.mp h1
    subst this
    refine ⟨[], by simp [dedupPairs], ?_⟩
    intro k' mem' _
    simp [specAdd, dedupPairs, applyOps_nil]
  · obtain ⟨ops, num, hcol, hb2, hval, hfr, hmc, hic⟩ :=
      collect_spec E (addItem E m k) (·.2) (fun p => some (E.encScore (newScore E m k p))) hk 1 m (dedupPairs pairs) m
        (dedupPairs_nodup pairs) inv.bij (fun _ _ => rfl)
        (fun a ha m1 hb1 hag => addItem_step E hk a (hgood a (mem_dedupPairs pairs a ha)) hb1 hag)
    obtain ⟨sops, sz, hso, hshape, _⟩ := finish_size E inv hb2 hk (num : Int) ts
      (fun k' => hfr _ (fun a _ => not_own_meta E k a.2 k'))
      (fun k' hk' => by rw [hmc k' hk']; simp) (fun k' hk' => by rw [hic k' hk']; simp)
    -- the reply
    have hnum : num = ((dedupPairs pairs).filter (fun p => (abs E m k p.2).isNone)).length := by
      rw [collect_count _ _ _ _ hcol, ← sum_indicator]
      congr 1
      apply List.map_congr_left
      intro p hp
      obtain ⟨ops1, ex, se, hops, hex, _⟩ := setItem_spec E inv.bij (mem := p.2) hk (hgood p (mem_dedupPairs pairs p hp))
      have habs : (abs E m k p.2).isNone = decide (ex = 0) := by
        have h1' := abs_some_iff E inv.bij (mem := p.2) hk
        by_cases he : ex = 0
        · have hg := hex.mp he
          have : abs E m k p.2 = none := by simp [abs, hg]
          simp [this, he]
        · have hg : (get m (E.memK k p.2)).isSome = true := by
            cases hg' : get m (E.memK k p.2) with
            | none => exact absurd (hex.mpr hg') he
            | some v => rfl
          rw [hg] at h1'
          have : (abs E m k p.2).isNone = false := by
            cases ha : abs E m k p.2 with
            | none => rw [ha] at h1'; cases h1'
            | some s => rfl
          simp [this, he]
      simp only [addItem, hops, habs]
      by_cases he : ex = 0 <;> simp [he]
    refine ⟨ops ++ sops, by rw [← hnum]; simp [h1, hsmall, hcol, hso], ?_⟩
    intro k' mem' hk'
    unfold abs
    rw [applyOps_append, get_mem_after_size E hb2.sorted hshape]
    unfold specAdd
    by_cases hkk : k' = k
    · subst hkk
      simp only [↓reduceIte]
      cases hf : (dedupPairs pairs).find? (fun p => p.2 == mem') with
      | some p =>
        have hp := List.mem_of_find?_eq_some hf
        have hpm : p.2 = mem' := by have := List.find?_some hf; simpa using this
        subst hpm
        rw [hval p hp]
        have hg := hgood p (mem_dedupPairs pairs p hp)
        simp only [newScore, abs]
        cases hv : get m (E.memK k' p.2) with
        | none => simp [E.score_rt p.1 hg]
        | some v =>
          obtain ⟨s1, hs1, _, hd1, _⟩ := mem_value E inv.bij hk hv
          simp only [hd1]
          by_cases hfe : feqB s1 p.1 = true
          · simp [hfe, E.score_rt s1 hs1]
          · simp [hfe, E.score_rt p.1 hg]
      | none =>
        have hnone := List.find?_eq_none.mp hf
        rw [hfr _ (fun a ha => not_own_mem E hk hk (fun h => by
          have := hnone a ha
          simp [h.2] at this))]
    · simp only [hkk, ↓reduceIte]
      rw [hfr _ (fun a _ => not_own_mem E hk hk' (fun h => hkk h.1))]

/-! ### ZREM -/

theorem mem_dedupMembers : ∀ (l : List Bytes) (a : Bytes), a ∈ dedupMembers l ↔ a ∈ l
  | [], a => by simp [dedupMembers]
  | b :: t, a => by
    simp only [dedupMembers, List.mem_cons, List.mem_filter, mem_dedupMembers t a]
    constructor
    · rintro (h | ⟨h, _⟩)
      · exact Or.inl h
      · exact Or.inr h
    · rintro (h | h)
      · exact Or.inl h
      · by_cases e : a = b
        · exact Or.inl e
        · exact Or.inr ⟨h, by simp [e]⟩

/-- **ZREM commutes with the abstraction, and answers the number of removed members** -/
theorem zrem_refines {m : List KV} (inv : Inv E m) {k : Bytes} (hk : E.ok k) (ts : Int) (mems : List Bytes)
    (hsmall : ¬ ((mems.length : Int) > maxBatch)) :
    ∃ ops, zrem E.toEncFns m ts k mems =
        .ok (ops, (((dedupMembers mems).filter (fun mem => (abs E m k mem).isSome)).length : Int)) ∧
      ∀ k' mem', E.ok k' → abs E (applyOps m ops) k' mem' = specRem (abs E m) k mems k' mem' := by
  rw [zrem_eq]
  by_cases h1 : mems.isEmpty = true
  · have : mems = [] := List.isEmpty_iff.mp h1
    subst this
    refine ⟨[], by simp [dedupMembers], ?_⟩
    intro k' mem' _
    simp [specRem, applyOps_nil]
  · obtain ⟨ops, num, hcol, hb2, hval, hfr, hmc, hic⟩ :=
      collect_spec E (fun mem => delItemOps E.toEncFns m k mem) id (fun _ => none) hk (-1) m (dedupMembers mems) m
        (by simpa using dedupMembers_nodup mems) inv.bij (fun _ _ => rfl)
        (fun a _ m1 hb1 hag => delItem_step E hk a hb1 hag)
    obtain ⟨sops, sz, hso, hshape, _⟩ := finish_size E inv hb2 hk (-(num : Int)) ts
      (fun k' => hfr _ (fun a _ => not_own_meta E k a k'))
      (fun k' hk' => by rw [hmc k' hk']; simp) (fun k' hk' => by rw [hic k' hk']; simp)
    have hnum : num = ((dedupMembers mems).filter (fun mem => (abs E m k mem).isSome)).length := by
      rw [collect_count _ _ _ _ hcol, ← sum_indicator]
      congr 1
      apply List.map_congr_left
      intro mem _
      obtain ⟨ops1, ex, hops, hex, _⟩ := delItem_spec E inv.bij (mem := mem) hk
      simp only [hops, hex, abs_some_iff E inv.bij hk]
    refine ⟨ops ++ sops, by rw [← hnum]; simp [h1, hsmall, hcol, hso], ?_⟩
    intro k' mem' hk'
    unfold abs
    rw [applyOps_append, get_mem_after_size E hb2.sorted hshape]
    unfold specRem
    by_cases hc : k' = k ∧ mem' ∈ mems
    · obtain ⟨rfl, hm'⟩ := hc
      have := hval mem' ((mem_dedupMembers mems mem').mpr hm')
      simp only [id] at this
      simp [this, hm']
    · simp only [hc, ↓reduceIte]
      rw [hfr _ (fun a ha => not_own_mem E hk hk' (fun h => hc ⟨h.1, by
        rw [h.2]; exact (mem_dedupMembers mems a).mp ha⟩))]

/-! ### ZINCRBY -/

/-- **ZINCRBY commutes with the abstraction and answers the new score** = stored score (0 for a new member) + delta;
    for every float addition `fadd` whose result is storable -/
theorem zincrby_refines {m : List KV} (inv : Inv E m) {k : Bytes} (hk : E.ok k) (fadd : Nat → Nat → Nat)
    (ts : Int) (delta : Nat) (mem : Bytes) (hres : E.good (fadd ((abs E m k mem).getD 0) delta)) :
    ∃ ops, zincrby E.toEncFns fadd m ts k delta mem = .ok (ops, fadd ((abs E m k mem).getD 0) delta) ∧
      ∀ k' mem', E.ok k' →
        abs E (applyOps m ops) k' mem' = specSet (abs E m) k mem (fadd ((abs E m k mem).getD 0) delta) k' mem' := by
  have hsm := inv.bij.sorted
  have hkey : ∀ k' mem', E.ok k' → (E.memK k' mem' = E.memK k mem ↔ (k' = k ∧ mem' = mem)) :=
    fun k' mem' hk' => ⟨fun e => E.mem_inj _ _ _ _ hk' hk e, fun ⟨a, b⟩ => by rw [a, b]⟩
  unfold zincrby
  cases hv : get m (E.memK k mem) with
  | none =>
    have habs : abs E m k mem = none := by simp [abs, hv]
    rw [habs] at hres ⊢
    simp only [Option.getD_none] at hres ⊢
    -- the size update succeeds under the invariant
    obtain ⟨n, hr, _⟩ := size_read E inv hk
    cases hso : incrSizeOps E.toEncFns (get m (E.metaK k)) ts k 1 with
    | error e => simp [incrSizeOps, hr] at hso; split at hso <;> cases hso
    | ok r =>
      obtain ⟨sops, sz⟩ := r
      have hshape := incrSizeOps_shape E hso
      refine ⟨_, rfl, ?_⟩
      intro k' mem' hk'
      unfold abs specSet
      have hne1 : E.memK k' mem' ≠ E.scoreK k (fadd 0 delta) mem := E.mem_ne_score _ _ _ _ _
      have hne2 : E.memK k' mem' ≠ E.metaK k := (E.meta_ne_mem k k' mem').symm
      rw [get_applyOps hsm]
      by_cases hc : k' = k ∧ mem' = mem
      · obtain ⟨rfl, rfl⟩ := hc
        rcases hshape with rfl | ⟨v0, rfl⟩ <;> simp [effOp, E.score_rt _ hres]
      · have hne3 : E.memK k' mem' ≠ E.memK k mem := fun e => hc ((hkey k' mem' hk').mp e)
        rcases hshape with rfl | ⟨v0, rfl⟩ <;> simp [effOp, hne1, hne2, hne3, hc]
  | some v =>
    obtain ⟨s1, hs1, hv1, hd1, _⟩ := mem_value E inv.bij hk hv
    have habs : abs E m k mem = some s1 := by simp [abs, hv, hd1]
    rw [habs] at hres ⊢
    simp only [Option.getD_some] at hres ⊢
    simp only [hd1]
    refine ⟨_, rfl, ?_⟩
    intro k' mem' hk'
    unfold abs specSet
    have hne1 : E.memK k' mem' ≠ E.scoreK k (fadd s1 delta) mem := E.mem_ne_score _ _ _ _ _
    have hne2 : E.memK k' mem' ≠ E.scoreK k s1 mem := E.mem_ne_score _ _ _ _ _
    rw [get_applyOps hsm]
    by_cases hc : k' = k ∧ mem' = mem
    · obtain ⟨rfl, rfl⟩ := hc
      simp [effOp, E.score_rt _ hres]
    · have hne3 : E.memK k' mem' ≠ E.memK k mem := fun e => hc ((hkey k' mem' hk').mp e)
      simp [effOp, hne1, hne2, hne3, hc]

/-! ### ZRANGE / ZREVRANGE: redis index arithmetic on the enumeration -/

/-- redis `ZRANGE` index arithmetic (t_zset.c, zrangeGenericCommand), written independently of the code under test -/
def redisSlice {α : Type} (l : List α) (start stop : Int) : List α :=
  let n : Int := l.length
  let s := if start < 0 then n + start else start
  let e := if stop < 0 then n + stop else stop
  let s := if s < 0 then 0 else s
  if s > e ∨ s ≥ n then []
  else
    let e := if e ≥ n then n - 1 else e
    (l.drop s.toNat).take (e - s + 1).toNat

/-- redis tail = code tail for a normalised start -/
theorem slice_core {α : Type} (l : List α) (s e : Int) (hs : 0 ≤ s) :
    (if s > e ∨ s ≥ (l.length : Int) then ([] : List α)
     else (l.drop s.toNat).take ((if e ≥ (l.length : Int) then (l.length : Int) - 1 else e) - s + 1).toNat) =
    (if s > e then [] else (l.drop s.toNat).take (e - s + 1).toNat) := by
  by_cases c2 : s > e
  · simp [c2]
  · by_cases c1 : s ≥ (l.length : Int)
    · simp only [c1, c2, or_true, ↓reduceIte]
      rw [List.drop_of_length_le (by omega)]; simp
    · simp only [c1, c2, or_self, ↓reduceIte]
      by_cases c6 : e ≥ (l.length : Int)
      · simp only [c6, ↓reduceIte]
        rw [List.take_of_length_le (by rw [List.length_drop]; omega),
          List.take_of_length_le (by rw [List.length_drop]; omega)]
      · simp only [c6, ↓reduceIte]

theorem limit_nonneg {α : Type} (l : List α) (o c : Int) (ho : 0 ≤ o) (hc : 0 ≤ c) :
    limit l o c = (l.drop o.toNat).take c.toNat := by
  unfold limit
  have h1 : ¬ o < 0 := by omega
  have h2 : ¬ c < 0 := by omega
  simp only [h1, h2, ↓reduceIte]

theorem limit_neg {α : Type} (l : List α) (c : Int) : limit l (-1) c = [] := by
  unfold limit; simp

theorem limit_parseLimit {α : Type} (l : List α) (start stop : Int) :
    limit l (parseLimit (l.length : Int) start stop).1 (parseLimit (l.length : Int) start stop).2 =
      redisSlice l start stop := by
  unfold redisSlice
  simp only
  -- normalised start / stop
  generalize hs1 : (if start < 0 then (l.length : Int) + start else start) = s1
  generalize he1 : (if stop < 0 then (l.length : Int) + stop else stop) = e1
  generalize hs2 : (if s1 < 0 then (0 : Int) else s1) = s2
  have hs2nn : 0 ≤ s2 ∨ (¬ start < 0 ∧ s2 = start) := by
    rw [← hs2]; split
    · left; omega
    · left; omega
  rw [slice_core l s2 e1 (by
    rw [← hs2]; split <;> omega)]
  unfold parseLimit
  by_cases h0 : start < 0 ∨ stop < 0
  · simp only [h0, ↓reduceIte, hs1, he1, hs2]
    have hnn : 0 ≤ s2 := by rw [← hs2]; split <;> omega
    by_cases c1 : s2 ≥ (l.length : Int)
    · simp only [c1, ↓reduceIte, limit_neg]
      split
      · rfl
      · rw [List.drop_of_length_le (by omega)]; simp
    · by_cases c2 : s2 > e1
      · simp only [c1, c2, ↓reduceIte, limit_neg]
      · simp only [c1, c2, ↓reduceIte]
        exact limit_nonneg l _ _ hnn (by omega)
  · have hs : ¬ start < 0 := fun h => h0 (Or.inl h)
    have he : ¬ stop < 0 := fun h => h0 (Or.inr h)
    simp only [hs, he, ↓reduceIte] at hs1 he1
    subst hs1 he1
    have : ¬ start < 0 := hs
    simp only [this, ↓reduceIte] at hs2
    subst hs2
    simp only [h0, ↓reduceIte]
    by_cases c2 : start > stop
    · simp only [c2, ↓reduceIte, limit_neg]
    · simp only [c2, ↓reduceIte]
      exact limit_nonneg l _ _ (by omega) (by omega)

theorem limit_map {α β : Type} (g : α → β) (l : List α) (o c : Int) : (limit l o c).map g = limit (l.map g) o c := by
  unfold limit
  split
  · rfl
  · simp only
    split
    · exact List.map_drop
    · rw [List.map_take, List.map_drop]

/-- `zParseLimit` answers "empty" (offset -1) or a non-negative offset with a positive count -/
theorem parseLimit_cases (n start stop : Int) :
    (parseLimit n start stop).1 < 0 ∨ (0 ≤ (parseLimit n start stop).1 ∧ 0 < (parseLimit n start stop).2) := by
  unfold parseLimit
  by_cases h0 : start < 0 ∨ stop < 0
  · simp only [h0, ↓reduceIte]
    generalize hs1 : (if start < 0 then n + start else start) = s1
    generalize he1 : (if stop < 0 then n + stop else stop) = e1
    by_cases c0 : s1 < 0
    · simp only [c0, ↓reduceIte]
      by_cases c1 : (0 : Int) ≥ n
      · simp [c1]
      · by_cases c2 : (0 : Int) > e1
        · simp [c1, c2]
        · simp only [c1, c2, ↓reduceIte]; right; omega
    · simp only [c0, ↓reduceIte]
      by_cases c1 : s1 ≥ n
      · simp [c1]
      · by_cases c2 : s1 > e1
        · simp [c1, c2]
        · simp only [c1, c2, ↓reduceIte]; right; omega
  · simp only [h0, ↓reduceIte]
    by_cases c2 : start > stop
    · simp [c2]
    · simp only [c2, ↓reduceIte]; right; omega

/-- **ZRANGE / ZREVRANGE refine redis's index arithmetic**: whenever the command answers (i.e. not the batch-size
    error for a requested range longer than `MAX_BATCH_NUM`), the answer is the redis slice of the enumeration
    (reversed for ZREVRANGE) -/
theorem zrange_refines {m : List KV} (inv : Inv E m) {k : Bytes} (hk : E.ok k) (start stop : Int) (reverse : Bool)
    (v : List (Bytes × Nat)) (h : zrange E.toEncFns m k start stop reverse = .ok v) :
    v = redisSlice (if reverse then (zall E m k).reverse else zall E m k) start stop := by
  have hb := inv.bij
  obtain ⟨n, hr, _, h2, h3⟩ := size_read E inv hk
  have hlen := zall_length E hb hk
  rw [h2] at hlen
  unfold zrange absent at h
  by_cases hn : (get m (E.metaK k)).isNone = true
  · simp only [hn, ↓reduceIte, Except.ok.injEq] at h
    have hz : zall E m k = [] := List.eq_nil_of_length_eq_zero (by rw [hlen, h3.mp hn])
    rw [← h, hz]
    cases reverse <;> simp [redisSlice]
  · simp only [hn, Bool.false_eq_true, ↓reduceIte, hr] at h
    -- the redis slice is the code's limit on the (possibly reversed) enumeration
    have hslice := limit_parseLimit (if reverse then (zall E m k).reverse else zall E m k) start stop
    have hl2 : ((if reverse then (zall E m k).reverse else zall E m k).length : Int) = n := by
      cases reverse <;> simp [hlen]
    rw [hl2] at hslice
    have hpc := parseLimit_cases (n : Int) start stop
    generalize hoff : (parseLimit (n : Int) start stop).1 = off at h hslice hpc
    generalize hcnt : (parseLimit (n : Int) start stop).2 = cnt' at h hslice hpc
    rw [← hslice]
    unfold rangeBytes at h
    have hscan : rscan m (E.idxStart k) (E.idxStop k) false false = idxScan E m k := rfl
    rw [hscan] at h
    have hmapped := zall_eq_map E hb hk (m := m)
    rcases hpc with o1 | ⟨o1, c1⟩
    · -- empty range
      simp only [o1, ↓reduceIte, Except.ok.injEq] at h
      rw [← h]
      unfold limit; simp [o1]
    · have o1' : ¬ off < 0 := by omega
      have hc0 : ¬ cnt' < 0 := by omega
      simp only [o1', ↓reduceIte] at h
      split at h
      · cases h
      · have hdec : ∀ p ∈ idxScan E m k, E.decScoreK p.1 = some ((E.decScoreK p.1).getD ([], 0)) := by
          intro p hp
          obtain ⟨_, _, _, _, _, _, hd, _, _⟩ := idx_entry E hb hk hp
          rw [hd]; rfl
        cases reverse with
        | false =>
          simp [hc0] at h
          simp only [Bool.false_eq_true, ↓reduceIte]
          rw [← h, hmapped, ← limit_map]
          exact filterMap_eq_map _ _ _ (fun p hp => hdec p ((limit_sublist _ _ _).mem hp))
        | true =>
          simp [hc0] at h
          simp only [↓reduceIte]
          rw [← h, hmapped, ← List.map_reverse, ← limit_map]
          exact filterMap_eq_map _ _ _ (fun p hp => hdec p (List.mem_reverse.mp ((limit_sublist _ _ _).mem hp)))

end Z.ZSetSpec
