/-
Scratch prototype for C13: cursor-paged scans.  One page = the first `n` keys strictly above the
cursor (that is what the iterator wrapper returns for Min = cursor, LOpen, Count = n - IterP);
the next cursor is the last key of the page; the scan ends at a short page.  Over a sorted,
duplicate-free key list the pages, concatenated, are exactly the keys above the start cursor: every
element once, in order - for every page size ≥ 1.
-/
import ZanVerif.Engine.IterP
namespace Z.Paged
open Z.IterP

variable {α : Type} [SOrd α]

def page (ks : List α) (cursor : Option α) (n : Nat) : List α :=
  (match cursor with
   | none => ks
   | some c => ks.filter (fun k => decide (c < k))).take n

/-- all pages from `cursor`, with fuel (an upper bound on the number of pages) -/
def scanAll (ks : List α) (n : Nat) : Nat → Option α → List α
  | 0, _ => []
  | fuel + 1, cursor =>
    let p := page ks cursor n
    if p.length < n then p
    else match p.getLast? with
      | none => p
      | some c => p ++ scanAll ks n fuel (some c)

def above (ks : List α) (cursor : Option α) : List α :=
  match cursor with
  | none => ks
  | some c => ks.filter (fun k => decide (c < k))

theorem page_eq (ks : List α) (cursor : Option α) (n : Nat) : page ks cursor n = (above ks cursor).take n := by
  unfold page above; cases cursor <;> rfl

/-- on a sorted list the keys above c are a suffix: everything after the first key above c -/
theorem above_cons_of_not (a : α) (t : List α) (c : α) (h : ¬ c < a) :
    above (a :: t) (some c) = above t (some c) := by
  simp [above, List.filter_cons, h]

theorem sorted_filter_above (c : α) : ∀ (ks : List α), Sorted ks → Sorted (ks.filter (fun k => decide (c < k))) := by
  intro ks hs
  rw [filter_eq_dropWhile_not (p := fun k => decide (c < k)) ?_ ks hs]
  · exact sorted_dropWhile _ ks hs
  · intro a b hab ha
    simp only [decide_eq_true_eq] at ha ⊢
    exact SOrd.lt_trans ha hab

/-- the keys above the last key of a prefix of a sorted list are the rest of the list -/
theorem above_last : ∀ (l : List α), Sorted l → ∀ (n : Nat) (c : α), (l.take n).getLast? = some c →
    l.filter (fun k => decide (c < k)) = l.drop n := by
  intro l
  induction l with
  | nil => intro _ n c h; simp at h
  | cons a t ih =>
    intro hs n c h
    cases n with
    | zero => simp at h
    | succ n =>
      simp only [List.take_succ_cons, List.drop_succ_cons] at h ⊢
      cases ht : t.take n with
      | nil =>
        -- the page is [a]; everything in t is above a
        rw [ht] at h
        simp only [List.getLast?_singleton, Option.some.injEq] at h
        subst h
        have hdrop : t.drop n = t := by
          cases n with
          | zero => rfl
          | succ n => cases t with
            | nil => rfl
            | cons b t' => simp at ht
        rw [hdrop, List.filter_cons]
        simp only [SOrd.lt_irrefl a, decide_false, Bool.false_eq_true, ↓reduceIte]
        apply List.filter_eq_self.mpr
        intro x hx
        simpa using hs.head_lt x hx
      | cons b t' =>
        have hlast : (t.take n).getLast? = some c := by
          rw [ht] at h ⊢
          simpa [List.getLast?_cons_cons] using h
        have hc : a < c ∨ a = c := by
          -- c is in t
          have hmem : c ∈ t := by
            have := List.mem_of_getLast? hlast
            exact List.mem_of_mem_take this
          exact Or.inl (hs.head_lt c hmem)
        have hna : ¬ c < a := by
          rcases hc with h1 | h1
          · exact SOrd.lt_asymm h1
          · subst h1; exact SOrd.lt_irrefl a
        rw [List.filter_cons]
        simp only [hna, decide_false, Bool.false_eq_true, ↓reduceIte]
        exact ih hs.tail n c hlast

/-- **every element exactly once, in order**: with enough fuel the concatenated pages are the keys
    above the start cursor -/
theorem scanAll_eq (ks : List α) (hs : Sorted ks) (n : Nat) (hn : 1 ≤ n) :
    ∀ (fuel : Nat) (cursor : Option α), (above ks cursor).length < fuel * n →
      scanAll ks n fuel cursor = above ks cursor := by
  intro fuel
  induction fuel with
  | zero => intro cursor h; simp at h
  | succ fuel ih =>
    intro cursor hlen
    simp only [scanAll, page_eq]
    have hsa : Sorted (above ks cursor) := by
      cases cursor with
      | none => exact hs
      | some c => exact sorted_filter_above c ks hs
    by_cases hshort : ((above ks cursor).take n).length < n
    · simp only [hshort, ↓reduceIte]
      apply List.take_of_length_le
      simp only [List.length_take] at hshort; omega
    · simp only [hshort, ↓reduceIte]
      have hfull : n ≤ (above ks cursor).length := by
        simp only [List.length_take] at hshort; omega
      cases hl : ((above ks cursor).take n).getLast? with
      | none =>
        simp only
        have : (above ks cursor).take n = [] := List.getLast?_eq_none_iff.mp hl
        have := congrArg List.length this
        simp only [List.length_take, List.length_nil] at this; omega
      | some c =>
        simp only
        -- the next page starts right after this one
        have hnext : above ks (some c) = (above ks cursor).drop n := by
          have h1 := above_last (above ks cursor) hsa n c hl
          rw [← h1]
          cases cursor with
          | none => rfl
          | some c0 =>
            -- keys above c that are above c0: c0 < c, so "above c" already implies "above c0"
            simp only [above, List.filter_filter]
            apply List.filter_congr
            intro x _
            have hc0 : c0 < c := by
              have := List.mem_of_getLast? hl
              have := List.mem_of_mem_take this
              simpa [above] using (List.mem_filter.mp this).2
            by_cases hx : c < x
            · simp [hx, SOrd.lt_trans hc0 hx]
            · simp [hx]
        rw [ih (some c) (by rw [hnext, List.length_drop]; have : (fuel + 1) * n = fuel * n + n := Nat.succ_mul fuel n; omega)]
        rw [hnext, List.take_append_drop]

#print axioms scanAll_eq
end Z.Paged
