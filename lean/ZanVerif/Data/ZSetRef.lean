/-
  Read side of the sorted-set model under the representation invariant (C09 corollaries, C08 refinement):
  what ZCARD / ZRANGE / ZRANGEBYSCORE / ZRANGEBYLEX / ZSCORE / ZRANK / ZKEYEXIST answer, in terms of
  the enumeration `zall` (the decoded score index of the key, in key order).
-/
import ZanVerif.Data.ZSetInv

namespace Z.ZSetRef
open Z.Ref Z.ZSetExec Z.ZSetStore Z.ZSetInv

variable (E : Enc)

/-- the score index of `k` and the member keys of `k`, in key order -/
def idxScan (m : List KV) (k : Bytes) : List KV := rscan m (E.idxStart k) (E.idxStop k) false false
def memScan (m : List KV) (k : Bytes) : List KV := rscan m (E.memK k []) (E.memStop k) false true

/-- (member, score as decoded from the index key), in index order: what `ZRANGE k 0 -1 WITHSCORES` lists -/
def zall (m : List KV) (k : Bytes) : List (Bytes × Nat) := (idxScan E m k).filterMap (fun p => E.decScoreK p.1)

/-- the members in member-key order: what `ZRANGEBYLEX k - +` lists -/
def zlex (m : List KV) (k : Bytes) : List Bytes := (memScan E m k).filterMap (fun p => E.decMemK p.1)

theorem idxScan_length (m : List KV) (k : Bytes) : (idxScan E m k).length = cnt m (inIdxB E k) := rfl
theorem memScan_length (m : List KV) (k : Bytes) : (memScan E m k).length = cnt m (inMemB E k) := rfl

/-! ### what the stored size says -/

theorem size_read {m : List KV} (inv : Inv E m) {k : Bytes} (hk : E.ok k) :
    ∃ n : Nat, sizeOfMeta E.toEncFns (get m (E.metaK k)) = .ok (n : Int) ∧
      cnt m (inMemB E k) = n ∧ cnt m (inIdxB E k) = n ∧ ((get m (E.metaK k)).isNone = true ↔ n = 0) := by
  have hsz := inv.size k hk
  unfold SizeOK at hsz
  cases hg : get m (E.metaK k) with
  | none => rw [hg] at hsz; exact ⟨0, by simp [sizeOfMeta], hsz.1, hsz.2, by simp⟩
  | some v =>
    rw [hg] at hsz
    obtain ⟨n, hpos, hso, h1, h2⟩ := hsz
    exact ⟨n, by simp [sizeOfMeta, hso], h1, h2, by simp; omega⟩

/-! ### entries of the index -/

theorem filterMap_eq_map {α β : Type} (f : α → Option β) (g : α → β) :
    ∀ (l : List α), (∀ a ∈ l, f a = some (g a)) → l.filterMap f = l.map g
  | [], _ => rfl
  | a :: t, h => by
    rw [List.filterMap_cons, h a List.mem_cons_self, List.map_cons,
      filterMap_eq_map f g t (fun b hb => h b (List.mem_cons_of_mem _ hb))]

/-- every index entry of `k` belongs to a stored member whose stored score has this index key, and decodes to
    that member with a score `==` to the stored one -/
theorem idx_entry {m : List KV} (hb : Bij E m) {k : Bytes} (hk : E.ok k) {p : KV} (hp : p ∈ idxScan E m k) :
    ∃ s mem s', E.good s ∧ p.1 = E.scoreK k s mem ∧ get m (E.memK k mem) = some (E.encScore s) ∧
      E.decScoreK p.1 = some (mem, s') ∧ E.good s' ∧ feqB s' s = true := by
  obtain ⟨hpm, hin⟩ := mem_rscan.mp hp
  have hg := get_of_mem hb.sorted hpm
  have hsome : (get m p.1).isSome := by rw [hg]; rfl
  obtain ⟨s0, mem, hs0, he⟩ := known_in_idx E hk (hb.known _ hsome) hin
  rw [he] at hsome
  obtain ⟨s, hs, hv, hkk⟩ := hb.idx k s0 mem hk hs0 hsome
  obtain ⟨s', hd, hs', hf⟩ := E.dec_score k s mem hk hs
  exact ⟨s, mem, s', hs, by rw [he, hkk], hv, by rw [he, ← hkk]; exact hd, hs', hf⟩

/-- a stored member has its index entry in the scan -/
theorem idx_of_member {m : List KV} (hb : Bij E m) {k mem : Bytes} {v : Bytes} (hk : E.ok k)
    (hv : get m (E.memK k mem) = some v) :
    ∃ s w, E.good s ∧ v = E.encScore s ∧ (E.scoreK k s mem, w) ∈ idxScan E m k := by
  obtain ⟨s, hs, hv1, hi⟩ := hb.memv k mem v hk hv
  cases hg : get m (E.scoreK k s mem) with
  | none => rw [hg] at hi; cases hi
  | some w =>
    refine ⟨s, w, hs, hv1, mem_rscan.mpr ⟨mem_of_get hg, ?_⟩⟩
    have := inIdxB_score E (mem := mem) hk hk hs
    simpa [inIdxB] using this

theorem zall_eq_map {m : List KV} (hb : Bij E m) {k : Bytes} (hk : E.ok k) :
    zall E m k = (idxScan E m k).map (fun p => (E.decScoreK p.1).getD ([], 0)) := by
  apply filterMap_eq_map
  intro p hp
  obtain ⟨s, mem, s', _, _, _, hd, _, _⟩ := idx_entry E hb hk hp
  rw [hd]; rfl

theorem zall_length {m : List KV} (hb : Bij E m) {k : Bytes} (hk : E.ok k) :
    (zall E m k).length = cnt m (inIdxB E k) := by
  rw [zall_eq_map E hb hk, List.length_map]; rfl

theorem zlex_eq_map {m : List KV} {k : Bytes} (hk : E.ok k) :
    zlex E m k = (memScan E m k).map (fun p => (E.decMemK p.1).getD []) := by
  apply filterMap_eq_map
  intro p hp
  obtain ⟨_, hin⟩ := mem_rscan.mp hp
  obtain ⟨mem, he⟩ := (inMemB_iff E hk).mp hin
  rw [he, E.dec_mem k mem hk]; rfl

theorem zlex_length {m : List KV} {k : Bytes} (hk : E.ok k) : (zlex E m k).length = cnt m (inMemB E k) := by
  rw [zlex_eq_map E hk, List.length_map]; rfl

/-! ### ZCARD, ZKEYEXIST -/

theorem zcard_eq {m : List KV} (inv : Inv E m) {k : Bytes} (hk : E.ok k) :
    zcard E.toEncFns m k = .ok ((zall E m k).length : Int) ∧ (zall E m k).length = (zlex E m k).length := by
  obtain ⟨n, hr, h1, h2, _⟩ := size_read E inv hk
  rw [zall_length E inv.bij hk, zlex_length E hk, h1, h2]
  exact ⟨hr, rfl⟩

theorem zkeyexist_iff {m : List KV} (inv : Inv E m) {k : Bytes} (hk : E.ok k) :
    zkeyexist E.toEncFns m k = 1 ↔ 0 < (zall E m k).length := by
  obtain ⟨n, _, _, h2, h3⟩ := size_read E inv hk
  rw [zall_length E inv.bij hk, h2]
  unfold zkeyexist absent
  by_cases hn : (get m (E.metaK k)).isNone = true
  · have := h3.mp hn; simp [hn, this]
  · have : n ≠ 0 := fun e => hn (h3.mpr e)
    simp [hn]; omega

/-! ### ZRANGE 0 -1, ZRANGEBYSCORE -inf +inf, ZRANGEBYLEX - + enumerate the same `ZCARD` members -/

theorem parseLimit_all (n : Int) (h : 0 < n) : parseLimit n 0 (-1) = (0, n) := by
  unfold parseLimit
  have a1 : ¬ ((0 : Int) ≥ n) := by omega
  have a2 : ¬ ((0 : Int) > n + -1) := by omega
  simp only [Int.lt_irrefl, show ((-1 : Int) < 0) by omega, or_true, ↓reduceIte, a1, a2]
  congr 1
  omega

theorem limit_all {α : Type} (l : List α) (n : Int) (h : (l.length : Int) ≤ n) : limit l 0 n = l := by
  unfold limit
  simp only [Int.lt_irrefl, ↓reduceIte, Int.toNat_zero, List.drop_zero]
  have : ¬ n < 0 := by omega
  simp only [this, ↓reduceIte]
  apply List.take_of_length_le
  omega

theorem limit_unbounded {α : Type} (l : List α) : limit l 0 (-1) = l := by
  unfold limit; simp

/-- `ZRANGE k 0 -1` returns the whole enumeration (for at most `MAX_BATCH_NUM` members; beyond that the command
    answers the batch-size error) -/
theorem zrange_all {m : List KV} (inv : Inv E m) {k : Bytes} (hk : E.ok k)
    (hsmall : ((zall E m k).length : Int) ≤ maxBatch) :
    zrange E.toEncFns m k 0 (-1) false = .ok (zall E m k) := by
  obtain ⟨n, hr, _, h2, h3⟩ := size_read E inv hk
  have hlen := zall_length E inv.bij hk
  rw [h2] at hlen
  rw [hlen] at hsmall
  unfold zrange absent
  by_cases hn : (get m (E.metaK k)).isNone = true
  · have hn0 := h3.mp hn
    simp only [hn, ↓reduceIte]
    have : zall E m k = [] := List.eq_nil_of_length_eq_zero (by rw [hlen, hn0])
    rw [this]
  · have hn0 : n ≠ 0 := fun e => hn (h3.mpr e)
    simp only [hn, Bool.false_eq_true, ↓reduceIte, hr]
    have hpl : parseLimit (n : Int) 0 (-1) = (0, (n : Int)) := parseLimit_all _ (by omega)
    rw [hpl]
    simp only
    unfold rangeBytes
    have b1 : ¬ ((n : Int) > maxBatch) := by omega
    have b2 : ¬ ((n : Int) < 0) := by omega
    simp only [Int.lt_irrefl, ↓reduceIte, b1, b2, false_and, Bool.not_false, Bool.true_or, Bool.false_and]
    have hscan : (rscan m (E.idxStart k) (E.idxStop k) false false).length = n := by
      rw [← h2]; rfl
    rw [limit_all _ _ (by rw [hscan]; exact Int.le_refl _)]
    rfl

/-- the full score range holds exactly the index of the key -/
theorem full_score_scan {m : List KV} (hb : Bij E m) {k : Bytes} (hk : E.ok k) :
    rscan m (E.scoreLo k E.ninf) (E.scoreHi k E.pinf) false false = idxScan E m k := by
  unfold idxScan rscan
  apply List.filter_congr
  intro p hp
  have hg := get_of_mem hb.sorted hp
  have hkn : Known E p.1 := hb.known _ (by rw [hg]; rfl)
  by_cases hin : inIdxB E k p.1 = true
  · have hin' : inRng (E.idxStart k) (E.idxStop k) false false p.1 = true := hin
    rw [hin']
    obtain ⟨s, mem, hs, he⟩ := known_in_idx E hk hkn hin
    have := (E.score_range k s mem E.ninf E.pinf hk hs E.good_ninf E.good_pinf).mpr ⟨E.ninf_le s hs, E.le_pinf s hs⟩
    simp only [inRng, Bool.false_eq_true, ↓reduceIte, Bool.and_eq_true, decide_eq_true_eq]
    rw [he]; exact this
  · have hin' : inRng (E.idxStart k) (E.idxStop k) false false p.1 = false := by
      simpa [inIdxB] using hin
    rw [hin']
    apply Bool.eq_false_iff.mpr
    intro h
    exact hin (score_range_sub E hk E.good_ninf E.good_pinf _ h)

/-- `ZRANGEBYSCORE k -inf +inf` returns the same enumeration -/
theorem zrangebyscore_all {m : List KV} (inv : Inv E m) {k : Bytes} (hk : E.ok k)
    (hsmall : ((zall E m k).length : Int) ≤ maxBatch) :
    zrangebyscore E.toEncFns m k E.ninf E.pinf true 0 (-1) false = .ok (zall E m k) := by
  obtain ⟨n, hr, _, h2, h3⟩ := size_read E inv hk
  have hlen := zall_length E inv.bij hk
  rw [h2] at hlen
  unfold zrangebyscore absent
  by_cases hn : (get m (E.metaK k)).isNone = true
  · have hn0 := h3.mp hn
    simp only [hn, ↓reduceIte]
    have : zall E m k = [] := List.eq_nil_of_length_eq_zero (by rw [hlen, hn0])
    rw [this]
  · simp only [hn, Bool.false_eq_true, ↓reduceIte]
    unfold rangeBytes
    have hmb : (0 : Int) ≤ maxBatch := by unfold maxBatch; omega
    have b0 : ¬ ((-1 : Int) > maxBatch) := by omega
    have b1 : ¬ ((n : Int) - 0 > maxBatch) := by rw [hlen] at hsmall; omega
    simp only [Int.lt_irrefl, ↓reduceIte, b0, hr, b1, and_false, Bool.not_false, Bool.true_or]
    rw [limit_unbounded, full_score_scan E inv.bij hk]
    have b2 : ¬ (((List.filterMap (fun p => E.decScoreK p.fst) (idxScan E m k)).length : Int) > maxBatch) := by
      show ¬ (((zall E m k).length : Int) > maxBatch)
      omega
    simp only [b2, and_false, ↓reduceIte, Bool.false_and, Bool.false_eq_true]
    rfl

/-- the closed member range `[start, stop]` holds exactly the member keys of the key (the stop key is never stored) -/
theorem full_lex_scan {m : List KV} (hb : Bij E m) {k : Bytes} (hk : E.ok k) :
    rscan m (lexLo E.toEncFns k none) (lexHi E.toEncFns k none) false false = memScan E m k := by
  unfold memScan rscan lexLo lexHi
  apply List.filter_congr
  intro p hp
  have hg := get_of_mem hb.sorted hp
  have hkn : Known E p.1 := hb.known _ (by rw [hg]; rfl)
  simp only [inRng, Bool.false_eq_true, ↓reduceIte]
  congr 1
  have hne : p.1 ≠ E.memStop k := fun e => E.memStop_unknown k hk (e ▸ hkn)
  by_cases h : p.1 < E.memStop k
  · simp [h, List.le_of_lt h]
  · have : ¬ p.1 ≤ E.memStop k := by
      intro hle
      rcases List.le_iff_lt_or_eq.mp hle with h' | h'
      · exact h h'
      · exact hne h'
    simp [h, this]

/-- `ZRANGEBYLEX k - +` returns the members in member order, as many as `ZCARD` -/
theorem zrangebylex_all {m : List KV} (inv : Inv E m) {k : Bytes} (hk : E.ok k)
    (hsmall : ((zall E m k).length : Int) ≤ maxBatch) :
    zrangebylex E.toEncFns m k none none false false 0 (-1) = .ok (zlex E m k) := by
  obtain ⟨n, hr, h1, h2, h3⟩ := size_read E inv hk
  have hlen := zall_length E inv.bij hk
  have hlex := zlex_length E (m := m) hk
  rw [h2] at hlen
  rw [h1] at hlex
  unfold zrangebylex absent
  have hmb : (0 : Int) ≤ maxBatch := by unfold maxBatch; omega
  have b0 : ¬ ((-1 : Int) > maxBatch) := by omega
  by_cases hn : (get m (E.metaK k)).isNone = true
  · have hn0 := h3.mp hn
    simp only [b0, hn, ↓reduceIte]
    have : zlex E m k = [] := List.eq_nil_of_length_eq_zero (by rw [hlex, hn0])
    rw [this]
  · simp only [b0, hn, Bool.false_eq_true, ↓reduceIte]
    rw [limit_unbounded, full_lex_scan E inv.bij hk]
    have b2 : ¬ (((List.filterMap (fun p => E.decMemK p.fst) (memScan E m k)).length : Int) > maxBatch) := by
      show ¬ (((zlex E m k).length : Int) > maxBatch)
      rw [hlex]; rw [hlen] at hsmall; omega
    simp only [b2, and_false, ↓reduceIte]
    rfl

/-! ### each member exactly once, with ZSCORE's score -/

theorem idxScan_pairwise {m : List KV} (hb : Bij E m) (k : Bytes) :
    (idxScan E m k).Pairwise (fun p q => p.1 < q.1) :=
  (sorted_pairwise hb.sorted).sublist (rscan_sublist _ _ _ _ _)

theorem zall_nodup {m : List KV} (hb : Bij E m) {k : Bytes} (hk : E.ok k) :
    ((zall E m k).map (·.1)).Nodup := by
  rw [zall_eq_map E hb hk, List.map_map, List.nodup_iff_pairwise_ne, List.pairwise_map]
  apply (idxScan_pairwise E hb k).imp_of_mem
  intro p q hp hq hlt heq
  obtain ⟨s, mem, s', hs, he, hv, hd, _, _⟩ := idx_entry E hb hk hp
  obtain ⟨s2, mem2, s2', hs2, he2, hv2, hd2, _, _⟩ := idx_entry E hb hk hq
  simp only [Function.comp, hd, hd2, Option.getD_some] at heq
  subst heq
  rw [hv] at hv2
  have := encScore_inj E hs hs2 (Option.some.inj hv2)
  subst this
  rw [he, he2] at hlt
  exact List.lt_irrefl _ hlt

theorem zcard_pos_of_idx {m : List KV} (inv : Inv E m) {k : Bytes} (hk : E.ok k) {p : KV} (hp : p ∈ idxScan E m k) :
    absent E.toEncFns m k = false := by
  obtain ⟨n, _, _, h2, h3⟩ := size_read E inv hk
  have : 0 < (idxScan E m k).length := List.length_pos_of_mem hp
  rw [idxScan_length, h2] at this
  unfold absent
  cases hn : (get m (E.metaK k)).isNone with
  | false => rfl
  | true => have := h3.mp hn; omega

/-- every listed member answers ZSCORE with a score `==` to the listed one … -/
theorem zscore_of_listed {m : List KV} (inv : Inv E m) {k : Bytes} (hk : E.ok k) {mem : Bytes} {s' : Nat}
    (h : (mem, s') ∈ zall E m k) :
    ∃ s, zscore E.toEncFns m k mem = .ok (some s) ∧ feqB s' s = true := by
  obtain ⟨p, hp, hd⟩ := List.mem_filterMap.mp h
  obtain ⟨s, mem1, s1', hs, he, hv, hd1, _, hf⟩ := idx_entry E inv.bij hk hp
  rw [hd1] at hd
  cases hd
  refine ⟨s, ?_, hf⟩
  unfold zscore
  rw [zcard_pos_of_idx E inv hk hp]
  simp [hv, E.score_rt s hs]

/-- … and every member ZSCORE knows is listed -/
theorem listed_of_zscore {m : List KV} (inv : Inv E m) {k : Bytes} (hk : E.ok k) {mem : Bytes} {s : Nat}
    (h : zscore E.toEncFns m k mem = .ok (some s)) :
    ∃ s', (mem, s') ∈ zall E m k ∧ feqB s' s = true := by
  unfold zscore at h
  split at h
  · cases h
  · cases hv : get m (E.memK k mem) with
    | none => simp [hv] at h
    | some v =>
      obtain ⟨s0, w, hs0, hv0, hin⟩ := idx_of_member E inv.bij hk hv
      simp only [hv, hv0, E.score_rt s0 hs0, Except.ok.injEq, Option.some.injEq] at h
      subst h
      obtain ⟨s', hd, _, hf⟩ := E.dec_score k s0 mem hk hs0
      exact ⟨s', List.mem_filterMap.mpr ⟨_, hin, hd⟩, hf⟩

/-! ### ZRANK = position in the enumeration -/

theorem getLast_takeWhile_getElem {α : Type} (l : List α) (P : α → Bool) (x : α)
    (h : (l.takeWhile P).getLast? = some x) : l[(l.takeWhile P).length - 1]? = some x := by
  have hl : l = l.takeWhile P ++ l.dropWhile P := (List.takeWhile_append_dropWhile).symm
  have hne : (l.takeWhile P) ≠ [] := by intro e; rw [e] at h; cases h
  have hpos : 0 < (l.takeWhile P).length := List.length_pos_iff.mpr hne
  rw [List.getLast?_eq_getElem?] at h
  generalize hn : (l.takeWhile P).length - 1 = n at h ⊢
  have hlt : n < (l.takeWhile P).length := by omega
  rw [hl, List.getElem?_append_left hlt]
  exact h

/-- a stored member has a rank, and the enumeration holds the member at that position -/
theorem zrank_position {m : List KV} (inv : Inv E m) {k : Bytes} (hk : E.ok k) {mem : Bytes} {s : Nat}
    (h : zscore E.toEncFns m k mem = .ok (some s)) :
    ∃ (r : Nat) (s' : Nat), zrank E.toEncFns m k mem false = .ok (r : Int) ∧ (zall E m k)[r]? = some (mem, s') ∧
      feqB s' s = true := by
  have hb := inv.bij
  unfold zscore at h
  cases hab : absent E.toEncFns m k with
  | true => simp [hab] at h
  | false =>
    cases hv : get m (E.memK k mem) with
    | none => simp [hab, hv] at h
    | some v =>
      obtain ⟨s0, w, hs0, hv0, hin⟩ := idx_of_member E hb hk hv
      simp only [hab, Bool.false_eq_true, ↓reduceIte, hv, hv0, E.score_rt s0 hs0, Except.ok.injEq, Option.some.injEq] at h
      subst h
      obtain ⟨s', hd, _, hf⟩ := E.dec_score k s0 mem hk hs0
      obtain ⟨hmem, _⟩ := mem_rscan.mp hin
      have hgw : get m (E.scoreK k s0 mem) = some w := get_of_mem hb.sorted hmem
      have hrng := E.idx_self k s0 mem hk hs0
      -- the scan [start, sk] is the prefix of the index up to sk, and ends with sk
      have hlast := filter_le_getLast hb.sorted (E.idxStart k) (E.scoreK k s0 mem) w hgw (List.le_of_lt hrng.1)
      have hpre := filter_le_eq_takeWhile hb.sorted (E.idxStart k) (E.idxStop k) (E.scoreK k s0 mem) (List.le_of_lt hrng.2)
      have hents : rscan m (E.idxStart k) (E.scoreK k s0 mem) false false =
          (idxScan E m k).takeWhile (fun p => decide (p.1 ≤ E.scoreK k s0 mem)) := by
        unfold idxScan rscan
        simp only [inRng, Bool.false_eq_true, ↓reduceIte]
        exact hpre
      have hlast' : (rscan m (E.idxStart k) (E.scoreK k s0 mem) false false).getLast? = some (E.scoreK k s0 mem, w) := by
        unfold rscan
        simp only [inRng, Bool.false_eq_true, ↓reduceIte]
        exact hlast
      have hne : rscan m (E.idxStart k) (E.scoreK k s0 mem) false false ≠ [] := by
        intro e; rw [e] at hlast'; cases hlast'
      have hpos : 0 < (rscan m (E.idxStart k) (E.scoreK k s0 mem) false false).length := List.length_pos_iff.mpr hne
      refine ⟨(rscan m (E.idxStart k) (E.scoreK k s0 mem) false false).length - 1, s', ?_, ?_, hf⟩
      · unfold zrank
        simp only [hab, Bool.false_eq_true, ↓reduceIte, hv, hv0, E.score_rt s0 hs0, hlast', hd]
        congr 1
        omega
      · rw [zall_eq_map E hb hk, List.getElem?_map]
        have := getLast_takeWhile_getElem (idxScan E m k) (fun p => decide (p.1 ≤ E.scoreK k s0 mem)) (E.scoreK k s0 mem, w)
          (by rw [← hents]; exact hlast')
        rw [← hents] at this
        rw [this]
        simp [hd]

/-! ### order of the enumeration: by score, ties by member bytes -/

/-- the order ZRANGE lists in: strictly increasing in (score, member) -/
def before (a b : Bytes × Nat) : Prop := E.lt a.2 b.2 ∨ (feqB a.2 b.2 = true ∧ a.1 < b.1)

theorem zall_sorted {m : List KV} (hb : Bij E m) {k : Bytes} (hk : E.ok k) :
    (zall E m k).Pairwise (before E) := by
  rw [zall_eq_map E hb hk, List.pairwise_map]
  apply (idxScan_pairwise E hb k).imp_of_mem
  intro p q hp hq hlt
  obtain ⟨s, mem, s', hs, he, _, hd, _, hf⟩ := idx_entry E hb hk hp
  obtain ⟨s2, mem2, s2', hs2, he2, _, hd2, _, hf2⟩ := idx_entry E hb hk hq
  rw [he, he2] at hlt
  simp only [hd, hd2, Option.getD_some, before]
  rcases (E.score_lt k s mem s2 mem2 hk hs hs2).mp hlt with h | ⟨h1, h2⟩
  · exact Or.inl ((E.lt_congr s' s s2' s2 hf hf2).mpr h)
  · exact Or.inr ⟨E.feq_trans _ _ _ (E.feq_trans _ _ _ hf h1) (E.feq_symm _ _ hf2), h2⟩

end Z.ZSetRef
