/-
  Well-formedness of stored KV values is preserved by every conforming command (`Z.KVSpec.Conforms` excludes
  the one way to corrupt a value: SET … EX / SETIFEQ … EX with an overflowing expiry instant).
-/
import ZanVerif.Data.KVRefine

namespace Z.KVRefine
open Z.KVExec Z.KVSpec Z.Header
open Z.Ref (Sorted get get_put get_del)
open Z.Codec (kvKey be64 toU64 ofU64 be64_length)

def GoodEff : Eff → Prop
  | .put raw => Good raw
  | _ => True

theorem good_of_reset {ts : Int} {v : Bytes} {d : Int} {raw : Bytes} (h : reset ts v d = .ok raw) : Good raw := by
  rw [reset_eq] at h
  split at h
  · injection h with h; subst h; exact ⟨0, 0, v, _, rfl, by decide, be64_length _⟩
  · split at h
    · cases h
    · injection h with h; subst h; exact ⟨_, 0, v, _, rfl, u32_lt _, be64_length _⟩

theorem good_putH (h : Hdr) (x : Bytes) (ts : Int) (he : h.expireAt < 4294967296) : Good (putH h x ts) :=
  ⟨h.expireAt, h.ver, x, _, putH_eq h x ts, he, be64_length _⟩

theorem good_rawExpireAt {e : Nat} {ver : Int} {u mt : Bytes} {w : Int} {raw' : Bytes} (he : e < 4294967296)
    (hm : mt.length = 8) (h : rawExpireAt (encFixed e ver ++ (u ++ mt)) w = .ok raw') : Good raw' := by
  rw [rawExpireAt_encFixed e ver _ w he] at h
  split at h
  · cases h
  · injection h with h; subst h; exact ⟨_, _, u, mt, rfl, u32_lt _, hm⟩

/-- what a command can see of a key that holds nothing or a well-formed value -/
def GoodView (V : View) : Prop :=
  V = .absent ∨ ∃ (e : Nat) (ver : Int) (u mt : Bytes) (b : Bool),
    V = .val (encFixed e ver ++ (u ++ mt)) ⟨e, ofU64 (toU64 ver), some u⟩ u b ∧ e < 4294967296 ∧ mt.length = 8

theorem setOpts_fst (ts : Int) (v : Bytes) (d : Int) (nx xx : Bool) (V : View) :
    (kvCmd (.setOpts v d nx xx) ts V).1 = (kvSetWithOpts ts v d nx xx V).1 := by
  simp only [kvCmd]
  split <;> simp_all

theorem setWith_good (ts : Int) (v : Bytes) (d : Int) (nx xx : Bool) (V : View) (hV : GoodView V)
    (hs : GoodEff (match reset ts v d with | .ok raw => (Eff.put raw, Reply.int 1) | .err e => (Eff.keep, Reply.err (eerr e))).1) :
    GoodEff (kvSetWithOpts ts v d nx xx V).1 := by
  simp only [kvSetWithOpts]
  rcases hV with rfl | ⟨e, ver, u, mt, b, rfl, he, _⟩
  · split
    · trivial
    · simp only
      split
      · trivial
      · split
        · trivial
        · exact hs
  · split
    · trivial
    · simp only
      split
      · trivial
      · split
        · trivial
        · exact hs

theorem kvCmd_good (c : KCmd) (ts : Int) (hts : 0 < ts) (V : View) (hV : GoodView V) (hok : Conforms c ts V) :
    GoodEff (kvCmd c ts V).1 := by
  have hdr : (hdrForWrite V ts).expireAt < 4294967296 := by
    rcases hV with rfl | ⟨e, ver, u, mt, b, rfl, he, _⟩
    · simp [hdrForWrite, fresh]
    · cases b <;> simp [hdrForWrite, renew, he]
  have rs : ∀ (v : Bytes) (d : Int) (r : Reply),
      GoodEff (match reset ts v d with | .ok raw => (Eff.put raw, r) | .err e => (Eff.keep, Reply.err (eerr e))).1 := by
    intro v d r
    cases h : reset ts v d with
    | ok raw => exact good_of_reset h
    | err e => trivial
  cases c with
  | set v => simp only [kvCmd]; split; · trivial
             exact rs v 0 _
  | setex d v =>
    simp only [kvCmd]; split; · trivial
    split; · trivial
    exact rs v d _
  | setOpts v d nx xx =>
    rw [setOpts_fst]
    exact setWith_good ts v d nx xx V hV (rs v d _)
  | setnx v =>
    simp only [kvCmd]
    exact setWith_good ts v 0 true false V hV (rs v 0 _)
  | setifeq old new d =>
    have hs := rs new d (.int 1)
    simp only [kvCmd]
    rcases hV with rfl | ⟨e, ver, u, mt, b, rfl, he, _⟩
    · split
      · trivial
      · simp only
        split
        · trivial
        · exact hs
    · split
      · trivial
      · simp only
        split
        · trivial
        · exact hs
  | delifeq old =>
    simp only [kvCmd]
    rcases hV with rfl | ⟨e, ver, u, mt, b, rfl, he, _⟩ <;> simp only <;> split <;> trivial
  | getset v =>
    simp only [kvCmd]
    rcases hV with rfl | ⟨e, ver, u, mt, b, rfl, he, _⟩
    · split
      · trivial
      · simp only; exact rs v 0 _
    · split
      · trivial
      · simp only; exact rs v 0 _
  | incrby d =>
    simp only [kvCmd]
    rcases hV with rfl | ⟨e, ver, u, mt, b, rfl, he, _⟩
    · simp only
      split <;> first | trivial | exact good_putH _ _ _ hdr
    · simp only
      split <;> first | trivial | exact good_putH _ _ _ hdr
  | append v =>
    simp only [kvCmd]
    split
    · trivial
    · rcases hV with rfl | ⟨e, ver, u, mt, b, rfl, he, _⟩
      · simp only; split <;> first | trivial | exact good_putH _ _ _ hdr
      · simp only; split <;> first | trivial | exact good_putH _ _ _ hdr
  | setrange off v =>
    simp only [kvCmd]
    split
    · trivial
    · split
      · trivial
      · split
        · trivial
        · rcases hV with rfl | ⟨e, ver, u, mt, b, rfl, he, _⟩
          · exact good_putH _ _ _ hdr
          · exact good_putH _ _ _ hdr
  | expire d =>
    rcases hV with rfl | ⟨e, ver, u, mt, b, rfl, he, hm⟩
    · trivial
    · cases b
      · simp only [kvCmd]
        cases h : rawExpireAt (encFixed e ver ++ (u ++ mt)) (Int.tdiv ts 1000000000 + d) with
        | ok raw' => exact good_rawExpireAt he hm h
        | err e' => trivial
      · trivial
  | persist =>
    rcases hV with rfl | ⟨e, ver, u, mt, b, rfl, he, hm⟩
    · trivial
    · cases b
      · simp only [kvCmd]
        cases h : rawExpireAt (encFixed e ver ++ (u ++ mt)) 0 with
        | ok raw' => exact good_rawExpireAt he hm h
        | err e' => trivial
      · trivial
  | del => trivial


/-- every key of the store holds nothing or a well-formed value -/
def GoodStore (m : List KV) : Prop := ∀ k, GoodAt m k

theorem goodView_of_goodAt {m : List KV} {k : Bytes} (hg : GoodAt m k) (t : Int) : GoodView (view m t k) := by
  rcases hg with hn | ⟨e, u, hst⟩
  · exact Or.inl (view_of_none t hn)
  · obtain ⟨ver, mt, hm, hv⟩ := view_stored hst
    exact Or.inr ⟨e, ver, u, mt, _, hv t, hst.1, hm⟩

/-- **well-formedness is preserved** by every conforming command -/
theorem good_preserved {m : List KV} (hs : Sorted m) (hg : GoodStore m) {ts : Int} (hts : 0 < ts) (k : Bytes) (c : KCmd)
    (hok : Conforms c ts (view m ts k)) : GoodStore (kvApply m ts k c).1 := by
  intro k'
  have hge := kvCmd_good c ts hts (view m ts k) (goodView_of_goodAt (hg k) ts) hok
  simp only [kvApply]
  by_cases hk : k' = k
  · subst hk
    cases he : (kvCmd c ts (view m ts k')).1 with
    | keep => exact hg k'
    | del => exact Or.inl (by simp [applyEff, get_del m hs])
    | put raw =>
      rw [he] at hge
      obtain ⟨e, ver, u, mt, rfl, hlt, hm⟩ := hge
      exact Or.inr ⟨e, u, stored_put hs k' e ver u mt hlt hm⟩
  · rcases hg k' with hn | ⟨e, u, hst⟩
    · left
      have hne : kvKey k' ≠ kvKey k := fun h => hk (kvKey_inj h)
      cases (kvCmd c ts (view m ts k)).1 with
      | keep => exact hn
      | put v => simp [applyEff, get_put m hs, hne, hn]
      | del => simp [applyEff, get_del m hs, hne, hn]
    · exact Or.inr ⟨e, u, stored_other hs (Ne.symm hk) hst _⟩

end Z.KVRefine
