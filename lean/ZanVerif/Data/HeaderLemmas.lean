/-
  Lemmas about the value-header model (`Z.Header`): round trip of the 13 fixed bytes, the expiry rule in
  closed form (from the REGENERATED `Gen.isExpired` / `Gen.ttlSeconds` / `Gen.ttlClamp`), monotonicity in
  time, `rawExpireAt` in closed form (from the REGENERATED `Gen.expOverflow`).
-/
import ZanVerif.Data.Header
import ZanVerif.Data.CodecLemmas
import ZanVerif.Codec.StreamLemmas

namespace Z.Header
open Z.Codec

theorem encFixed_length (e : Nat) (ver : Int) : (encFixed e ver).length = 13 := by
  simp [encFixed, beN_length, be64_length]

theorem fromBE_cons (x : UInt8) (xs : Bytes) : fromBE (x :: xs) = x.toNat * 256 ^ xs.length + fromBE xs := by
  unfold fromBE
  rw [List.foldl_cons, Z.Stream.foldl_be]
  simp

theorem fromBE_lt (b : Bytes) : fromBE b < 256 ^ b.length := by
  induction b with
  | nil => simp [fromBE]
  | cons x xs ih =>
    rw [fromBE_cons, List.length_cons, Nat.pow_succ]
    have hx : x.toNat < 256 := x.toNat_lt
    have : x.toNat * 256 ^ xs.length ≤ 255 * 256 ^ xs.length := Nat.mul_le_mul_right _ (by omega)
    omega

theorem take_left_len {a b : Bytes} {n : Nat} (h : a.length = n) : (a ++ b).take n = a := by
  subst h; simp
theorem drop_left_len {a b : Bytes} {n : Nat} (h : a.length = n) : (a ++ b).drop n = b := by
  subst h; simp

/-- the fixed part followed by anything decodes to its fields and the rest -/
theorem decode_encFixed (e : Nat) (ver : Int) (rest : Bytes) (he : e < 4294967296) :
    decode (encFixed e ver ++ rest) = .ok ⟨e, ofU64 (toU64 ver), some rest⟩ := by
  have hlen : (encFixed e ver ++ rest).length = 13 + rest.length := by
    simp [encFixed_length]
  unfold decode
  rw [if_neg (by rw [hlen]; simp [Gen.cHeaderV1Len])]
  have hhead : (encFixed e ver ++ rest).headD 0 = v1 := by simp [encFixed]
  rw [if_neg (by rw [hhead]; simp)]
  have e1 : encFixed e ver ++ rest = [v1] ++ (beN 4 e ++ (be64 (toU64 ver) ++ rest)) := by simp [encFixed]
  have e5 : encFixed e ver ++ rest = ([v1] ++ beN 4 e) ++ (be64 (toU64 ver) ++ rest) := by simp [encFixed]
  have h1 : ((encFixed e ver ++ rest).drop 1).take 4 = beN 4 e := by
    rw [e1, drop_left_len (by simp), take_left_len (beN_length 4 e)]
  have h2 : ((encFixed e ver ++ rest).drop 5).take 8 = be64 (toU64 ver) := by
    rw [e5, drop_left_len (by simp [beN_length]), take_left_len (be64_length _)]
  have h3 : (encFixed e ver ++ rest).drop 13 = rest := drop_left_len (encFixed_length e ver)
  rw [h1, h2, h3]
  rw [Z.Stream.fromBE_beN 4 e (by simpa using he)]
  rw [show be64 (toU64 ver) = beN 8 (toU64 ver) from rfl, Z.Stream.fromBE_beN 8 _ (by have := toU64_lt ver; simpa using this)]

theorem ofU64_toU64 {v : Int} (h : inI64 v) : ofU64 (toU64 v) = v := by
  unfold ofU64 toU64 inI64 at *; omega

/-- whole-second rule: for a positive clock, expired ⇔ there is an expiry second and it is ≤ ⌊ts / 1e9⌋ -/
theorem isExpired_iff (h : Hdr) (ts : Int) (hts : 0 < ts) :
    isExpired h ts = true ↔ h.expireAt ≠ 0 ∧ (h.expireAt : Int) ≤ ts / 1000000000 := by
  unfold isExpired Gen.isExpired
  have hd : Int.tdiv ts 1000000000 = ts / 1000000000 := Int.tdiv_eq_ediv_of_nonneg (by omega)
  rw [hd]
  by_cases he : h.expireAt = 0
  · simp [he]
  · have h1 : ((h.expireAt : Int) == 0) = false := by simp; omega
    have h2 : (ts == 0) = false := by simp; omega
    simp only [h1, h2, Bool.or_self, Bool.false_eq_true, if_false, decide_eq_true_eq]
    constructor
    · intro hh; exact ⟨he, by omega⟩
    · intro hh; omega

theorem isExpired_mono (h : Hdr) {t t' : Int} (ht : 0 < t) (htt : t ≤ t') (hex : isExpired h t = true) :
    isExpired h t' = true := by
  rw [isExpired_iff h t ht] at hex
  rw [isExpired_iff h t' (by omega)]
  refine ⟨hex.1, ?_⟩
  have : t / 1000000000 ≤ t' / 1000000000 := Int.ediv_le_ediv (by decide) htt
  omega

theorem isExpired_zero (h : Hdr) (ts : Int) (he : h.expireAt = 0) : isExpired h ts = false := by
  unfold isExpired Gen.isExpired; simp [he]

/-- TTL of an unexpired header with an expiry second: the remaining whole seconds, positive -/
theorem ttl_live (h : Hdr) (ts : Int) (hts : 0 < ts) (he : h.expireAt ≠ 0) (hex : isExpired h ts = false) :
    ttl h ts = (h.expireAt : Int) - ts / 1000000000 ∧ 0 < ttl h ts := by
  have hd : Int.tdiv ts 1000000000 = ts / 1000000000 := Int.tdiv_eq_ediv_of_nonneg (by omega)
  have hne : ¬ (isExpired h ts = true) := by simp [hex]
  rw [isExpired_iff h ts hts] at hne
  have hlt : ts / 1000000000 < (h.expireAt : Int) := by
    by_cases hh : (h.expireAt : Int) ≤ ts / 1000000000
    · exact absurd ⟨he, hh⟩ hne
    · omega
  unfold ttl Gen.ttlClamp Gen.ttlSeconds
  rw [hd]
  simp only [he, if_false]
  have : ¬ ((h.expireAt : Int) - ts / 1000000000 ≤ 0) := by omega
  simp only [decide_eq_true_eq, this, if_false]
  exact ⟨trivial, by omega⟩

/-- TTL of an expired header (or of one without expiry) is -1: what an absent key answers -/
theorem ttl_dead (h : Hdr) (ts : Int) (hts : 0 < ts) (hex : isExpired h ts = true ∨ h.expireAt = 0) : ttl h ts = -1 := by
  have hd : Int.tdiv ts 1000000000 = ts / 1000000000 := Int.tdiv_eq_ediv_of_nonneg (by omega)
  unfold ttl Gen.ttlClamp Gen.ttlSeconds
  rw [hd]
  rcases hex with hex | hex
  · rw [isExpired_iff h ts hts] at hex
    simp only [hex.1, if_false]
    have : (h.expireAt : Int) - ts / 1000000000 ≤ 0 := by omega
    simp [this]
  · simp [hex]

theorem u32_lt (w : Int) : u32 w < 4294967296 := by unfold u32; omega
theorem u32_of_range {w : Int} (h0 : 0 ≤ w) (h1 : w < 4294967296) : (u32 w : Int) = w := by unfold u32; omega

/-- `rawExpireAt` in closed form on a value that starts with a well-formed fixed part -/
theorem rawExpireAt_encFixed (e : Nat) (ver : Int) (rest : Bytes) (when : Int) (he : e < 4294967296) :
    rawExpireAt (encFixed e ver ++ rest) when =
      if Gen.expOverflow when then .err .overflow else .ok (encFixed (u32 when) (ofU64 (toU64 ver)) ++ rest) := by
  unfold rawExpireAt
  split
  · rfl
  · rw [decode_encFixed e ver rest he]
    simp only
    rw [drop_left_len (encFixed_length e ver)]

/-- the overflow guard: exactly the instants from 2^32 - 2 on are refused -/
theorem expOverflow_iff (when : Int) : Gen.expOverflow when = true ↔ 4294967294 ≤ when := by
  unfold Gen.expOverflow; simp


/-- live at `t` ⇔ no expiry second, or one that is still ahead -/
theorem live_iff (e : Nat) (t : Int) (ht : 0 < t) :
    Gen.isExpired (e : Int) t = false ↔ (e = 0 ∨ t / 1000000000 < (e : Int)) := by
  have h := isExpired_iff ⟨e, 0, none⟩ t ht
  have hh : isExpired ⟨e, 0, none⟩ t = Gen.isExpired (e : Int) t := rfl
  rw [hh] at h
  constructor
  · intro hf
    by_cases he : e = 0
    · exact Or.inl he
    · right
      by_cases hle : (e : Int) ≤ t / 1000000000
      · have := h.mpr ⟨he, hle⟩; rw [hf] at this; exact absurd this (by simp)
      · omega
  · intro hl
    cases hx : Gen.isExpired (e : Int) t with
    | false => rfl
    | true =>
      have := h.mp hx
      rcases hl with hl | hl
      · exact absurd hl this.1
      · have := this.2; simp only at this; omega


end Z.Header
