/-
  Sorted-set part of the rockredis key codec that `Z.Codec` does not have yet (core only):
  the score-key decoder `zDecodeScoreKey`, the member-key decoder `zDecodeSetKey`, the five score-key
  shapes of t_zset.go (`zEncodeScoreKey`, `zEncodeStartScoreKey`, `zEncodeStopScoreKey`, `zEncodeStartKey`,
  `zEncodeStopKey`) and the stored value codecs (`PutFloat64` / `Float64`, `encodeZMetaData` / `parseZMetaSize`).
-/
import ZanVerif.Data.Codec

namespace Z.Codec

def sepI : Int := (Gen.cZsetKeySep.toNat : Int)
def scoreSepI : Int := (Gen.cZsetScoreSep.toNat : Int)

/-- `zEncodeScoreKey(false, false, table, key, member, score)` -/
def zScoreK (table key member : Bytes) (bits : Nat) : Bytes := zscoreKey table key member bits sepI scoreSepI
/-- `zEncodeStartScoreKey(table, key, score)` -/
def zScoreLo (table key : Bytes) (bits : Nat) : Bytes := zscoreKey table key [] bits sepI scoreSepI
/-- `zEncodeStopScoreKey(table, key, score)`: stopMember → scoreSep + 1 -/
def zScoreHi (table key : Bytes) (bits : Nat) : Bytes := zscoreKey table key [] bits sepI (scoreSepI + 1)
/-- `zEncodeStartKey(table, key)`: minScore → sep - 1, score 0.0 -/
def zIdxStart (table key : Bytes) : Bytes := zscoreKey table key [] 0 (sepI - 1) scoreSepI
/-- `zEncodeStopKey(table, key)`: stopKey → sep + 1, score 0.0 -/
def zIdxStop (table key : Bytes) : Bytes := zscoreKey table key [] 0 (sepI + 1) scoreSepI

/-- `zDecodeScoreKey`: (table, key, member, score bits as decoded).
    `Decode` fails on an empty rest; exactly five values; `[]byte`, _, `float64`, _, `[]byte`. -/
def decZScoreKey (b : Bytes) : Dec (Bytes × Bytes × Bytes × Nat) :=
  match decTablePrefix Gen.cZScoreType b with
  | .err => .err
  | .panic => .panic
  | .ok (table, rest) =>
    if rest.isEmpty then .err else
    match decAll (rest.length + 1) rest with
    | none => .err
    | some vals =>
      match vals with
      | [MVal.bytes k, _, MVal.floatBits s, _, MVal.bytes m] => .ok (table, k, m, s)
      | _ => .err

/-- `zDecodeSetKey`: (table, key, member); a sub-key of another collection type is `errCollTypeMismatch` -/
def decZSetKey (b : Bytes) : Dec (Bytes × Bytes × Bytes) :=
  match decCollSubKey b with
  | .err => .err
  | .panic => .panic
  | .ok (dt, table, key, member) => if dt = Gen.cZSetType then .ok (table, key, member) else .err

/-- `PutFloat64`: the IEEE bit pattern, big endian -/
def putFloat64 (bits : Nat) : Bytes := be64 bits

/-- `Float64(v, nil)`: empty → 0.0, a length other than 8 → error -/
def getFloat64 (v : Bytes) : Option Nat :=
  if v.length = 0 then some 0 else if v.length ≠ 8 then none else some (fromBE v)

/-- `encodeZMetaData(size, ts, oldh)` with the header-less data version of the local-deletion policy:
    size and the write's log timestamp, both big endian int64 -/
def zMetaVal (size : Nat) (ts : Int) : Bytes := be64 (toU64 (size : Int)) ++ be64 (toU64 ts)

/-- `parseZMetaSize`: empty → 0, shorter than 8 → error, else the first 8 bytes as int64 -/
def zMetaSize (v : Bytes) : Option Int :=
  if v.length = 0 then some 0 else if v.length < 8 then none else some (ofU64 (fromBE (v.take 8)))

end Z.Codec
