/-
  What SETBIT does (`Z.BitExec.setbit`), in both layouts, for a bitmap that is not converted from a legacy string:
  `setbit_spec` — the store after it, the meta a reader decodes from it at any time, the bit function of the written
  generation (`genBit`: the new bit at `offset`, every other offset as before), the reply (the bit as it was), and the
  frame (no other key of the store changes).  Plus the congruence of every bitmap read in the keys it looks at.
-/
import ZanVerif.Data.BitFixed
import ZanVerif.Data.HeaderLemmas

namespace Z.BitExec
open Z.Ref (get put del scan Sorted get_put get_del put_sorted del_sorted)
open Z.Coll
open Z.Codec Z.Header

/-! ### headers -/

/-- a header as the layout can store it (so that it survives encode / decode) -/
def HdrOk (pol : Pol) (h : Hdr) : Prop :=
  match pol with
  | .compact => h.expireAt < 4294967296 ∧ inI64 h.ver
  | .local => h.expireAt = 0 ∧ h.ver = 0

theorem inI64_ofU64 (u : Nat) (h : u < 18446744073709551616) : inI64 (ofU64 u) := by
  unfold inI64 ofU64; split <;> omega

theorem fromBE_take_lt (b : Bytes) (n : Nat) : fromBE (b.take n) < 256 ^ n := by
  have h1 := fromBE_lt (b.take n)
  have h2 : 256 ^ (b.take n).length ≤ 256 ^ n := Nat.pow_le_pow_right (by omega) (by rw [List.length_take]; omega)
  omega

theorem decode_hdrOk (raw : Bytes) (h : Hdr) (hd : decode raw = .ok h) : HdrOk .compact h := by
  unfold decode at hd
  split at hd
  · cases hd
  · split at hd
    · cases hd
    · cases hd
      refine ⟨?_, inI64_ofU64 _ ?_⟩
      · have := fromBE_take_lt (raw.drop 1) 4; simpa using this
      · have := fromBE_take_lt (raw.drop 5) 8; simpa using this

theorem mview_hdrOk (pol : Pol) (m : List KV) (ts : Int) (table rk : Bytes) (h : Hdr) (ex : Bool)
    (hm : mview pol m ts table rk = .mv h ex) : HdrOk pol h := by
  unfold mview at hm
  split at hm
  · cases hm
    cases pol
    · exact ⟨by decide, by unfold inI64; decide⟩
    · exact ⟨rfl, rfl⟩
  · rename_i raw _
    cases pol with
    | compact =>
      simp only [decodeMeta, decodeOpt] at hm
      split at hm
      · cases hm
      · rename_i h' hd; cases hm; exact decode_hdrOk raw _ hd
    | «local» =>
      simp only [decodeMeta] at hm
      cases hm; exact ⟨rfl, rfl⟩

theorem bmeta_mview (pol : Pol) (m : List KV) (ts : Int) (table rk : Bytes) (h : Hdr) (ex : Bool) (size : Int) (ok : Bool)
    (hm : bmeta pol m ts table rk = .mk h ex size ok) : mview pol m ts table rk = .mv h ex := by
  unfold bmeta at hm
  split at hm
  · cases hm
  · rename_i h' ex' hmv
    simp only at hm
    split at hm
    · cases hm; exact hmv
    · split at hm
      · cases hm
      · cases hm; exact hmv

theorem renewH_ok (pol : Pol) (h : Hdr) (ts : Int) (ho : HdrOk pol h) (hts : inI64 ts) : HdrOk pol (renewH pol h ts) := by
  cases pol
  · exact ⟨by simp [renewH, renew], hts⟩
  · exact ho

theorem wHdr_ok (pol : Pol) (h : Hdr) (ex : Bool) (ts : Int) (ho : HdrOk pol h) (hts : inI64 ts) : HdrOk pol (wHdr pol h ex ts) := by
  unfold wHdr; split
  · exact renewH_ok pol h ts ho hts
  · exact ho

/-- encode, then decode: the header and its user data come back -/
theorem decode_encodeMeta (pol : Pol) (H : Hdr) (u : Bytes) (ho : HdrOk pol H) :
    decodeMeta pol (some (encodeMeta pol { H with user := some u })) = .ok { H with user := some u } := by
  cases pol with
  | compact =>
    simp only [decodeMeta, decodeOpt, encodeMeta, encode, Option.getD_some]
    rw [decode_encFixed H.expireAt H.ver u ho.1, ofU64_toU64 ho.2]
  | «local» =>
    obtain ⟨h1, h2⟩ := ho
    simp only [decodeMeta, encodeMeta, Option.getD_some]
    cases H; simp_all

theorem metaUser_length (size ts : Int) : (metaUser size ts).length = 16 := by
  simp [metaUser, be64_length]

theorem metaUser_size (size ts : Int) (h : inI64 size) : ofU64 (fromBE ((metaUser size ts).take 8)) = size := by
  unfold metaUser
  rw [take_left_len (be64_length _), show be64 (toU64 size) = beN 8 (toU64 size) from rfl,
    Z.Stream.fromBE_beN 8 _ (by have := toU64_lt size; simpa using this), ofU64_toU64 h]

/-! ### the written segment -/

theorem grow_length_gt (v : Bytes) (bo : Nat) : bo < (grow v bo).length := by
  unfold grow Gen.bitGrowNeeded Gen.bitGrowFar Gen.bitGrowFarSize Gen.bitGrowDefault
  simp only [decide_eq_true_eq]
  split
  · rw [List.length_append, List.length_replicate]
    split <;> omega
  · omega

theorem getD_set_eq (v : Bytes) (i : Nat) (x : UInt8) (h : i < v.length) : (v.set i x).getD i 0 = x := by
  rw [List.getD_eq_getElem?_getD, List.getElem?_set, if_pos rfl, if_pos h]; rfl

theorem segAfter_getD (v : Bytes) (offset on : Int) (i : Nat) :
    (segAfter v offset on).getD i 0 =
      if i = byteOffOf offset then setBitTo (v.getD (byteOffOf offset) 0) (bitPos offset) (on == 1) else v.getD i 0 := by
  unfold segAfter
  by_cases h : i = byteOffOf offset
  · subst h
    rw [if_pos rfl, getD_set_eq _ _ _ (grow_length_gt v _), getD_grow]
  · rw [if_neg h, getD_set_ne _ _ _ _ (fun e => h e.symm), getD_grow]

theorem oldBitOf_eq (v : Bytes) (offset : Int) : oldBitOf v offset = testBit (v.getD (byteOffOf offset) 0) (bitPos offset) := by
  unfold oldBitOf; rw [getD_grow]

/-- the bit function of generation `vk` of `table` -/
def genBit (m : List KV) (table vk : Bytes) (o : Nat) : Bool := testBit (byteAt m table vk (o / 8)) (7 - o % 8)

theorem byteOffOf_nat (o : Nat) : byteOffOf (o : Int) = o / 8 % 1024 := by
  unfold byteOffOf Gen.bitSetByteOff
  rw [segBytes_val, Int.tdiv_eq_ediv_of_nonneg (by omega), Int.tmod_eq_emod_of_nonneg (by omega)]; omega

theorem bitPos_nat (o : Nat) : bitPos (o : Int) = 7 - o % 8 := by
  unfold bitPos Gen.bitBitPos; omega

theorem setIndex_nat (o : Nat) : Gen.bitSetIndex (o : Int) = Gen.cBitmapSegBytes * ((o / 8 / 1024 : Nat) : Int) := by
  rw [setIndex_eq _ (by omega), segBytes_val]; omega

/-! ### the frame of two puts -/

theorem get_put2 {m : List KV} (hs : Sorted m) (a b c d x : Bytes) (hac : a ≠ c) :
    get (put (put m a b) c d) x = if x = c then some d else if x = a then some b else get m x := by
  rw [get_put _ (put_sorted hs a b), get_put m hs]

theorem applyW_two (m : List KV) (a b c d : Bytes) : applyW m [.put a b, .put c d] = put (put m a b) c d := rfl

/-! ### SETBIT -/

theorem valueGuard (on : Int) (h : on = 0 ∨ on = 1) : Gen.bitValueBad on = false := by
  rcases h with rfl | rfl <;> decide

theorem offsetGuard' (offset : Int) (h0 : 0 ≤ offset) (h1 : offset ≤ 4294967294) : Gen.bitOffsetBad offset = false := by
  unfold Gen.bitOffsetBad
  rw [show Gen.cMaxBitOffsetV2 = 4294967294 from rfl]
  simp only [Bool.or_eq_false_iff, decide_eq_false_iff_not]
  omega

theorem sizeAfter_ge (bmv : Bytes) (offset size1 : Int) : size1 ≤ sizeAfter bmv offset size1 := by
  unfold sizeAfter Gen.bitSizeGrows Gen.bitSizeNew
  split
  · rename_i h
    simp only [Bool.and_eq_true, decide_eq_true_eq] at h
    omega
  · omega

theorem sizeAfter_le (bmv : Bytes) (offset size1 : Int) (h0 : 0 ≤ offset) (h1 : offset ≤ 4294967294) (hl : bmv.length ≤ 2046) :
    sizeAfter bmv offset size1 ≤ max size1 4294967296 := by
  have hb := byteOffOf_lt offset h0
  have hg : (grow bmv (byteOffOf offset)).length ≤ 2046 := by
    unfold grow Gen.bitGrowNeeded Gen.bitGrowFar Gen.bitGrowFarSize Gen.bitGrowDefault
    simp only [decide_eq_true_eq]
    split
    · rw [List.length_append, List.length_replicate]; split <;> omega
    · exact hl
  have hi : Gen.bitSetIndex offset ≤ 536870912 := by
    rw [setIndex_eq offset h0, segBytes_val]; omega
  unfold sizeAfter Gen.bitSizeGrows Gen.bitSizeNew
  split <;> omega

/-- the size `bitSetToNew` starts from when nothing is converted: the stored size of a live bitmap, 0 for an absent or
    expired one (`bmSize = 0`, fix 0ad0963) -/
def startSize (size0 : Int) (ok : Bool) : Int := if ok = true then size0 else 0

/-- **SETBIT, no legacy conversion** (a live v2 bitmap, or no string stored under the name): the new store, what a reader
    decodes, the reply, the bits of the written generation, the frame -/
theorem setbit_spec (pol : Pol) {m : List KV} (hs : Sorted m) (ts : Int) (table rk : Bytes) (offset : Nat) (on : Int)
    (ht : table.length < 65536) (hts : inI64 ts) (hv : on = 0 ∨ on = 1) (ho : (offset : Int) ≤ 4294967294)
    (h : Hdr) (ex : Bool) (size0 : Int) (ok : Bool) (hm : bmeta pol m ts table rk = .mk h ex size0 ok)
    (hnc : ok = true ∨ get m (strK table rk) = none) :
    ∃ (m' : List KV) (size2 : Int),
      setbit pol m ts table rk offset on =
        (m', .ok (if genBit m table (vkey pol rk (wHdr pol h ex ts).ver) offset then 1 else 0)) ∧
      Sorted m' ∧ startSize size0 ok ≤ size2 ∧
      size2 = sizeAfter ((get m (segK table (vkey pol rk (wHdr pol h ex ts).ver) (Gen.bitSetIndex offset))).getD []) offset (startSize size0 ok) ∧
      get m' (metaK table rk) = some (encodeMeta pol { wHdr pol h ex ts with user := some (metaUser size2 ts) }) ∧
      (∀ o : Nat, o < 9223372036854775808 → genBit m' table (vkey pol rk (wHdr pol h ex ts).ver) o =
        if o = offset then decide (on = 1) else genBit m table (vkey pol rk (wHdr pol h ex ts).ver) o) ∧
      (∀ x, x ≠ segK table (vkey pol rk (wHdr pol h ex ts).ver) (Gen.bitSetIndex offset) → x ≠ metaK table rk → get m' x = get m x) ∧
      (WF m → WF m' ∧ size2 ≤ max (startSize size0 ok) 4294967296) := by
  generalize hH : wHdr pol h ex ts = H
  generalize hbk : segK table (vkey pol rk H.ver) (Gen.bitSetIndex offset) = bmk
  have hconv : startOf m table rk size0 ok = (m, startSize size0 ok) := by
    unfold startOf startSize
    by_cases hok : ok = true
    · rw [if_pos hok, if_pos hok]
    · rw [if_neg hok, if_neg hok]
      rcases hnc with h1 | h1
      · exact absurd h1 hok
      · unfold convert; rw [h1]
  have hne : bmk ≠ metaK table rk := by rw [← hbk]; exact segK_ne_metaK _ _ _ _ _
  refine ⟨put (put m bmk (segAfter ((get m bmk).getD []) offset on)) (metaK table rk)
      (encodeMeta pol { H with user := some (metaUser (sizeAfter ((get m bmk).getD []) offset (startSize size0 ok)) ts) }),
    sizeAfter ((get m bmk).getD []) offset (startSize size0 ok), ?_, put_sorted (put_sorted hs _ _) _ _, sizeAfter_ge _ _ _, rfl, ?_, ?_, ?_, ?_⟩
  · unfold setbit
    rw [if_neg (by rw [valueGuard on hv]; simp), if_neg (by rw [offsetGuard' offset (by omega) ho]; simp), hm]
    simp only
    rw [hconv]
    simp only
    rw [hH, hbk, applyW_two, oldBitOf_eq]
    congr 3
    -- the reply: the bit as it was
    unfold genBit byteAt
    rw [byteOffOf_nat, bitPos_nat, ← hbk, setIndex_nat]
  · rw [get_put2 hs _ _ _ _ _ hne, if_pos rfl]
  · intro o hob
    unfold genBit byteAt
    by_cases hseg : o / 8 / 1024 = offset / 8 / 1024
    · -- same segment
      have hk : segK table (vkey pol rk H.ver) (Gen.cBitmapSegBytes * ((o / 8 / 1024 : Nat) : Int)) = bmk := by
        rw [← hbk, setIndex_nat, hseg]
      rw [hk, get_put2 hs _ _ _ _ _ hne, if_neg hne, if_pos rfl]
      simp only [Option.getD_some]
      rw [segAfter_getD, byteOffOf_nat, bitPos_nat]
      by_cases hbyte : o / 8 % 1024 = offset / 8 % 1024
      · rw [if_pos hbyte, testBit_setBitTo _ _ _ (by omega) (by omega)]
        by_cases hbit : o % 8 = offset % 8
        · have : o = offset := by omega
          subst this
          simp only [if_true]
          rcases hv with rfl | rfl <;> rfl
        · rw [if_neg (by omega), if_neg (by omega), hbyte]
      · rw [if_neg hbyte, if_neg (by omega)]
    · have hk : segK table (vkey pol rk H.ver) (Gen.cBitmapSegBytes * ((o / 8 / 1024 : Nat) : Int)) ≠ bmk := by
        rw [← hbk, setIndex_nat]
        intro e
        have := (segK_inj ht ht (inI64_seg _ (by omega)) (inI64_seg _ (by omega)) e).2.2
        rw [segBytes_val] at this
        omega
      rw [get_put2 hs _ _ _ _ _ hne, if_neg (fun e => segK_ne_metaK _ _ _ _ _ e), if_neg hk, if_neg (by omega)]
  · intro x hx1 hx2
    rw [get_put2 hs _ _ _ _ _ hne, if_neg hx2, if_neg hx1]
  · intro W
    have hseg : ZeroTail ((get m bmk).getD []) ∧ ((get m bmk).getD []).length ≤ 2046 := by
      cases hg : get m bmk with
      | none => exact ⟨ZeroTail.nil, by simp⟩
      | some v =>
        have hp := (Z.Coll.get_eq_some_iff W.sorted _ _).mp hg
        obtain ⟨_, _, _, _, _, _, hz, hl⟩ := W.seg _ hp (by rw [← hbk]; exact segK_head _ _ _)
        exact ⟨hz, hl⟩
    refine ⟨?_, sizeAfter_le _ _ _ (by omega) ho hseg.2⟩
    apply WF.put_other
    · apply W.put
      intro _
      have := segPair_setbit table (vkey pol rk H.ver) ((get m bmk).getD []) offset on ht (offsetGuard' offset (by omega) ho) hseg.1 hseg.2
      rw [hbk] at this
      exact this
    · rw [metaK_head]; decide

end Z.BitExec
