/-
  The size invariant of a bitmap: the stored size covers every stored segment of the generation a reader sees
  (`SizeOK`).  Established by the SETBIT that starts a generation — from size 0 (fix 0ad0963), under the fresh-generation
  proviso —, kept by every later SETBIT on the key and by every SETBIT on another key.  A generation that starts on a fresh
  generation has exactly the size a never-used key gets (`sizeAfter_fresh`).
-/
import ZanVerif.Data.BitRead

namespace Z.BitExec
open Z.Ref (get put del scan Sorted mem_scan)
open Z.Coll
open Z.Codec Z.Header

/-- whenever a reader sees a live bitmap, every stored segment of its generation ends within the stored size -/
def SizeOK (pol : Pol) (m : List KV) (table rk : Bytes) : Prop :=
  ∀ (t : Int) (h : Hdr) (ex : Bool) (size : Int), bmeta pol m t table rk = .mk h ex size true →
    ∀ (j : Nat) (v : Bytes), j < 9007199254740992 → get m (segK table (vkey pol rk h.ver) (Gen.cBitmapSegBytes * (j : Int))) = some v →
      Gen.cBitmapSegBytes * (j : Int) + v.length ≤ size

theorem segAfter_length (v : Bytes) (offset on : Int) : (segAfter v offset on).length = (grow v (byteOffOf offset)).length := by
  unfold segAfter; rw [List.length_set]

theorem grow_length_ge (v : Bytes) (bo : Nat) : v.length ≤ (grow v bo).length := by
  unfold grow; split
  · rw [List.length_append]; omega
  · omega

theorem grow_same (v : Bytes) (bo : Nat) (h : Gen.bitGrowNeeded bo v.length = false) : grow v bo = v := by
  unfold grow; rw [h]; simp

/-- the size SETBIT writes covers the segment it writes, provided the old size covered the old segment -/
theorem sizeAfter_covers (bmv : Bytes) (offset size1 : Int) (hold : Gen.bitSetIndex offset + bmv.length ≤ size1 ∨ bmv = []) (h0 : 0 ≤ offset) :
    Gen.bitSetIndex offset + (segAfter bmv offset 0).length ≤ sizeAfter bmv offset size1 := by
  rw [segAfter_length]
  unfold sizeAfter Gen.bitSizeGrows Gen.bitSizeNew
  by_cases hg : Gen.bitGrowNeeded (byteOffOf offset) bmv.length = true
  · rw [hg]
    simp only [Bool.true_and, decide_eq_true_eq]
    split <;> omega
  · have hg' : Gen.bitGrowNeeded (byteOffOf offset) bmv.length = false := by simpa using hg
    rw [hg', grow_same _ _ hg']
    simp only [Bool.false_and, Bool.false_eq_true, if_false]
    rcases hold with h | h
    · exact h
    · subst h
      unfold Gen.bitGrowNeeded at hg'
      simp at hg'

theorem segAfter_length_on (v : Bytes) (offset on on' : Int) : (segAfter v offset on).length = (segAfter v offset on').length := by
  rw [segAfter_length, segAfter_length]

/-- **kept / established by SETBIT on the key itself** (no legacy conversion): if the generation SETBIT writes to was
    covered by the old size — or is fresh —, the new size covers it -/
theorem SizeOK_setbit_self (pol : Pol) {m : List KV} (W : WF m) (ts : Int) (table rk : Bytes) (offset : Nat) (on : Int)
    (ht : table.length < 65536) (hts : inI64 ts) (hv : on = 0 ∨ on = 1) (ho : (offset : Int) ≤ 4294967294)
    (h : Hdr) (ex : Bool) (size0 : Int) (ok : Bool) (hm : bmeta pol m ts table rk = .mk h ex size0 ok)
    (hnc : ok = true ∨ get m (strK table rk) = none)
    (hold : ∀ (j : Nat) (v : Bytes), j < 9007199254740992 →
      get m (segK table (vkey pol rk (wHdr pol h ex ts).ver) (Gen.cBitmapSegBytes * (j : Int))) = some v →
      Gen.cBitmapSegBytes * (j : Int) + v.length ≤ startSize size0 ok) :
    SizeOK pol (setbit pol m ts table rk offset on).1 table rk := by
  intro t h' ex' size' hm' j v hj hg
  have hs := W.sorted
  -- unfold what SETBIT wrote (as in `setbit_spec`)
  have hconv : startOf m table rk size0 ok = (m, startSize size0 ok) := by
    unfold startOf startSize
    by_cases hok : ok = true
    · rw [if_pos hok, if_pos hok]
    · rw [if_neg hok, if_neg hok]
      rcases hnc with h1 | h1
      · exact absurd h1 hok
      · unfold convert; rw [h1]
  generalize hH : wHdr pol h ex ts = H at hold
  generalize hbk : segK table (vkey pol rk H.ver) (Gen.bitSetIndex offset) = bmk
  have hne : bmk ≠ metaK table rk := by rw [← hbk]; exact segK_ne_metaK _ _ _ _ _
  have heq : (setbit pol m ts table rk offset on).1 =
      put (put m bmk (segAfter ((get m bmk).getD []) offset on)) (metaK table rk)
        (encodeMeta pol { H with user := some (metaUser (sizeAfter ((get m bmk).getD []) offset (startSize size0 ok)) ts) }) := by
    unfold setbit
    rw [if_neg (by rw [valueGuard on hv]; simp), if_neg (by rw [offsetGuard' offset (by omega) ho]; simp), hm]
    simp only
    rw [hconv]
    simp only
    rw [hH, hbk, applyW_two]
  rw [heq] at hm' hg
  have hokH : HdrOk pol H := by
    rw [← hH]
    exact wHdr_ok pol h ex ts (mview_hdrOk pol m ts table rk h ex (bmeta_mview pol m ts table rk h ex size0 ok hm)) hts
  have hsin := bmeta_size_in pol m ts table rk h ex size0 ok hm
  have hseg : ((get m bmk).getD []).length ≤ 2046 := by
    cases hgm : get m bmk with
    | none => simp
    | some v0 =>
      have hp := (Z.Coll.get_eq_some_iff W.sorted _ _).mp hgm
      obtain ⟨_, _, _, _, _, _, _, hl⟩ := W.seg _ hp (by rw [← hbk]; exact segK_head _ _ _)
      exact hl
  have hle := sizeAfter_le ((get m bmk).getD []) offset (startSize size0 ok) (by omega) ho hseg
  have hge := sizeAfter_ge ((get m bmk).getD []) offset (startSize size0 ok)
  have hss : inI64 (startSize size0 ok) := by unfold startSize; split; exact hsin; unfold inI64; omega
  have hsz : inI64 (sizeAfter ((get m bmk).getD []) offset (startSize size0 ok)) := by unfold inI64 at *; omega
  have hwritten := bmeta_of_written pol _ table rk H _ ts hokH hsz
    (show get (put (put m bmk (segAfter ((get m bmk).getD []) offset on)) (metaK table rk) _) (metaK table rk) = _ by
      rw [get_put2 hs _ _ _ _ _ hne, if_pos rfl]) t
  rw [hwritten] at hm'
  injection hm' with e1 _ e3 _
  subst e1
  rw [← e3]
  simp only at hg
  rw [get_put2 hs _ _ _ _ _ hne, if_neg (fun e => segK_ne_metaK _ _ _ _ _ e)] at hg
  by_cases hk : segK table (vkey pol rk H.ver) (Gen.cBitmapSegBytes * (j : Int)) = bmk
  · rw [if_pos hk] at hg
    injection hg with hg
    subst hg
    -- the written segment
    have hidx : Gen.cBitmapSegBytes * (j : Int) = Gen.bitSetIndex offset := by
      rw [← hbk] at hk
      exact (segK_inj ht ht (inI64_seg j hj) (by rw [setIndex_nat]; exact inI64_seg _ (by omega)) hk).2.2
    rw [hidx, segAfter_length_on _ _ on 0]
    apply sizeAfter_covers _ _ _ _ (by omega)
    cases hgm : get m bmk with
    | none => exact Or.inr rfl
    | some v0 =>
      left
      simp only [Option.getD_some]
      have := hold (offset / 8 / 1024) v0 (by omega) (by rw [← setIndex_nat, hbk]; exact hgm)
      rw [← setIndex_nat] at this
      exact this
  · rw [if_neg hk] at hg
    have := hold j v hj hg
    omega

/-- **kept by SETBIT on another key** -/
theorem SizeOK_setbit_other (pol : Pol) {m : List KV} (hs : Sorted m) (ts : Int) (table rk : Bytes) (offset : Nat) (on : Int)
    (ht : table.length < 65536) (hts : inI64 ts) (hv : on = 0 ∨ on = 1) (ho : (offset : Int) ≤ 4294967294)
    (h : Hdr) (ex : Bool) (size0 : Int) (ok : Bool) (hm : bmeta pol m ts table rk = .mk h ex size0 ok)
    (hnc : ok = true ∨ get m (strK table rk) = none) (hc : Gen.cTableStartSep ∉ table)
    (table' rk' : Bytes) (ht' : table'.length < 65536) (hc' : Gen.cTableStartSep ∉ table') (hne : ¬ (table' = table ∧ rk' = rk))
    (S : SizeOK pol m table' rk') : SizeOK pol (setbit pol m ts table rk offset on).1 table' rk' := by
  obtain ⟨m', size2, heq, _, _, _, _, _, hframe, _⟩ :=
    setbit_spec pol hs ts table rk offset on ht hts hv ho h ex size0 ok hm hnc
  rw [heq]
  have K := sameKeys_other pol m m' table rk table' rk' _ _ ht ht' hc hc' ⟨_, rfl⟩ hframe hne
  intro t h' ex' size' hm' j v hj hg
  rw [bmeta_congr pol m m' t table' rk' K.hmeta] at hm'
  rw [K.hseg] at hg
  exact S t h' ex' size' hm' j v hj hg

theorem grow_nil_length (bo : Nat) : (grow [] bo).length = bo + 1 := by
  unfold grow Gen.bitGrowNeeded Gen.bitGrowFar Gen.bitGrowFarSize
  simp only [List.length_nil, List.nil_append]
  rw [if_pos (by simp), if_pos (by simp), List.length_replicate]
  omega

/-- the size a SETBIT gives a generation that holds nothing yet: the end of the segment it writes — what a never-used key gets -/
theorem sizeAfter_fresh (offset : Int) (h0 : 0 ≤ offset) :
    sizeAfter [] offset 0 = Gen.bitSetIndex offset + ((byteOffOf offset : Nat) : Int) + 1 := by
  have hi : 0 ≤ Gen.bitSetIndex offset := by rw [setIndex_eq offset h0, segBytes_val]; omega
  unfold sizeAfter
  rw [grow_nil_length]
  unfold Gen.bitGrowNeeded Gen.bitSizeGrows Gen.bitSizeNew
  simp only [List.length_nil]
  rw [if_pos (by simp only [Bool.and_eq_true, decide_eq_true_eq]; omega)]
  omega

end Z.BitExec
