/-
  C15 model: namespace cut at the first ':' (common.ExtractNamesapce) and the partition function.
  The arithmetic of the partition function itself is *regenerated* from the Go source into
  `ZanVerif.Gen.Partition` (server: node/namespace.go, SDK: go-zanredisdb/cluster.go).
-/
import ZanVerif.Base.Murmur3
import ZanVerif.Gen.Partition

namespace Z.Route

abbrev Bytes := List UInt8

/-- `bytes.IndexByte(rawKey, ':')` -/
def indexByte : Bytes → UInt8 → Option Nat
  | [], _ => none
  | b :: r, c => if b = c then some 0 else (indexByte r c).map (· + 1)

/-- `common.ExtractNamesapce`: error when there is no ':' or it is the first byte -/
def extractNamespace (raw : Bytes) : Option (Bytes × Bytes) :=
  match indexByte raw Gen.namespaceTableSeperator with
  | none => none
  | some 0 => none
  | some i => some (raw.take i, raw.drop (i + 1))

/-- `int(murmur3.Sum32(pk))` on a 64-bit platform: a non-negative Int -/
def hashedKey (pk : Bytes) : Int := ((Z.Murmur3.sum32 pk).toNat : Int)

def serverPartition (pk : Bytes) (n : Int) : Int := Gen.serverPartition (hashedKey pk) n
def sdkPartition (pk : Bytes) (n : Int) : Int := Gen.sdkPartition (hashedKey pk) n

/-- what `GetPKAndHashSum` + `GetNamespaceNodeWithPrimaryKeySum` compute for a raw key -/
def route (raw : Bytes) (n : Int) : Option (Bytes × Bytes × Int) :=
  match extractNamespace raw with
  | none => none
  | some (ns, pk) => some (ns, pk, Gen.serverPartitionSum (hashedKey pk) n)

/-- the SDK's sharding key for a raw key built by `NewPKey(ns, …)`: `RawKey[len(ns)+1:]` -/
def sdkShardingKey (ns raw : Bytes) : Bytes := raw.drop (ns.length + 1)

end Z.Route
