/-
Scratch prototype for C15: merge commands (EXISTS / DEL) split their key list by partition, run on
the per-partition stores and add the counts.  That equals running on one store holding everything -
for every key list (duplicates included), every partition function and every partition count.
-/
namespace Z.Merge

variable {K : Type} [DecidableEq K]

def sumTo : Nat → (Nat → Nat) → Nat
  | 0, _ => 0
  | n + 1, f => sumTo n f + f n

theorem sumTo_add (n : Nat) (f g : Nat → Nat) : sumTo n (fun i => f i + g i) = sumTo n f + sumTo n g := by
  induction n with
  | zero => rfl
  | succ n ih => simp only [sumTo, ih]; omega

theorem sumTo_congr (n : Nat) (f g : Nat → Nat) (h : ∀ i, i < n → f i = g i) : sumTo n f = sumTo n g := by
  induction n with
  | zero => rfl
  | succ n ih => simp only [sumTo]; rw [ih (fun i hi => h i (by omega)), h n (by omega)]

theorem sumTo_zero (n : Nat) (f : Nat → Nat) (h : ∀ i, i < n → f i = 0) : sumTo n f = 0 := by
  induction n with
  | zero => rfl
  | succ n ih => simp only [sumTo]; rw [ih (fun i hi => h i (by omega)), h n (by omega)]

theorem sumTo_indicator (n p c : Nat) (hp : p < n) : sumTo n (fun i => if p = i then c else 0) = c := by
  induction n with
  | zero => omega
  | succ n ih =>
    simp only [sumTo]
    by_cases h : p = n
    · subst h
      rw [sumTo_zero p _ (fun i hi => by have : p ≠ i := by omega
                                         simp [this])]
      simp
    · rw [ih (by omega)]; simp [h]

/-- EXISTS on one store: number of listed keys (with repetitions) that are present -/
def existsCount (present : K → Bool) (keys : List K) : Nat := (keys.filter present).length

/-- the keys routed to partition i, in order, duplicates kept (getHandlersForKeys) -/
def routed (part : K → Nat) (i : Nat) (keys : List K) : List K := keys.filter (fun k => part k == i)

/-- partition i's store holds exactly the keys that hash to i -/
def localPresent (part : K → Nat) (present : K → Bool) (i : Nat) : K → Bool := fun k => present k && (part k == i)

def merged (part : K → Nat) (present : K → Bool) (n : Nat) (keys : List K) : Nat :=
  sumTo n fun i => existsCount (localPresent part present i) (routed part i keys)

theorem cnt_cons (part : K → Nat) (present : K → Bool) (i : Nat) (k : K) (ks : List K) :
    existsCount (localPresent part present i) (routed part i (k :: ks)) =
      (if part k = i then (if present k then 1 else 0) else 0) +
        existsCount (localPresent part present i) (routed part i ks) := by
  unfold existsCount routed
  by_cases hi : part k = i
  · have h1 : (part k == i) = true := by simpa using hi
    rw [List.filter_cons, if_pos h1, List.filter_cons]
    have h2 : localPresent part present i k = present k := by simp [localPresent, h1]
    rw [h2]
    by_cases hpk : present k = true
    · simp [hi, hpk]; omega
    · simp [hi, hpk]
  · have h1 : ¬ (part k == i) = true := by simpa using hi
    rw [List.filter_cons, if_neg h1]
    simp [hi]

/-- **merge = single store** -/
theorem merged_eq (part : K → Nat) (present : K → Bool) (n : Nat) (hpart : ∀ k, part k < n) :
    ∀ keys : List K, merged part present n keys = existsCount present keys := by
  intro keys
  induction keys with
  | nil => exact sumTo_zero n _ (fun _ _ => rfl)
  | cons k ks ih =>
    have hsplit : merged part present n (k :: ks) =
        sumTo n (fun i => if part k = i then (if present k then 1 else 0) else 0) +
          merged part present n ks := by
      unfold merged
      rw [← sumTo_add]
      apply sumTo_congr
      intro i _
      exact cnt_cons part present i k ks
    rw [hsplit, sumTo_indicator n (part k) _ (hpart k), ih]
    simp only [existsCount, List.filter_cons]
    by_cases hpk : present k = true
    · simp [hpk]; omega
    · simp [hpk]

#print axioms merged_eq
end Z.Merge
