/-
  C15 model of the data node's namespace registry (node/namespace.go, `NamespaceMgr`):
    kvNodes  : full name (`conf.Name`) ↦ partition node        — here a list of `Node`s (full name, `conf.BaseName`,
                                                                  partition index, the partition count it was created with)
    nsMetas  : base name ↦ `NamespaceMeta{PartitionNum}`        — here a function `Name → Option Int`
  and of the three functions that read / write them:
    `InitNamespaceNode`                    → `init`     (creates the meta, REPLACES it on a partition-count mismatch)
    the callback of `onNamespaceStopped`   → `stopped`  (drops the meta when no registered full name parses to the base)
    `GetNamespaceNodeWithPrimaryKeySum`    → `route`    (divides by `nsMetas[base].PartitionNum`)
  Names are `List Char` (ASCII). `common.GetNsDesp` and `common.GetNamespaceAndPartition` (SplitN at the FIRST '-', then
  strconv.Atoi) are modelled character by character: a base name that itself contains '-' does NOT parse back to itself,
  exactly as in the code. The partition arithmetic is the regenerated `Gen.serverPartitionSum` of Route/Partition.lean;
  the decisions of `InitNamespaceNode` (the PartitionNum guard, the mismatch test, what is stored on first init and on a
  mismatch) are the regenerated `Gen.initPartitionNumInvalid / metaMismatch / metaOnFirstInit / metaOnMismatch` of
  Gen/Registry.lean, which also pins the statement order of InitNamespaceNode, the stopped callback, the routing lookup
  and GetNsDesp / GetNamespaceAndPartition (tools/translate/gen_registry.go).
  Core only (linked into the native driver).
-/
import ZanVerif.Route.Partition
import ZanVerif.Gen.Registry

namespace Z.Reg
open Z.Route

abbrev Name := List Char

/-! ### strconv.Itoa, strconv.Atoi (64-bit int), common.GetNsDesp, common.GetNamespaceAndPartition -/

def digitChar (d : Nat) : Char := Char.ofNat (48 + d)

/-- decimal digits, most significant first; `fuel > n` is always enough -/
def natDigitsAux : Nat → Nat → List Char
  | 0, _ => []
  | fuel + 1, n => if n < 10 then [digitChar n] else natDigitsAux fuel (n / 10) ++ [digitChar (n % 10)]

def natDigits (n : Nat) : List Char := natDigitsAux (n + 1) n

/-- `strconv.Itoa` -/
def itoa : Int → List Char
  | .ofNat n => natDigits n
  | .negSucc n => '-' :: natDigits (n + 1)

def digitVal (c : Char) : Option Nat :=
  if 48 ≤ c.toNat ∧ c.toNat ≤ 57 then some (c.toNat - 48) else none

def parseDigits : List Char → Nat → Option Nat
  | [], acc => some acc
  | c :: r, acc =>
    match digitVal c with
    | none => none
    | some d => parseDigits r (acc * 10 + d)

/-- one or more ASCII digits (no sign, no underscore: base 10) -/
def parseNat (s : List Char) : Option Nat :=
  match s with
  | [] => none
  | _ :: _ => parseDigits s 0

def maxInt : Nat := 9223372036854775808   -- 2^63

/-- `strconv.Atoi` on a 64-bit platform: optional sign, at least one digit, nothing else, value inside int64
    (`none` = the error return, syntax or range) -/
def atoi (s : List Char) : Option Int :=
  match s with
  | [] => none
  | c :: r =>
    if c = '-' then
      match parseNat r with
      | none => none
      | some v => if v ≤ maxInt then some (-(v : Int)) else none
    else if c = '+' then
      match parseNat r with
      | none => none
      | some v => if v < maxInt then some (v : Int) else none
    else
      match parseNat s with
      | none => none
      | some v => if v < maxInt then some (v : Int) else none

/-- `common.GetNsDesp(ns, part)` = ns + "-" + strconv.Itoa(part) -/
def nsDesp (ns : Name) (part : Int) : Name := ns ++ '-' :: itoa part

/-- `strings.SplitN(s, "-", 2)` when it yields two pieces: (before the first '-', everything after it) -/
def splitDash : Name → Option (Name × Name)
  | [] => none
  | c :: r =>
    if c = '-' then some ([], r)
    else
      match splitDash r with
      | none => none
      | some (a, b) => some (c :: a, b)

/-- `common.GetNamespaceAndPartition(full)`: ("", 0) when there is no '-' or the rest is not an int -/
def nsAndPart (full : Name) : Name × Int :=
  match splitDash full with
  | none => ([], 0)
  | some (ns, rest) =>
    match atoi rest with
    | none => ([], 0)
    | some pid => (ns, pid)

/-! ### the registry -/

/-- one entry of `kvNodes` -/
structure Node where
  full : Name    -- conf.Name (the map key)
  base : Name    -- conf.BaseName
  part : Int     -- the index the harness / the coordinator built conf.Name from
  pnum : Int     -- conf.PartitionNum the partition was created with
  deriving DecidableEq

structure Reg where
  metas : Name → Option Int   -- nsMetas[base].PartitionNum
  nodes : List Node           -- kvNodes

def empty : Reg := ⟨fun _ => none, []⟩

/-- `_, ok := nsm.kvNodes[full]` -/
def registered (r : Reg) (full : Name) : Bool := r.nodes.any (fun x => decide (x.full = full))

def setMeta (m : Name → Option Int) (b : Name) (v : Option Int) : Name → Option Int :=
  fun x => if x = b then v else m x

inductive InitRes | ok | conf | exist
  deriving DecidableEq

/-- `InitNamespaceNode` with conf.Name = GetNsDesp(base, part), conf.BaseName = base, conf.PartitionNum = pnum
    (Replicator > 0, valid policies: the harness always passes those). The order of the checks is the code's:
    config first, then "already registered", then the meta. -/
def init (r : Reg) (base : Name) (part pnum : Int) : Reg × InitRes :=
  if Gen.initPartitionNumInvalid pnum then (r, .conf)
  else
    let full := nsDesp base part
    if registered r full then (r, .exist)
    else
      let metas :=
        match r.metas base with
        | none => setMeta r.metas base (some (Gen.metaOnFirstInit pnum))         -- meta init
        | some old =>
          if Gen.metaMismatch old pnum then
            setMeta r.metas base (some (Gen.metaOnMismatch old pnum))             -- "namespace meta mismatch": replaced
          else r.metas                                                            -- meta = oldMeta
      (⟨metas, ⟨full, base, part, pnum⟩ :: r.nodes⟩, .ok)

/-- the callback returned by `onNamespaceStopped(gid, full)`; `false`: the full name was not registered (plain return) -/
def stopped (r : Reg) (full : Name) : Reg × Bool :=
  if registered r full then
    let nodes := r.nodes.filter (fun x => decide (x.full ≠ full))
    let baseNS := (nsAndPart full).1
    match r.metas baseNS with
    | none => (⟨r.metas, nodes⟩, true)
    | some _ =>
      if nodes.any (fun x => decide ((nsAndPart x.full).1 = baseNS)) then (⟨r.metas, nodes⟩, true)
      else (⟨setMeta r.metas baseNS none, nodes⟩, true)              -- "all partitions … stopped, removing meta"
  else (r, false)

inductive RouteRes
  | ok (full : Name)
  | nsNotFound          -- ErrNamespaceNotFound
  | partNotFound        -- ErrNamespacePartitionNotFound
  deriving DecidableEq

/-- `GetNamespaceNodeWithPrimaryKeySum(base, pk, HashedKey(pk))` (every registered partition is started, so the
    `IsReady` branch is not reachable in this model) -/
def route (r : Reg) (base : Name) (pk : Bytes) : RouteRes :=
  match r.metas base with
  | none => .nsNotFound
  | some n =>
    let pid := Gen.serverPartitionSum (hashedKey pk) n
    let full := nsDesp base pid
    if registered r full then .ok full else .partNotFound

/-! ### operation sequences -/

inductive Op
  | init (base : Name) (part pnum : Int)
  | stopped (base : Name) (part : Int)
  | route (base : Name) (pk : Bytes)

def step (r : Reg) : Op → Reg
  | .init b p n => (init r b p n).1
  | .stopped b p => (stopped r (nsDesp b p)).1
  | .route _ _ => r

def run (r : Reg) (ops : List Op) : Reg := ops.foldl step r

/-- the base and count of `op` when it is an `init` that succeeds in state `r` -/
def okInit (r : Reg) : Op → Option (Name × Int)
  | .init b p n => if (init r b p n).2 = .ok then some (b, n) else none
  | _ => none

def noteInit (base : Name) (r : Reg) (op : Op) (acc : Option Int) : Option Int :=
  match okInit r op with
  | some (b, n) => if b = base then some n else acc
  | none => acc

/-- the partition count given by the LAST successful `init` of `base` while `ops` run from `r`
    (`acc`: what it was before; `none`: there never was one) -/
def lastInit (base : Name) : Reg → List Op → Option Int → Option Int
  | _, [], acc => acc
  | r, op :: ops, acc => lastInit base (step r op) ops (noteInit base r op acc)

/-- part indexes are machine ints ≥ 0 (what `GetNsDesp` is called with) -/
def Op.wf : Op → Prop
  | .init _ p _ => 0 ≤ p ∧ p < (maxInt : Int)
  | _ => True

/-- the base name is one the placement driver accepts as far as '-' is concerned
    (common.IsValidNamespaceName: `^[a-zA-Z0-9_]+$`) -/
def Op.noDash : Op → Prop
  | .init b _ _ => '-' ∉ b
  | _ => True

/-- partition `i` of `base` is registered -/
def hasPart (r : Reg) (base : Name) (i : Int) : Prop := ∃ x ∈ r.nodes, x.base = base ∧ x.part = i

end Z.Reg
