/-
  Lemmas over the registry model (Route/Registry.lean): Itoa/Atoi round trip, GetNamespaceAndPartition ∘ GetNsDesp,
  characterisation of `init` / `stopped`, and the invariants of every reachable registry.
-/
import ZanVerif.Route.Registry

namespace Z.Reg
open Z.Route

/-! ### digits -/

theorem digitVal_digitChar (d : Nat) (h : d < 10) : digitVal (digitChar d) = some d := by
  have : ∀ d : Fin 10, digitVal (digitChar d.val) = some d.val := by decide
  exact this ⟨d, h⟩

theorem parseDigits_append (a b : List Char) (acc : Nat) :
    parseDigits (a ++ b) acc = (parseDigits a acc).bind (fun v => parseDigits b v) := by
  induction a generalizing acc with
  | nil => simp [parseDigits]
  | cons c r ih =>
    simp only [List.cons_append, parseDigits]
    cases digitVal c with
    | none => simp
    | some d => simp [ih]

theorem parseDigits_natDigitsAux (fuel n : Nat) (h : n < fuel) :
    parseDigits (natDigitsAux fuel n) 0 = some n := by
  induction fuel generalizing n with
  | zero => omega
  | succ f ih =>
    unfold natDigitsAux
    by_cases h10 : n < 10
    · simp [h10, parseDigits, digitVal_digitChar n h10]
    · simp only [h10, if_false]
      rw [parseDigits_append, ih (n / 10) (by omega)]
      simp only [Option.bind_some, parseDigits, digitVal_digitChar (n % 10) (by omega)]
      congr 1
      omega

theorem natDigitsAux_ne_nil (fuel n : Nat) (h : n < fuel) : natDigitsAux fuel n ≠ [] := by
  cases fuel with
  | zero => omega
  | succ f =>
    unfold natDigitsAux
    by_cases h10 : n < 10 <;> simp [h10]

theorem parseDigits_head {c : Char} {r : List Char} {acc v : Nat} (h : parseDigits (c :: r) acc = some v) :
    (digitVal c).isSome := by
  simp only [parseDigits] at h
  cases hd : digitVal c with
  | none => simp [hd] at h
  | some d => simp

theorem atoi_natDigits (n : Nat) (h : n < maxInt) : atoi (natDigits n) = some (n : Int) := by
  have hp := parseDigits_natDigitsAux (n + 1) n (by omega)
  have hne := natDigitsAux_ne_nil (n + 1) n (by omega)
  unfold natDigits
  generalize natDigitsAux (n + 1) n = s at hp hne
  cases s with
  | nil => exact absurd rfl hne
  | cons c r =>
    have hd := parseDigits_head hp
    have h1 : c ≠ '-' := by
      intro hc; subst hc; revert hd; decide
    have h2 : c ≠ '+' := by
      intro hc; subst hc; revert hd; decide
    simp [atoi, h1, h2, parseNat, hp, h]

theorem atoi_itoa (p : Int) (h0 : 0 ≤ p) (h1 : p < (maxInt : Int)) : atoi (itoa p) = some p := by
  cases p with
  | ofNat n =>
    have : n < maxInt := by
      have : ((n : Nat) : Int) < (maxInt : Int) := h1
      omega
    simpa [itoa] using atoi_natDigits n this
  | negSucc n => omega

/-! ### GetNamespaceAndPartition ∘ GetNsDesp -/

theorem splitDash_append (a b : Name) (h : '-' ∉ a) : splitDash (a ++ '-' :: b) = some (a, b) := by
  induction a with
  | nil => simp [splitDash]
  | cons c r ih =>
    have hc : c ≠ '-' := fun e => h (by simp [e])
    have hr : '-' ∉ r := fun e => h (by simp [e])
    simp [splitDash, hc, ih hr]

theorem splitDash_fst_noDash (s a b : Name) (h : splitDash s = some (a, b)) : '-' ∉ a := by
  induction s generalizing a b with
  | nil => simp [splitDash] at h
  | cons c r ih =>
    unfold splitDash at h
    by_cases hc : c = '-'
    · subst hc
      simp at h
      obtain ⟨h1, _⟩ := h
      subst h1
      simp
    · simp only [hc, if_false] at h
      cases hs : splitDash r with
      | none => simp [hs] at h
      | some ab =>
        obtain ⟨a', b'⟩ := ab
        simp [hs] at h
        have := ih a' b' hs
        rw [← h.1]
        intro hm
        cases hm with
        | head => exact hc rfl
        | tail _ hm' => exact this hm'

theorem nsAndPart_fst_noDash (s : Name) : '-' ∉ (nsAndPart s).1 := by
  unfold nsAndPart
  split
  · simp
  · rename_i a b hs
    split
    · simp
    · exact splitDash_fst_noDash s a b hs

/-- for a base name without '-' and a machine-int index ≥ 0 the full name parses back to the base name -/
theorem nsAndPart_nsDesp (b : Name) (p : Int) (hb : '-' ∉ b) (h0 : 0 ≤ p) (h1 : p < (maxInt : Int)) :
    nsAndPart (nsDesp b p) = (b, p) := by
  simp [nsAndPart, nsDesp, splitDash_append b (itoa p) hb, atoi_itoa p h0 h1]

/-! ### `registered`, `init`, `stopped` -/

theorem registered_iff (r : Reg) (f : Name) : registered r f = true ↔ ∃ x ∈ r.nodes, x.full = f := by
  simp [registered, List.any_eq_true]

theorem registered_false_iff (r : Reg) (f : Name) : registered r f = false ↔ ∀ x ∈ r.nodes, x.full ≠ f := by
  rw [← Bool.not_eq_true, registered_iff]
  constructor
  · intro h x hx e; exact h ⟨x, hx, e⟩
  · intro h ⟨x, hx, e⟩; exact h x hx e

theorem invalid_iff (n : Int) : Gen.initPartitionNumInvalid n = true ↔ n ≤ 0 := by
  simp [Gen.initPartitionNumInvalid]

theorem init_ok_iff (r : Reg) (b : Name) (p n : Int) :
    (init r b p n).2 = .ok ↔ 0 < n ∧ registered r (nsDesp b p) = false := by
  unfold init
  by_cases hn : Gen.initPartitionNumInvalid n = true
  · have := (invalid_iff n).1 hn
    simp [hn]; omega
  · have : ¬ n ≤ 0 := fun h => hn ((invalid_iff n).2 h)
    by_cases hr : registered r (nsDesp b p) = true
    · simp [hn, hr]
    · simp [hn, hr]; omega

theorem init_not_ok (r : Reg) (b : Name) (p n : Int) (h : (init r b p n).2 ≠ .ok) : (init r b p n).1 = r := by
  unfold init at h ⊢
  by_cases hn : Gen.initPartitionNumInvalid n = true
  · simp [hn]
  · by_cases hr : registered r (nsDesp b p) = true
    · simp [hn, hr]
    · simp [hn, hr] at h

theorem init_ok_nodes (r : Reg) (b : Name) (p n : Int) (h : (init r b p n).2 = .ok) :
    (init r b p n).1.nodes = ⟨nsDesp b p, b, p, n⟩ :: r.nodes := by
  obtain ⟨hn, hr⟩ := (init_ok_iff r b p n).1 h
  have hn' : ¬ Gen.initPartitionNumInvalid n = true := fun h => by have := (invalid_iff n).1 h; omega
  simp [init, hn', hr]

/-- every branch of the meta handling (init / replaced on mismatch / kept when equal) leaves the base at `n`:
    proved over the REGENERATED mismatch test and stored values -/
theorem init_ok_metas (r : Reg) (b : Name) (p n : Int) (h : (init r b p n).2 = .ok) (x : Name) :
    (init r b p n).1.metas x = if x = b then some n else r.metas x := by
  obtain ⟨hn, hr⟩ := (init_ok_iff r b p n).1 h
  have hn' : ¬ Gen.initPartitionNumInvalid n = true := fun h => by have := (invalid_iff n).1 h; omega
  simp only [init, hn', hr, if_false, Bool.false_eq_true]
  cases hm : r.metas b with
  | none => simp [setMeta, Gen.metaOnFirstInit]
  | some old =>
    by_cases ho : old = n
    · subst ho
      by_cases hx : x = b
      · simp [hx, hm, Gen.metaMismatch]
      · simp [hx, Gen.metaMismatch]
    · simp [ho, setMeta, Gen.metaMismatch, Gen.metaOnMismatch]

theorem stopped_unregistered (r : Reg) (f : Name) (h : registered r f = false) : (stopped r f).1 = r := by
  simp [stopped, h]

theorem stopped_nodes (r : Reg) (f : Name) (h : registered r f = true) :
    (stopped r f).1.nodes = r.nodes.filter (fun x => decide (x.full ≠ f)) := by
  unfold stopped
  simp only [h, if_true]
  cases r.metas (nsAndPart f).1 with
  | none => rfl
  | some _ =>
    simp only []
    by_cases ha : (r.nodes.filter (fun x => decide (x.full ≠ f))).any
        (fun x => decide ((nsAndPart x.full).1 = (nsAndPart f).1)) = true
    · simp only [ha, if_true]
    · simp only [ha, if_false, Bool.false_eq_true]

/-- the meta map after `stopped`: unchanged, or the parsed base dropped because no remaining full name parses to it -/
theorem stopped_metas (r : Reg) (f : Name) (h : registered r f = true) :
    ((r.metas (nsAndPart f).1 = none ∨ ∃ y ∈ (stopped r f).1.nodes, (nsAndPart y.full).1 = (nsAndPart f).1)
        ∧ (stopped r f).1.metas = r.metas)
    ∨ ((∀ y ∈ (stopped r f).1.nodes, (nsAndPart y.full).1 ≠ (nsAndPart f).1)
        ∧ (stopped r f).1.metas = setMeta r.metas (nsAndPart f).1 none) := by
  have hnodes := stopped_nodes r f h
  unfold stopped at hnodes ⊢
  simp only [h, if_true] at hnodes ⊢
  cases hm : r.metas (nsAndPart f).1 with
  | none => left; simp
  | some v =>
    simp only []
    by_cases ha : (r.nodes.filter (fun x => decide (x.full ≠ f))).any
        (fun x => decide ((nsAndPart x.full).1 = (nsAndPart f).1)) = true
    · left
      simp only [ha, if_true, and_true]
      right
      obtain ⟨y, hy, e⟩ := List.any_eq_true.1 ha
      exact ⟨y, hy, by simpa using e⟩
    · right
      simp only [ha, if_false, Bool.false_eq_true, and_true]
      intro y hy e
      apply ha
      simp only [List.any_eq_true]
      exact ⟨y, hy, by simpa using e⟩

/-! ### invariants of every reachable registry -/

/-- `g` is the ghost "count of the last successful init per base" -/
structure Inv (r : Reg) (g : Name → Option Int) : Prop where
  shape : ∀ x ∈ r.nodes, x.full = nsDesp x.base x.part ∧ 0 ≤ x.part ∧ x.part < (maxInt : Int) ∧ 0 < x.pnum
  nodup : r.nodes.Pairwise (fun x y => x.full ≠ y.full)
  has_meta : ∀ x ∈ r.nodes, (r.metas x.base).isSome = true
  meta_last : ∀ b n, r.metas b = some n → g b = some n
  last_pos : ∀ b n, g b = some n → 0 < n

/-- what additionally holds when no base name contains '-' -/
structure InvND (r : Reg) : Prop where
  nodash : ∀ x ∈ r.nodes, '-' ∉ x.base
  meta_has : ∀ b, (r.metas b).isSome = true → ∃ x ∈ r.nodes, x.base = b

theorem inv_empty : Inv empty (fun _ => none) := by
  constructor <;> simp [empty]

theorem invND_empty : InvND empty := by
  constructor <;> simp [empty]

theorem noteInit_init_ok (base b : Name) (r : Reg) (p n : Int) (acc : Option Int) (h : (init r b p n).2 = .ok) :
    noteInit base r (.init b p n) acc = if b = base then some n else acc := by
  simp [noteInit, okInit, h]

theorem noteInit_init_not_ok (base b : Name) (r : Reg) (p n : Int) (acc : Option Int) (h : (init r b p n).2 ≠ .ok) :
    noteInit base r (.init b p n) acc = acc := by
  simp [noteInit, okInit, h]

theorem inv_step {r : Reg} {g : Name → Option Int} (h : Inv r g) (op : Op) (hwf : op.wf) :
    Inv (step r op) (fun b => noteInit b r op (g b)) := by
  cases op with
  | route b pk => simpa [step, noteInit, okInit] using h
  | init b p n =>
    by_cases hok : (init r b p n).2 = .ok
    · obtain ⟨hn, hr⟩ := (init_ok_iff r b p n).1 hok
      have hnodes := init_ok_nodes r b p n hok
      have hmetas := init_ok_metas r b p n hok
      have hfresh := (registered_false_iff r _).1 hr
      simp only [step]
      constructor
      · intro x hx
        rw [hnodes] at hx
        cases hx with
        | head => exact ⟨rfl, hwf.1, hwf.2, hn⟩
        | tail _ hx' => exact h.shape x hx'
      · rw [hnodes]
        refine List.Pairwise.cons ?_ h.nodup
        intro y hy e
        exact hfresh y hy e.symm
      · intro x hx
        rw [hnodes] at hx
        rw [hmetas]
        cases hx with
        | head => simp
        | tail _ hx' =>
          by_cases hb : x.base = b
          · simp [hb]
          · simpa [hb] using h.has_meta x hx'
      · intro b' n' hm
        rw [hmetas] at hm
        rw [noteInit_init_ok _ _ _ _ _ _ hok]
        by_cases hb : b' = b
        · simp [hb] at hm
          simp [hb, hm]
        · have hb' : ¬ b = b' := fun e => hb e.symm
          simp only [hb, if_false] at hm
          simp only [hb', if_false]
          exact h.meta_last b' n' hm
      · intro b' n' hg
        rw [noteInit_init_ok _ _ _ _ _ _ hok] at hg
        by_cases hb : b = b'
        · simp [hb] at hg
          omega
        · simp only [hb, if_false] at hg
          exact h.last_pos b' n' hg
    · have hsame := init_not_ok r b p n hok
      simp only [step, hsame]
      have : (fun b' => noteInit b' r (.init b p n) (g b')) = g := by
        funext b'
        exact noteInit_init_not_ok _ _ _ _ _ _ hok
      rw [this]
      exact h
  | stopped b p =>
    have hg : (fun b' => noteInit b' r (.stopped b p) (g b')) = g := by
      funext b'; simp [noteInit, okInit]
    rw [hg]
    simp only [step]
    generalize nsDesp b p = f
    by_cases hr : registered r f = true
    · have hnodes := stopped_nodes r f hr
      have hsub : ∀ x ∈ (stopped r f).1.nodes, x ∈ r.nodes := by
        intro x hx
        rw [hnodes] at hx
        exact (List.mem_filter.1 hx).1
      constructor
      · intro x hx; exact h.shape x (hsub x hx)
      · rw [hnodes]; exact h.nodup.filter _
      · intro x hx
        have hx0 := hsub x hx
        rcases stopped_metas r f hr with ⟨_, hm⟩ | ⟨hnone, hm⟩
        · rw [hm]; exact h.has_meta x hx0
        · rw [hm]
          by_cases hb : x.base = (nsAndPart f).1
          · exfalso
            -- the remaining node parses to the dropped base: the loop would have found it
            obtain ⟨hfull, h0, h1, _⟩ := h.shape x hx0
            have hnd : '-' ∉ x.base := by rw [hb]; exact nsAndPart_fst_noDash f
            have := nsAndPart_nsDesp x.base x.part hnd h0 h1
            apply hnone x hx
            rw [hfull, this]
            exact hb
          · simpa [setMeta, hb] using h.has_meta x hx0
      · intro b' n' hm'
        rcases stopped_metas r f hr with ⟨_, hm⟩ | ⟨_, hm⟩
        · rw [hm] at hm'; exact h.meta_last b' n' hm'
        · rw [hm] at hm'
          by_cases hb : b' = (nsAndPart f).1
          · simp [setMeta, hb] at hm'
          · simp only [setMeta, hb, if_false] at hm'
            exact h.meta_last b' n' hm'
      · exact h.last_pos
    · have : registered r f = false := by simpa using hr
      rw [stopped_unregistered r f this]
      exact h

theorem invND_step {r : Reg} {g : Name → Option Int} (h : Inv r g) (h2 : InvND r) (op : Op) (hnd : op.noDash) :
    InvND (step r op) := by
  cases op with
  | route b pk => simpa [step] using h2
  | init b p n =>
    by_cases hok : (init r b p n).2 = .ok
    · have hnodes := init_ok_nodes r b p n hok
      have hmetas := init_ok_metas r b p n hok
      simp only [step]
      constructor
      · intro x hx
        rw [hnodes] at hx
        cases hx with
        | head => exact hnd
        | tail _ hx' => exact h2.nodash x hx'
      · intro b' hs
        rw [hmetas] at hs
        rw [hnodes]
        by_cases hb : b' = b
        · exact ⟨_, List.mem_cons_self, hb.symm⟩
        · simp only [hb, if_false] at hs
          obtain ⟨x, hx, e⟩ := h2.meta_has b' hs
          exact ⟨x, List.mem_cons_of_mem _ hx, e⟩
    · simp only [step, init_not_ok r b p n hok]
      exact h2
  | stopped b p =>
    simp only [step]
    generalize nsDesp b p = f
    by_cases hr : registered r f = true
    · have hnodes := stopped_nodes r f hr
      have hsub : ∀ x ∈ (stopped r f).1.nodes, x ∈ r.nodes := by
        intro x hx
        rw [hnodes] at hx
        exact (List.mem_filter.1 hx).1
      have hparse : ∀ x ∈ r.nodes, (nsAndPart x.full).1 = x.base := by
        intro x hx
        obtain ⟨hfull, h0, h1, _⟩ := h.shape x hx
        rw [hfull, nsAndPart_nsDesp x.base x.part (h2.nodash x hx) h0 h1]
      constructor
      · intro x hx; exact h2.nodash x (hsub x hx)
      · intro b' hs
        have hold : (r.metas b').isSome = true := by
          rcases stopped_metas r f hr with ⟨_, hm⟩ | ⟨_, hm⟩
          · rw [hm] at hs; exact hs
          · rw [hm] at hs
            by_cases hb : b' = (nsAndPart f).1
            · simp [setMeta, hb] at hs
            · simpa [setMeta, hb] using hs
        obtain ⟨x, hx, e⟩ := h2.meta_has b' hold
        by_cases hxf : x.full = f
        · -- the stopped node was a partition of b': the meta survived, so the loop found another one
          have hbase : (nsAndPart f).1 = b' := by rw [← hxf, hparse x hx, e]
          rcases stopped_metas r f hr with ⟨hfound, _⟩ | ⟨_, hm⟩
          · rcases hfound with hnone | ⟨y, hy, ey⟩
            · rw [hbase] at hnone; rw [hnone] at hold; simp at hold
            · refine ⟨y, hy, ?_⟩
              rw [← hparse y (hsub y hy), ey, hbase]
          · rw [hm] at hs
            simp [setMeta, hbase] at hs
        · refine ⟨x, ?_, e⟩
          rw [hnodes]
          exact List.mem_filter.2 ⟨hx, by simpa using hxf⟩
    · have : registered r f = false := by simpa using hr
      rw [stopped_unregistered r f this]
      exact h2

theorem inv_run {r : Reg} {g : Name → Option Int} (ops : List Op) (h : Inv r g) (hwf : ∀ op ∈ ops, op.wf) :
    Inv (run r ops) (fun b => lastInit b r ops (g b)) := by
  induction ops generalizing r g with
  | nil => simpa [run, lastInit] using h
  | cons op ops ih =>
    have h1 := inv_step h op (hwf op (by simp))
    have := ih h1 (fun o ho => hwf o (by simp [ho]))
    simpa [run, lastInit] using this

theorem invND_run {r : Reg} {g : Name → Option Int} (ops : List Op) (h : Inv r g) (h2 : InvND r)
    (hwf : ∀ op ∈ ops, op.wf) (hnd : ∀ op ∈ ops, op.noDash) : InvND (run r ops) := by
  induction ops generalizing r g with
  | nil => simpa [run] using h2
  | cons op ops ih =>
    have h1 := inv_step h op (hwf op (by simp))
    have h3 := invND_step h h2 op (hnd op (by simp))
    have := ih h1 h3 (fun o ho => hwf o (by simp [ho])) (fun o ho => hnd o (by simp [ho]))
    simpa [run] using this

/-- every registry reachable from the empty one -/
theorem inv_reach (ops : List Op) (hwf : ∀ op ∈ ops, op.wf) :
    Inv (run empty ops) (fun b => lastInit b empty ops none) :=
  inv_run ops inv_empty hwf

theorem invND_reach (ops : List Op) (hwf : ∀ op ∈ ops, op.wf) (hnd : ∀ op ∈ ops, op.noDash) :
    InvND (run empty ops) :=
  invND_run ops inv_empty invND_empty hwf hnd

/-! ### GetNsDesp is injective (indexes ≥ 0): the LAST '-' of a full name is the separator -/

theorem natDigitsAux_digits (fuel n : Nat) : ∀ c ∈ natDigitsAux fuel n, (digitVal c).isSome = true := by
  induction fuel generalizing n with
  | zero => simp [natDigitsAux]
  | succ f ih =>
    unfold natDigitsAux
    by_cases h10 : n < 10
    · simp [h10, digitVal_digitChar n h10]
    · simp only [h10, if_false]
      intro c hc
      rcases List.mem_append.1 hc with h | h
      · exact ih _ c h
      · have : c = digitChar (n % 10) := by simpa using h
        rw [this, digitVal_digitChar (n % 10) (by omega)]; rfl

theorem itoa_noDash (p : Int) (h0 : 0 ≤ p) : '-' ∉ itoa p := by
  cases p with
  | ofNat n =>
    intro hm
    have := natDigitsAux_digits (n + 1) n '-' hm
    revert this; decide
  | negSucc n => omega

theorem append_dash_inj (a1 a2 s1 s2 : Name) (h1 : '-' ∉ s1) (h2 : '-' ∉ s2)
    (h : a1 ++ '-' :: s1 = a2 ++ '-' :: s2) : a1 = a2 ∧ s1 = s2 := by
  induction a1 generalizing a2 with
  | nil =>
    cases a2 with
    | nil => simpa using h
    | cons d a2' =>
      exfalso
      simp only [List.nil_append, List.cons_append, List.cons.injEq] at h
      apply h1
      rw [h.2]
      simp
  | cons c a1' ih =>
    cases a2 with
    | nil =>
      exfalso
      simp only [List.nil_append, List.cons_append, List.cons.injEq] at h
      apply h2
      rw [← h.2]
      simp
    | cons d a2' =>
      simp only [List.cons_append, List.cons.injEq] at h
      obtain ⟨e1, e2⟩ := ih a2' h.2
      exact ⟨by rw [h.1, e1], e2⟩

theorem nsDesp_inj (a b : Name) (p q : Int) (hp0 : 0 ≤ p) (hp1 : p < (maxInt : Int)) (hq0 : 0 ≤ q)
    (hq1 : q < (maxInt : Int)) (h : nsDesp a p = nsDesp b q) : a = b ∧ p = q := by
  obtain ⟨e1, e2⟩ := append_dash_inj a b (itoa p) (itoa q) (itoa_noDash p hp0) (itoa_noDash q hq0) h
  refine ⟨e1, ?_⟩
  have := atoi_itoa p hp0 hp1
  rw [e2, atoi_itoa q hq0 hq1] at this
  exact (Option.some.inj this).symm

/-! ### consequences of the invariants -/

theorem pairwise_unique {l : List Node} (h : l.Pairwise (fun x y => x.full ≠ y.full)) :
    ∀ x ∈ l, ∀ y ∈ l, x.full = y.full → x = y := by
  induction l with
  | nil => simp
  | cons a t ih =>
    obtain ⟨ha, ht⟩ := List.pairwise_cons.1 h
    intro x hx y hy e
    rcases List.mem_cons.1 hx with rfl | hx' <;> rcases List.mem_cons.1 hy with rfl | hy'
    · rfl
    · exact absurd e (ha y hy')
    · exact absurd e.symm (ha x hx')
    · exact ih ht x hx' y hy' e

theorem hasPart_registered {r : Reg} {g : Name → Option Int} (h : Inv r g) (b : Name) (i : Int)
    (hp : hasPart r b i) : registered r (nsDesp b i) = true := by
  obtain ⟨x, hx, e1, e2⟩ := hp
  rw [registered_iff]
  exact ⟨x, hx, by rw [(h.shape x hx).1, e1, e2]⟩

theorem registered_hasPart {r : Reg} {g : Name → Option Int} (h : Inv r g) (b : Name) (i : Int)
    (h0 : 0 ≤ i) (h1 : i < (maxInt : Int)) (hr : registered r (nsDesp b i) = true) : hasPart r b i := by
  obtain ⟨x, hx, e⟩ := (registered_iff r _).1 hr
  obtain ⟨hf, x0, x1, _⟩ := h.shape x hx
  rw [hf] at e
  obtain ⟨e1, e2⟩ := nsDesp_inj _ _ _ _ x0 x1 h0 h1 e
  exact ⟨x, hx, e1, e2⟩

/-! ### `lastInit` over a split history -/

theorem run_append (r : Reg) (a b : List Op) : run r (a ++ b) = run (run r a) b := by
  simp [run, List.foldl_append]

theorem lastInit_append (base : Name) (r : Reg) (a b : List Op) (acc : Option Int) :
    lastInit base r (a ++ b) acc = lastInit base (run r a) b (lastInit base r a acc) := by
  induction a generalizing r acc with
  | nil => simp [lastInit, run]
  | cons op a ih => simp [lastInit, run, ih]

/-- `lastInit` is the accumulator, or the count of an `init` of that base in the list -/
theorem lastInit_cases (base : Name) (r : Reg) (ops : List Op) (acc : Option Int) :
    lastInit base r ops acc = acc ∨ ∃ p n, Op.init base p n ∈ ops ∧ lastInit base r ops acc = some n := by
  induction ops generalizing r acc with
  | nil => left; rfl
  | cons op ops ih =>
    simp only [lastInit]
    rcases ih (step r op) (noteInit base r op acc) with h | ⟨p, n, hm, h⟩
    · rw [h]
      cases op with
      | route b pk => left; simp [noteInit, okInit]
      | stopped b p => left; simp [noteInit, okInit]
      | init b p n =>
        by_cases hok : (init r b p n).2 = .ok
        · rw [noteInit_init_ok _ _ _ _ _ _ hok]
          by_cases hb : b = base
          · right
            refine ⟨p, n, ?_, by simp [hb]⟩
            rw [hb]; exact List.mem_cons_self
          · left; simp [hb]
        · left; exact noteInit_init_not_ok _ _ _ _ _ _ hok
    · right
      exact ⟨p, n, List.mem_cons_of_mem _ hm, h⟩

/-- the accumulator does not matter once some init of the base succeeded -/
theorem lastInit_acc (base : Name) (r : Reg) (ops : List Op) (acc : Option Int)
    (h : lastInit base r ops none ≠ none) : lastInit base r ops acc = lastInit base r ops none := by
  induction ops generalizing r acc with
  | nil => simp [lastInit] at h
  | cons op ops ih =>
    simp only [lastInit] at h ⊢
    cases hk : okInit r op with
    | none =>
      simp only [noteInit, hk] at h ⊢
      exact ih _ _ h
    | some bn =>
      obtain ⟨b, n⟩ := bn
      by_cases hb : b = base
      · simp [noteInit, hk, hb]
      · simp only [noteInit, hk, hb, if_false] at h ⊢
        exact ih _ _ h

end Z.Reg
