/-
Scratch prototype for C14 (file level): restoring a checkpoint into the engine directory and running
the engine afterwards never changes what the checkpoint directory holds, although sst files are
shared by hard links.  Directories map names to inodes; contents belong to inodes.
-/
namespace Z.Ckpt

abbrev Name := String
abbrev Bytes := List UInt8

structure FS where
  dirD : List (Name × Nat)        -- engine data directory
  dirK : List (Name × Nat)        -- one checkpoint directory
  content : Nat → Bytes
  next : Nat                      -- fresh inode numbers start here

def isSst (n : Name) : Bool := n.endsWith ".sst"
def isLog (n : Name) : Bool := n.startsWith "LOG"

def lookup (d : List (Name × Nat)) (n : Name) : Option Nat := (d.find? (·.1 == n)).map (·.2)

/-- what a directory holds, by name -/
def view (fs : FS) (d : List (Name × Nat)) (n : Name) : Option Bytes := (lookup d n).map fs.content

/-- engine activity on the data directory after a restore -/
inductive Op
  | create (n : Name) (b : Bytes)        -- new file, fresh inode (new sst, new MANIFEST, ...)
  | unlink (n : Name)                    -- obsolete file removed
  | append (n : Name) (b : Bytes)        -- in-place growth: only for files that are not sst

def upd (f : Nat → Bytes) (i : Nat) (b : Bytes) : Nat → Bytes := fun j => if j = i then b else f j

def step (fs : FS) : Op → FS
  | .create n b =>
    { fs with dirD := (n, fs.next) :: fs.dirD.filter (·.1 != n), content := upd fs.content fs.next b,
              next := fs.next + 1 }
  | .unlink n => { fs with dirD := fs.dirD.filter (·.1 != n) }
  | .append n b =>
    if isSst n then fs else
    match lookup fs.dirD n with
    | some i => { fs with content := upd fs.content i (fs.content i ++ b) }
    | none => fs

/-- restore (rockredis.restoreFromPath): keep an sst of the data directory only if the checkpoint has
    a file of that name that `same` accepts; remove everything else except LOG*; then hard-link the
    checkpoint's sst files and COPY (fresh inode) its other files -/
def copyIn (same : Bytes → Bytes → Bool) : List (Name × Nat) → FS → FS
  | [], fs => fs
  | (n, i) :: rest, fs =>
    if isLog n then copyIn same rest fs
    else if isSst n then
      -- CopyFileForHardLink: the name now refers to the checkpoint's inode
      copyIn same rest { fs with dirD := (n, i) :: fs.dirD.filter (·.1 != n) }
    else
      copyIn same rest { fs with dirD := (n, fs.next) :: fs.dirD.filter (·.1 != n),
                                 content := upd fs.content fs.next (fs.content i), next := fs.next + 1 }

def restore (same : Bytes → Bytes → Bool) (fs : FS) : FS :=
  let kept := fs.dirD.filter fun (n, i) =>
    isLog n || (isSst n && match lookup fs.dirK n with
                           | some j => same (fs.content j) (fs.content i)
                           | none => false)
  copyIn same fs.dirK { fs with dirD := kept }

/-- inodes of the checkpoint are old, and the data directory shares a checkpoint inode only under an
    sst name -/
structure Inv (fs : FS) : Prop where
  kOld : ∀ x ∈ fs.dirK, x.2 < fs.next
  dOld : ∀ x ∈ fs.dirD, x.2 < fs.next
  share : ∀ x ∈ fs.dirD, (∃ y ∈ fs.dirK, y.2 = x.2) → isSst x.1 = true

theorem mem_filter_ne {d : List (Name × Nat)} {n : Name} {x : Name × Nat} (h : x ∈ d.filter (·.1 != n)) : x ∈ d :=
  (List.mem_filter.mp h).1

theorem view_upd_fresh (fs : FS) (inv : Inv fs) (b : Bytes) (n : Name) :
    ((lookup fs.dirK n).map (upd fs.content fs.next b)) = view fs fs.dirK n := by
  unfold view lookup
  cases h : fs.dirK.find? (·.1 == n) with
  | none => rfl
  | some x =>
    have hx : x ∈ fs.dirK := List.mem_of_find?_eq_some h
    have := inv.kOld x hx
    simp only [Option.map_some, upd]
    have : x.2 ≠ fs.next := by omega
    simp [this]

/-- **engine activity never changes the checkpoint's view** and keeps the invariant -/
theorem step_keeps (fs : FS) (inv : Inv fs) (op : Op) :
    Inv (step fs op) ∧ ∀ n, view (step fs op) (step fs op).dirK n = view fs fs.dirK n := by
  cases op with
  | create n b =>
    refine ⟨⟨?_, ?_, ?_⟩, fun m => view_upd_fresh fs inv b m⟩
    · intro x hx; have := inv.kOld x hx; simp only [step]; omega
    · intro x hx
      simp only [step, List.mem_cons] at hx ⊢
      rcases hx with rfl | hx
      · simp
      · have := inv.dOld x (mem_filter_ne hx); omega
    · intro x hx hsh
      simp only [step, List.mem_cons] at hx hsh
      rcases hx with rfl | hx
      · obtain ⟨y, hy, e⟩ := hsh
        have := inv.kOld y hy
        simp only at e; omega
      · exact inv.share x (mem_filter_ne hx) hsh
  | unlink n =>
    refine ⟨⟨inv.kOld, fun x hx => inv.dOld x (mem_filter_ne hx), fun x hx h => inv.share x (mem_filter_ne hx) h⟩,
      fun _ => rfl⟩
  | append n b =>
    by_cases hs : isSst n = true
    · have e : step fs (.append n b) = fs := by simp [step, hs]
      rw [e]; exact ⟨inv, fun _ => rfl⟩
    · cases hl : lookup fs.dirD n with
      | none =>
        have e : step fs (.append n b) = fs := by simp [step, hs, hl]
        rw [e]; exact ⟨inv, fun _ => rfl⟩
      | some i =>
        have e : step fs (.append n b) = { fs with content := upd fs.content i (fs.content i ++ b) } := by
          simp [step, hs, hl]
        rw [e]
        refine ⟨⟨inv.kOld, inv.dOld, inv.share⟩, ?_⟩
        intro m
        -- the appended inode is not one of the checkpoint's: it is reachable under a non-sst name
        unfold view
        cases hk : lookup fs.dirK m with
        | none => rfl
        | some j =>
          simp only [Option.map_some, upd]
          have hne : j ≠ i := by
            intro e
            subst e
            -- find the directory entries
            unfold lookup at hl hk
            cases hd : fs.dirD.find? (·.1 == n) with
            | none => simp [hd] at hl
            | some x =>
              cases hkk : fs.dirK.find? (·.1 == m) with
              | none => simp [hkk] at hk
              | some y =>
                simp only [hd, hkk, Option.map_some, Option.some.injEq] at hl hk
                have hx : x ∈ fs.dirD := List.mem_of_find?_eq_some hd
                have hy : y ∈ fs.dirK := List.mem_of_find?_eq_some hkk
                have hxn : x.1 = n := by simpa using List.find?_some hd
                have := inv.share x hx ⟨y, hy, by rw [hk, hl]⟩
                rw [hxn] at this
                exact hs this
          simp [hne]

theorem copyIn_keeps (same : Bytes → Bytes → Bool) : ∀ (l : List (Name × Nat)) (fs : FS), Inv fs →
    (∀ x ∈ l, x ∈ fs.dirK) →
    Inv (copyIn same l fs) ∧ (copyIn same l fs).dirK = fs.dirK ∧
      ∀ n, view (copyIn same l fs) fs.dirK n = view fs fs.dirK n := by
  intro l
  induction l with
  | nil => intro fs inv _; exact ⟨inv, rfl, fun _ => rfl⟩
  | cons x rest ih =>
    intro fs inv hsub
    obtain ⟨n, i⟩ := x
    have hx : (n, i) ∈ fs.dirK := hsub _ List.mem_cons_self
    have hrest : ∀ y ∈ rest, y ∈ fs.dirK := fun y hy => hsub y (List.mem_cons_of_mem _ hy)
    simp only [copyIn]
    by_cases hl : isLog n = true
    · simp only [hl, ↓reduceIte]; exact ih fs inv hrest
    · simp only [hl, Bool.false_eq_true, ↓reduceIte]
      by_cases hs : isSst n = true
      · simp only [hs, ↓reduceIte]
        -- hard link: the data directory now shares inode i under the sst name n
        have inv' : Inv { fs with dirD := (n, i) :: fs.dirD.filter (·.1 != n) } := by
          refine ⟨inv.kOld, ?_, ?_⟩
          · intro y hy
            simp only [List.mem_cons] at hy
            rcases hy with rfl | hy
            · exact inv.kOld _ hx
            · exact inv.dOld y (mem_filter_ne hy)
          · intro y hy hsh
            simp only [List.mem_cons] at hy
            rcases hy with rfl | hy
            · exact hs
            · exact inv.share y (mem_filter_ne hy) hsh
        exact ih _ inv' hrest
      · simp only [hs, Bool.false_eq_true, ↓reduceIte]
        -- copy: fresh inode with the same bytes
        have inv' : Inv { fs with dirD := (n, fs.next) :: fs.dirD.filter (·.1 != n),
                                  content := upd fs.content fs.next (fs.content i), next := fs.next + 1 } := by
          refine ⟨?_, ?_, ?_⟩
          · intro y hy; have := inv.kOld y hy; show y.2 < fs.next + 1; omega
          · intro y hy
            simp only [List.mem_cons] at hy
            show y.2 < fs.next + 1
            rcases hy with rfl | hy
            · simp
            · have := inv.dOld y (mem_filter_ne hy); omega
          · intro y hy hsh
            simp only [List.mem_cons] at hy
            rcases hy with rfl | hy
            · obtain ⟨z, hz, e⟩ := hsh
              have := inv.kOld z hz
              simp only at e; omega
            · exact inv.share y (mem_filter_ne hy) hsh
        obtain ⟨h1, h2, h3⟩ := ih _ inv' hrest
        refine ⟨h1, h2, ?_⟩
        intro m
        rw [h3 m]
        exact view_upd_fresh fs inv (fs.content i) m
  
/-- **restoring never changes what the checkpoint holds** (and leaves a state from which engine
    activity never will) -/
theorem restore_keeps (same : Bytes → Bytes → Bool) (fs : FS) (inv : Inv fs) :
    Inv (restore same fs) ∧ (restore same fs).dirK = fs.dirK ∧
      ∀ n, view (restore same fs) fs.dirK n = view fs fs.dirK n := by
  unfold restore
  simp only
  generalize hk : (fs.dirD.filter fun (x : Name × Nat) =>
    isLog x.1 || (isSst x.1 && match lookup fs.dirK x.1 with
                           | some j => same (fs.content j) (fs.content x.2)
                           | none => false)) = kept
  have hsubset : ∀ x ∈ kept, x ∈ fs.dirD := by
    intro x hx; rw [← hk] at hx; exact (List.mem_filter.mp hx).1
  have inv' : Inv { fs with dirD := kept } :=
    ⟨inv.kOld, fun x hx => inv.dOld x (hsubset x hx), fun x hx h => inv.share x (hsubset x hx) h⟩
  exact copyIn_keeps same fs.dirK { fs with dirD := kept } inv' (fun x hx => hx)

/-- any engine activity after any number of restores: the checkpoint's view is what it was -/
theorem ops_keep (fs : FS) (inv : Inv fs) : ∀ (ops : List Op),
    ∀ n, view (ops.foldl step fs) (ops.foldl step fs).dirK n = view fs fs.dirK n := by
  intro ops
  induction ops generalizing fs with
  | nil => intro n; rfl
  | cons op ops ih =>
    intro n
    simp only [List.foldl_cons]
    have := step_keeps fs inv op
    rw [ih (step fs op) this.1 n, this.2 n]

#print axioms step_keeps
#print axioms restore_keeps
end Z.Ckpt
