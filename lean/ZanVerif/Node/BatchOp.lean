/-
  C07 — the apply-time batch operator (node/state_machine.go: kvbatchOperator, ApplyRaftRequest, applyEntries).
  One apply event = a list of write requests. A request the operator admits (`Gen.isBatchable`, regenerated) joins the
  open write batch: its handler reads the COMMITTED store, its writes are buffered and its reply is kept until the batch
  is committed; the key of every request of the open batch is recorded and a request on a recorded key is not admitted.
  A request that is not admitted first commits the open batch and then runs alone. The event ends with a commit.
  Model over the abstract store of `Z.Batch`; the theorems are in Props/C07.lean.
-/
import ZanVerif.Data.Batch
import ZanVerif.Gen.Ttl
import ZanVerif.Gen.BatchOp

namespace Z.BatchOp
open Z.Batch

variable {K V R : Type} [DecidableEq K]

/-- a write request as ApplyRaftRequest sees it -/
structure Req (K V R : Type) where
  name : String                         -- lower-cased command name
  argc : Nat                            -- len(cmd.Args)
  pk : K                                -- cmd.Args[1]
  exec : Store K V → Store K V × R      -- the command executed alone on a committed store

/-- what it means that a request is a single-key command on its `pk`: it reads and writes that key only -/
def SingleKey (rq : Req K V R) (run : Option V → Option V × R) : Prop :=
  ∀ s, rq.exec s = (put s rq.pk (run (s rq.pk)).1, (run (s rq.pk)).2)

/-- the operator's state inside one event: committed store, the open batch (oldest first) with the keys recorded for it,
    and the replies delivered so far -/
structure St (K V R : Type) where
  store : Store K V
  pend : List (Cmd K V R)
  dup : List K
  out : List R

/-- CommitBatch: buffered writes applied in order, kept replies delivered in order -/
def commitOpen (st : St K V R) : St K V R :=
  let r := applyBatched st.store st.pend
  { store := r.1, pend := [], dup := [], out := st.out ++ r.2 }

/-- one request of the event. `run` gives, for an admitted request, its single-key behaviour -/
def step (run : Req K V R → Option V → Option V × R) (st : St K V R) (rq : Req K V R) : St K V R :=
  if Gen.isBatchable Gen.batchableCmds rq.name rq.argc (st.dup.contains rq.pk) st.pend.length then
    { st with pend := st.pend ++ [⟨rq.pk, run rq⟩], dup := rq.pk :: st.dup }
  else
    let st1 := commitOpen st
    let r := rq.exec st1.store
    { st1 with store := r.1, out := st1.out ++ [r.2] }

/-- one apply event on a committed store: the requests in log order, then the final commit (applyEntries) -/
def applyEvent (run : Req K V R → Option V → Option V × R) (s : Store K V) (reqs : List (Req K V R)) : Store K V × List R :=
  let st := commitOpen (reqs.foldl (step run) { store := s, pend := [], dup := [], out := [] })
  (st.store, st.out)

/-- the reference: every request executed alone, in log order -/
def applySeqReqs (s : Store K V) : List (Req K V R) → Store K V × List R
  | [] => (s, [])
  | rq :: rest =>
    let r := rq.exec s
    let t := applySeqReqs r.1 rest
    (t.1, r.2 :: t.2)

/-- a log cut into apply events -/
def applyEvents (run : Req K V R → Option V → Option V × R) (s : Store K V) : List (List (Req K V R)) → Store K V × List R
  | [] => (s, [])
  | ev :: rest =>
    let r := applyEvent run s ev
    let t := applyEvents run r.1 rest
    (t.1, r.2 ++ t.2)

end Z.BatchOp
