/-
  C04 — invariants of the wait-table model (Node/WaitTable.lean) and their preservation by every step.

  `Inv`  : the ownership discipline of the code with the replacement test and both give-up Triggers, atomic Trigger or not
           (`Cfg.code`, `Cfg.preFix`), under SAFE PICKS: every channel is held by at most
           one of {a waiter, the pool}; a registration always belongs to a live waiter and its channel; a Trigger between
           its two parts targets an empty channel that nobody else can fill; a waiter whose channel holds a signal has its
           OWN applied result in its slot.  Inductive for every step (`inv_step`).
  `NoGap`: with the atomic Trigger (the code since fix 184e1b3) no Trigger is ever half-done, so EVERY pick is safe and `Inv`
           holds for every schedule (`inv_run_code`).
  `Live` : before the fix, under "no give-up inside a Trigger gap" every half-done Trigger still has its waiter — which
           makes every pick a safe pick (`gapfree_admissible`).
  `InvB` : every request ends at most once — for EVERY configuration and schedule.
-/
import ZanVerif.Node.WaitTable

namespace Z.WaitTable

theorem cfg_eq_code (cfg : Cfg) (hr : cfg.replaceStale = true) (ht : cfg.timeoutTriggers = true)
    (hf : cfg.failTriggers = true) (ha : cfg.atomicTrigger = true) : cfg = Cfg.code := by
  cases cfg; simp only [Cfg.code] at *; subst hr; subst ht; subst hf; subst ha; rfl

theorem cfg_eq_preFix (cfg : Cfg) (hr : cfg.replaceStale = true) (ht : cfg.timeoutTriggers = true)
    (hf : cfg.failTriggers = true) (ha : cfg.atomicTrigger = false) : cfg = Cfg.preFix := by
  cases cfg; simp only [Cfg.preFix, Cfg.code] at *; subst hr; subst ht; subst hf; subst ha; rfl

/-! ### what the executable trace predicates mean -/

theorem ownResult_iff (tr : List Ev) :
    ownResult tr = true ↔
      ∀ post pre id r, tr = post ++ Ev.woke id r :: pre → r.isErr = false → Ev.applied id r ∈ pre := by
  induction tr with
  | nil => simp [ownResult]
  | cons e tr ih =>
    constructor
    · intro h post pre id r heq hr
      have hpre : ownResult tr = true := by
        cases e <;> simp only [ownResult, Bool.and_eq_true] at h <;> first | exact h | exact h.2
      cases post with
      | nil =>
        simp only [List.nil_append, List.cons.injEq] at heq
        obtain ⟨he, hp⟩ := heq
        subst he; subst hp
        simp only [ownResult, Bool.and_eq_true, Bool.or_eq_true, List.contains_iff_mem] at h
        rcases h.1 with h1 | h1
        · rw [hr] at h1; exact absurd h1 (by decide)
        · exact h1
      | cons p post =>
        simp only [List.cons_append, List.cons.injEq] at heq
        exact ih.mp hpre post pre id r heq.2 hr
    · intro h
      have hpre : ownResult tr = true :=
        ih.mpr (fun post pre id r heq hr => h (e :: post) pre id r (by rw [heq]; rfl) hr)
      cases e with
      | woke id r =>
        simp only [ownResult, Bool.and_eq_true, Bool.or_eq_true, List.contains_iff_mem]
        refine ⟨?_, hpre⟩
        cases hr : r.isErr with
        | true => exact Or.inl rfl
        | false => exact Or.inr (h [] tr id r rfl hr)
      | proposed _ _ => simpa [ownResult] using hpre
      | applied _ _ => simpa [ownResult] using hpre
      | gaveUp _ => simpa [ownResult] using hpre

theorem endsOnce_iff (tr : List Ev) :
    endsOnce tr = true ↔
      ∀ post pre e e' id, tr = post ++ e :: pre → finishes id e = true → e' ∈ pre → finishes id e' = false := by
  induction tr with
  | nil => simp [endsOnce]
  | cons a tr ih =>
    constructor
    · intro h post pre e e' id heq hf hm
      have hpre : endsOnce tr = true := by
        cases a <;> simp only [endsOnce, Bool.and_eq_true] at h <;> first | exact h | exact h.2
      cases post with
      | nil =>
        simp only [List.nil_append, List.cons.injEq] at heq
        obtain ⟨he, hp⟩ := heq
        subst he; subst hp
        cases a with
        | woke i r =>
          simp only [finishes, beq_iff_eq] at hf
          subst hf
          simp only [endsOnce, Bool.and_eq_true, Bool.not_eq_true', List.any_eq_false] at h
          simpa using h.1 e' hm
        | gaveUp i =>
          simp only [finishes, beq_iff_eq] at hf
          subst hf
          simp only [endsOnce, Bool.and_eq_true, Bool.not_eq_true', List.any_eq_false] at h
          simpa using h.1 e' hm
        | proposed _ _ => simp [finishes] at hf
        | applied _ _ => simp [finishes] at hf
      | cons p post =>
        simp only [List.cons_append, List.cons.injEq] at heq
        exact ih.mp hpre post pre e e' id heq.2 hf hm
    · intro h
      have hpre : endsOnce tr = true :=
        ih.mpr (fun post pre e e' id heq hf hm => h (a :: post) pre e e' id (by rw [heq]; rfl) hf hm)
      cases a with
      | woke i r =>
        simp only [endsOnce, Bool.and_eq_true, Bool.not_eq_true', List.any_eq_false]
        exact ⟨fun e' hm => by simpa using h [] tr (.woke i r) e' i rfl (by simp [finishes]) hm, hpre⟩
      | gaveUp i =>
        simp only [endsOnce, Bool.and_eq_true, Bool.not_eq_true', List.any_eq_false]
        exact ⟨fun e' hm => by simpa using h [] tr (.gaveUp i) e' i rfl (by simp [finishes]) hm, hpre⟩
      | proposed _ _ => simpa [endsOnce] using hpre
      | applied _ _ => simpa [endsOnce] using hpre

/-! ### the schedule conditions, as propositions -/

theorem gapTargets_false {s : State} (hb : ∀ id ch r, s.gap id = some (ch, r) → id < s.nextId ∧ ch < s.nextCh) {c : Ch}
    (h : gapTargets s c = false) : ∀ id ch r, s.gap id = some (ch, r) → ch ≠ c := by
  intro id ch r hg hc
  have hid := (hb id ch r hg).1
  unfold gapTargets at h
  rw [List.any_eq_false] at h
  have := h id (List.mem_range.mpr hid)
  simp [hg, hc] at this

theorem gapTargets_true {s : State} {c : Ch} (h : gapTargets s c = true) : ∃ id r, s.gap id = some (c, r) := by
  unfold gapTargets at h
  rw [List.any_eq_true] at h
  obtain ⟨id, _, h⟩ := h
  split at h
  · rename_i ch r hg
    exact ⟨id, r, by simp at h; rw [hg, h]⟩
  · simp at h

/-! ### the ownership invariant of the unchanged code -/

structure Inv (s : State) : Prop where
  np : s.panicked = false
  wBound : ∀ id ch, s.waiter id = some ch → id < s.nextId ∧ ch < s.nextCh
  poolBound : ∀ c, s.pool c = true → c < s.nextCh
  fullBound : ∀ c, s.full c = true → c < s.nextCh
  gapBound : ∀ id ch r, s.gap id = some (ch, r) → id < s.nextId ∧ ch < s.nextCh
  slotBound : ∀ id r, s.slot id = some r → id < s.nextId
  appBound : ∀ id r, Ev.applied id r ∈ s.trace → id < s.nextId
  /-- a registration belongs to a live waiter, with the waiter's channel -/
  tabW : ∀ id ch, s.tab id = some ch → s.waiter id = some ch
  /-- a channel held by a waiter is not in the pool … -/
  wPool : ∀ id ch, s.waiter id = some ch → s.pool ch = false
  /-- … and not held by another waiter -/
  wInj : ∀ id id' ch, s.waiter id = some ch → s.waiter id' = some ch → id = id'
  /-- a Trigger between its parts: registration gone, its channel empty, the entry was applied with that result, and the
      channel is held by the waiter of that id or by no waiter at all -/
  gapOk : ∀ id ch r, s.gap id = some (ch, r) → s.tab id = none ∧ s.full ch = false ∧ Ev.applied id r ∈ s.trace ∧
            (s.waiter id = some ch ∨ (s.waiter id = none ∧ ∀ id', s.waiter id' ≠ some ch))
  gapInj : ∀ id id' ch r r', s.gap id = some (ch, r) → s.gap id' = some (ch, r') → id = id'
  /-- a waiter whose channel holds a signal: the signal is the one of ITS OWN applied result -/
  sig : ∀ id ch, s.waiter id = some ch → s.full ch = true →
          s.tab id = none ∧ s.gap id = none ∧ ∃ r, s.slot id = some r ∧ Ev.applied id r ∈ s.trace
  own : ownResult s.trace = true

theorem inv_init : Inv init := by
  constructor <;> simp [init, ownResult]

theorem inv_signal {s : State} (h : Inv s) (id : Id) : Inv (signal s id) := by
  unfold signal
  split
  · exact h
  · rename_i ch r hg
    have hgo := h.gapOk id ch r hg
    simp only [hgo.2.1, Bool.false_eq_true, ↓reduceIte]
    obtain ⟨h1, h2, h3, h4, h5, h6, h7, h8, h9, h10, h11, h12, h13, h14⟩ := h
    constructor <;> dsimp only <;> try simp only [upd_apply]
    all_goals grind

set_option linter.unusedSimpArgs false

theorem inv_applied {s : State} (h : Inv s) (atomic : Bool) (id : Id) (r : Res) : Inv (applied atomic s id r) := by
  unfold applied
  obtain ⟨h1, h2, h3, h4, h5, h6, h7, h8, h9, h10, h11, h12, h13, h14⟩ := h
  split
  · cases atomic with
    | false =>
      simp only [Bool.false_eq_true, ↓reduceIte]
      split
      · constructor <;> dsimp only <;> try simp only [upd_apply, ownResult]
        all_goals grind
      · constructor <;> dsimp only <;> try simp only [upd_apply, ownResult]
        all_goals grind
    | true =>
      simp only [↓reduceIte, triggerNow]
      split
      · constructor <;> dsimp only <;> try simp only [upd_apply, ownResult]
        all_goals grind
      · rename_i ch ht
        have hw : s.waiter id = some ch := h8 id ch ht
        have hf : s.full ch = false := by grind
        have hgn : s.gap id = none := by
          cases hg : s.gap id with
          | none => rfl
          | some p =>
            obtain ⟨c', r'⟩ := p
            have := (h11 id c' r' hg).1
            rw [ht] at this; exact absurd this (by simp)
        simp only [hf, Bool.false_eq_true, ↓reduceIte]
        constructor <;> dsimp only <;> try simp only [upd_apply, ownResult]
        all_goals grind
  · constructor <;> assumption

theorem inv_wake {s : State} (h : Inv s) (id : Id) : Inv (wake s id) := by
  unfold wake
  obtain ⟨h1, h2, h3, h4, h5, h6, h7, h8, h9, h10, h11, h12, h13, h14⟩ := h
  split
  · constructor <;> assumption
  · split
    · constructor <;> dsimp only <;> try simp only [upd_apply, ownResult]
      all_goals grind
    · constructor <;> assumption

theorem inv_poolDrop {s : State} (h : Inv s) (c : Ch) : Inv { s with pool := upd s.pool c false } := by
  obtain ⟨h1, h2, h3, h4, h5, h6, h7, h8, h9, h10, h11, h12, h13, h14⟩ := h
  constructor <;> dsimp only <;> try simp only [upd_apply, ownResult]
  all_goals grind

theorem inv_giveUp {s : State} (h : Inv s) (id : Id) : Inv (giveUp true s id) := by
  unfold giveUp
  obtain ⟨h1, h2, h3, h4, h5, h6, h7, h8, h9, h10, h11, h12, h13, h14⟩ := h
  split
  · constructor <;> assumption
  · rename_i ch hw
    simp only [↓reduceIte, triggerNow]
    split
    · simp only [h1, Bool.false_eq_true, ↓reduceIte]
      constructor <;> dsimp only <;> try simp only [upd_apply, ownResult]
      all_goals grind
    · rename_i ch' ht
      have hch : ch' = ch := by grind
      subst hch
      have hf : s.full ch' = false := by grind
      simp only [hf, h1, Bool.false_eq_true, ↓reduceIte]
      constructor <;> dsimp only <;> try simp only [upd_apply, ownResult]
      all_goals grind

theorem inv_propose {cfg : Cfg} (hr : cfg.replaceStale = true) {s : State} (h : Inv s) (pick : Option Ch)
    (hg : safePick s (.propose pick) = true) : Inv (propose cfg s pick) := by
  have hgt : ∀ c, pick = some c → s.pool c = true → ∀ id ch r, s.gap id = some (ch, r) → ch ≠ c := by
    intro c hc hp
    subst hc
    simp only [safePick, hp, Bool.true_and, Bool.not_eq_true'] at hg
    exact gapTargets_false h.gapBound hg
  clear hg
  obtain ⟨h1, h2, h3, h4, h5, h6, h7, h8, h9, h10, h11, h12, h13, h14⟩ := h
  have htn : s.tab s.nextId = none := by
    cases ht : s.tab s.nextId with
    | none => rfl
    | some ch => exact absurd (h2 _ _ (h8 _ _ ht)).1 (Nat.lt_irrefl _)
  have hfn : s.full s.nextCh = false := by
    cases hf : s.full s.nextCh with
    | false => rfl
    | true => exact absurd (h4 _ hf) (Nat.lt_irrefl _)
  unfold propose
  simp only [htn, hr, Bool.true_and]
  cases pick with
  | none =>
    simp only [Bool.false_eq_true, ↓reduceIte, hfn]
    constructor <;> dsimp only <;> try simp only [upd_apply, ownResult]
    all_goals grind
  | some c =>
    simp only [Option.getD_some]
    by_cases hp : s.pool c = true
    · have hgt' := hgt c rfl hp
      simp only [hp, ↓reduceIte]
      by_cases hf : s.full c = true
      · simp only [hf, ↓reduceIte]
        constructor <;> dsimp only <;> try simp only [upd_apply, ownResult]
        all_goals grind
      · simp only [hf, Bool.false_eq_true, ↓reduceIte]
        constructor <;> dsimp only <;> try simp only [upd_apply, ownResult]
        all_goals grind
    · simp only [hp, Bool.false_eq_true, ↓reduceIte, hfn]
      constructor <;> dsimp only <;> try simp only [upd_apply, ownResult]
      all_goals grind

/-- the invariant is preserved by EVERY step whose pick is safe — with the replacement test and both give-up Triggers, whether
    Trigger is atomic or not -/
theorem inv_step {cfg : Cfg} (hr : cfg.replaceStale = true) (ht : cfg.timeoutTriggers = true) (hf : cfg.failTriggers = true)
    {s : State} (h : Inv s) (st : Step) (hg : safePick s st = true) : Inv (step cfg s st) := by
  unfold step
  rw [if_neg (by rw [h.np]; decide)]
  cases st with
  | propose pick => exact inv_propose hr h pick hg
  | applied id r => exact inv_applied h _ id r
  | signal id => exact inv_signal h id
  | timeout id => rw [ht]; exact inv_giveUp h id
  | fail id => rw [hf]; exact inv_giveUp h id
  | wake id => exact inv_wake h id
  | poolDrop c => exact inv_poolDrop h c

theorem inv_run {cfg : Cfg} (hr : cfg.replaceStale = true) (ht : cfg.timeoutTriggers = true) (hf : cfg.failTriggers = true) :
    ∀ (sched : List Step) (s : State), Inv s → admissible safePick cfg s sched = true → Inv (run cfg s sched)
  | [], _, h, _ => h
  | st :: rest, s, h, ha => by
    simp only [admissible, Bool.and_eq_true] at ha
    exact inv_run hr ht hf rest _ (inv_step hr ht hf h st ha.1) ha.2

/-! ### the atomic Trigger (since fix 184e1b3): no Trigger is ever half-done, every pick is safe -/

def NoGap (s : State) : Prop := ∀ id, s.gap id = none

theorem nogap_init : NoGap init := fun _ => rfl

theorem triggerNow_gap (s : State) (id : Id) (x : Res) : (triggerNow s id x).gap = s.gap := by
  unfold triggerNow; split <;> (try split) <;> rfl

theorem triggerNow_waiter (s : State) (id : Id) (x : Res) : (triggerNow s id x).waiter = s.waiter := by
  unfold triggerNow; split <;> (try split) <;> rfl

theorem triggerNow_trace (s : State) (id : Id) (x : Res) : (triggerNow s id x).trace = s.trace := by
  unfold triggerNow; split <;> (try split) <;> rfl

theorem triggerNow_nextId (s : State) (id : Id) (x : Res) : (triggerNow s id x).nextId = s.nextId := by
  unfold triggerNow; split <;> (try split) <;> rfl

theorem nogap_step {cfg : Cfg} (ha : cfg.atomicTrigger = true) {s : State} (h : NoGap s) (st : Step) :
    NoGap (step cfg s st) := by
  unfold step
  split
  · exact h
  cases st with
  | propose pick =>
    simp only [propose]
    split <;> exact h
  | applied id r =>
    simp only [applied, ha, ↓reduceIte]
    split
    · intro i; rw [triggerNow_gap]; exact h i
    · exact h
  | signal id =>
    simp only [signal, h id]
    exact h
  | timeout id =>
    simp only [giveUp]
    split
    · exact h
    · split <;> (try split) <;> (intro i; simp only [triggerNow_gap]; exact h i)
  | fail id =>
    simp only [giveUp]
    split
    · exact h
    · split <;> (try split) <;> (intro i; simp only [triggerNow_gap]; exact h i)
  | wake id =>
    simp only [wake]
    split
    · exact h
    · split <;> exact h
  | poolDrop c => exact h

theorem nogap_safePick {s : State} (h : NoGap s) (st : Step) : safePick s st = true := by
  cases st with
  | propose pick =>
    cases pick with
    | none => rfl
    | some c =>
      have : gapTargets s c = false := by
        unfold gapTargets
        rw [List.any_eq_false]
        intro id _
        simp [h id]
      simp [safePick, this]
  | _ => rfl

theorem nogap_admissible {cfg : Cfg} (ha : cfg.atomicTrigger = true) :
    ∀ (sched : List Step) (s : State), NoGap s → admissible safePick cfg s sched = true
  | [], _, _ => rfl
  | st :: rest, s, h => by
    simp only [admissible, Bool.and_eq_true]
    exact ⟨nogap_safePick h st, nogap_admissible ha rest _ (nogap_step ha h st)⟩

/-- the code since fix 184e1b3: the invariant holds after EVERY schedule -/
theorem inv_run_code (sched : List Step) : Inv (run Cfg.code init sched) :=
  inv_run rfl rfl rfl sched init inv_init (nogap_admissible rfl sched init nogap_init)

/-! ### before fix 184e1b3 (`Cfg.preFix`): no give-up inside a Trigger gap ⇒ every pick is safe -/

/-- every Trigger between its parts still has its waiter -/
def Live (s : State) : Prop := ∀ id ch r, s.gap id = some (ch, r) → s.waiter id = some ch

theorem live_safePick {s : State} (h : Inv s) (hl : Live s) (st : Step) : safePick s st = true := by
  cases st with
  | propose pick =>
    cases pick with
    | none => rfl
    | some c =>
      simp only [safePick, Bool.not_eq_true', Bool.and_eq_false_iff]
      by_cases hp : s.pool c = true
      · right
        cases hg : gapTargets s c with
        | false => rfl
        | true =>
          obtain ⟨id, r, hgap⟩ := gapTargets_true hg
          have := h.wPool id c (hl id c r hgap)
          rw [hp] at this; exact absurd this (by decide)
      · left; simpa using hp
  | _ => rfl

theorem live_step {s : State} (h : Inv s) (hl : Live s) (st : Step) (hg : noGiveUpInGap s st = true) :
    Live (step Cfg.preFix s st) := by
  unfold step
  rw [if_neg (by rw [h.np]; decide)]
  obtain ⟨h1, h2, h3, h4, h5, h6, h7, h8, h9, h10, h11, h12, h13, h14⟩ := h
  unfold Live at *
  cases st with
  | propose pick =>
    have htn : s.tab s.nextId = none := by
      cases ht : s.tab s.nextId with
      | none => rfl
      | some ch => exact absurd (h2 _ _ (h8 _ _ ht)).1 (Nat.lt_irrefl _)
    simp only [propose, htn, upd_apply]
    grind
  | applied id r =>
    simp only [applied, Cfg.preFix, Cfg.code, Bool.false_eq_true, ↓reduceIte]
    split
    · split <;> (try dsimp only) <;> (try simp only [upd_apply]) <;> grind
    · exact hl
  | signal id =>
    simp only [signal]
    split
    · exact hl
    · split <;> (try dsimp only) <;> (try simp only [upd_apply]) <;> grind
  | timeout id =>
    simp only [noGiveUpInGap, Option.isNone_iff_eq_none] at hg
    simp only [giveUp, Cfg.preFix, Cfg.code, ↓reduceIte, triggerNow]
    split
    · exact hl
    · split <;> (try split) <;> (try split) <;> (try dsimp only) <;> (try simp only [upd_apply]) <;> grind
  | fail id =>
    simp only [noGiveUpInGap, Option.isNone_iff_eq_none] at hg
    simp only [giveUp, Cfg.preFix, Cfg.code, ↓reduceIte, triggerNow]
    split
    · exact hl
    · split <;> (try split) <;> (try split) <;> (try dsimp only) <;> (try simp only [upd_apply]) <;> grind
  | wake id =>
    simp only [wake]
    split
    · exact hl
    · split
      · dsimp only; simp only [upd_apply]; grind
      · exact hl
  | poolDrop c => exact hl

theorem gapfree_admissible : ∀ (sched : List Step) (s : State), Inv s → Live s →
    admissible noGiveUpInGap Cfg.preFix s sched = true → admissible safePick Cfg.preFix s sched = true
  | [], _, _, _, _ => rfl
  | st :: rest, s, h, hl, ha => by
    simp only [admissible, Bool.and_eq_true] at ha ⊢
    have hsp := live_safePick h hl st
    exact ⟨hsp, gapfree_admissible rest _ (inv_step rfl rfl rfl h st hsp) (live_step h hl st ha.1) ha.2⟩

theorem live_init : Live init := by
  intro id ch r h; simp [init] at h

/-! ### every request ends at most once — every configuration, every schedule -/

structure InvB (s : State) : Prop where
  wB : ∀ id ch, s.waiter id = some ch → id < s.nextId
  fin : ∀ id, s.trace.any (finishes id) = true → s.waiter id = none ∧ id < s.nextId
  once : endsOnce s.trace = true

theorem invB_init : InvB init := by
  constructor <;> simp [init, endsOnce]

theorem invB_step (cfg : Cfg) {s : State} (h : InvB s) (st : Step) : InvB (step cfg s st) := by
  unfold step
  split
  · exact h
  obtain ⟨h1, h2, h3⟩ := h
  have hfin : ∀ id ch, s.waiter id = some ch → s.trace.any (finishes id) = false := by
    intro id ch hw
    cases hf : s.trace.any (finishes id) with
    | false => rfl
    | true => have := (h2 id hf).1; rw [hw] at this; exact absurd this (by simp)
  have giveUp_ok : ∀ trig id, InvB (giveUp trig s id) := by
    intro trig id
    unfold giveUp
    split
    · exact ⟨h1, h2, h3⟩
    · rename_i ch hw
      have hf := hfin id ch hw
      have hlt := h1 id ch hw
      have key : ∀ s1 : State, s1.waiter = s.waiter → s1.trace = s.trace → s1.nextId = s.nextId →
          InvB (if s1.panicked = true then s1 else
            { s1 with waiter := upd s1.waiter id none, pool := upd s1.pool ch true, trace := .gaveUp id :: s1.trace }) := by
        intro s1 e1 e2 e3
        split
        · exact ⟨by rw [e1, e3]; exact h1, by rw [e1, e2, e3]; exact h2, by rw [e2]; exact h3⟩
        · constructor <;> dsimp only <;> simp only [e1, e2, e3, upd_apply, endsOnce, List.any_cons, finishes]
          all_goals grind
      cases trig with
      | false => exact key s rfl rfl rfl
      | true =>
        simp only [↓reduceIte]
        apply key
        all_goals (unfold triggerNow; split <;> (try split) <;> rfl)
  cases st with
  | propose pick =>
    simp only [propose]
    split
    · exact ⟨h1, h2, h3⟩
    · constructor <;> dsimp only <;> simp only [upd_apply, endsOnce, List.any_cons, finishes]
      all_goals grind
  | applied id r =>
    simp only [applied]
    split
    · have hlog : InvB { s with trace := Ev.applied id r :: s.trace } := by
        constructor <;> (try dsimp only) <;> (try simp only [endsOnce, List.any_cons, finishes]) <;> grind
      split
      · obtain ⟨g1, g2, g3⟩ := hlog
        exact ⟨by rw [triggerNow_waiter, triggerNow_nextId]; exact g1,
               by rw [triggerNow_waiter, triggerNow_nextId, triggerNow_trace]; exact g2,
               by rw [triggerNow_trace]; exact g3⟩
      · split
        · exact hlog
        · obtain ⟨g1, g2, g3⟩ := hlog
          exact ⟨g1, g2, g3⟩
    · exact ⟨h1, h2, h3⟩
  | signal id =>
    simp only [signal]
    split
    · exact ⟨h1, h2, h3⟩
    · split <;> exact ⟨h1, h2, h3⟩
  | timeout id => exact giveUp_ok _ id
  | fail id => exact giveUp_ok _ id
  | wake id =>
    simp only [wake]
    split
    · exact ⟨h1, h2, h3⟩
    · rename_i ch hw
      have hf := hfin id ch hw
      have hlt := h1 id ch hw
      split
      · constructor <;> dsimp only <;> simp only [upd_apply, endsOnce, List.any_cons, finishes]
        all_goals grind
      · exact ⟨h1, h2, h3⟩
  | poolDrop c => exact ⟨h1, h2, h3⟩

theorem invB_run (cfg : Cfg) : ∀ (sched : List Step) (s : State), InvB s → InvB (run cfg s sched)
  | [], _, h => h
  | st :: rest, _, h => invB_run cfg rest _ (invB_step cfg h st)

/-! ### a pick that is not safe can always be continued to a wake-up without the own result -/

theorem step_propose_pooled {s : State} {c : Ch} (hp : s.panicked = false) (hpool : s.pool c = true)
    (hf : s.full c = false) (ht : s.tab s.nextId = none) :
    step Cfg.preFix s (.propose (some c)) =
      { s with nextId := s.nextId + 1, pool := upd s.pool c false, tab := upd s.tab s.nextId (some c),
               waiter := upd s.waiter s.nextId (some c), trace := .proposed s.nextId c :: s.trace } := by
  simp [step, hp, propose, hpool, hf, ht, Cfg.code, Cfg.preFix]

theorem step_signal {cfg : Cfg} {s : State} {id : Id} {ch : Ch} {r : Res} (hp : s.panicked = false)
    (hg : s.gap id = some (ch, r)) (hf : s.full ch = false) :
    step cfg s (.signal id) =
      { s with gap := upd s.gap id none, slot := upd s.slot id (some r), full := upd s.full ch true } := by
  simp [step, hp, signal, hg, hf]

theorem step_wake {cfg : Cfg} {s : State} {id : Id} {ch : Ch} (hp : s.panicked = false)
    (hw : s.waiter id = some ch) (hf : s.full ch = true) :
    step cfg s (.wake id) =
      { s with full := upd s.full ch false, waiter := upd s.waiter id none, pool := upd s.pool ch true,
               trace := .woke id ((s.slot id).getD Res.nil) :: s.trace } := by
  simp [step, hp, wake, hw, hf]

theorem bad_pick_breaks {s : State} (h : Inv s) (c : Ch) (hu : safePick s (.propose (some c)) = false) :
    ∃ id, ownResult (run Cfg.preFix s [.propose (some c), .signal id, .wake s.nextId]).trace = false := by
  have hu' : (s.pool c && gapTargets s c) = true := by
    simp only [safePick] at hu
    cases hx : (s.pool c && gapTargets s c) with
    | true => rfl
    | false => rw [hx] at hu; exact absurd hu (by decide)
  rw [Bool.and_eq_true] at hu'
  obtain ⟨hp, hg⟩ := hu'
  obtain ⟨id, r, hgap⟩ := gapTargets_true hg
  refine ⟨id, ?_⟩
  obtain ⟨h1, h2, h3, h4, h5, h6, h7, h8, h9, h10, h11, h12, h13, h14⟩ := h
  have hgo := h11 id c r hgap
  have hlt := (h5 id c r hgap).1
  have hne : s.nextId ≠ id := Ne.symm (Nat.ne_of_lt hlt)
  have htn : s.tab s.nextId = none := by
    cases ht : s.tab s.nextId with
    | none => rfl
    | some ch => exact absurd (h2 _ _ (h8 _ _ ht)).1 (Nat.lt_irrefl _)
  have hsn : s.slot s.nextId = none := by
    cases hs : s.slot s.nextId with
    | none => rfl
    | some r => exact absurd (h6 _ _ hs) (Nat.lt_irrefl _)
  have happ : ∀ r, Ev.applied s.nextId r ∉ s.trace := fun r hm => absurd (h7 _ _ hm) (Nat.lt_irrefl _)
  simp only [run, List.foldl_cons, List.foldl_nil]
  rw [step_propose_pooled h1 hp hgo.2.1 htn]
  rw [step_signal (ch := c) (r := r) (by exact h1) (by exact hgap) (by exact hgo.2.1)]
  rw [step_wake (ch := c) (by exact h1) (by simp) (by simp)]
  simp only [upd_apply, hne, ↓reduceIte, hsn, Option.getD_none, ownResult, Res.nil, Res.isErr, Bool.false_or,
    Bool.and_eq_false_iff]
  left
  cases hc : (Ev.proposed s.nextId c :: s.trace).contains (Ev.applied s.nextId (Res.val 0)) with
  | false => rfl
  | true =>
    rw [List.contains_iff_mem] at hc
    simp only [List.mem_cons, reduceCtorEq, false_or] at hc
    exact absurd hc (happ _)

end Z.WaitTable
