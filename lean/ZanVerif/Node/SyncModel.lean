/-
  C19 model (core only): the receiver of cross-cluster log replay.
  node/node.go applyEntry (FromClusterSyncer branch) + node/remote_sync_mgr.go: per source cluster a
  synced position (term, index); an entry is skipped by `Gen.isAlreadyApplied` (regenerated), otherwise
  the state machine runs and the position is advanced by `postprocessRemoteApply` unless the state
  machine answered "ignored" (regenerated guard `Gen.postprocessUpdates`).
  Snapshot = (data, positions) captured together; restore installs both; the local log tail is replayed.
-/
import ZanVerif.Gen.Sync

namespace Z.SyncM

abbrev Cluster := Nat

structure Pos where
  term : Nat
  index : Nat
  deriving Repr, DecidableEq

/-- one delivered source entry as it sits in the receiver's raft log -/
structure Ent where
  cluster : Cluster
  term : Nat
  index : Nat
  ignored : Bool := false      -- the state machine will answer errIgnoredRemoteApply (failed remote-snapshot apply)
  deriving Repr, DecidableEq

structure St where
  pos : Cluster → Option Pos := fun _ => none   -- remoteSyncedStates
  data : List (Cluster × Nat) := []             -- effects applied, oldest first: (cluster, source index)

def getPos (s : St) (c : Cluster) : Option Pos := s.pos c
def setPos (s : St) (c : Cluster) (p : Pos) : St :=
  { s with pos := fun x => if x = c then some p else s.pos x }

/-- `isAlreadyApplied`: only when a position is recorded for the cluster -/
def skip (s : St) (e : Ent) : Bool :=
  match getPos s e.cluster with
  | none => false
  | some p => Gen.isAlreadyApplied e.term e.index p.term p.index

/-- `applyEntry` for one FromClusterSyncer entry; returns the new state and whether the state machine ran -/
def apply (s : St) (e : Ent) : St × Bool :=
  if skip s e then (s, false)
  else
    -- the state machine runs; an ignored entry (failed snapshot apply) leaves no effect
    let s1 : St := if e.ignored then s else { s with data := s.data ++ [(e.cluster, e.index)] }
    -- postprocessRemoteApply: (0,0) origin is not tracked
    let s2 := if e.term == 0 && e.index == 0 then s1
              else if Gen.postprocessUpdates false e.ignored then setPos s1 e.cluster ⟨e.term, e.index⟩ else s1
    (s2, true)

def run (s : St) : List Ent → St
  | [] => s
  | e :: es => run (apply s e).1 es

/-- effects of one source cluster, in application order -/
def effects (s : St) (c : Cluster) : List Nat := (s.data.filter (·.1 == c)).map (·.2)

end Z.SyncM
