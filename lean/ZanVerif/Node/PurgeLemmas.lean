import ZanVerif.Node.Purge
namespace Z.Purge

theorem removedCount_le (keep latest : Nat) (s : List Ck) : ∀ fuel, removedCount keep latest s fuel ≤ fuel
  | 0 => Nat.le_refl _
  | fuel + 1 => by
    simp only [removedCount]
    split
    · omega
    · split
      · omega
      · have := removedCount_le keep latest s fuel; omega

/-- every removed position j (counted from the first candidate) had, `keep` places later, a checkpoint
    whose index is below `latest` -/
theorem removed_witness (keep latest : Nat) (s : List Ck) : ∀ (fuel : Nat), fuel ≤ s.length - keep →
    ∀ j, j < removedCount keep latest s fuel →
      ∃ c, s[(s.length - keep) - fuel + j + keep]? = some c ∧ c.2 < latest
  | 0, _, j, hj => by simp [removedCount] at hj
  | fuel + 1, hf, j, hj => by
    simp only [removedCount] at hj
    split at hj
    · omega
    · rename_i c hc
      split at hj
      · omega
      · rename_i hlt
        cases j with
        | zero => exact ⟨c, by simpa using hc, by omega⟩
        | succ j =>
          obtain ⟨c', h1, h2⟩ := removed_witness keep latest s fuel (by omega) j (by omega)
          refine ⟨c', ?_, h2⟩
          have : s.length - keep - (fuel + 1) + (j + 1) + keep = s.length - keep - fuel + j + keep := by omega
          rw [this]; exact h1

end Z.Purge
