/-
  C04 — the proposal WAIT TABLE with POOLED wait channels (node/node.go ProposeInternal / queueRequest, pkg/wait/wait.go).

  What the code does (line numbers of /repo at 184e1b3):

    node/node.go
      133-139  type waitReqHeaders struct { wr wait.WaitResult; done chan struct{}; reqs …; buf …; pool *sync.Pool }
      141-156  (*waitReqHeaders).release: wr = nil; reqs.Reqs[:0]; buf reset / replaced; pool.Put(wrh)
               — the `done` channel is NOT drained and NOT replaced: a signal buffered in it stays in the pooled header
      166-173  sync.Pool.New: a header with a fresh `done = make(chan struct{}, 1)` (one-place buffer)
      602      ProposeInternal: wrh := nd.wrPools.getWaitReq(1)              (any pooled header, or Pool.New)
      604-606  if len(wrh.done) != 0 { wrh.done = make(chan struct{}, 1) }   (the stale-signal REPLACEMENT TEST)
      632      wrh.wr = nd.w.RegisterWithC(irr.Header.ID, wrh.done)          (registration BEFORE …
      633      err := nd.rn.node.ProposeEntryWithDrop(ctx, e, cancel)          … the propose call)
      640-641  failed propose: nd.w.Trigger(irr.Header.ID, err); wrh.release(false)
      829-840  queueRequest's wait function: select {
      830-837    case <-ctx.Done(): …; nd.w.Trigger(req.Header.ID, err); rsp = err
      838-839    case <-wrh.wr.WaitC(): rsp = wrh.wr.GetResult() }
      843      defer wrh.release(err == nil)
      847-851  a result that is not an `error` value (nil included) is returned as SUCCESS
    pkg/wait/wait.go
      84-97    RegisterWithC(id, done): e := newResultData(done) — a FRESH resultData{value: nil, done: done} per
               registration; under the lock: m[id] == nil ? m[id] = e : log.Panicf("dup id")
      103-121  Trigger(id, x): Lock; defer Unlock; rd := m[id]; delete(m, id);               (part 1)
               if rd != nil { rd.value = x; select { case rd.done <- struct{}{}: default: log.Panicf("done chan is full") } }
                                                                                            (part 2)
               Since fix 184e1b3 BOTH parts run under the lock (`atomicTrigger = true`).  BEFORE the fix the lock was dropped
               between them (`w.l.Unlock()` after the delete; part 2 OUTSIDE the lock): `atomicTrigger = false`.
    node/state_machine.go: the apply path calls kvsm.w.Trigger(reqID, result) for every applied entry AFTER its effect
               (165,186,188,719…942), registered on this node or not.

  The model.  A header is identified with its current `done` channel (`wr` is reset by release and only ever read by the
  request that holds the header; `buf`/`reqs` do not take part).  The result slot `resultData.value` is per REGISTRATION
  (a fresh resultData for every RegisterWithC), hence per request id — ids are unique per proposal (the id generator;
  here: a counter).  What is pooled — and may be handed to ANY later proposal — is the channel.

  Steps (an adversary scheduler picks any sequence):
    propose pick   ProposeInternal up to and including the propose call: a pooled header (`pick = some c`, c in the pool)
                   or a new one; replacement test; RegisterWithC.  The id is the generator's next id.
    applied id r   the apply path has applied entry `id` with result `r` and runs Trigger(id, r).  Enabled only for ids
                   that were proposed (registration precedes the propose call, 632 < 633, so an entry is never applied
                   before its registration).  With `atomicTrigger` (the code since 184e1b3) the whole Trigger is this ONE step:
                   every other access to the registration of `id` — the waiter's own Trigger(id, err) when it gives up —
                   takes the same lock (same id, same shard), slot `id` is read by the waiter of `id` only after the
                   signal, and the header of `id` cannot reach the pool before that waiter's Trigger returns.  Without it
                   (the code BEFORE the fix) the step is PART 1 only (lookup + delete), and
    signal id      is PART 2 of that Trigger: rd.value = r; rd.done <- {} (panic when the buffer is full); between
                   `applied id r` and `signal id` any other step may be scheduled.  (A no-op under `atomicTrigger`.)
    timeout id     the waiter takes the ctx.Done() arm (deadline or cancel): Trigger(id, err), then release.
    fail id        the propose call of `id` returned an error: Trigger(id, err), then release(false) (640-641).
    wake id        the waiter takes the WaitC arm: consumes a signal from ITS channel, reads ITS result slot, releases.
    poolDrop c     sync.Pool drops a pooled object (GC).
  The Trigger calls made by the waiter itself (timeout / fail) and the channel receive + slot read of `wake` are taken as
  one step each: between their parts no other goroutine can observe or change what they touch (the registration of
  `id` is gone after part 1, slot `id` is read only by the waiter of `id`, and the header is not in the pool before
  release), so every interleaving of the real parts is equivalent to one of the model.

  Core Lean only; everything is executable (functions are updated pointwise).
-/
namespace Z.WaitTable

abbrev Id := Nat
abbrev Ch := Nat

/-- what Trigger stores / GetResult returns.  `val 0` is Go's nil interface (what a never-written `resultData.value`
    reads as, and also what several apply paths pass for a plain success); every `val` is a SUCCESS for the waiter
    (node.go:847-851: only a value of type `error` is a failure). -/
inductive Res where
  | val (v : Nat)
  | err (e : Nat)
  deriving DecidableEq, Repr

def Res.isErr : Res → Bool
  | .err _ => true
  | .val _ => false

/-- Go's nil interface value -/
def Res.nil : Res := .val 0

/-- the context error the waiter passes to Trigger when it gives up (ctx.Err() / ErrProposalCanceled / the propose error) -/
def giveUpErr : Res := .err 0

/-- the facts of the code the model is parameterised by (regenerated: Gen/WaitTable.lean) -/
structure Cfg where
  /-- node.go:604-606 `if len(wrh.done) != 0 { wrh.done = make(chan struct{}, 1) }` before RegisterWithC -/
  replaceStale : Bool
  /-- node.go:836 the ctx.Done() arm calls nd.w.Trigger(req.Header.ID, err) before the header is released -/
  timeoutTriggers : Bool
  /-- node.go:640 a failed propose calls nd.w.Trigger(irr.Header.ID, err) before the header is released -/
  failTriggers : Bool
  /-- wait.go:108-109 `w.l.Lock(); defer w.l.Unlock()`: Trigger deletes, stores and signals under the lock (fix 184e1b3) -/
  atomicTrigger : Bool
  deriving DecidableEq, Repr

/-- the unchanged code -/
def Cfg.code : Cfg := ⟨true, true, true, true⟩

/-- the code BEFORE fix 184e1b3: Trigger dropped the lock between the delete and the store + signal -/
def Cfg.preFix : Cfg := { Cfg.code with atomicTrigger := false }

/-- ghost: what has happened so far (newest first) -/
inductive Ev where
  | proposed (id : Id) (ch : Ch)   -- registered with channel `ch` and handed to raft
  | applied (id : Id) (r : Res)    -- the apply path applied entry `id` with result `r` (then starts Trigger)
  | woke (id : Id) (r : Res)       -- the waiter of `id` was woken by a signal and read `r` from its slot
  | gaveUp (id : Id)               -- the waiter of `id` returned an error (timeout / cancel / failed propose)
  deriving DecidableEq, Repr

inductive Step where
  | propose (pick : Option Ch)
  | applied (id : Id) (r : Res)
  | signal (id : Id)
  | timeout (id : Id)
  | fail (id : Id)
  | wake (id : Id)
  | poolDrop (c : Ch)
  deriving DecidableEq, Repr

/-- pointwise update -/
def upd {β : Type} (f : Nat → β) (a : Nat) (b : β) : Nat → β := fun x => if x = a then b else f x

@[simp] theorem upd_same {β : Type} (f : Nat → β) (a : Nat) (b : β) : upd f a b a = b := by simp [upd]
theorem upd_other {β : Type} (f : Nat → β) (a : Nat) (b : β) (x : Nat) (h : x ≠ a) : upd f a b x = f x := by simp [upd, h]
theorem upd_apply {β : Type} (f : Nat → β) (a : Nat) (b : β) (x : Nat) : upd f a b x = if x = a then b else f x := rfl

structure State where
  nextId : Nat                      -- the id generator (nd.rn.reqIDGen.Next())
  nextCh : Nat                      -- allocator of `make(chan struct{}, 1)`
  full : Ch → Bool                  -- the one-place buffer of a channel holds a signal (len(ch) != 0)
  pool : Ch → Bool                  -- released headers, by their `done` channel (sync.Pool contents)
  tab : Id → Option Ch              -- the wait table: id ↦ resultData.done
  slot : Id → Option Res            -- resultData.value of the registration of id (none: never written, reads as nil)
  waiter : Id → Option Ch           -- in-flight requests: id ↦ the `done` channel of the header it holds (= wr.WaitC())
  gap : Id → Option (Ch × Res)      -- Triggers of the apply path between part 1 and part 2 (only without atomicTrigger): id ↦ (rd.done, x)
  panicked : Bool                   -- log.Panicf fired ("done chan is full" / "dup id"): the process is gone
  trace : List Ev                   -- ghost

def init : State :=
  { nextId := 0, nextCh := 0, full := fun _ => false, pool := fun _ => false, tab := fun _ => none,
    slot := fun _ => none, waiter := fun _ => none, gap := fun _ => none, panicked := false, trace := [] }

/-- ProposeInternal (node.go:602-633) -/
def propose (cfg : Cfg) (s : State) (pick : Option Ch) : State :=
  let id := s.nextId
  -- 602 getWaitReq: a pooled header if the scheduler names one that is in the pool, else Pool.New (166-173: fresh channel)
  let pooled := match pick with
    | some c => s.pool c
    | none => false
  let ch0 := if pooled then pick.getD 0 else s.nextCh
  let pool1 := if pooled then upd s.pool ch0 false else s.pool
  let next1 := if pooled then s.nextCh else s.nextCh + 1
  -- 604-606 the replacement test: a header whose channel holds a signal gets a new channel
  let replace := cfg.replaceStale && s.full ch0
  let ch := if replace then next1 else ch0
  let next2 := if replace then next1 + 1 else next1
  -- 632 RegisterWithC (wait.go:89-95): dup id panics; else m[id] = fresh resultData{done: ch}
  match s.tab id with
  | some _ => { s with panicked := true }
  | none =>
    { s with nextId := id + 1, nextCh := next2, pool := pool1, tab := upd s.tab id (some ch),
             waiter := upd s.waiter id (some ch), trace := .proposed id ch :: s.trace }

/-- wait.go:103-121 Trigger(id, x), both parts at once (the waiter's own Trigger; the apply path's under `atomicTrigger`) -/
def triggerNow (s : State) (id : Id) (x : Res) : State :=
  match s.tab id with
  | none => s                                                           -- 112 rd == nil: nothing
  | some ch =>
    let s1 := { s with tab := upd s.tab id none, slot := upd s.slot id (some x) }   -- 111 delete; 113 rd.value = x
    if s.full ch then { s1 with panicked := true }                      -- 117-118 done chan is full
    else { s1 with full := upd s.full ch true }                         -- 116 rd.done <- struct{}{}

/-- the apply path: entry `id` applied with result `r`, then Trigger(id, r) — all of it under the lock (`atomic`, the code since
    184e1b3), or its part 1 only (before the fix: the rest is `signal`) -/
def applied (atomic : Bool) (s : State) (id : Id) (r : Res) : State :=
  if id < s.nextId then
    let s1 := { s with trace := .applied id r :: s.trace }
    if atomic then triggerNow s1 id r
    else match s.tab id with
    | none => s1
    | some ch => { s1 with tab := upd s.tab id none, gap := upd s.gap id (some (ch, r)) }
  else s

/-- part 2 of the apply path's Trigger when it is NOT atomic (before fix 184e1b3): store the result FIRST, then signal -/
def signal (s : State) (id : Id) : State :=
  match s.gap id with
  | none => s
  | some (ch, r) =>
    let s1 := { s with gap := upd s.gap id none, slot := upd s.slot id (some r) }    -- rd.value = x
    if s.full ch then { s1 with panicked := true }                      -- done chan is full
    else { s1 with full := upd s.full ch true }                         -- rd.done <- struct{}{}

/-- the waiter of `id` gives up: [Trigger(id, err)] then release (node.go:830-837+843, 640-641).  release (141-156) puts
    the header back with its `done` channel as it is. -/
def giveUp (trig : Bool) (s : State) (id : Id) : State :=
  match s.waiter id with
  | none => s
  | some ch =>
    let s1 := if trig then triggerNow s id giveUpErr else s
    if s1.panicked then s1
    else { s1 with waiter := upd s1.waiter id none, pool := upd s1.pool ch true, trace := .gaveUp id :: s1.trace }

/-- the waiter of `id` is woken (node.go:838-839): `<-wrh.wr.WaitC()` consumes the signal of ITS channel, then
    `wrh.wr.GetResult()` reads ITS slot; the deferred release (843) pools the header. -/
def wake (s : State) (id : Id) : State :=
  match s.waiter id with
  | none => s
  | some ch =>
    if s.full ch then
      let r := (s.slot id).getD Res.nil
      { s with full := upd s.full ch false, waiter := upd s.waiter id none, pool := upd s.pool ch true,
               trace := .woke id r :: s.trace }
    else s

def step (cfg : Cfg) (s : State) (st : Step) : State :=
  if s.panicked then s else
  match st with
  | .propose pick => propose cfg s pick
  | .applied id r => applied cfg.atomicTrigger s id r
  | .signal id => signal s id
  | .timeout id => giveUp cfg.timeoutTriggers s id
  | .fail id => giveUp cfg.failTriggers s id
  | .wake id => wake s id
  | .poolDrop c => { s with pool := upd s.pool c false }

def run (cfg : Cfg) (s : State) (sched : List Step) : State := sched.foldl (step cfg) s

/-! ### schedule conditions -/

/-- some Trigger of the apply path that is between its two parts targets channel `c` -/
def gapTargets (s : State) (c : Ch) : Bool :=
  (List.range s.nextId).any fun id => match s.gap id with
    | some (ch, _) => ch == c
    | none => false

/-- SAFE PICK: the pool does not hand out a header whose channel an unfinished Trigger still targets -/
def safePick (s : State) : Step → Bool
  | .propose (some c) => !(s.pool c && gapTargets s c)
  | _ => true

/-- TRIGGER ATOMIC W.R.T. GIVING UP: the waiter of `id` does not give up (and release its header) while the apply path's
    Trigger of `id` is between its two parts -/
def noGiveUpInGap (s : State) : Step → Bool
  | .timeout id => (s.gap id).isNone
  | .fail id => (s.gap id).isNone
  | _ => true

/-- no condition -/
def anySched (_ : State) (_ : Step) : Bool := true

/-- the schedule condition `G` holds at every step of the run of `sched` from `s` -/
def admissible (G : State → Step → Bool) (cfg : Cfg) : State → List Step → Bool
  | _, [] => true
  | s, st :: rest => G s st && admissible G cfg (step cfg s st) rest

/-! ### the properties, as executable predicates on the ghost trace (newest event first) -/

/-- (a) every wake-up that reads a success result was preceded by `applied` of ITS OWN id with exactly that result -/
def ownResult : List Ev → Bool
  | [] => true
  | .woke id r :: pre => (r.isErr || pre.contains (.applied id r)) && ownResult pre
  | _ :: pre => ownResult pre

/-- the event ends request `id` (its wait function returned) -/
def finishes (id : Id) : Ev → Bool
  | .woke i _ => i == id
  | .gaveUp i => i == id
  | _ => false

/-- (b) every request ends at most once: no wake-up / give-up of an id is preceded by another one of the same id -/
def endsOnce : List Ev → Bool
  | [] => true
  | .woke id _ :: pre => !pre.any (finishes id) && endsOnce pre
  | .gaveUp id :: pre => !pre.any (finishes id) && endsOnce pre
  | _ :: pre => endsOnce pre

end Z.WaitTable
