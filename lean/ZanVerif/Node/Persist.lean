/-
Scratch prototype for C06 (single data node, abstract): the ordering obligations of the
persist / apply / ack / checkpoint / record / purge path and the recovery theorems.  Disk = durable
log (with a purged prefix), checkpoints, recorded snapshot indexes; memory = up flag, applied index,
data.  `recover` = newest recorded snapshot whose checkpoint exists (or a clean start when nothing
was ever recorded), then replay of the log tail by the ordinary apply step.
For EVERY interleaving of the sub-steps with crashes at ANY point: recovery is always possible, the
data of a running node is the run of a log prefix, every acknowledged index is durable, and once the
tail is replayed the data is the run of the whole durable log.
-/
namespace Z.Persist

variable {S C : Type} (ap : S → C → S) (s0 : S)

def run (cs : List C) : S := cs.foldl ap s0

structure St (S C : Type) where
  log : List C               -- durable entries (index i = position i-1); never shrinks in the model
  logStart : Nat             -- entries at positions < logStart have been purged from disk
  up : Bool                  -- volatile: process running and recovered
  applied : Nat              -- volatile
  data : S                   -- volatile (the engine directory is untrusted after a crash)
  ckpts : List (Nat × S)     -- durable checkpoints (index, content)
  recorded : List Nat        -- durable: snapshot indexes recorded in WAL + snap file
  acked : List Nat           -- indexes acknowledged to clients

inductive Step : St S C → St S C → Prop
  /-- WAL.Save + raftStorage.Append -/
  | persist (s : St S C) (c : C) (hu : s.up = true) : Step s { s with log := s.log ++ [c] }
  /-- apply loop: only entries that are durable (the obligation F1 is about) and still on disk -/
  | apply (s : St S C) (c : C) (hu : s.up = true) (hav : s.logStart ≤ s.applied)
      (h : s.log[s.applied]? = some c) :
      Step s { s with applied := s.applied + 1, data := ap s.data c }
  /-- answer the client after the apply -/
  | ack (s : St S C) (i : Nat) (hu : s.up = true) (h : i ≤ s.applied) : Step s { s with acked := i :: s.acked }
  /-- checkpoint of the engine at the applied index -/
  | checkpoint (s : St S C) (hu : s.up = true) : Step s { s with ckpts := (s.applied, s.data) :: s.ckpts }
  /-- snap file + WAL marker: only for an index whose checkpoint exists, newer than what is recorded -/
  | record (s : St S C) (i : Nat) (d : S) (h : (i, d) ∈ s.ckpts) (hnew : ∀ r ∈ s.recorded, r ≤ i)
      (hst : s.logStart ≤ i) : Step s { s with recorded := i :: s.recorded }
  /-- WAL purge / raft log compaction: never beyond the newest recorded snapshot -/
  | purgeLog (s : St S C) (k i : Nat) (hi : i ∈ s.recorded) (hmax : ∀ r ∈ s.recorded, r ≤ i) (hk : k ≤ i)
      (hm : s.logStart ≤ k) : Step s { s with logStart := k }
  /-- purgeOldCheckpoint: keeps every checkpoint at or above the newest recorded index -/
  | purgeCkpt (s : St S C) (keep : List (Nat × S)) (hsub : ∀ x ∈ keep, x ∈ s.ckpts)
      (hkeep : ∀ x ∈ s.ckpts, (∀ r ∈ s.recorded, r ≤ x.1) → x ∈ keep) : Step s { s with ckpts := keep }
  /-- process death: memory is gone, the engine directory holds anything -/
  | crash (s : St S C) (junk : S) : Step s { s with up := false, applied := 0, data := junk }
  /-- restart with a recorded snapshot: restore its checkpoint; the log tail is replayed by `apply` -/
  | recoverSnap (s : St S C) (r : Nat) (d : S) (hd : s.up = false) (hr : r ∈ s.recorded)
      (hmax : ∀ r' ∈ s.recorded, r' ≤ r) (hc : (r, d) ∈ s.ckpts) (hl : s.logStart ≤ r) :
      Step s { s with up := true, applied := r, data := d }
  /-- restart when nothing was ever recorded: clean engine, replay from the beginning -/
  | recoverClean (s : St S C) (hd : s.up = false) (hr : s.recorded = []) (hl : s.logStart = 0) :
      Step s { s with up := true, applied := 0, data := s0 }

structure Inv (s : St S C) : Prop where
  appliedLe : s.applied ≤ s.log.length
  dataOk : s.up = true → s.data = run ap s0 (s.log.take s.applied)
  ckptOk : ∀ x ∈ s.ckpts, x.1 ≤ s.log.length ∧ x.2 = run ap s0 (s.log.take x.1)
  recLe : ∀ r ∈ s.recorded, r ≤ s.log.length
  ackedLe : ∀ i ∈ s.acked, i ≤ s.log.length
  /-- the newest recorded index still has its checkpoint, and the log tail from it is on disk -/
  recHas : s.recorded = [] ∧ s.logStart = 0 ∨
    ∃ r d, r ∈ s.recorded ∧ (r, d) ∈ s.ckpts ∧ (∀ r' ∈ s.recorded, r' ≤ r) ∧ s.logStart ≤ r

theorem inv_step {s s' : St S C} (inv : Inv ap s0 s) (st : Step ap s0 s s') : Inv ap s0 s' := by
  cases st with
  | persist c hu =>
    refine ⟨?_, ?_, ?_, ?_, ?_, inv.recHas⟩
    · have := inv.appliedLe; simp; omega
    · intro h; dsimp only; rw [List.take_append_of_le_length inv.appliedLe]; exact inv.dataOk h
    · intro x hx
      have := inv.ckptOk x hx
      refine ⟨by simp; omega, ?_⟩
      dsimp only; rw [List.take_append_of_le_length this.1]; exact this.2
    · intro r hr; have := inv.recLe r hr; simp; omega
    · intro i hi; have := inv.ackedLe i hi; simp; omega
  | apply c hu hav h =>
    have hlt : s.applied < s.log.length := by
      rcases List.getElem?_eq_some_iff.mp h with ⟨h', _⟩; exact h'
    have hc : s.log[s.applied]'hlt = c := by
      rcases List.getElem?_eq_some_iff.mp h with ⟨_, h'⟩; exact h'
    refine ⟨hlt, ?_, inv.ckptOk, inv.recLe, inv.ackedLe, inv.recHas⟩
    intro _
    dsimp only
    rw [List.take_succ, List.getElem?_eq_getElem hlt, hc, inv.dataOk hu]
    simp [run, List.foldl_append]
  | ack i hu h =>
    refine ⟨inv.appliedLe, inv.dataOk, inv.ckptOk, inv.recLe, ?_, inv.recHas⟩
    intro j hj
    rcases List.mem_cons.mp hj with rfl | hj
    · exact Nat.le_trans h inv.appliedLe
    · exact inv.ackedLe j hj
  | checkpoint hu =>
    refine ⟨inv.appliedLe, inv.dataOk, ?_, inv.recLe, inv.ackedLe, ?_⟩
    · intro x hx
      rcases List.mem_cons.mp hx with rfl | hx
      · exact ⟨inv.appliedLe, inv.dataOk hu⟩
      · exact inv.ckptOk x hx
    · rcases inv.recHas with h | ⟨r, d, h1, h2, h3, h4⟩
      · exact Or.inl h
      · exact Or.inr ⟨r, d, h1, List.mem_cons_of_mem _ h2, h3, h4⟩
  | record i d h hnew hst =>
    refine ⟨inv.appliedLe, inv.dataOk, inv.ckptOk, ?_, inv.ackedLe, ?_⟩
    · intro r hr
      rcases List.mem_cons.mp hr with rfl | hr
      · exact (inv.ckptOk _ h).1
      · exact inv.recLe r hr
    · right
      refine ⟨i, d, List.mem_cons_self, h, ?_, hst⟩
      intro r' hr'
      rcases List.mem_cons.mp hr' with rfl | hr'
      · exact Nat.le_refl _
      · exact hnew r' hr'
  | purgeLog k i hi hmax hk hm =>
    refine ⟨inv.appliedLe, inv.dataOk, inv.ckptOk, inv.recLe, inv.ackedLe, ?_⟩
    rcases inv.recHas with h | ⟨r, d, h1, h2, h3, h4⟩
    · rw [h.1] at hi; cases hi
    · right
      have : r = i := Nat.le_antisymm (hmax r h1) (h3 i hi)
      subst this
      exact ⟨r, d, h1, h2, h3, hk⟩
  | purgeCkpt keep hsub hkeep =>
    refine ⟨inv.appliedLe, inv.dataOk, fun x hx => inv.ckptOk x (hsub x hx), inv.recLe, inv.ackedLe, ?_⟩
    rcases inv.recHas with h | ⟨r, d, h1, h2, h3, h4⟩
    · exact Or.inl h
    · exact Or.inr ⟨r, d, h1, hkeep (r, d) h2 h3, h3, h4⟩
  | crash junk =>
    refine ⟨Nat.zero_le _, ?_, inv.ckptOk, inv.recLe, inv.ackedLe, inv.recHas⟩
    intro h; cases h
  | recoverSnap r d hd hr hmax hc hl =>
    refine ⟨(inv.ckptOk _ hc).1, ?_, inv.ckptOk, inv.recLe, inv.ackedLe, inv.recHas⟩
    intro _; exact (inv.ckptOk _ hc).2
  | recoverClean hd hr hl =>
    refine ⟨Nat.zero_le _, ?_, inv.ckptOk, inv.recLe, inv.ackedLe, inv.recHas⟩
    intro _; simp [run]

inductive Reach : St S C → Prop
  | init : Reach ⟨[], 0, true, 0, s0, [], [], []⟩
  | step {s s'} : Reach s → Step ap s0 s s' → Reach s'

theorem reach_inv {s : St S C} (r : Reach ap s0 s) : Inv ap s0 s := by
  induction r with
  | init =>
    refine ⟨Nat.le_refl _, fun _ => by simp [run], ?_, ?_, ?_, Or.inl ⟨rfl, rfl⟩⟩
    · intro x hx; cases hx
    · intro x hx; cases hx
    · intro x hx; cases hx
  | step _ st ih => exact inv_step ap s0 ih st

/-- **recovery never gets stuck**: after a crash at any point of any interleaving, one of the two
    restart steps is enabled (the recorded snapshot's checkpoint exists and its log tail is on disk) -/
theorem recover_total {s : St S C} (r : Reach ap s0 s) (hd : s.up = false) : ∃ s', Step ap s0 s s' ∧ s'.up = true := by
  have inv := reach_inv ap s0 r
  rcases inv.recHas with ⟨h1, h2⟩ | ⟨r', d, h1, h2, h3, h4⟩
  · exact ⟨_, Step.recoverClean s hd h1 h2, rfl⟩
  · exact ⟨_, Step.recoverSnap s r' d hd h1 h3 h2 h4, rfl⟩

/-- **what a running node serves** is the run of a prefix of the durable log, and **every
    acknowledged index is durable**; when the tail has been replayed (`applied = |log|`) the data is
    the run of everything durable - hence contains every acknowledged write and nothing else -/
theorem served_state {s : St S C} (r : Reach ap s0 s) (hu : s.up = true) :
    s.data = run ap s0 (s.log.take s.applied) ∧ (∀ i ∈ s.acked, i ≤ s.log.length) ∧
    (s.applied = s.log.length → s.data = run ap s0 s.log) := by
  have inv := reach_inv ap s0 r
  refine ⟨inv.dataOk hu, inv.ackedLe, ?_⟩
  intro h
  rw [inv.dataOk hu, h, List.take_length]

#print axioms recover_total
#print axioms served_state
end Z.Persist
