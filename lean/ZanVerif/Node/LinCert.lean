/-
C04 certificate for one recorded history of the real 3-replica namespace (protocol `lin`):
the history (client records with invocation / response stamps), the apply trace of every replica
(from the apply hook: raft index, term, the operations the entry carries; `reset i` = the state
machine was restored to index i by a snapshot restore / clean start) and the offered order `L`.
`checkCert` is what the driver runs; `checkCert_sound` says what acceptance means:

  (i)   replicas (and re-applications after a restore) agree on every common index, and no operation
        is carried by two different indexes; between two resets a replica applies increasing indexes;
  (ii)  every operation some replica applied is in `L`; every answered operation is in `L`, no
        operation twice  (part of `Lin`);
  (iii) `L` respects real time  (part of `Lin`)  and lists the applied operations in raft index order;
  (iv)  replaying `L` through `LinSpec.step` from the empty store gives every answered reply – the final
        dump of a replica is an answered `dump` operation invoked after everything else.

Core only.
-/
import ZanVerif.Node.Lin
import ZanVerif.Node.LinSpec

namespace Z.LinCert
open Z.Lin Z.LinSpec

abbrev R := Rec Op Reply

/-- one applied raft entry as seen by the hook -/
structure App where
  index : Nat
  term : Nat
  ids : List Nat       -- operations of this history carried by the entry (one for a client proposal)
  other : Nat          -- request id of a request that is not of this history (0 = none)
  deriving DecidableEq, Repr

inductive Ev
  | app (a : App)
  | reset (index : Nat)
  deriving DecidableEq, Repr

def appsOf : List Ev → List App
  | [] => []
  | .app a :: r => a :: appsOf r
  | .reset _ :: r => appsOf r

def allApps (ts : List (List Ev)) : List App := ts.flatMap appsOf

/-- same index ⇒ same entry; different index ⇒ no common operation -/
def agreeB (a b : App) : Bool :=
  if a.index = b.index then decide (a = b) else a.ids.all (fun i => !b.ids.contains i)

def Agree (a b : App) : Prop :=
  (a.index = b.index → a = b) ∧ (a.index ≠ b.index → ∀ i ∈ a.ids, i ∉ b.ids)

theorem agreeB_sound {a b : App} (h : agreeB a b = true) : Agree a b := by
  unfold agreeB at h
  by_cases hi : a.index = b.index
  · simp only [hi, if_true, decide_eq_true_eq] at h
    exact ⟨fun _ => h, fun hne => absurd hi hne⟩
  · simp only [hi, if_false, List.all_eq_true, Bool.not_eq_true', List.contains_eq_mem,
      decide_eq_false_iff_not] at h
    exact ⟨fun he => absurd he hi, fun _ i hia => h i hia⟩

def pairwiseB {α : Type} (r : α → α → Bool) : List α → Bool
  | [] => true
  | a :: l => l.all (r a) && pairwiseB r l

theorem pairwiseB_sound {α : Type} (r : α → α → Bool) : ∀ l : List α, pairwiseB r l = true →
    l.Pairwise (fun a b => r a b = true) := by
  intro l
  induction l with
  | nil => intro _; exact List.Pairwise.nil
  | cons a l ih =>
    intro h
    simp only [pairwiseB, Bool.and_eq_true, List.all_eq_true] at h
    exact List.Pairwise.cons h.1 (ih h.2)

/-- between two resets the applied indexes of one replica strictly increase; after `reset i` they are > i -/
def epochOk : Option Nat → List Ev → Bool
  | _, [] => true
  | _, .reset i :: r => epochOk (some i) r
  | none, .app a :: r => epochOk (some a.index) r
  | some l, .app a :: r => decide (l < a.index) && epochOk (some a.index) r

/-- raft index at which an operation was applied (first trace entry carrying it) -/
def idxOf (apps : List App) (id : Nat) : Option Nat :=
  (apps.find? (fun a => a.ids.contains id)).map (·.index)

/-- non-decreasing (operations of one entry share the index) -/
def sortedB : List Nat → Bool
  | [] => true
  | [_] => true
  | a :: b :: r => decide (a ≤ b) && sortedB (b :: r)

def checkCert (H : List R) (traces : List (List Ev)) (L : List R) : Bool :=
  let apps := allApps traces
  pairwiseB agreeB apps &&
  traces.all (epochOk none) &&
  apps.all (fun a => a.ids.all (fun i => L.any (fun x => x.id == i))) &&
  sortedB (L.filterMap (fun x => idxOf apps x.id)) &&
  checkLin step ([] : Store) H L

/-- what an accepted certificate establishes -/
structure Accepted (H : List R) (traces : List (List Ev)) (L : List R) : Prop where
  agree : (allApps traces).Pairwise Agree
  epochs : ∀ t ∈ traces, epochOk none t = true
  appliedInL : ∀ a ∈ allApps traces, ∀ i ∈ a.ids, ∃ x ∈ L, x.id = i
  raftOrder : sortedB (L.filterMap (fun x => idxOf (allApps traces) x.id)) = true
  lin : Lin step ([] : Store) H

theorem checkCert_sound (H : List R) (traces : List (List Ev)) (L : List R)
    (h : checkCert H traces L = true) : Accepted H traces L := by
  unfold checkCert at h
  simp only [Bool.and_eq_true] at h
  obtain ⟨⟨⟨⟨h1, h2⟩, h3⟩, h4⟩, h5⟩ := h
  refine ⟨?_, ?_, ?_, h4, checkLin_sound step [] H L h5⟩
  · exact (pairwiseB_sound agreeB _ h1).imp (fun h => agreeB_sound h)
  · intro t ht
    exact (List.all_eq_true.mp h2) t ht
  · intro a ha i hi
    have := (List.all_eq_true.mp ((List.all_eq_true.mp h3) a ha)) i hi
    obtain ⟨x, hx, hxi⟩ := List.any_eq_true.mp this
    exact ⟨x, hx, by simpa using hxi⟩

/-! ### non-vacuity: a small accepted certificate and rejected variants (kernel evaluation)

Two clients: INCR k0 (op 1, index 5) ‖ GETSET k0 41 (op 2, index 6), then GET (op 3, answered from local
state, no raft entry) and a timed-out LPUSH (op 4) that was applied at index 7; replica 2 was restored to
index 5 and re-applied 6; the final dump (op 5) is read after everything. -/

def exH : List R :=
  [⟨1, ⟨.incr, 0, 0, 0⟩, 10, some (.int 1, 30)⟩,
   ⟨2, ⟨.getset, 0, 41, 0⟩, 12, some (.bulk 1, 40)⟩,
   ⟨3, ⟨.get, 0, 0, 0⟩, 45, some (.bulk 41, 50)⟩,
   ⟨4, ⟨.lpush, 2, 9, 0⟩, 46, none⟩,
   ⟨5, ⟨.dump, 0, 0, 0⟩, 100, some (.state [(0, .str 41), (2, .list [9])], 101)⟩]

def exT : List (List Ev) :=
  [[.app ⟨5, 2, [1], 0⟩, .app ⟨6, 2, [2], 0⟩, .app ⟨7, 2, [4], 0⟩],
   [.app ⟨4, 1, [], 77⟩, .app ⟨5, 2, [1], 0⟩, .app ⟨6, 2, [2], 0⟩, .reset 5, .app ⟨6, 2, [2], 0⟩, .app ⟨7, 2, [4], 0⟩]]

def exL : List R := [exH[0], exH[1], exH[2], exH[3], exH[4]]

example : checkCert exH exT exL = true := by decide
-- the reply of op 2 does not follow from the order 2,1
example : checkCert exH exT [exH[1], exH[0], exH[2], exH[3], exH[4]] = false := by decide
-- an applied operation left out of the witness
example : checkCert exH exT [exH[0], exH[1], exH[2], exH[4]] = false := by decide
-- replicas disagree at index 6
example : checkCert exH ([.app ⟨6, 2, [1], 0⟩] :: exT) exL = false := by decide
-- index 6 applied twice without a restore
example : checkCert exH ([.app ⟨6, 2, [2], 0⟩, .app ⟨6, 2, [2], 0⟩] :: exT) exL = false := by decide
-- a stale final dump (the acknowledged GETSET is missing)
example : checkCert (exH.take 4 ++ [⟨5, ⟨.dump, 0, 0, 0⟩, 100, some (.state [(0, .str 1), (2, .list [9])], 101)⟩]) exT
    (exL.take 4 ++ [⟨5, ⟨.dump, 0, 0, 0⟩, 100, some (.state [(0, .str 1), (2, .list [9])], 101)⟩]) = false := by decide

end Z.LinCert
