/-
C14 (file level), second half: after `restore` the engine data directory holds EXACTLY the checkpoint's files — every
name that is not a LOG file reads, in the data directory, the bytes the checkpoint holds under that name, and a name
the checkpoint does not have is gone — whatever the data directory held before and whatever the "same sst" test
answers (the hard-link copy replaces every file that is not the checkpoint's own inode).  Together with
`Z.Ckpt.restore_keeps` (the checkpoint itself is untouched) this is the file-level content of "a restore yields exactly
the state at the checkpoint's index": an engine reopened on that directory sees the checkpoint's files and nothing else.
Model: `Z.Ckpt` (directories map names to inodes, contents belong to inodes).
-/
import ZanVerif.Node.Ckpt

namespace Z.Ckpt

abbrev linkD (fs : FS) (n : Name) (i : Nat) : FS := { fs with dirD := (n, i) :: fs.dirD.filter (·.1 != n) }
abbrev freshD (fs : FS) (n : Name) (i : Nat) : FS :=
  { fs with dirD := (n, fs.next) :: fs.dirD.filter (·.1 != n), content := upd fs.content fs.next (fs.content i), next := fs.next + 1 }
def keptDir (same : Bytes → Bytes → Bool) (fs : FS) : List (Name × Nat) :=
  fs.dirD.filter fun (x : Name × Nat) =>
    isLog x.1 || (isSst x.1 && match lookup fs.dirK x.1 with
                           | some j => same (fs.content j) (fs.content x.2)
                           | none => false)
abbrev withD (fs : FS) (d : List (Name × Nat)) : FS := { fs with dirD := d }
theorem restore_eq (same : Bytes → Bytes → Bool) (fs : FS) :
    restore same fs = copyIn same fs.dirK (withD fs (keptDir same fs)) := rfl

theorem lookup_cons (x : Name × Nat) (d : List (Name × Nat)) (n : Name) :
    lookup (x :: d) n = if x.1 == n then some x.2 else lookup d n := by
  unfold lookup
  simp only [List.find?_cons]
  split <;> simp_all

theorem lookup_filter_ne (d : List (Name × Nat)) (n m : Name) (h : m ≠ n) :
    lookup (d.filter (·.1 != n)) m = lookup d m := by
  induction d with
  | nil => rfl
  | cons x t ih =>
    simp only [List.filter_cons]
    by_cases hx : x.1 = n
    · have : (x.1 != n) = false := by simp [hx]
      simp only [this, Bool.false_eq_true, ↓reduceIte]
      rw [ih, lookup_cons]
      have : (x.1 == m) = false := by
        rw [hx]; simp; exact fun e => h e.symm
      simp [this]
    · have : (x.1 != n) = true := by simp [hx]
      simp only [this, ↓reduceIte]
      rw [lookup_cons, lookup_cons, ih]

theorem lookup_none_of_not_mem (d : List (Name × Nat)) (n : Name) (h : n ∉ d.map (·.1)) : lookup d n = none := by
  induction d with
  | nil => rfl
  | cons x t ih =>
    rw [lookup_cons]
    have hx : x.1 ≠ n := fun e => h (by simp [e])
    have : (x.1 == n) = false := by simp [hx]
    simp only [this, Bool.false_eq_true, ↓reduceIte]
    exact ih (fun hm => h (by simp only [List.map_cons, List.mem_cons]; exact Or.inr hm))

theorem lookup_mem {d : List (Name × Nat)} {n : Name} {i : Nat} (h : lookup d n = some i) : (n, i) ∈ d := by
  induction d with
  | nil => simp [lookup] at h
  | cons x t ih =>
    rw [lookup_cons] at h
    by_cases hx : (x.1 == n) = true
    · simp only [hx, ↓reduceIte, Option.some.injEq] at h
      have : x.1 = n := by simpa using hx
      exact List.mem_cons.mpr (Or.inl (by rw [← this, ← h]))
    · simp only [hx, Bool.false_eq_true, ↓reduceIte] at h
      exact List.mem_cons_of_mem _ (ih h)

/-- what `copyIn` leaves behind: old inodes keep their bytes; a copied (non-LOG) name of the list reads the bytes the
    list's inode had; every other name of the data directory is untouched -/
theorem copyIn_spec (same : Bytes → Bytes → Bool) : ∀ (l : List (Name × Nat)) (fs : FS),
    (∀ x ∈ l, x.2 < fs.next) → (l.map (·.1)).Nodup →
    (∀ j, j < fs.next → (copyIn same l fs).content j = fs.content j) ∧ fs.next ≤ (copyIn same l fs).next ∧
    (∀ n, n ∈ l.map (·.1) → isLog n = false →
      (lookup (copyIn same l fs).dirD n).map (copyIn same l fs).content = (lookup l n).map fs.content) ∧
    (∀ n, (n ∉ l.map (·.1) ∨ isLog n = true) → lookup (copyIn same l fs).dirD n = lookup fs.dirD n) := by
  intro l
  induction l with
  | nil =>
    intro fs _ _
    exact ⟨fun _ _ => rfl, Nat.le_refl _, fun n hn => by simp at hn, fun _ _ => rfl⟩
  | cons x rest ih =>
    intro fs hold hnd
    obtain ⟨n, i⟩ := x
    have hi : i < fs.next := hold (n, i) List.mem_cons_self
    have hrestOld : ∀ y ∈ rest, y.2 < fs.next := fun y hy => hold y (List.mem_cons_of_mem _ hy)
    have hnd' : (rest.map (·.1)).Nodup := (List.nodup_cons.mp hnd).2
    have hnNotRest : n ∉ rest.map (·.1) := (List.nodup_cons.mp hnd).1
    simp only [copyIn]
    by_cases hl : isLog n = true
    · -- LOG files of the checkpoint are not copied
      simp only [hl, ↓reduceIte]
      obtain ⟨h1, h2, h3, h4⟩ := ih fs hrestOld hnd'
      refine ⟨h1, h2, ?_, ?_⟩
      · intro m hm hlm
        have hmn : m ≠ n := fun e => by rw [e, hl] at hlm; cases hlm
        have hmr : m ∈ rest.map (·.1) := by
          simp only [List.map_cons, List.mem_cons] at hm
          rcases hm with e | e
          · exact absurd e hmn
          · exact e
        rw [h3 m hmr hlm, lookup_cons]
        have : ((n, i).1 == m) = false := by simp; exact fun e => hmn e.symm
        simp [this]
      · intro m hm
        apply h4
        rcases hm with hm | hm
        · left; intro hmr; exact hm (by simp only [List.map_cons, List.mem_cons]; exact Or.inr hmr)
        · right; exact hm
    · have hl' : isLog n = false := by simpa using hl
      simp only [hl, Bool.false_eq_true, ↓reduceIte]
      by_cases hs : isSst n = true
      · -- sst: hard link, the name refers to the checkpoint's inode
        simp only [hs, ↓reduceIte]
        obtain ⟨h1, h2, h3, h4⟩ := ih (linkD fs n i) hrestOld hnd'
        refine ⟨h1, h2, ?_, ?_⟩
        · intro m hm hlm
          by_cases hmn : m = n
          · subst hmn
            rw [h4 m (Or.inl hnNotRest)]
            simp only [lookup_cons, BEq.rfl, ↓reduceIte, Option.map_some]
            rw [h1 i hi]
          · have hmr : m ∈ rest.map (·.1) := by
              simp only [List.map_cons, List.mem_cons] at hm
              rcases hm with e | e
              · exact absurd e hmn
              · exact e
            rw [h3 m hmr hlm, lookup_cons]
            have : ((n, i).1 == m) = false := by simp; exact fun e => hmn e.symm
            simp [this]
        · intro m hm
          have hmn : m ≠ n := by
            intro e
            rcases hm with hm | hm
            · exact hm (by simp [e])
            · rw [e, hl'] at hm; cases hm
          have hm' : m ∉ rest.map (·.1) ∨ isLog m = true := by
            rcases hm with hm | hm
            · left; intro hmr; exact hm (by simp only [List.map_cons, List.mem_cons]; exact Or.inr hmr)
            · right; exact hm
          rw [h4 m hm']
          simp only [lookup_cons]
          have : (n == m) = false := by simp; exact fun e => hmn e.symm
          simp only [this, Bool.false_eq_true, ↓reduceIte]
          exact lookup_filter_ne fs.dirD n m hmn
      · -- any other file: copied into a fresh inode
        simp only [hs, Bool.false_eq_true, ↓reduceIte]
        have hrestOld' : ∀ y ∈ rest, y.2 < fs.next + 1 := fun y hy => Nat.lt_succ_of_lt (hrestOld y hy)
        obtain ⟨h1, h2, h3, h4⟩ := ih (freshD fs n i) hrestOld' hnd'
        simp only at h1 h2 h3 h4
        have hupd : ∀ j, j < fs.next → upd fs.content fs.next (fs.content i) j = fs.content j := by
          intro j hj; unfold upd; have : j ≠ fs.next := by omega
          simp [this]
        refine ⟨fun j hj => by rw [h1 j (by omega), hupd j hj], Nat.le_trans (Nat.le_succ fs.next) h2, ?_, ?_⟩
        · intro m hm hlm
          by_cases hmn : m = n
          · subst hmn
            rw [h4 m (Or.inl hnNotRest)]
            simp only [lookup_cons, BEq.rfl, ↓reduceIte, Option.map_some]
            rw [h1 fs.next (by omega)]
            simp [upd]
          · have hmr : m ∈ rest.map (·.1) := by
              simp only [List.map_cons, List.mem_cons] at hm
              rcases hm with e | e
              · exact absurd e hmn
              · exact e
            rw [h3 m hmr hlm, lookup_cons]
            have : ((n, i).1 == m) = false := by simp; exact fun e => hmn e.symm
            simp only [this, Bool.false_eq_true, ↓reduceIte]
            cases hlk : lookup rest m with
            | none => rfl
            | some j =>
              have := hrestOld _ (lookup_mem hlk)
              simp only [Option.map_some, Option.some.injEq]
              exact hupd j this
        · intro m hm
          have hmn : m ≠ n := by
            intro e
            rcases hm with hm | hm
            · exact hm (by simp [e])
            · rw [e, hl'] at hm; cases hm
          have hm' : m ∉ rest.map (·.1) ∨ isLog m = true := by
            rcases hm with hm | hm
            · left; intro hmr; exact hm (by simp only [List.map_cons, List.mem_cons]; exact Or.inr hmr)
            · right; exact hm
          rw [h4 m hm']
          simp only [lookup_cons]
          have : (n == m) = false := by simp; exact fun e => hmn e.symm
          simp only [this, Bool.false_eq_true, ↓reduceIte]
          exact lookup_filter_ne fs.dirD n m hmn

/-- the data directory before the copy keeps only LOG files and sst names the checkpoint has -/
theorem kept_lookup (same : Bytes → Bytes → Bool) (fs : FS) (n : Name) (hl : isLog n = false)
    (hn : n ∉ fs.dirK.map (·.1)) : lookup (keptDir same fs) n = none := by
  apply lookup_none_of_not_mem
  intro hm
  obtain ⟨x, hx, hxn⟩ := List.mem_map.mp hm
  unfold keptDir at hx
  have hf := (List.mem_filter.mp hx).2
  rw [hxn] at hf
  rw [hl, lookup_none_of_not_mem fs.dirK n hn] at hf
  simp at hf

/-- **after a restore the data directory holds exactly the checkpoint's files** (LOG files aside), for every previous
    content of the data directory and every answer of the "same sst" test -/
theorem restore_yields_checkpoint (same : Bytes → Bytes → Bool) (fs : FS) (inv : Inv fs)
    (hnd : (fs.dirK.map (·.1)).Nodup) (n : Name) (hl : isLog n = false) :
    view (restore same fs) (restore same fs).dirD n = view fs fs.dirK n := by
  rw [restore_eq]
  unfold view
  obtain ⟨_, _, h3, h4⟩ := copyIn_spec same fs.dirK (withD fs (keptDir same fs)) (fun x hx => inv.kOld x hx) hnd
  by_cases hn : n ∈ fs.dirK.map (·.1)
  · exact h3 n hn hl
  · rw [h4 n (Or.inl hn), lookup_none_of_not_mem fs.dirK n hn]
    show (lookup (keptDir same fs) n).map _ = _
    rw [kept_lookup same fs n hl hn]
    rfl

end Z.Ckpt
