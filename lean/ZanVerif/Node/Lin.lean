/-
Scratch prototype for C04: a certificate checker for linearizability and its soundness.
History = operation records with invocation/response stamps from one global counter; the
certificate is the order in which the operations took effect (raft apply order, from the hook).
Generic in the sequential specification.
-/
namespace Z.Lin

structure Rec (Op Ret : Type) where
  id  : Nat
  op  : Op
  inv : Nat
  res : Option (Ret × Nat)        -- reply and response stamp; none = no reply seen (timeout, crash)

variable {Op Ret S : Type} [DecidableEq Op] [DecidableEq Ret]

/-- b had answered before a was invoked -/
def finishedBefore (b a : Rec Op Ret) : Prop := ∃ r t, b.res = some (r, t) ∧ t < a.inv

/-- the replies along L are what the sequential specification returns -/
def Replay (step : S → Op → S × Ret) : S → List (Rec Op Ret) → Prop
  | _, [] => True
  | s, x :: xs =>
    (match x.res with | none => True | some (r, _) => r = (step s x.op).2) ∧ Replay step (step s x.op).1 xs

/-- linearizable: some duplicate-free sequence of operations of H, containing every answered one,
    respects real time and explains every reply -/
def Lin (step : S → Op → S × Ret) (init : S) (H : List (Rec Op Ret)) : Prop :=
  ∃ L : List (Rec Op Ret), (L.map (·.id)).Nodup ∧ (∀ x ∈ L, x ∈ H) ∧
    (∀ x ∈ H, x.res.isSome → x ∈ L) ∧
    L.Pairwise (fun a b => ¬ finishedBefore b a) ∧ Replay step init L

/-! ### the checker -/

def replayOk (step : S → Op → S × Ret) : S → List (Rec Op Ret) → Bool
  | _, [] => true
  | s, x :: xs =>
    (match x.res with | none => true | some (r, _) => decide (r = (step s x.op).2)) &&
      replayOk step (step s x.op).1 xs

/-- linear-time real-time check: every response stamp is ≥ the largest invocation stamp seen earlier -/
def rtOk : Nat → List (Rec Op Ret) → Bool
  | _, [] => true
  | m, x :: xs =>
    (match x.res with | none => true | some (_, t) => decide (m ≤ t)) && rtOk (max m x.inv) xs

def memId (H : List (Rec Op Ret)) (x : Rec Op Ret) : Bool :=
  H.any (fun y => y.id == x.id && decide (y.op = x.op) && y.inv == x.inv && decide (y.res = x.res))

def checkLin (step : S → Op → S × Ret) (init : S) (H L : List (Rec Op Ret)) : Bool :=
  decide ((L.map (·.id)).Nodup) && L.all (memId H) && H.all (fun x => !x.res.isSome || memId L x) &&
    rtOk 0 L && replayOk step init L

/-! ### soundness -/

theorem replayOk_sound (step : S → Op → S × Ret) : ∀ (s : S) (L : List (Rec Op Ret)),
    replayOk step s L = true → Replay step s L := by
  intro s L
  induction L generalizing s with
  | nil => intro _; trivial
  | cons x xs ih =>
    intro h
    simp only [replayOk, Bool.and_eq_true] at h
    refine ⟨?_, ih _ h.2⟩
    have h1 := h.1
    cases hx : x.res with
    | none => trivial
    | some p => rw [hx] at h1; simpa using h1

theorem rtOk_sound : ∀ (m : Nat) (L : List (Rec Op Ret)), rtOk m L = true →
    (∀ x ∈ L, ∀ r t, x.res = some (r, t) → m ≤ t) ∧ L.Pairwise (fun a b => ¬ finishedBefore b a) := by
  intro m L
  induction L generalizing m with
  | nil => intro _; exact ⟨fun x hx _ _ _ => (by cases hx), List.Pairwise.nil⟩
  | cons x xs ih =>
    intro h
    simp only [rtOk, Bool.and_eq_true] at h
    obtain ⟨ih1, ih2⟩ := ih _ h.2
    refine ⟨?_, List.Pairwise.cons ?_ ih2⟩
    · intro y hy r t hres
      rcases List.mem_cons.mp hy with e | hy
      · subst e
        have h1 := h.1
        rw [hres] at h1; simpa using h1
      · have := ih1 y hy r t hres
        have : m ≤ max m x.inv := Nat.le_max_left _ _
        omega
    · intro y hy ⟨r, t, hres, hlt⟩
      have := ih1 y hy r t hres
      have : x.inv ≤ max m x.inv := Nat.le_max_right _ _
      omega

theorem memId_sound {H : List (Rec Op Ret)} {x : Rec Op Ret} (h : memId H x = true) : x ∈ H := by
  unfold memId at h
  rw [List.any_eq_true] at h
  obtain ⟨y, hy, hc⟩ := h
  simp only [Bool.and_eq_true, beq_iff_eq, decide_eq_true_eq] at hc
  obtain ⟨⟨⟨h1, h2⟩, h3⟩, h4⟩ := hc
  have : y = x := by
    cases y; cases x; simp_all
  exact this ▸ hy

/-- **soundness of the certificate checker** -/
theorem checkLin_sound (step : S → Op → S × Ret) (init : S) (H L : List (Rec Op Ret))
    (h : checkLin step init H L = true) : Lin step init H := by
  unfold checkLin at h
  simp only [Bool.and_eq_true, decide_eq_true_eq, List.all_eq_true, Bool.or_eq_true,
    Bool.not_eq_true'] at h
  obtain ⟨⟨⟨⟨hnd, hsub⟩, hall⟩, hrt⟩, hrep⟩ := h
  refine ⟨L, hnd, fun x hx => memId_sound (hsub x hx), ?_, (rtOk_sound 0 L hrt).2,
    replayOk_sound step init L hrep⟩
  intro x hx hsome
  rcases hall x hx with h1 | h1
  · rw [h1] at hsome; cases hsome
  · exact memId_sound h1

#print axioms checkLin_sound

/-! ### non-vacuity: a register history that is accepted, and one that is rejected -/

inductive ROp | write (v : Nat) | read
  deriving DecidableEq
def rstep (s : Nat) : ROp → Nat × Nat
  | .write v => (v, 0)
  | .read => (s, s)

def h1 : List (Rec ROp Nat) :=
  [⟨1, .write 5, 0, some (0, 3)⟩, ⟨2, .read, 1, some (5, 2)⟩, ⟨3, .read, 4, some (5, 6)⟩,
   ⟨4, .write 7, 5, none⟩]
example : checkLin rstep 0 h1 [h1[0], h1[1], h1[2]] = true := by decide
-- a stale read after the write had been acknowledged is rejected whatever order is offered
def h2 : List (Rec ROp Nat) := [⟨1, .write 5, 0, some (0, 1)⟩, ⟨2, .read, 2, some (0, 3)⟩]
example : checkLin rstep 0 h2 [h2[0], h2[1]] = false := by decide
example : checkLin rstep 0 h2 [h2[1], h2[0]] = false := by decide

end Z.Lin
