/-
  C14/C06 model (core only): `purgeOldCheckpoint(keepNum, dir, latestSnapIndex)` of rockredis/rockredis.go.
  Checkpoint directories are named term-index; they are sorted ascending by (term, index); for
  i < len - keepNum, in order: look at the checkpoint keepNum places LATER; if its index is >=
  latestSnapIndex stop; otherwise remove the i-th.
-/
namespace Z.Purge

abbrev Ck := Nat × Nat   -- (term, index)

def ckLt (a b : Ck) : Bool := if a.1 == b.1 then decide (a.2 < b.2) else decide (a.1 < b.1)

def insertCk : List Ck → Ck → List Ck
  | [], x => [x]
  | a :: t, x => if ckLt x a then x :: a :: t else a :: insertCk t x

def sortCk (l : List Ck) : List Ck := l.foldl insertCk []

/-- number of leading checkpoints removed from the sorted list `s` -/
def removedCount (keep latest : Nat) (s : List Ck) : Nat → Nat
  | 0 => 0
  | fuel + 1 =>
    -- fuel+1 candidates left to look at, starting at position i = (len - keep) - (fuel+1)
    let i := (s.length - keep) - (fuel + 1)
    match s[i + keep]? with
    | none => 0
    | some c => if c.2 ≥ latest then 0 else 1 + removedCount keep latest s fuel

/-- the directories that remain, ascending -/
def purge (keep latest : Nat) (l : List Ck) : List Ck :=
  let s := sortCk l
  if s.length > keep then s.drop (removedCount keep latest s (s.length - keep)) else s

end Z.Purge
