/- Lemmas about the C19 receiver model. -/
import ZanVerif.Node.SyncModel

namespace Z.SyncM

/-- the regenerated skip condition, as a proposition -/
theorem skipGen_iff (t i st si : Nat) :
    Gen.isAlreadyApplied t i st si = true ↔ (t < st ∨ i ≤ si) := by
  unfold Gen.isAlreadyApplied
  simp only [Bool.false_or, Bool.or_eq_true, decide_eq_true_eq, Int.ofNat_lt, Int.ofNat_le]

theorem skip_iff (s : St) (e : Ent) :
    skip s e = true ↔ ∃ p, s.pos e.cluster = some p ∧ (e.term < p.term ∨ e.index ≤ p.index) := by
  unfold skip getPos
  cases h : s.pos e.cluster with
  | none => simp
  | some p => simp [skipGen_iff]

/-- entries that really come from a source log: raft indexes start at 1 -/
def Real (e : Ent) : Prop := 1 ≤ e.index

theorem apply_data (s : St) (e : Ent) :
    (apply s e).1.data = if skip s e = true ∨ e.ignored = true then s.data else s.data ++ [(e.cluster, e.index)] := by
  unfold apply
  by_cases hs : skip s e = true
  · simp [hs]
  · simp only [hs, Bool.false_eq_true, if_false, false_or]
    by_cases hi : e.ignored = true
    · simp only [hi, if_true, Gen.postprocessUpdates]
      split <;> simp
    · simp only [hi, Bool.false_eq_true, if_false]
      split
      · rfl
      · split <;> simp [setPos]

theorem apply_pos (s : St) (e : Ent) (hr : Real e) (c : Cluster) :
    (apply s e).1.pos c =
      if skip s e = true ∨ e.ignored = true then s.pos c
      else if c = e.cluster then some ⟨e.term, e.index⟩ else s.pos c := by
  unfold apply
  by_cases hs : skip s e = true
  · simp [hs]
  · simp only [hs, Bool.false_eq_true, if_false, false_or]
    have hz : (e.term == 0 && e.index == 0) = false := by
      unfold Real at hr
      simp only [Bool.and_eq_false_iff, beq_eq_false_iff_ne, ne_eq]; right; omega
    by_cases hi : e.ignored = true
    · simp [hi, hz, Gen.postprocessUpdates]
    · simp [hi, hz, Gen.postprocessUpdates, setPos]

/-- invariant of one source cluster: its effects are strictly increasing and bounded by the recorded index -/
def Inv (s : St) : Prop :=
  ∀ c, (effects s c).Pairwise (· < ·) ∧
    (∀ x ∈ effects s c, ∃ p, s.pos c = some p ∧ x ≤ p.index)

theorem effects_append (s : St) (c c' : Cluster) (i : Nat) :
    ((s.data ++ [(c', i)]).filter (·.1 == c)).map (·.2) = effects s c ++ (if c' = c then [i] else []) := by
  unfold effects
  rw [List.filter_append, List.map_append]
  by_cases h : c' = c
  · subst h; simp
  · simp [h]

theorem inv_apply {s : St} (h : Inv s) (e : Ent) (hr : Real e) : Inv (apply s e).1 := by
  intro c
  have hd := apply_data s e
  have hp := apply_pos s e hr
  by_cases hc : skip s e = true ∨ e.ignored = true
  · have : effects (apply s e).1 c = effects s c := by unfold effects; rw [hd, if_pos hc]
    rw [this, hp c, if_pos hc]
    exact h c
  · have heff : effects (apply s e).1 c = effects s c ++ (if e.cluster = c then [e.index] else []) := by
      unfold effects; rw [hd, if_neg hc]; exact effects_append s c e.cluster e.index
    rw [heff, hp c, if_neg hc]
    have hns : ¬ skip s e = true := fun hh => hc (Or.inl hh)
    by_cases hcc : e.cluster = c
    · subst hcc
      simp only [if_true]
      -- every earlier effect is below the new index: it is ≤ the recorded index, which the new entry exceeds
      have hlt : ∀ x ∈ effects s e.cluster, x < e.index := by
        intro x hx
        obtain ⟨p, hp1, hp2⟩ := (h e.cluster).2 x hx
        have : ¬ (e.term < p.term ∨ e.index ≤ p.index) := by
          intro hh; exact hns ((skip_iff s e).mpr ⟨p, hp1, hh⟩)
        omega
      constructor
      · rw [List.pairwise_append]
        refine ⟨(h e.cluster).1, by simp, ?_⟩
        intro a ha b hb
        simp only [List.mem_cons, List.not_mem_nil, or_false] at hb
        subst hb; exact hlt a ha
      · intro x hx
        refine ⟨⟨e.term, e.index⟩, rfl, ?_⟩
        simp only [List.mem_append, List.mem_cons, List.not_mem_nil, or_false] at hx
        rcases hx with hx | hx
        · exact Nat.le_of_lt (hlt x hx)
        · subst hx; exact Nat.le_refl _
    · have hcc' : ¬ c = e.cluster := fun hh => hcc hh.symm
      simp only [hcc, hcc', if_false, List.append_nil]
      exact h c

theorem inv_run : ∀ (es : List Ent) {s : St}, Inv s → (∀ e ∈ es, Real e) → Inv (run s es)
  | [], _, h, _ => h
  | e :: es, _, h, hr => inv_run es (inv_apply h e (hr e List.mem_cons_self)) (fun x hx => hr x (List.mem_cons_of_mem _ hx))

theorem inv_init : Inv {} := by intro c; simp [effects]

/-- the recorded position only grows: index strictly when it moves, term weakly -/
def PosLe (s s' : St) : Prop :=
  ∀ c p, s.pos c = some p → ∃ p', s'.pos c = some p' ∧ p.term ≤ p'.term ∧ p.index ≤ p'.index

theorem posLe_refl (s : St) : PosLe s s := fun _ p h => ⟨p, h, Nat.le_refl _, Nat.le_refl _⟩

theorem posLe_trans {a b c : St} (h1 : PosLe a b) (h2 : PosLe b c) : PosLe a c := by
  intro cl p hp
  obtain ⟨p', hp', l1, l2⟩ := h1 cl p hp
  obtain ⟨p'', hp'', m1, m2⟩ := h2 cl p' hp'
  exact ⟨p'', hp'', Nat.le_trans l1 m1, Nat.le_trans l2 m2⟩

theorem posLe_apply (s : St) (e : Ent) (hr : Real e) : PosLe s (apply s e).1 := by
  intro c p hp
  rw [apply_pos s e hr c]
  by_cases hc : skip s e = true ∨ e.ignored = true
  · rw [if_pos hc]; exact ⟨p, hp, Nat.le_refl _, Nat.le_refl _⟩
  · rw [if_neg hc]
    by_cases hcc : c = e.cluster
    · subst hcc
      rw [if_pos rfl]
      have hns : ¬ skip s e = true := fun hh => hc (Or.inl hh)
      have : ¬ (e.term < p.term ∨ e.index ≤ p.index) := fun hh => hns ((skip_iff s e).mpr ⟨p, hp, hh⟩)
      exact ⟨_, rfl, by simp only; omega, by simp only; omega⟩
    · rw [if_neg hcc]; exact ⟨p, hp, Nat.le_refl _, Nat.le_refl _⟩

theorem posLe_run : ∀ (es : List Ent) (s : St), (∀ e ∈ es, Real e) → PosLe s (run s es)
  | [], s, _ => posLe_refl s
  | e :: es, s, hr =>
    posLe_trans (posLe_apply s e (hr e List.mem_cons_self))
      (posLe_run es _ (fun x hx => hr x (List.mem_cons_of_mem _ hx)))

theorem skip_mono {s s' : St} (h : PosLe s s') (e : Ent) (hs : skip s e = true) : skip s' e = true := by
  obtain ⟨p, hp, hc⟩ := (skip_iff s e).mp hs
  obtain ⟨p', hp', l1, l2⟩ := h e.cluster p hp
  exact (skip_iff s' e).mpr ⟨p', hp', by omega⟩

/-- an entry is *settled* in a state when delivering it again changes nothing -/
def Settled (s : St) (e : Ent) : Prop := skip s e = true ∨ e.ignored = true

theorem St.ext' {a b : St} (h1 : a.pos = b.pos) (h2 : a.data = b.data) : a = b := by
  cases a; cases b; simp_all

theorem apply_settled {s : St} {e : Ent} (hr : Real e) (h : Settled s e) : (apply s e).1 = s := by
  have h' : skip s e = true ∨ e.ignored = true := h
  apply St.ext'
  · funext c; rw [apply_pos s e hr c, if_pos h']
  · rw [apply_data s e, if_pos h']

theorem settled_after_apply (s : St) (e : Ent) (hr : Real e) : Settled (apply s e).1 e := by
  by_cases hc : skip s e = true ∨ e.ignored = true
  · rcases hc with hc | hc
    · exact Or.inl (skip_mono (posLe_apply s e hr) e hc)
    · exact Or.inr hc
  · left
    refine (skip_iff _ e).mpr ⟨⟨e.term, e.index⟩, ?_, Or.inr (Nat.le_refl _)⟩
    rw [apply_pos s e hr, if_neg hc, if_pos rfl]

theorem settled_mono {s s' : St} (h : PosLe s s') {e : Ent} (hs : Settled s e) : Settled s' e := by
  rcases hs with hs | hs
  · exact Or.inl (skip_mono h e hs)
  · exact Or.inr hs

theorem run_settled : ∀ (es : List Ent) (s : St), (∀ e ∈ es, Real e) → (∀ e ∈ es, Settled s e) → run s es = s
  | [], _, _, _ => rfl
  | e :: es, s, hr, hs => by
    simp only [run]
    rw [apply_settled (hr e List.mem_cons_self) (hs e List.mem_cons_self)]
    exact run_settled es s (fun x hx => hr x (List.mem_cons_of_mem _ hx)) (fun x hx => hs x (List.mem_cons_of_mem _ hx))

theorem all_settled_after_run : ∀ (es : List Ent) (s : St), (∀ e ∈ es, Real e) → ∀ e ∈ es, Settled (run s es) e
  | [], _, _, e, he => by cases he
  | x :: es, s, hr, e, he => by
    simp only [run]
    have hrx := hr x List.mem_cons_self
    have hres : ∀ y ∈ es, Real y := fun y hy => hr y (List.mem_cons_of_mem _ hy)
    rcases List.mem_cons.mp he with rfl | he'
    · exact settled_mono (posLe_run es _ hres) (settled_after_apply s e hrx)
    · exact all_settled_after_run es _ hres e he'

theorem run_append (s : St) : ∀ (a b : List Ent), run s (a ++ b) = run (run s a) b
  | [], _ => rfl
  | e :: a, b => by simp only [List.cons_append, run]; exact run_append _ a b

end Z.SyncM
