/-
Sequential specification of exactly the commands the protocols `lin` (C04) and `crash` (C06) issue
against the real node: a store mapping key ↦ string / hash / list / set with INCR, GETSET, SETNX, GET,
SET, HINCRBY, HSET, LPUSH, LPOP, SADD and the reply each of them gives, plus the pseudo command DUMP
(a read of the whole store: what the harness reads from every replica at the end).

Keys are numbered (k0, k1, … on the wire) and every byte string the protocols use is a decimal integer
or a letter followed by one (`v17`, `m3`, `f1`), so strings, fields, members and elements are modelled
by the integer they spell: the whole model is structural and evaluates in the kernel (`by decide`).
Core only (linked into the driver).  The Go twin used by the Go-side oracles is
harness/cmd/zvh/linspec.go; the two are written independently of each other.
-/
namespace Z.LinSpec

inductive Cmd
  | incr | getset | setnx | get | set | hincrby | hset | lpush | lpop | sadd | dump
  deriving DecidableEq, Repr

structure Op where
  cmd : Cmd
  key : Nat
  a : Int := 0        -- first argument (value / field / element / member), 0 when the command has none
  b : Int := 0        -- second argument (HINCRBY delta, HSET value)
  deriving DecidableEq, Repr

inductive Val
  | str (v : Int)
  | hash (h : List (Int × Int))      -- kept sorted by field
  | list (l : List Int)              -- head first, never empty
  | set (z : List Int)               -- kept sorted
  deriving DecidableEq, Repr

/-- association list kept sorted by key: equal contents ⇒ equal stores -/
abbrev Store := List (Nat × Val)

inductive Reply
  | int (i : Int) | bulk (v : Int) | nil | ok | err | state (s : Store)
  deriving DecidableEq, Repr

def find (s : Store) (k : Nat) : Option Val := s.lookup k

def put : Store → Nat → Val → Store
  | [], k, v => [(k, v)]
  | (k', v') :: r, k, v =>
    if k' = k then (k, v) :: r else if k < k' then (k, v) :: (k', v') :: r else (k', v') :: put r k v

def del : Store → Nat → Store
  | [], _ => []
  | (k', v') :: r, k => if k' = k then r else (k', v') :: del r k

def hput : List (Int × Int) → Int → Int → List (Int × Int)
  | [], f, v => [(f, v)]
  | (f', v') :: r, f, v =>
    if f' = f then (f, v) :: r else if f < f' then (f, v) :: (f', v') :: r else (f', v') :: hput r f v

def sins : List Int → Int → List Int
  | [], m => [m]
  | m' :: r, m => if m' = m then m' :: r else if m < m' then m :: m' :: r else m' :: sins r m

/-- one command: new store and reply.  A command on a key holding another type answers `err` and
    changes nothing (the harness never does that; ZanRedisDB keeps the types in separate keyspaces). -/
def step (s : Store) (o : Op) : Store × Reply :=
  match o.cmd with
  | .get =>
    match find s o.key with
    | none => (s, .nil)
    | some (.str v) => (s, .bulk v)
    | some _ => (s, .err)
  | .set =>
    match find s o.key with
    | none | some (.str _) => (put s o.key (.str o.a), .ok)
    | some _ => (s, .err)
  | .getset =>
    match find s o.key with
    | none => (put s o.key (.str o.a), .nil)
    | some (.str v) => (put s o.key (.str o.a), .bulk v)
    | some _ => (s, .err)
  | .setnx =>
    match find s o.key with
    | none => (put s o.key (.str o.a), .int 1)
    | some (.str _) => (s, .int 0)
    | some _ => (s, .err)
  | .incr =>
    match find s o.key with
    | none => (put s o.key (.str 1), .int 1)
    | some (.str v) => (put s o.key (.str (v + 1)), .int (v + 1))
    | some _ => (s, .err)
  | .hset =>
    match find s o.key with
    | none => (put s o.key (.hash [(o.a, o.b)]), .int 1)
    | some (.hash h) =>
      (put s o.key (.hash (hput h o.a o.b)), .int (if (h.lookup o.a).isSome then 0 else 1))
    | some _ => (s, .err)
  | .hincrby =>
    match find s o.key with
    | none => (put s o.key (.hash [(o.a, o.b)]), .int o.b)
    | some (.hash h) =>
      let n := (h.lookup o.a).getD 0 + o.b
      (put s o.key (.hash (hput h o.a n)), .int n)
    | some _ => (s, .err)
  | .lpush =>
    match find s o.key with
    | none => (put s o.key (.list [o.a]), .int 1)
    | some (.list l) => (put s o.key (.list (o.a :: l)), .int (l.length + 1))
    | some _ => (s, .err)
  | .lpop =>
    match find s o.key with
    | none => (s, .nil)
    | some (.list []) => (del s o.key, .nil)
    | some (.list [x]) => (del s o.key, .bulk x)
    | some (.list (x :: r)) => (put s o.key (.list r), .bulk x)
    | some _ => (s, .err)
  | .sadd =>
    match find s o.key with
    | none => (put s o.key (.set [o.a]), .int 1)
    | some (.set z) => (put s o.key (.set (sins z o.a)), .int (if z.contains o.a then 0 else 1))
    | some _ => (s, .err)
  | .dump => (s, .state s)

def run (s : Store) (ops : List Op) : Store := ops.foldl (fun st o => (step st o).1) s

/-- replies that tell that nothing was written: the node may give them from its local state without
    a raft proposal (GET always; SETNX on an existing key, LPOP on an empty list, SADD of a present
    member) -/
def readLike (o : Op) (r : Reply) : Bool :=
  match o.cmd, r with
  | .get, _ => true
  | .dump, _ => true
  | .setnx, .int 0 => true
  | .lpop, .nil => true
  | .sadd, .int 0 => true
  | _, _ => false

/-! ### examples (evaluated by the kernel) -/

private def ex : List Op :=
  [⟨.incr, 0, 0, 0⟩, ⟨.getset, 0, 41, 0⟩, ⟨.incr, 0, 0, 0⟩, ⟨.setnx, 0, 7, 0⟩,
   ⟨.hincrby, 1, 1, 5⟩, ⟨.hincrby, 1, 0, -2⟩, ⟨.hincrby, 1, 1, 1⟩,
   ⟨.lpush, 2, 10, 0⟩, ⟨.lpush, 2, 11, 0⟩, ⟨.lpop, 2, 0, 0⟩,
   ⟨.sadd, 3, 2, 0⟩, ⟨.sadd, 3, 1, 0⟩, ⟨.sadd, 3, 2, 0⟩]

example : run [] ex = [(0, .str 42), (1, .hash [(0, -2), (1, 6)]), (2, .list [10]), (3, .set [1, 2])] := by decide
example : (step (run [] (ex.take 2)) ⟨.incr, 0, 0, 0⟩).2 = .int 42 := by decide
example : (step (run [] ex) ⟨.lpop, 2, 0, 0⟩) = ([(0, .str 42), (1, .hash [(0, -2), (1, 6)]), (3, .set [1, 2])], .bulk 10) := by decide
example : (step (run [] (ex ++ [⟨.lpop, 2, 0, 0⟩])) ⟨.lpop, 2, 0, 0⟩).2 = .nil := by decide
example : (step (run [] ex) ⟨.sadd, 3, 2, 0⟩).2 = .int 0 := by decide

end Z.LinSpec
