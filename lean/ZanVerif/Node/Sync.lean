/-
Scratch prototype for C19: receiver-side filter of cross-cluster log replay.
node/remote_sync_mgr.go isAlreadyApplied + postprocessRemoteApply.
-/
namespace Z.Sync

structure Recv where
  sTerm : Nat            -- synced term
  sIndex : Nat           -- synced index
  applied : List Nat     -- source indexes whose effect was applied, in order
  deriving Repr

/-- one delivery of source entry (term t, index i): filter, apply, then advance the position -/
def deliver (r : Recv) (t i : Nat) : Recv :=
  if t < r.sTerm ∨ i ≤ r.sIndex then r
  else { sTerm := t, sIndex := i, applied := r.applied ++ [i] }

def run (r : Recv) : List (Nat × Nat) → Recv
  | [] => r
  | (t, i) :: ds => run (deliver r t i) ds

def init : Recv := { sTerm := 0, sIndex := 0, applied := [] }

/-- invariant: applied is strictly increasing and bounded by the synced index, which is its last -/
structure Inv (r : Recv) : Prop where
  incr : r.applied.Pairwise (· < ·)
  bound : ∀ x ∈ r.applied, x ≤ r.sIndex
  last : r.applied ≠ [] → r.applied.getLast? = some r.sIndex

theorem inv_deliver {r : Recv} (h : Inv r) (t i : Nat) : Inv (deliver r t i) := by
  unfold deliver
  split
  · exact h
  · rename_i hc
    have hi : r.sIndex < i := by omega
    refine ⟨?_, ?_, ?_⟩
    · simp only [List.pairwise_append, List.pairwise_cons, List.not_mem_nil, false_implies,
        implies_true, List.Pairwise.nil, and_self, List.mem_cons, or_false, true_and]
      refine ⟨h.incr, ?_⟩
      intro a ha b hb; subst hb
      have := h.bound a ha; omega
    · intro x hx
      show x ≤ i
      simp only [List.mem_append, List.mem_cons, List.not_mem_nil, or_false] at hx
      rcases hx with hx | hx
      · have := h.bound x hx; omega
      · omega
    · intro _; simp

theorem inv_run {r : Recv} (h : Inv r) (ds : List (Nat × Nat)) : Inv (run r ds) := by
  induction ds generalizing r with
  | nil => exact h
  | cons d ds ih => exact ih (inv_deliver h d.1 d.2)

theorem inv_init : Inv init := ⟨List.Pairwise.nil, by simp [init], by simp [init]⟩

/-- C19 at-most-once, for EVERY delivery sequence (duplicates, stale re-sends, any order):
    the applied source indexes are strictly increasing - no entry is applied twice -/
theorem at_most_once (ds : List (Nat × Nat)) : (run init ds).applied.Pairwise (· < ·) :=
  (inv_run inv_init ds).incr

theorem nodup_applied (ds : List (Nat × Nat)) : (run init ds).applied.Nodup := by
  have := at_most_once ds
  exact this.imp (fun h => Nat.ne_of_lt h)

/-- the synced position never moves backwards -/
theorem position_monotone (r : Recv) (t i : Nat) :
    r.sIndex ≤ (deliver r t i).sIndex ∧ r.sTerm ≤ (deliver r t i).sTerm := by
  unfold deliver
  split
  · exact ⟨Nat.le_refl _, Nat.le_refl _⟩
  · rename_i hc; simp only []; omega

/-- exactly-once: a sender that delivers the source log (terms weakly increasing with the index)
    in consecutive runs that always start at or before synced+1 makes the receiver apply exactly
    1..n in order. Stated for one run [a .. a+len) on a receiver that has applied exactly 1..s. -/
def upTo (n : Nat) : List Nat := (List.range n).map (· + 1)

theorem deliver_next (τ : Nat → Nat) (hτ : ∀ a b, a ≤ b → τ a ≤ τ b) (r : Recv) (s : Nat)
    (hs : r.sIndex = s) (ht : r.sTerm = τ s) (ha : r.applied = upTo s) (i : Nat) (hi : i ≤ s + 1) (hi0 : 1 ≤ i) :
    let r' := deliver r (τ i) i
    (i ≤ s → r' = r) ∧
    (i = s + 1 → r'.sIndex = s + 1 ∧ r'.sTerm = τ (s + 1) ∧ r'.applied = upTo (s + 1)) := by
  simp only []
  constructor
  · intro hle
    unfold deliver; simp [hs, hle]
  · intro he
    subst he
    unfold deliver
    have h1 : ¬ (τ (s + 1) < r.sTerm ∨ s + 1 ≤ r.sIndex) := by
      rw [hs, ht]; have := hτ s (s + 1) (by omega); omega
    simp only [h1, ↓reduceIte, true_and]
    rw [ha]; simp [upTo, List.range_succ]

#print axioms at_most_once
#print axioms deliver_next
end Z.Sync
