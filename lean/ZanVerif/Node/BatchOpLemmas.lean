/- lemmas for Props/C07.lean: the operator's event processing refines sequential execution -/
import ZanVerif.Node.BatchOp

namespace Z.BatchOp
open Z.Batch

variable {K V R : Type} [DecidableEq K]

theorem isBatchable_true {bs : List String} {name : String} {argc : Nat} {inDup : Bool} {n : Nat}
    (h : Gen.isBatchable bs name argc inDup n = true) :
    inDup = false ∧ bs.contains name = true ∧ (name = "del" → argc ≤ 2) := by
  unfold Gen.isBatchable at h
  split at h
  · cases h
  · rename_i hdel
    simp only [Bool.and_eq_true, Bool.not_eq_true', decide_eq_true_eq] at h
    refine ⟨h.2, h.1.1, fun hn => ?_⟩
    subst hn
    have : ¬ argc > Gen.delMaxArgc := by
      intro hgt
      apply hdel
      simp [hgt]
    simp only [Gen.delMaxArgc] at this
    omega

theorem applySeq_append (s : Store K V) (a b : List (Cmd K V R)) :
    applySeq s (a ++ b) = ((applySeq (applySeq s a).1 b).1, (applySeq s a).2 ++ (applySeq (applySeq s a).1 b).2) := by
  induction a generalizing s with
  | nil => simp [applySeq]
  | cons c cs ih =>
    simp only [List.cons_append, applySeq]
    rw [ih]

/-- the open batch is on pairwise distinct keys, all of them recorded -/
structure Inv (st : St K V R) : Prop where
  nodup : (st.pend.map (·.key)).Nodup
  recorded : ∀ k ∈ st.pend.map (·.key), k ∈ st.dup

/-- what the event has computed so far, seen through a commit of the open batch -/
def view (st : St K V R) : Store K V × List R := ((commitOpen st).store, (commitOpen st).out)

theorem view_eq_seq {st : St K V R} (inv : Inv st) :
    view st = ((applySeq st.store st.pend).1, st.out ++ (applySeq st.store st.pend).2) := by
  simp only [view, commitOpen]
  rw [batched_eq_seq st.pend st.store inv.nodup]

/-- every request whose name is batchable (and, for DEL, that names one key) is a single-key command on its pk -/
def Admissible (run : Req K V R → Option V → Option V × R) (rq : Req K V R) : Prop :=
  Gen.batchableCmds.contains rq.name = true → (rq.name = "del" → rq.argc ≤ 2) → SingleKey rq (run rq)

/-- a state with no open batch -/
def closed (s : Store K V) (o : List R) : St K V R := ⟨s, [], [], o⟩

theorem closed_inv (s : Store K V) (o : List R) : Inv (closed s o) := by
  constructor <;> simp [closed]

theorem step_spec (run : Req K V R → Option V → Option V × R) {st : St K V R} (inv : Inv st) (rq : Req K V R)
    (hrq : Admissible run rq) :
    Inv (step run st rq) ∧
    view (step run st rq) = ((rq.exec (view st).1).1, (view st).2 ++ [(rq.exec (view st).1).2]) := by
  unfold step
  split
  · rename_i hb
    obtain ⟨hdup, hname, hdel⟩ := isBatchable_true hb
    have hsk := hrq hname hdel
    have hnotin : rq.pk ∉ st.pend.map (·.key) := by
      intro hin
      have := inv.recorded _ hin
      have hc : st.dup.contains rq.pk = true := List.contains_iff_mem.mpr this
      rw [hc] at hdup; cases hdup
    have inv' : Inv ({ st with pend := st.pend ++ [⟨rq.pk, run rq⟩], dup := rq.pk :: st.dup } : St K V R) := by
      constructor
      · simp only [List.map_append, List.map_cons, List.map_nil]
        rw [List.nodup_append]
        refine ⟨inv.nodup, by simp, ?_⟩
        intro a ha b hb'
        simp only [List.mem_singleton] at hb'
        subst hb'
        intro e; subst e; exact hnotin ha
      · intro k hk
        simp only [List.map_append, List.map_cons, List.map_nil, List.mem_append, List.mem_singleton] at hk
        rcases hk with hk | hk
        · exact List.mem_cons_of_mem _ (inv.recorded k hk)
        · subst hk; exact List.mem_cons_self
    refine ⟨inv', ?_⟩
    rw [view_eq_seq inv', view_eq_seq inv]
    simp only
    rw [applySeq_append]
    simp only [applySeq]
    rw [hsk]
    simp [List.append_assoc]
  · show Inv (closed (rq.exec (commitOpen st).store).1 ((commitOpen st).out ++ [(rq.exec (commitOpen st).store).2])) ∧
      view (closed (rq.exec (commitOpen st).store).1 ((commitOpen st).out ++ [(rq.exec (commitOpen st).store).2])) = _
    refine ⟨closed_inv _ _, ?_⟩
    rw [view_eq_seq (closed_inv _ _)]
    simp [view, applySeq, closed]

theorem foldl_spec (run : Req K V R → Option V → Option V × R) :
    ∀ (reqs : List (Req K V R)) (st : St K V R), Inv st → (∀ rq ∈ reqs, Admissible run rq) →
      view (reqs.foldl (step run) st) =
        ((applySeqReqs (view st).1 reqs).1, (view st).2 ++ (applySeqReqs (view st).1 reqs).2) := by
  intro reqs
  induction reqs with
  | nil => intro st _ _; simp [applySeqReqs]
  | cons rq rest ih =>
    intro st inv h
    obtain ⟨inv', hv⟩ := step_spec run inv rq (h rq List.mem_cons_self)
    simp only [List.foldl_cons]
    rw [ih _ inv' (fun r hr => h r (List.mem_cons_of_mem _ hr)), hv]
    simp [applySeqReqs, List.append_assoc]

end Z.BatchOp
