/-
C06 certificate for one crash / restart run of a real data node (protocol `crash`): the writes the single
client sent, in the order sent (= the order proposed, hence the log order), each with what the client saw
(acknowledged with a reply / an error reply / nothing before the process died), and the full logical dump
the node served after the restart.  `checkCrash` is what the driver runs; `checkCrash_sound` says what
acceptance means: the served state is the sequential replay (`LinSpec.run`) of a PREFIX of the sent writes
– from which only error-answered writes may be missing – that contains EVERY acknowledged write, and along
which every acknowledged reply is the specified one.  Core only.
-/
import ZanVerif.Node.LinSpec

namespace Z.CrashCert
open Z.LinSpec

inductive St | ack | err | none
  deriving DecidableEq, Repr

structure W where
  op : Op
  st : St
  reply : Option Reply := none      -- the reply, when acknowledged
  deriving DecidableEq, Repr

/-- all sublists that keep every write that was not answered with an error -/
def keepMust : List W → List (List W)
  | [] => [[]]
  | w :: r => if w.st = .err then (keepMust r).map (w :: ·) ++ keepMust r else (keepMust r).map (w :: ·)

def noAckAfter (ws : List W) (p : Nat) : Bool := (ws.drop p).all (fun w => decide (w.st ≠ .ack))

def repliesOk : Store → List W → Bool
  | _, [] => true
  | s, w :: r =>
    (match w.st, w.reply with
      | .ack, some rp => decide (rp = (step s w.op).2)
      | _, _ => true) && repliesOk (step s w.op).1 r

def checkCrash (ws : List W) (d : Store) : Bool :=
  (List.range (ws.length + 1)).any fun p =>
    noAckAfter ws p && (keepMust (ws.take p)).any fun l =>
      decide (run [] (l.map (·.op)) = d) && repliesOk [] l

theorem keepMust_spec : ∀ (ws l : List W), l ∈ keepMust ws →
    l.Sublist ws ∧ ∀ w ∈ ws, w.st ≠ .err → w ∈ l := by
  intro ws
  induction ws with
  | nil =>
    intro l hl
    simp [keepMust] at hl
    subst hl
    exact ⟨List.Sublist.refl _, fun w hw => by cases hw⟩
  | cons w r ih =>
    intro l hl
    unfold keepMust at hl
    by_cases he : w.st = .err
    · simp only [he, if_true, List.mem_append, List.mem_map] at hl
      rcases hl with ⟨l', hl', rfl⟩ | hl
      · obtain ⟨h1, h2⟩ := ih l' hl'
        refine ⟨h1.cons_cons w, ?_⟩
        intro x hx hne
        rcases List.mem_cons.mp hx with rfl | hx
        · exact List.mem_cons_self
        · exact List.mem_cons_of_mem _ (h2 x hx hne)
      · obtain ⟨h1, h2⟩ := ih l hl
        refine ⟨h1.cons w, ?_⟩
        intro x hx hne
        rcases List.mem_cons.mp hx with rfl | hx
        · exact absurd he hne
        · exact h2 x hx hne
    · simp only [he, if_false, List.mem_map] at hl
      obtain ⟨l', hl', rfl⟩ := hl
      obtain ⟨h1, h2⟩ := ih l' hl'
      refine ⟨h1.cons_cons w, ?_⟩
      intro x hx hne
      rcases List.mem_cons.mp hx with rfl | hx
      · exact List.mem_cons_self
      · exact List.mem_cons_of_mem _ (h2 x hx hne)

/-- the state served after the restart is explained by the writes sent before the crash -/
def Recovered (ws : List W) (d : Store) : Prop :=
  ∃ (p : Nat) (l : List W), l.Sublist (ws.take p) ∧ (∀ w ∈ ws.take p, w.st ≠ .err → w ∈ l) ∧
    (∀ w ∈ ws.drop p, w.st ≠ .ack) ∧ run [] (l.map (·.op)) = d ∧ repliesOk [] l = true

theorem checkCrash_sound (ws : List W) (d : Store) (h : checkCrash ws d = true) : Recovered ws d := by
  unfold checkCrash at h
  obtain ⟨p, _, hp⟩ := List.any_eq_true.mp h
  simp only [Bool.and_eq_true] at hp
  obtain ⟨hna, hl⟩ := hp
  obtain ⟨l, hl, hc⟩ := List.any_eq_true.mp hl
  simp only [Bool.and_eq_true, decide_eq_true_eq] at hc
  obtain ⟨h1, h2⟩ := keepMust_spec _ l hl
  refine ⟨p, l, h1, h2, ?_, hc.1, hc.2⟩
  intro w hw
  have := (List.all_eq_true.mp hna) w hw
  simpa using this

/-- every acknowledged write is in the replayed prefix -/
theorem recovered_has_acked {ws : List W} {d : Store} (h : Recovered ws d) :
    ∃ l : List W, run [] (l.map (·.op)) = d ∧ l.Sublist ws ∧ ∀ w ∈ ws, w.st = .ack → w ∈ l := by
  obtain ⟨p, l, h1, h2, h3, h4, _⟩ := h
  refine ⟨l, h4, h1.trans (List.take_sublist p ws), ?_⟩
  intro w hw hack
  have hsplit : w ∈ ws.take p ++ ws.drop p := by rw [List.take_append_drop]; exact hw
  rcases List.mem_append.mp hsplit with ht | hd
  · exact h2 w ht (by rw [hack]; decide)
  · exact absurd hack (h3 w hd)

/-! ### non-vacuity (kernel evaluation) -/

def exW : List W :=
  [⟨⟨.set, 0, 1000, 0⟩, .ack, some .ok⟩, ⟨⟨.incr, 0, 0, 0⟩, .ack, some (.int 1001)⟩,
   ⟨⟨.lpush, 2, 3, 0⟩, .err, none⟩, ⟨⟨.sadd, 3, 4, 0⟩, .ack, some (.int 1)⟩, ⟨⟨.incr, 0, 0, 0⟩, .none, none⟩]

-- the unanswered last write may be there or not, the error-answered LPUSH may be there or not
example : checkCrash exW [(0, .str 1001), (3, .set [4])] = true := by decide
example : checkCrash exW [(0, .str 1002), (2, .list [3]), (3, .set [4])] = true := by decide
-- the acknowledged SADD is gone (F1's shape), a state that is no prefix, a phantom element
example : checkCrash exW [(0, .str 1001)] = false := by decide
example : checkCrash exW [(0, .str 1000), (3, .set [4])] = false := by decide
example : checkCrash exW [(0, .str 1001), (3, .set [4, 9])] = false := by decide

end Z.CrashCert
