import ZanVerif.Data.ListExec
import Driver.Util
import Driver.DataCore
import Driver.DataSet
/-!
  Protocol `datacorelist`: the answer lines of the `data` executor (notes/proto_data.md) for the LIST family under
  `policy=local`, one entry per apply event, computed by the executable storage model `Z.ListExec` with the real
  key codec. Leader side (node/list.go, node/util.go): argument counts, index parsing, `preCheckListLength`.
-/
namespace Drv.DataList
open Z.ListExec Z.Ref Z.Coll
open Drv.DataCore (bulk arr insertKey insertSortedB)
open Drv.DataSet (parseInt keyOf lower bulks)

structure St where
  m : List KV := []
  keys : List Bytes := []
  /-- entries queued in the open apply event (log time, arguments), oldest first -/
  pend : List (Int × List Bytes) := []
  deriving Inhabited

def outUnit : Out Unit → String
  | .ok _ => "str:OK"
  | .error e => "err:" ++ e

def outArr : Out (List Bytes) → String
  | .ok l => bulks l
  | .error e => "err:" ++ e

def write (st : St) (ts : Int) (args : List Bytes) : St × String :=
  match args with
  | name :: key :: rest =>
    match keyOf key with
    | none => (st, "bad-op")
    | some k =>
      let F := realFns
      let queued (m : List KV) (r : String) : St × String := ({ m := m, keys := insertKey st.keys key }, "queued => " ++ r)
      let noLog (s : String) : St × String := (st, s ++ " => -")
      let push (atTail : Bool) : St × String :=
        let (m', r) := lpush F st.m ts k atTail rest
        queued m' (match r with | .ok n => s!"int:{n}" | .error e => "err:" ++ e)
      let pop (atTail : Bool) : St × String :=
        if emptyPre F st.m k then noLog "local:nil" else
        let (m', r) := lpop F st.m ts k atTail
        -- an apply-time pop of an empty list answers nil (it handed a typed nil `[]byte` to the reply switch, i.e. an
        -- EMPTY bulk, before the fix listed in DESIGN §0.2)
        queued m' (match r with | .ok (some v) => bulk v | .ok none => "nil" | .error e => "err:" ++ e)
      match lower name, rest with
      | "lpush", _ :: _ => push false
      | "rpush", _ :: _ => push true
      | "lpop", [] => pop false
      | "rpop", [] => pop true
      | "lset", [i, v] =>
        match parseInt i with
        | .error e => noLog ("err:" ++ e)
        | .ok idx => let (m', r) := lset F st.m ts k idx v; queued m' (outUnit r)
      | "ltrim", [a, b] =>
        match parseInt a, parseInt b with
        | .error e, _ => noLog ("err:" ++ e)
        | .ok _, .error e => noLog ("err:" ++ e)
        | .ok s, .ok e =>
          if emptyPre F st.m k then noLog "local:str:OK" else
          let (m', r) := ltrim F st.m ts k s e; queued m' (outUnit r)
      | "lclear", [] => let (m', n) := lclear F st.m k; queued m' s!"int:{n}"
      | _, _ => (st, "bad-op")
  | _ => (st, "bad-op")

def read (st : St) (args : List Bytes) : String :=
  match args with
  | name :: key :: rest =>
    match keyOf key with
    | none => "bad-op"
    | some k =>
      let F := realFns
      match lower name, rest with
      | "llen", [] => s!"int:{llen F st.m k}"
      | "lindex", [i] =>
        match parseInt i with
        | .error e => "err:" ++ e
        | .ok idx => match lindex F st.m k idx with | some v => bulk v | none => "nil"
      | "lrange", [a, b] =>
        match parseInt a, parseInt b with
        | .error e, _ => "err:" ++ e
        | .ok _, .error e => "err:" ++ e
        | .ok s, .ok e => outArr (lrange F st.m k s e)
      | "lkeyexist", [] => s!"int:{lkeyexist F st.m k}"
      | _, _ => "bad-op"
  | _ => "bad-op"

def dump (st : St) : String :=
  let ks := st.keys.foldl insertSortedB []
  let ents := ks.filterMap (fun key =>
    match keyOf key with
    | none => none
    | some k =>
      match lrange realFns st.m k 0 (-1) with
      | .ok [] => none
      | .ok es => some ("list " ++ hexs key ++ " " ++ ",".intercalate (es.map hexs) ++ " none")
      | .error e => some ("list " ++ hexs key ++ " !err:" ++ e ++ " none"))
  if ents.isEmpty then "empty" else ";".intercalate ents

def step (st : St) (line : String) : St × String :=
  match fields line with
  | "open" :: _ => ({}, "ok")
  | ["end"] => ({}, "ok")
  | ["inv"] => (st, "ok")
  | ["dump"] => (st, dump st)
  | "w" :: ts :: b :: hexargs =>
    if b != "1" ∧ b != "0" then (st, "bad-op") else
    match ts.toInt?, hexargs.mapM unhex with
    | some t, some args =>
      -- leader side: checked against the APPLIED state (entries still buffered in the open event are not seen)
      let (stL, out) := write st t args
      if out == "bad-op" then (st, "bad-op") else
      let isQ := out.startsWith "queued => "
      let status := if isQ then "queued" else (out.dropEnd 5).toString   -- strip " => -"
      let pend := if isQ then st.pend ++ [(t, args)] else st.pend
      let keys := if isQ then stL.keys else st.keys
      if b == "0" then ({ st with pend := pend, keys := keys }, status) else
      -- boundary: the event is applied entry by entry; an entry whose leader-side pre-check would now answer locally
      -- (list emptied by an earlier entry of the same event) gets that reply from the apply path as well
      let (m, replies) := pend.foldl (fun (acc : List KV × List String) (e : Int × List Bytes) =>
        let (st1, o) := write { m := acc.1, keys := [] } e.1 e.2
        let r := if o.startsWith "queued => " then (o.drop 10).toString
                 else if o.startsWith "local:" then ((o.drop 6).dropEnd 5).toString
                 else o
        (st1.m, acc.2 ++ [r])) (st.m, [])
      ({ m := m, keys := keys, pend := [] }, status ++ " => " ++ (if replies.isEmpty then "-" else " | ".intercalate replies))
    | _, _ => (st, "bad-op")
  | "r" :: hexargs =>
    match hexargs.mapM unhex with
    | some args => (st, read st args)
    | none => (st, "bad-op")
  | _ => (st, "bad-op")

end Drv.DataList
