/- zvdriver raft (certificate mode): reads "<op>\t<answer of the real nodes>" per line.
   The answer carries the abstract actions the harness read off one event of the real raft nodes and
   the observable state of every real node after the event.  The driver folds the executable checker
   `Z.RaftAbs.apply` (ExecCore.lean; proved sound in RaftExec.lean: `apply_sound`, `run_sound`,
   `accepted_run_safe`) over the actions and compares the abstract nodes with the real ones:
     ok                                      every action accepted, states equal
     reject <action> <failed preconditions>  `apply` returned none (the diagnosis is informative only)
     state-mismatch node=.. field=..         the accepted abstract run does not describe the real nodes; fields: term, role,
                                             commit, lastindex, log, vote (whom the node has voted for in its current term,
                                             `votesIn camp voted`), durable-term / durable-vote / durable-commit (what the
                                             storage object REALLY holds against dterm, `votesIn scamp svoted`, dcommit)
     ack-mismatch response=q,t,i             a MsgAppResp the real node released confirms something else than the
                                             ack the abstract run recorded
     bad-op                                  line outside the certificate (session suspended by the harness,
                                             or after the first failure of a session) - counted, not compared
   Core only. -/
import ZanVerif.Raft.ExecCore
import Driver.Util
namespace Drv.Raft
open Z.RaftAbs Z.LogMatch

structure RealNode where
  id : Nat
  term : Nat
  role : Role
  commit : Nat
  off : Nat
  ents : List Entry
  vote : Nat      -- the volatile r.Vote, 0 = none
  dterm : Nat     -- HardState read back from the storage object
  dvote : Nat
  dcommit : Nat   -- as abstract index

structure DS where
  active : Bool
  vs : List Nat
  st : St
  real : List RealNode

def init : DS := ⟨false, [], Z.RaftAbs.init, []⟩

def nats (sep : String) (s : String) : Option (List Nat) :=
  if s == "" || s == "-" then some [] else (s.splitOn sep).mapM (·.toNat?)

def parseEnt (s : String) : Option Entry :=
  match s.splitOn ":" with
  | [t, d] => do some ⟨← t.toNat?, ← d.toNat?⟩
  | _ => none

def parseEnts (s : String) : Option (List Entry) :=
  if s == "-" || s == "" then some [] else (s.splitOn ".").mapM parseEnt

def parseAct (s : String) : Option Action :=
  match s.splitOn "," with
  | ["campaign", c, t] => do some (.campaign (← c.toNat?) (← t.toNat?))
  | ["grant", q, t, c] => do some (.grant (← q.toNat?) (← t.toNat?) (← c.toNat?))
  | ["becomeLeader", c, t, q] => do some (.becomeLeader (← c.toNat?) (← t.toNat?) (← nats "." q))
  | ["propose", c, d] => do some (.propose (← c.toNat?) (← d.toNat?))
  | ["sendApp", c, p, n, cm] => do some (.sendApp (← c.toNat?) (← p.toNat?) (← n.toNat?) (← cm.toNat?))
  | ["recvApp", q, t, p, cm, es] => do
      let es ← parseEnts es
      some (.recvApp (← q.toNat?) ⟨← t.toNat?, ← p.toNat?, es.length, es, ← cm.toNat?⟩)
  | ["ackStale", q, t, p, cm, es] => do
      let es ← parseEnts es
      some (.ackStale (← q.toNat?) ⟨← t.toNat?, ← p.toNat?, es.length, es, ← cm.toNat?⟩)
  | ["restore", q, t, p] => do
      let p ← p.toNat?
      some (.restore (← q.toNat?) ⟨← t.toNat?, p, 0, [], p⟩)
  | ["sendHb", c, q, cm, k] => do some (.sendHb (← c.toNat?) (← q.toNat?) (← cm.toNat?) (← k.toNat?))
  | ["recvHb", q, t, cm] => do
      let q ← q.toNat?
      some (.recvHb q ⟨← t.toNat?, q, ← cm.toNat?⟩)
  | ["commitLeader", c, k, q] => do some (.commitLeader (← c.toNat?) (← k.toNat?) (← nats "." q))
  | ["bump", j, t] => do some (.bump (← j.toNat?) (← t.toNat?))
  | ["restart", j] => do some (.restart (← j.toNat?))
  | ["flush", j] => do some (.flush (← j.toNat?))
  | ["crash", j] => do some (.crash (← j.toNat?))
  | _ => none

def roleStr : Role → String
  | .follower => "F" | .candidate => "C" | .leader => "L"

def parseRole (s : String) : Option Role :=
  if s == "F" then some .follower else if s == "C" then some .candidate else if s == "L" then some .leader else none

/-- names of the preconditions of `apply` that are false (diagnosis only; `apply` decides) -/
def diag (vs : List Nat) (s : St) : Action → String
  | .campaign c t => if s.term c < t then "" else s!"term-not-higher(term={s.term c})"
  | .grant q t c =>
    (if (c, t) ∈ s.scamp then "" else "campaign-not-sent ") ++
    (if s.term q ≤ t then "" else s!"voter-term-higher({s.term q}) ") ++
    (if q ≠ c then "" else "self ") ++
    (if UpToDate (s.candLog (c, t)) (s.log q) then "" else "candidate-log-not-up-to-date ") ++
    (if noOtherVote s q t c then "" else "already-voted-for-another-in-term ") ++
    (if (q, t) ∉ s.camp then "" else "voter-is-candidate-of-term ")
  | .becomeLeader c t Q =>
    (if s.role c = Role.candidate then "" else "not-candidate ") ++
    (if s.term c = t then "" else s!"term({s.term c}) ") ++
    (if (c, t) ∈ s.scamp then "" else "campaign-not-sent ") ++
    (if IsQuorum vs Q then "" else "not-a-quorum-of-voters ") ++
    (if (∀ q ∈ Q, q = c ∨ (q, t, c) ∈ s.svoted) then "" else "vote-not-granted-or-not-sent ")
  | .propose c _ => if s.role c = Role.leader then "" else "not-leader"
  | .sendApp c prev n cm =>
    (if s.role c = Role.leader then "" else "not-leader ") ++
    (if prev + n ≤ (s.log c).length then "" else s!"beyond-log(len={(s.log c).length}) ") ++
    (if cm ≤ s.commit c then "" else s!"commit-above-own({s.commit c}) ")
  | .recvApp q m =>
    (if m ∈ s.msgs then "" else "message-never-sent ") ++
    (if s.term q ≤ m.term then "" else "stale-term ") ++
    (if (s.role q = Role.leader → s.term q < m.term) then "" else "leader-of-same-term ") ++
    (if m.prev ≤ (s.log q).length then "" else "prev-beyond-log ") ++
    (if termAt (s.log q) m.prev = termAt (s.tlog m.term) m.prev then "" else "prev-term-mismatch ")
  | .ackStale q m =>
    (if m ∈ s.msgs then "" else "message-never-sent ") ++
    (if s.term q ≤ m.term then "" else "stale-term ") ++
    (if (s.role q = Role.leader → s.term q < m.term) then "" else "leader-of-same-term ") ++
    (if m.prev < s.commit q then "" else s!"prev-not-below-commit({s.commit q}) ")
  | .restore q m =>
    (if m ∈ s.msgs then "" else "message-never-sent ") ++
    (if s.term q ≤ m.term then "" else "stale-term ") ++
    (if (s.role q = Role.leader → s.term q < m.term) then "" else "leader-of-same-term ") ++
    (if s.commit q < m.prev then "" else "snapshot-not-above-commit ") ++
    (if ¬ (m.prev ≤ (s.log q).length ∧ termAt (s.log q) m.prev = termAt (s.tlog m.term) m.prev) then ""
     else "snapshot-matches-log ")
  | .sendHb c q cm k =>
    (if s.role c = Role.leader then "" else "not-leader ") ++
    (if cm ≤ s.commit c then "" else s!"commit-above-own({s.commit c}) ") ++
    (if sackedD s q (s.term c) k then "" else "no-sent-ack-of-peer-at-index ") ++
    (if cm ≤ k then "" else "commit-above-confirmed ")
  | .recvHb q h =>
    (if h ∈ s.hbs then "" else "heartbeat-never-sent ") ++
    (if s.term q ≤ h.term then "" else "stale-term ") ++
    (if (s.role q = Role.leader → s.term q < h.term) then "" else "leader-of-same-term ")
  | .commitLeader c k Q =>
    (if s.role c = Role.leader then "" else "not-leader ") ++
    (if 1 ≤ k ∧ k ≤ (s.log c).length then "" else s!"index-outside-log(len={(s.log c).length}) ") ++
    (if termAt (s.log c) k = s.term c then "" else s!"entry-not-of-current-term({termAt (s.log c) k}≠{s.term c}) ") ++
    (if IsQuorum vs Q then "" else "not-a-quorum-of-voters ") ++
    (if (∀ q ∈ Q, sackedD s q (s.term c) k) then ""
     else "no-sent-ack:" ++ ",".intercalate ((Q.filter (fun q => ¬ sackedD s q (s.term c) k)).map toString) ++ " ")
  | .bump j t => if s.term j < t then "" else s!"term-not-higher(term={s.term j})"
  | _ => ""

/-- the volatile vote of `j`: campaigns and grants computed so far (a crash forgets the unflushed ones) in its current term -/
def absVote (s : St) (j : Nat) : List Nat := votesIn s.camp s.voted j (s.term j)
/-- the durable vote of `j`: campaigns and grants that were flushed, in its durable term -/
def absDVote (s : St) (j : Nat) : List Nat := votesIn s.scamp s.svoted j (s.dterm j)

def showVotes (l : List Nat) : String :=
  match l.eraseDups with
  | [] => "0"
  | l' => ",".intercalate (l'.map toString)

def firstDiff : Nat → List Entry → List Entry → Nat
  | i, a :: as, b :: bs => if a = b then firstDiff (i + 1) as bs else i
  | i, _, _ => i

def cmpNode (s : St) (r : RealNode) : Option String :=
  if s.term r.id ≠ r.term then some s!"state-mismatch node={r.id} field=term abs={s.term r.id} real={r.term}"
  else if s.role r.id ≠ r.role then
    some s!"state-mismatch node={r.id} field=role abs={roleStr (s.role r.id)} real={roleStr r.role}"
  else if s.commit r.id ≠ r.commit then
    some s!"state-mismatch node={r.id} field=commit abs={s.commit r.id} real={r.commit}"
  else
    let lg := s.log r.id
    if lg.length ≠ r.off + r.ents.length then
      some s!"state-mismatch node={r.id} field=lastindex abs={lg.length} real={r.off + r.ents.length}"
    else if lg.drop r.off ≠ r.ents then
      let i := firstDiff (r.off + 1) (lg.drop r.off) r.ents
      some s!"state-mismatch node={r.id} field=log index={i} abs-term={termAt lg i} real-term={termAt ((List.replicate r.off ⟨0, 0⟩) ++ r.ents) i}"
    else if !voteAgrees (absVote s r.id) r.vote then
      some s!"state-mismatch node={r.id} field=vote term={r.term} abs={showVotes (absVote s r.id)} real={r.vote}"
    else if s.dterm r.id ≠ r.dterm then
      some s!"state-mismatch node={r.id} field=durable-term abs={s.dterm r.id} real={r.dterm}"
    else if !voteAgrees (absDVote s r.id) r.dvote then
      some s!"state-mismatch node={r.id} field=durable-vote term={r.dterm} abs={showVotes (absDVote s r.id)} real={r.dvote}"
    else if s.dcommit r.id ≠ r.dcommit then
      some s!"state-mismatch node={r.id} field=durable-commit abs={s.dcommit r.id} real={r.dcommit}"
    else none

def parseNode (old : List RealNode) (s : String) : Option RealNode :=
  if s.endsWith "=" then
    match (s.dropEnd 1).toString.toNat? with
    | some id => old.find? (·.id == id)
    | none => none
  else
    match s.splitOn ":" with
    | id :: t :: r :: c :: off :: rest => do
      -- rest = <entries, themselves ':'-separated pairs> ++ ["v<vote>", "d<dterm>.<dvote>.<dcommit>"]
      guard (rest.length ≥ 3)
      let es ← parseEnts (":".intercalate (rest.take (rest.length - 2)))
      let v ← rest[rest.length - 2]?
      let d ← rest[rest.length - 1]?
      guard (v.startsWith "v" && d.startsWith "d")
      let vote ← (v.drop 1).toString.toNat?
      match ← nats "." (d.drop 1).toString with
      | [dt, dv, dc] => some ⟨← id.toNat?, ← t.toNat?, ← parseRole r, ← c.toNat?, ← off.toNat?, es, vote, dt, dv, dc⟩
      | _ => none
    | _ => none

def runActs (vs : List Nat) : St → List String → Except String St
  | s, [] => .ok s
  | s, a :: as =>
    match parseAct a with
    | none => .error s!"reject {a} unparsable"
    | some act =>
      match apply vs s act with
      | some s' => runActs vs s' as
      | none => .error s!"reject {a} {diag vs s act}"

def kvGet (fs : List String) (k : String) : Option String :=
  (fs.find? (·.startsWith (k ++ "="))).map (fun x => (x.drop (k.length + 1)).toString)

def process (d : DS) (ans : String) : DS × String :=
  let dead : DS := { d with active := false }
  let fs := fields ans
  if fs.head? == some "nocert" then (dead, "bad-op") else
  match kvGet fs "a", kvGet fs "s" with
  | some a, some st =>
    let acts := if a == "-" then [] else a.splitOn ";"
    match runActs d.vs d.st acts with
    | .error e => (dead, e)
    | .ok s' =>
      -- the non-reject MsgAppResp messages released by this event must be acks the abstract run has recorded
      let ks := match kvGet fs "k" with
        | some k => k.splitOn ";"
        | none => []
      match ks.find? (fun k => match nats "," k with
          | some [q, t, i] => ¬ ((q, t, i) ∈ s'.acks)
          | _ => true) with
      | some k => (dead, s!"ack-mismatch response={k} is not an ack of the abstract run")
      | none =>
      match (st.splitOn "|").mapM (parseNode d.real) with
      | none => (dead, "unparsable-state")
      | some real =>
        match real.findSome? (cmpNode s') with
        | some e => (dead, e)
        | none => ({ d with st := s', real := real }, "ok")
  | _, _ => (dead, "bad-op")

def step (d : DS) (line : String) : DS × String :=
  match line.splitOn "\t" with
  | [op, ans] =>
    let opf := fields op
    if opf.head? == some "cfg" then
      match (kvGet opf "v").bind (·.toNat?) with
      | some v => process { active := true, vs := (List.range v).map (· + 1), st := Z.RaftAbs.init, real := [] } ans
      | none => ({ d with active := false }, "bad-op")
    else if !d.active then (d, "bad-op")
    else process d ans
  | _ => ({ d with active := false }, "bad-op")

end Drv.Raft
