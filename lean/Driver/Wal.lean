/- Driver for protocol `wal` (C05): executable encode of a save history to segment files and decode of
   (possibly cut / zero-filled / bit-flipped) files through the model's restart sequence.  Core only. -/
import ZanVerif.Wal.Writer
import ZanVerif.Wal.Crc32
import Driver.Util

namespace Drv.Wal
open Z.Wal

structure St where
  w : Option WState := none

def kvOf (fs : List String) (k : String) : Option String :=
  fs.findSome? (fun f => match f.splitOn "=" with
    | [a, b] => if a == k then some b else none
    | _ => none)

def parseData (s : String) : Option (Option Bytes) :=
  if s == "~" then some none else (unhex s).map some

def parseEnt (s : String) : Option Entry :=
  match s.splitOn ":" with
  | [ty, tm, ix, d, id, dt, ts] =>
    match ty.toNat?, tm.toNat?, ix.toNat?, parseData d, id.toNat?, dt.toNat?, ts.toNat? with
    | some ty, some tm, some ix, some d, some id, some dt, some ts => some ⟨ty, tm, ix, d, id, dt, ts⟩
    | _, _, _, _, _, _, _ => none
  | _ => none

def parseEnts (s : String) : Option (List Entry) :=
  if s == "-" || s == "" then some [] else (s.splitOn ";").mapM parseEnt

def parseSt (s : String) : HardState :=
  match (s.splitOn ",").map String.toNat? with
  | [some t, some v, some c] => ⟨t, v, c⟩
  | _ => ⟨0, 0, 0⟩

def trimZeros (b : Bytes) : Bytes := (b.reverse.dropWhile (· == 0)).reverse

def layout (w : WState) : String :=
  s!"ok segs={w.closed.length + 1} tail={w.seq}-{w.first} w={w.flushed} s={w.synced} size={(tailFile w).length}"

def canonEnt (e : Entry) : String :=
  s!"({e.index},{e.term},{(crc32c 0 (marshalEntry e)).toNat})"

def canonSnaps (l : List Snap) : String := ",".intercalate (l.map (fun s => s!"({s.index},{s.term})"))

def flipBit (b : UInt8) (bit : Nat) : UInt8 := b ^^^ UInt8.ofNat (2 ^ (bit % 8))

def zeroRange (img : Bytes) (a b : Nat) : Bytes :=
  let b := min b img.length
  if a < b then img.take a ++ zeros (b - a) ++ img.drop b else img

def parseRange (s : String) : Option (Nat × Nat) :=
  match (s.splitOn "-").map String.toNat? with
  | [some a, some b] => some (a, b)
  | _ => none

/-- the damaged image of the tail file -/
def damage (img : Bytes) (fs : List String) : Option Bytes :=
  match kvOf fs "cut", kvOf fs "trunc", kvOf fs "zero", kvOf fs "flip" with
  | some n, _, _, _ => n.toNat?.map (fun n => img.take n)
  | none, some n, _, _ => n.toNat?.map (fun n => let n := min n img.length; img.take n ++ zeros (img.length - n))
  | none, none, some rs, _ =>
    (rs.splitOn ",").foldl (fun acc r => match acc, parseRange r with
      | some im, some (a, b) => some (zeroRange im a b)
      | _, _ => none) (some img)
  | none, none, none, some fb =>
    match (fb.splitOn ":").map String.toNat? with
    | [some off, some bit] =>
      if off < img.length then some (img.take off ++ [flipBit (img.getD off 0) bit] ++ img.drop (off + 1)) else some img
    | _ => none
  | none, none, none, none => some img

def reopen (w : WState) (fs : List String) : String :=
  let pick := ((kvOf fs "snap").bind String.toNat?).getD 0
  match damage (tailFile w) fs with
  | none => "bad-op"
  | some img =>
    let segs := w.closed ++ [⟨w.seq, w.first, img⟩]
    let atSnap : Option Snap := (kvOf fs "at").bind (fun v => match (v.splitOn ",").map String.toNat? with
      | [some i, some t] => some ⟨i, t⟩
      | _ => none)
    match restart crc32c segs pick atSnap with
    | .error (f, rep) => s!"err:{f.name} rep={if rep then 1 else 0}"
    | .ok r =>
      let a := r.acc
      s!"ok rep={if r.repaired then 1 else 0} start=({r.start.index},{r.start.term}) state=({a.state.term},{a.state.vote},{a.state.commit}) ents=[{",".intercalate (a.ents.map canonEnt)}] snaps=[{canonSnaps r.snaps}] meta={hexs (a.mdata.getD [])}"

def step (s : St) (line : String) : St × String :=
  match fields line with
  | "reset" :: fs =>
    let seg := ((kvOf fs "seg").bind String.toInt?).getD 0
    let seg := if seg ≤ 0 then 1024 else seg.toNat
    let opt := kvOf fs "opt" == some "1"
    match (kvOf fs "meta").bind unhex with
    | none => (s, "bad-op")
    | some md =>
      let w := create crc32c seg opt md
      ({ w := some w }, layout w)
  | "save" :: fs =>
    match s.w with
    | none => (s, "err:no-session")
    | some w =>
      match parseEnts ((kvOf fs "ents").getD "-") with
      | none => (s, "bad-op")
      | some ents =>
        let w := save crc32c w (parseSt ((kvOf fs "st").getD "")) ents
        ({ w := some w }, layout w)
  | ["snap", i, t] =>
    match s.w, i.toNat?, t.toNat? with
    | some w, some i, some t =>
      let w := saveSnapshot crc32c w ⟨i, t⟩
      ({ w := some w }, layout w)
    | none, _, _ => (s, "err:no-session")
    | _, _, _ => (s, "bad-op")
  | ["sync"] =>
    match s.w with
    | none => (s, "err:no-session")
    | some w => let w := wsync w true; ({ w := some w }, layout w)
  | ["bytes"] =>
    match s.w with
    | none => (s, "err:no-session")
    | some w =>
      let fl := files w
      (s, s!"n={fl.length}" ++ String.join (fl.map (fun f => s!" {f.seq}-{f.first}/{f.bytes.length}/{hexs (trimZeros f.bytes)}")))
  | ["fenc", n] =>
    match n.toNat? with
    | some n => let (l, p) := encodeFrameSize n; (s, s!"len={l} pad={p}")
    | none => (s, "bad-op")
  | ["fdec", u] =>
    match u.toNat? with
    | some u => let (r, p) := decodeFrameSize (asI64 u); (s, s!"rec={r} pad={p}")
    | none => (s, "bad-op")
  | ["consts"] =>
    (s, s!"crcType={Gen.wal_crcType} entryType={Gen.wal_entryType} frameSizeBytes={Gen.wal_frameSizeBytes} maxWALEntrySizeLimit={Gen.wal_maxWALEntrySizeLimit} metadataType={Gen.wal_metadataType} minSectorSize={Gen.wal_minSectorSize} snapshotType={Gen.wal_snapshotType} stateType={Gen.wal_stateType} walPageBytes={Gen.wal_walPageBytes}")
  | "reopen" :: fs =>
    match s.w with
    | none => (s, "err:no-session")
    | some w => (s, reopen w fs)
  | ["end"] => ({ w := none }, "ok")
  | _ => (s, "bad-op")

end Drv.Wal
