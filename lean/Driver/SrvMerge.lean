import ZanVerif.Route.Partition
import ZanVerif.Props.C11Plset
import Driver.Util
/-
  Driver of protocol `srvmerge` (the server's merge layer on a real multi-partition server).
  The only answer that is a cheap pure function is "which partition owns this key": for every write line
  `w <type> <hexraw> <hexelem>…` the real side answers `p=<partition whose store holds the key>` (found by asking
  EVERY partition of the real server after the write went through Server.serverRedis); the model answers with the
  CLIENT's partition function of the C15 model (`Z.Route.sdkPartition` of the bytes behind `namespace:`), which
  `Z.Props.C15` proves in range and equal to the server's routing expressions as regenerated from the source.
  State = the partition count of the current session (`reset P=<n> …`; 3 before the first reset, like the executor).
  Every other line (multi-key commands, pipelines, scans, robustness) is judged by the Go oracle: `bad-op` here.
-/
namespace Drv.SrvMerge
open Z.Route

def parseP : List String → Option Nat
  | [] => none
  | f :: r =>
    match f.splitOn "=" with
    | ["P", v] => v.toNat?
    | _ => parseP r

def nsDefault : Bytes := "default".toUTF8.toList

def types : List String := ["kv", "hash", "list", "set", "zset"]

def step (P : Nat) (line : String) : Nat × String :=
  match fields line with
  | "reset" :: rest =>
    match parseP rest with
    | some n => if 1 ≤ n ∧ n ≤ 64 then (n, "bad-op") else (P, "bad-op")
    | none => (P, "bad-op")
  | "w" :: tp :: k :: _ :: _ =>
    if types.contains tp then
      match unhex k with
      | some raw =>
        match extractNamespace raw with
        | some (ns, pk) =>
          if ns == nsDefault then (P, s!"p={sdkPartition pk (P : Int)}") else (P, "bad-op")
        | none => (P, "bad-op")
      | none => (P, "bad-op")
    else (P, "bad-op")
  | "plcount" :: hexargs =>
    -- how many replies ONE PLSET request gets: the executable model the C11Plset theorems are about, with the
    -- client's partition function of the C15 model (keys are valid keys of hosted partitions: no dispatch error)
    match hexargs.mapM unhex with
    | some args =>
      let part : Bytes → Nat := fun raw =>
        match extractNamespace raw with
        | some (_, pk) => (sdkPartition pk (P : Int)).toNat
        | none => 0
      (P, s!"replies={Z.Props.C11Plset.replies part P false args}")
    | none => (P, "bad-op")
  | _ => (P, "bad-op")

end Drv.SrvMerge
