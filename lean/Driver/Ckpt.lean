import ZanVerif.Node.Purge
import Driver.Util
namespace Drv.Ckpt
open Z.Purge

def parseCk (s : String) : Option Ck :=
  match s.splitOn "-" with
  | [a, b] => match a.toNat?, b.toNat? with
    | some a, some b => some (a, b)
    | _, _ => none
  | _ => none

def step (_ : Unit) (line : String) : Unit × String :=
  ((), match fields line with
  | ["purge", keep, latest, names] =>
    match keep.toNat?, latest.toNat?, (if names == "-" then some [] else (names.splitOn ",").mapM parseCk) with
    | some keep, some latest, some l =>
      "[" ++ ",".intercalate ((purge keep latest l).map (fun c => s!"{c.1}-{c.2}")) ++ "]"
    | _, _, _ => "bad-op"
  | _ => "bad-op")   -- backup / restore on a real engine: oracle only

end Drv.Ckpt
