import ZanVerif.Place.Coord
import Driver.Util
/-! zvdriver coord: reset / env / act lines → what the Lean model of the placement driver decides (diff mode).
    The layout function inside the decisions is the C17 model (`Z.Place.place`). -/
namespace Drv.Coord
open Z.Coord

def nodeName (k : Nat) : String := "n" ++ toString k

def parseNode (s : String) : Option Nat :=
  match s.toList with
  | 'n' :: rest => if rest.isEmpty then none else (String.ofList rest).toNat?
  | _ => none

def parseSet (s : String) : Option (List Nat) :=
  if s == "-" || s == "" then some [] else (s.splitOn ",").mapM parseNode

def kvs (fs : List String) : List (String × String) :=
  fs.filterMap fun f =>
    match f.splitOn "=" with
    | k :: v :: rest => some (k, String.intercalate "=" (v :: rest))
    | _ => none

def look (m : List (String × String)) (k : String) : String := (m.lookup k).getD ""

def sortNat (l : List Nat) : List Nat := l.mergeSort (fun a b => decide (a ≤ b))

def join (l : List String) : String := if l.isEmpty then "-" else String.intercalate "," l

def fmtInfo (i : Info) : String :=
  let ids := (i.ids.mergeSort (fun a b => decide (a.1 ≤ b.1))).map fun x => s!"{nodeName x.1}:{x.2}"
  let rm := (sortNat i.removing).map fun n => if i.zeroTime.contains n then nodeName n ++ "!z" else nodeName n
  s!"nodes={join (i.nodes.map nodeName)};ids={join ids};rm={join rm};max={i.maxId}"

def parseInfo (s : String) (replica : Nat) : Option Info := do
  let m := kvs (s.splitOn ";")
  let nodes ← parseSet (look m "nodes")
  let ids ← (if look m "ids" == "-" || look m "ids" == "" then some [] else
    ((look m "ids").splitOn ",").mapM fun x =>
      match x.splitOn ":" with
      | [a, b] => do let n ← parseNode a; let v ← b.toNat?; pure (n, v)
      | _ => none)
  let rmRaw := if look m "rm" == "-" || look m "rm" == "" then [] else (look m "rm").splitOn ","
  let rm ← rmRaw.mapM fun x => parseNode ((x.splitOn "!").headD "")
  let zs ← (rmRaw.filter fun x => (x.splitOn "!").length > 1).mapM fun x => parseNode ((x.splitOn "!").headD "")
  let mx ← (look m "max").toNat?
  pure { nodes := nodes, ids := ids, removing := rm, zeroTime := zs, maxId := mx, replica := replica,
         issued := (List.range (mx + 1)).drop 1 }

structure EnvSpec where
  alive : List Nat
  synced : List Nat
  ready : List Nat
  joined : List Nat
  elapsed : Bool
  casOk : Bool

structure Sess where
  info : Info
  alg : Z.Place.Alg
  ns : String
  pool : Nat
  env : EnvSpec

def healthy (pool : Nat) : EnvSpec :=
  ⟨List.range pool, List.range pool, List.range pool, [], true, true⟩

/-- getRebalancedNamespacePartitions for the one-partition namespace: old layout = [ISR] -/
def expectFor (alg : Z.Place.Alg) (ns : String) (replica : Nat) (alive : List Nat) (isr : List Nat) :
    Z.Place.Outcome (List Nat) :=
  match Z.Place.place alg ns 1 replica [isr.map nodeName] (alive.map fun k => (nodeName k, "")) with
  | .ok rows => .ok ((rows.headD []).filterMap parseNode)
  | .refused => .refused
  | .panicEmpty => .panicEmpty
  | .panicIndex => .panicIndex

def mkEnv (s : Sess) : Env :=
  let alive := s.env.alive.filter (· < s.pool)
  { alive := fun n => alive.contains n, synced := fun n => s.env.synced.contains n,
    ready := fun n => s.env.ready.contains n, joined := fun n => s.env.joined.contains n,
    elapsed := s.env.elapsed, casOk := s.env.casOk, clusterSize := alive.eraseDups.length,
    expect := expectFor s.alg s.ns s.info.replica (sortNat alive.eraseDups) }

def fmtRes : Res → String
  | .ok => "ok"
  | .err c => "err:" ++ c
  | .bal m b => s!"moved:{m},balanced:{b}"
  | .panic c => "panic:" ++ c

def step (st : Option Sess) (line : String) : Option Sess × String :=
  match fields line with
  | "reset" :: rest =>
    let m := kvs rest
    match (look m "replica").toNat?, (look m "pool").toNat? with
    | some r, some pool =>
      let alg? : Option Z.Place.Alg := if look m "alg" == "v1" then some .v1 else if look m "alg" == "v2" then some .v2 else none
      match alg?, parseInfo (look m "layout") r with
      | some alg, some info =>
        if r < 1 || r > 9 || pool < 1 || pool > 10 || look m "ns" == "" then (none, "bad-op")
        else (some ⟨info, alg, look m "ns", pool, healthy pool⟩, "ok")
      | _, _ => (none, "bad-op")
    | _, _ => (none, "bad-op")
  | "env" :: rest =>
    match st with
    | none => (none, "bad-op")
    | some s =>
      let m := kvs rest
      match parseSet (look m "alive"), parseSet (look m "synced"), parseSet (look m "ready"), parseSet (look m "joined") with
      | some a, some sy, some rd, some jn =>
        (some { s with env := ⟨a, sy, rd, jn, look m "elapsed" != "no", look m "cas" != "fail"⟩ }, "ok")
      | _, _, _, _ => (st, "bad-op")
  | "act" :: what =>
    match st with
    | none => (none, "bad-op")
    | some s =>
      let a? : Option Act :=
        match what with
        | ["migrate"] => some .migrate
        | "finish" :: _ => some .finish
        | ["balance"] => some .balance
        | ["add", n] => (parseNode n).bind fun k => if k < 10 then some (.add k) else none
        | ["remove", n] => (parseNode n).bind fun k => if k < 10 then some (.remove k) else none
        | _ => none
      match a? with
      | none => (st, "bad-op")
      | some a =>
        let e := mkEnv s
        let d := act e s.info a
        let w := match d.write with
          | none => "none"
          | some i => (if e.casOk then "ok:" else "casfail:") ++ fmtInfo i
        (some { s with info := after e s.info d }, s!"res={fmtRes d.res} write={w}")
  | _ => (st, "bad-op")

end Drv.Coord
