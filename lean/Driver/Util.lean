/- Line-protocol helpers shared by all driver modules (core only). -/
namespace Drv

def hexDigit (c : Char) : Option Nat :=
  if '0' ≤ c ∧ c ≤ '9' then some (c.toNat - '0'.toNat)
  else if 'a' ≤ c ∧ c ≤ 'f' then some (c.toNat - 'a'.toNat + 10)
  else none

def unhexAux : List Char → List UInt8 → Option (List UInt8)
  | [], acc => some acc.reverse
  | [_], _ => none
  | a :: b :: r, acc =>
    match hexDigit a, hexDigit b with
    | some x, some y => unhexAux r (UInt8.ofNat (x * 16 + y) :: acc)
    | _, _ => none

def unhex (s : String) : Option (List UInt8) :=
  if s == "-" then some [] else unhexAux s.toList []

def hexChar (n : Nat) : Char :=
  if n < 10 then Char.ofNat (n + '0'.toNat) else Char.ofNat (n - 10 + 'a'.toNat)

def hexs (b : List UInt8) : String :=
  if b.isEmpty then "-" else
  String.ofList (b.foldr (fun x acc => hexChar (x.toNat / 16) :: hexChar (x.toNat % 16) :: acc) [])

def fields (s : String) : List String :=
  (s.splitOn " ").filter (· ≠ "")

end Drv
