import ZanVerif.Node.SyncModel
import Driver.Util
namespace Drv.SyncSend
open Z.SyncM

/-- sender + receiver composed: whatever batches the sender forms, a correct sender gets every entry of the run to
    the receiver's filter; the receiver (model `Z.SyncM`, filter = the regenerated predicate) applies what lies
    beyond its position -/
def step (_ : Unit) (line : String) : Unit × String :=
  ((), match fields line with
  | ["send", rt, ri, fr, to, tc] =>
    match rt.toNat?, ri.toNat?, fr.toNat?, to.toNat?, tc.toNat? with
    | some rt, some ri, some fr, some to, some tc =>
      let s0 : St := setPos {} 0 ⟨rt, ri⟩
      let ents : List Ent := (List.range (to + 1 - fr)).map (fun k =>
        let i := fr + k
        { cluster := 0, term := if tc != 0 && i ≥ tc then 2 else 1, index := i })
      let s := run s0 ents
      let p := (getPos s 0).getD ⟨0, 0⟩
      s!"applied=[{",".intercalate ((effects s 0).map toString)}] recv={p.term},{p.index}"
    | _, _, _, _, _ => "bad-op"
  | _ => "bad-op")

end Drv.SyncSend
