/- Driver of protocol `cfilter` (C10 compaction filter, certificate mode).  Input line: `<op line>\t<answer of the real code>`.
   For `sweep <tsSec>` / `compact <tsSec> <salt>` the answer lists EVERY raw engine entry of a real store with what the real
   filter (cached clock = tsSec) decided:  `<hexkey> <hexvalue> <ver|-> <=metahex|x|-> <drop|keep>` joined by `;`.
   The driver rebuilds the store from the listed entries and recomputes, with the model `Z.CFilter` (decision expressions
   regenerated from the source), for every entry: the generation `convertCollDBKeyToRawKey` decodes, the collection meta
   `encodeMetaKey` + `GetBytesNoLock` find, and the verdict `Filter` returns.  "ok" iff all of them agree on every entry. -/
import ZanVerif.Data.CFilter
import Driver.Util
namespace Drv.CFilter
open Z.Codec Z.CFilter

structure Rec where
  key : Bytes
  val : Bytes
  ver : String
  mv : String
  dec : String

def parseRec (s : String) : Option Rec :=
  match fields s with
  | [k, v, ver, mv, dec] =>
    match unhex k, unhex v with
    | some k, some v => some ⟨k, v, ver, mv, dec⟩
    | _, _ => none
  | _ => none

def hexPlain (b : Bytes) : String := if b.isEmpty then "" else hexs b

/-- what the executor prints for one entry, computed by the model -/
def modelRec (m : List Z.Ref.KV) (key value : Bytes) (ts : Int) : String × String × String :=
  let (ver, mv) : String × String :=
    match key with
    | [] => ("-", "-")
    | t :: _ =>
      if Gen.cfSubKeyTypes.contains t then
        match convertKey key with
        | .ok (dt, raw, ver) =>
          (toString ver, match metaKeyOf dt raw with
            | none => "-"
            | some mk => match Z.Ref.get m mk with
              | none => "x"
              | some v => "=" ++ hexPlain v)
        | .err => ("-", "-")
        | .panic => ("panic", "-")
      else ("-", "-")
  let dec := match filterD m key value ts ts with
    | .ok true => "drop"
    | .ok false => "keep"
    | .err => "keep"
    | .panic => "panic"
  (ver, mv, dec)

def checkSweep (ts : Int) (ans : String) : String :=
  if ans == "empty" then "ok" else
  if ans.startsWith "err:" || ans == "bad-op" then "bad-op" else   -- no store open (a shrunk op list): nothing was swept
  match (ans.splitOn ";").mapM parseRec with
  | none => "differs parse"
  | some recs =>
    let m : List Z.Ref.KV := recs.map (fun r => (r.key, r.val))
    recs.foldl (fun (acc : String) r =>
      if acc != "ok" then acc else
      let (ver, mv, dec) := modelRec m r.key r.val ts
      if ver == r.ver && mv == r.mv && dec == r.dec then "ok"
      else s!"differs {hexs r.key} model={ver} {mv} {dec} impl={r.ver} {r.mv} {r.dec}") "ok"

def step (_ : Unit) (line : String) : Unit × String :=
  ((), match line.splitOn "\t" with
  | [op, ans] =>
    match fields op with
    | ["sweep", ts] => match ts.toInt? with
      | some ts => if ts ≤ 0 then "bad-op" else checkSweep ts ans
      | none => "bad-op"
    | ["compact", ts, _] => match ts.toInt? with
      | some ts => if ts ≤ 0 then "bad-op" else checkSweep ts ans
      | none => "bad-op"
    | _ => "bad-op"   -- store-writing lines: nothing to certify (the store is read back by the next sweep)
  | _ => "bad-op")

end Drv.CFilter
