import ZanVerif.Place.Model
import Driver.Util
/-! zvdriver place: one `place …` op per line → the layout the Lean model computes (diff mode). -/
namespace Drv.Place
open Z.Place

def fmtLayout (l : List (List String)) : String :=
  if l.isEmpty then "-" else
  String.intercalate "|" (l.map fun p => if p.isEmpty then "_" else String.intercalate "," p)

def parseLayout (s : String) : List (List String) :=
  if s == "-" || s == "" then [] else
  (s.splitOn "|").map fun p => if p == "_" || p == "" then [] else p.splitOn ","

def kv (f : String) : Option (String × String) :=
  match f.splitOn "=" with
  | k :: v :: rest => some (k, String.intercalate "=" (v :: rest))
  | _ => none

def parseNodes (s : String) : Option (List (String × String)) :=
  if s == "-" then some [] else
  (s.splitOn ",").mapM fun nd =>
    match nd.splitOn "@" with
    | [id, dc] => if id.isEmpty then none else some (id, dc)
    | _ => none

def render (o : Outcome (List (List String))) : String :=
  match o with
  | .ok l => fmtLayout l
  | .refused => "err:node-unavailable"
  | .panicEmpty => "panic:v2-empty-candidates"
  | .panicIndex => "panic:index-out-of-range"

def step (_ : Unit) (line : String) : Unit × String :=
  ((), match fields line with
  | ["place", a, n, p, r, nd, o] =>
    match kv a, kv n, kv p, kv r, kv nd, kv o with
    | some ("alg", alg), some ("ns", ns), some ("parts", ps), some ("replica", rs), some ("nodes", nds), some ("old", old) =>
      match ps.toNat?, rs.toNat?, parseNodes nds with
      | some parts, some replica, some nodes =>
        let ids := nodes.map (·.1)
        if ids.eraseDups.length != ids.length || replica < 1 || replica > 64 || parts > 4096 then "bad-op"
        else if alg == "v1" then render (place .v1 ns parts replica (parseLayout old) nodes)
        else if alg == "v2" then render (place .v2 ns parts replica (parseLayout old) nodes)
        else "bad-op"
      | _, _, _ => "bad-op"
    | _, _, _, _, _, _ => "bad-op"
  | _ => "bad-op")

end Drv.Place
