import ZanVerif.Data.ScanModel
import Driver.Util
namespace Drv.Scan
open Z.Scan

structure St where
  pop : List (String × List Bytes) := []           -- TYPE → sorted raw keys
  coll : List ((String × Bytes) × List Bytes) := [] -- (kind, raw key) → sorted members
  deriving Inhabited

def getPop (s : St) (T : String) : List Bytes := ((s.pop.find? (·.1 == T)).map (·.2)).getD []
def setPop (s : St) (T : String) (l : List Bytes) : St := { s with pop := (T, l) :: s.pop.filter (·.1 != T) }
def getColl (s : St) (k : String × Bytes) : List Bytes := ((s.coll.find? (·.1 == k)).map (·.2)).getD []
def setColl (s : St) (k : String × Bytes) (l : List Bytes) : St := { s with coll := (k, l) :: s.coll.filter (·.1 != k) }

def hexList (l : List Bytes) : String := "[" ++ ",".intercalate (l.map hexs) ++ "]"

def step (s : Option St) (line : String) : Option St × String :=
  match fields line with
  | ["open", _] => (some {}, "ok")
  | cmd =>
    match s with
    | none => (none, "err:not-open")
    | some st =>
      match cmd with
      | "pop" :: tp :: raw :: subs =>
        match unhex raw, subs.mapM unhex with
        | some raw, some subs =>
          let T := tp.toUpper
          let st1 := setPop st T (insertSorted (getPop st T) raw)
          let st2 := if tp == "kv" || tp == "list" then st1 else
            let k := (tp.take 1 |>.toString, raw)
            setColl st1 k (subs.foldl insertSorted (getColl st1 k))
          (some st2, "ok")
        | _, _ => (s, "bad-op")
      | ["bigpop", tp, table, n] =>
        -- n keys k00000… plus a_hit_0, z_hit_1, z_hit_2 in one table (kv: values; set: one member "m" each)
        match unhex table, n.toNat? with
        | some table, some n =>
          if tp != "kv" && tp != "set" then (s, "bad-op") else
          let pad5 (i : Nat) : String := let d := toString i; String.mk (List.replicate (5 - d.length) '0') ++ d
          let names : List String := (List.range n).map (fun i => "k" ++ pad5 i) ++ ["a_hit_0", "z_hit_1", "z_hit_2"]
          let T := tp.toUpper
          let st2 := names.foldl (fun acc nm =>
            let raw := table ++ [58] ++ nm.toUTF8.toList
            let a1 := setPop acc T (insertSorted (getPop acc T) raw)
            if tp == "kv" then a1 else setColl a1 ("s", raw) (insertSorted (getColl a1 ("s", raw)) [109])) st
          (some st2, "ok")
        | _, _ => (s, "bad-op")
      | ["adv", T, cur, cnt, rev] =>
        match unhex cur, cnt.toInt? with
        | some cur, some cnt =>
          if cnt < 0 then (s, "err:args") else   -- parseScanArgs refuses a negative COUNT
          match advPage (getPop st T) cur (parseCount cnt) (rev == "1") with
          | some (ks, next) => (s, s!"keys={hexList ks} next={hexs next}")
          | none => (s, "bad-op")
        | _, _ => (s, "bad-op")
      | ["full", T, table, start, cnt, rev] =>
        match unhex table, unhex start, cnt.toInt? with
        | some table, some start, some cnt =>
          match advFull (getPop st T) table (parseCount cnt) (rev == "1") 2001 start 0 with
          | some (ks, r) => (s, s!"keys={hexList ks} rounds={r}")
          | none => (s, "bad-op")
        | _, _, _ => (s, "bad-op")
      | ["cscan", kind, raw, cur, cnt, rev] =>
        match unhex raw, unhex cur, cnt.toInt? with
        | some raw, some cur, some cnt =>
          if cnt < 0 then (s, "err:args") else
          let (it, next) := collPage (getColl st (kind, raw)) cur (parseCount cnt) (rev == "1")
          (s, s!"items={hexList it} next={hexs next}")
        | _, _, _ => (s, "bad-op")
      | ["fullm", T, table, start, cnt, rev, pre] =>
        -- MATCH <table>:<pre>* : the scan pages over the matching keys only (the store skips the others while it counts)
        match unhex table, unhex start, cnt.toInt?, unhex pre with
        | some table, some start, some cnt, some pre =>
          let pat := table ++ [58] ++ pre
          match advFull ((getPop st T).filter (fun k => pat.isPrefixOf k)) table (parseCount cnt) (rev == "1") 2001 start 0 with
          | some (ks, r) => (s, s!"keys={hexList ks} rounds={r}")
          | none => (s, "bad-op")
        | _, _, _, _ => (s, "bad-op")
      | ["cfullm", kind, raw, start, cnt, rev, pre] =>
        match unhex raw, unhex start, cnt.toInt?, unhex pre with
        | some raw, some start, some cnt, some pre =>
          let (it, r) := collFull ((getColl st (kind, raw)).filter (fun k => pre.isPrefixOf k)) (parseCount cnt) (rev == "1") 2001 start 0
          (s, s!"items={hexList it} rounds={r}")
        | _, _, _, _ => (s, "bad-op")
      | ["cfull", kind, raw, start, cnt, rev] =>
        match unhex raw, unhex start, cnt.toInt? with
        | some raw, some start, some cnt =>
          let (it, r) := collFull (getColl st (kind, raw)) (parseCount cnt) (rev == "1") 2001 start 0
          (s, s!"items={hexList it} rounds={r}")
        | _, _, _ => (s, "bad-op")
      | _ => (s, "bad-op")

end Drv.Scan
