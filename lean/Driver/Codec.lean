import ZanVerif.Data.Codec
import Driver.Util
namespace Drv.Codec
open Z.Codec

def parseHex64 (s : String) : Option Nat :=
  s.toList.foldl (fun acc c => match acc, hexDigit c with | some a, some d => some (a * 16 + d) | _, _ => none) (some 0)

def u8 (s : String) : Option UInt8 := s.toNat?.map UInt8.ofNat

def step (_ : Unit) (line : String) : Unit × String :=
  ((), match fields line with
  | ["sub", dt, t, k, s] =>
    match u8 dt, unhex t, unhex k, unhex s with
    | some dt, some t, some k, some s => hexs (collSubKey dt t k s)
    | _, _, _, _ => "bad-op"
  | ["kv", k] => match unhex k with | some k => hexs (kvKey k) | none => "bad-op"
  | ["meta", t, k] => match u8 t, unhex k with | some t, some k => hexs (metaKey t k) | _, _ => "bad-op"
  | ["list", t, k, seq] =>
    match unhex t, unhex k, seq.toInt? with
    | some t, some k, some q => hexs (listKey t k q)
    | _, _, _ => "bad-op"
  | ["ver", k, v] => match unhex k, v.toInt? with | some k, some v => hexs (verKey k v) | _, _ => "bad-op"
  | ["mbytes", b] => match unhex b with | some b => hexs (encBytes 0 b) | none => "bad-op"
  | ["mint", v] => match v.toInt? with | some v => hexs (encInt v) | none => "bad-op"
  | ["mfloat", u] => match parseHex64 u with | some u => hexs (encFloatBits u) | none => "bad-op"
  | ["zscore", t, k, m, u] =>
    match unhex t, unhex k, unhex m, parseHex64 u with
    | some t, some k, some m, some u =>
      hexs (zscoreKey t k m u (Gen.cZsetKeySep.toNat : Int) (Gen.cZsetScoreSep.toNat : Int))
    | _, _, _, _ => "bad-op"
  | ["trange", dt, t] =>
    match u8 dt, unhex t with
    | some dt, some t => hexs (tableStart dt t) ++ " " ++ hexs (tableEnd dt t)
    | _, _ => "bad-op"
  | ["crange", dt, t, k] =>
    match u8 dt, unhex t, unhex k with
    | some dt, some t, some k => hexs (collStart dt t k) ++ " " ++ hexs (collStop dt t k)
    | _, _, _ => "bad-op"
  | ["dsub", b] =>
    match unhex b with
    | some b =>
      match decCollSubKey b with
      | .ok (dt, t, k, s) => s!"{dt.toNat} {hexs t} {hexs k} {hexs s}"
      | .err => "err"
      | .panic => "panic"
    | none => "bad-op"
  | ["dver", b] =>
    match unhex b with
    | some b =>
      match decVerKey b with
      | .ok (k, v) => s!"{hexs k} {v}"
      | .err => "err"
      | .panic => "panic"
    | none => "bad-op"
  | ["xtable", b] =>
    match unhex b with
    | some b => match extractTable b with | some (t, k) => hexs t ++ " " ++ hexs k | none => "err"
    | none => "bad-op"
  | _ => "bad-op")

end Drv.Codec
