import ZanVerif.Node.SyncModel
import Driver.Util
namespace Drv.Sync
open Z.SyncM

structure D where
  st : St := {}
  snap : Option St := none
  tail : List Ent := []      -- local log since the snapshot (oldest first)
  deriving Inhabited

def showPos (s : St) (c : Cluster) : String :=
  match getPos s c with
  | none => "0,0"
  | some p => s!"{p.term},{p.index}"

def showData (s : St) : String := ",".intercalate (s.data.map (fun x => s!"{x.1}:{x.2}"))

def step (d : D) (line : String) : D × String :=
  match fields line with
  | ["reset"] => ({}, "ok")
  | ["ent", c, t, i, kind] =>
    match c.toNat?, t.toNat?, i.toNat? with
    | some c, some t, some i =>
      let e : Ent := { cluster := c, term := t, index := i, ignored := kind == "ignored" }
      let (s', ran) := apply d.st e
      ({ d with st := s', tail := d.tail ++ [e] }, s!"ran={if ran then 1 else 0} pos={showPos s' c}")
    | _, _, _ => (d, "bad-op")
  | ["set", c, t, i] =>
    match c.toNat?, t.toNat?, i.toNat? with
    | some c, some t, some i => ({ d with st := setPos d.st c ⟨t, i⟩ }, "ok")
    | _, _, _ => (d, "bad-op")
  | ["snap"] => ({ d with snap := some d.st, tail := [] }, "ok")
  | ["restore"] =>
    match d.snap with
    | none => (d, "err:nosnap")
    | some s0 =>
      let s' := run s0 d.tail
      ({ d with st := s' }, s!"data=[{showData s'}]")
  | ["snapfail", t0, i0, t, i] =>
    match t0.toNat?, i0.toNat?, t.toNat?, i.toNat? with
    | some t0, some i0, some t, some i =>
      -- a fresh receiver at position (t0, i0) (none if both are 0); the entry's state machine run is "ignored"
      let s0 : St := if t0 == 0 && i0 == 0 then {} else setPos {} 0 ⟨t0, i0⟩
      let (s1, _) := apply s0 { cluster := 0, term := t, index := i, ignored := true }
      (d, s!"pos={showPos s1 0}")
    | _, _, _, _ => (d, "bad-op")
  | ["pos", c] => match c.toNat? with
    | some c => (d, showPos d.st c)
    | none => (d, "bad-op")
  | ["data"] => (d, s!"[{showData d.st}]")
  | _ => (d, "bad-op")

end Drv.Sync
