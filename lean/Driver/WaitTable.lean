import ZanVerif.Node.WaitTable
import Driver.Util
/-
  Driver of protocol `waittable` (C04: the proposal wait table with pooled wait channels). The real side runs
  KVNode.queueRequest / ProposeInternal / the wait function on the real pkg/wait registry and the real sync.Pool of request
  headers; this side is the executable model Z.WaitTable (Node/WaitTable.lean) in the configuration `Cfg.code` the theorems
  of Props/C04Wait.lean are about (since fix 184e1b3: the atomic Trigger — `applied` is ONE step, `signal` finds nothing).
  The scheduler's `pick` is what sync.Pool does on ONE P without a collection in between:
  Put fills the private slot if it is empty, else pushes on the shared stack; Get takes the private slot, else pops the
  shared stack, else New.  One answer line per op line (grammar: harness/cmd/zvh/proto_waittable.go).
-/
namespace Drv.WaitTable
open Z.WaitTable

structure St where
  m : State := init
  priv : Option Ch := none
  shared : List Ch := []
  live : Bool := false
  dead : Bool := false

def showRes : Res → String
  | .val v => s!"v{v}"
  | .err e => s!"e{e}"

def parseRes (s : String) : Option Res :=
  match s.toList with
  | 'v' :: r => (String.ofList r).toNat?.map Res.val
  | 'e' :: r => (String.ofList r).toNat?.map Res.err
  | _ => none

/-- sync.Pool.Put on one P -/
def put (st : St) (c : Ch) : St :=
  match st.priv with
  | none => { st with priv := some c }
  | some _ => { st with shared := c :: st.shared }

/-- sync.Pool.Get on one P: the channel of the header handed out (none: Pool.New) and the pool without it -/
def get (st : St) : Option Ch × St :=
  match st.priv with
  | some c => (some c, { st with priv := none })
  | none =>
    match st.shared with
    | c :: r => (some c, { st with shared := r })
    | [] => (none, st)

def doPropose (st : St) (refuse : Bool) : St × String :=
  let (pick, st1) := get st
  let id := st1.m.nextId
  let m1 := step Cfg.code st1.m (.propose pick)
  match m1.waiter id with
  | none => ({ st1 with m := m1, dead := true }, "model-panic")
  | some ch =>
    if refuse then
      let m2 := step Cfg.code m1 (.fail id)
      (put { st1 with m := m2 } ch, s!"failed r{id} c{ch}")
    else ({ st1 with m := m1 }, s!"proposed r{id} c{ch}")

def step (st : St) (line : String) : St × String :=
  match fields line with
  | ["reset"] => ({ live := true }, "ok")
  | f =>
    if !st.live then (st, "no-session") else
    if st.dead then (st, "dead") else
    let n := st.m.nextId
    let arg (s : String) : Option Nat := s.toNat?.map (fun k => if n = 0 then 0 else k % n)
    match f with
    | ["propose"] => doPropose st false
    | ["proposefail"] => doPropose st true
    | ["applied", k, r] =>
      match arg k, parseRes r with
      | some id, some res =>
        if n = 0 then (st, "noop") else
        let reg := (st.m.tab id).isSome
        let m1 := Z.WaitTable.step Cfg.code st.m (.applied id res)
        if m1.panicked then ({ st with m := m1, dead := true }, s!"panic r{id}")
        else ({ st with m := m1 }, s!"applied r{id} " ++ (if reg then "reg" else "unreg"))
      | _, _ => (st, "bad-op")
    | ["giveup-in-window", k, r] =>
      -- the waiter of id gives up while the Trigger of id is between its parts: with the atomic Trigger that is `applied`
      -- and then the give-up of a waiter whose id is unregistered and whose channel holds the signal
      match arg k, parseRes r with
      | some id, some res =>
        match st.m.waiter id with
        | none => (st, "skip")
        | some ch =>
          if st.m.full ch || (st.m.tab id).isNone then (st, "skip") else
          let m1 := Z.WaitTable.step Cfg.code st.m (.applied id res)
          if m1.panicked then ({ st with m := m1, dead := true }, s!"panic r{id}") else
          let m2 := Z.WaitTable.step Cfg.code m1 (.timeout id)
          if m2.panicked then ({ st with m := m2, dead := true }, s!"panic r{id}")
          else (put { st with m := m2 } ch, s!"applied r{id} reg; gaveup r{id}")
      | _, _ => (st, "bad-op")
    | ["signal", k] =>
      match arg k with
      | some id =>
        match st.m.gap id with
        | none => (st, "nosignal")
        | some _ =>
          let m1 := Z.WaitTable.step Cfg.code st.m (.signal id)
          if m1.panicked then ({ st with m := m1, dead := true }, s!"panic r{id}")
          else ({ st with m := m1 }, s!"signaled r{id}")
      | none => (st, "bad-op")
    | ["timeout", k] =>
      match arg k with
      | some id =>
        match st.m.waiter id with
        | none => (st, "ended")
        | some ch =>
          if st.m.full ch then (st, "both-ready") else
          let m1 := Z.WaitTable.step Cfg.code st.m (.timeout id)
          if m1.panicked then ({ st with m := m1, dead := true }, s!"panic r{id}")
          else (put { st with m := m1 } ch, s!"gaveup r{id}")
      | none => (st, "bad-op")
    | ["wake", k] =>
      match arg k with
      | some id =>
        match st.m.waiter id with
        | none => (st, "ended")
        | some ch =>
          if !st.m.full ch then (st, "blocked") else
          let m1 := Z.WaitTable.step Cfg.code st.m (.wake id)
          match m1.trace with
          | .woke _ r :: _ => (put { st with m := m1 } ch, s!"woke r{id} " ++ showRes r)
          | _ => (st, "model-error")
      | none => (st, "bad-op")
    | _ => (st, "bad-op")

end Drv.WaitTable
