/- Driver of protocol `crash` (C06, certificate mode).  Input line: `<op line>\t<answer of the real code>`.
   Parses the writes the client sent (with what it saw of each) and the dump served after the restart and
   runs the proven checker `Z.CrashCert.checkCrash`: "ok" iff the dump is the replay of a prefix of the sent
   writes (error-answered ones optional) containing every acknowledged write, with the specified replies
   (`run3` lines carry one dump per replica of a 3-process group: each of them must be such a state). -/
import ZanVerif.Node.CrashCert
import Driver.Lin
namespace Drv.Crash
open Z.LinSpec Z.CrashCert Drv.Lin

def cmdOf' (s : String) : Option Cmd := cmdOf s

def parseW (rec : String) : Option W :=
  match fields rec with
  | ["W", _id, st, cmd, key, a, b, reply] => do
    let cmd ← cmdOf cmd
    let key ← keyOf key
    let a ← argOf a
    let b ← argOf b
    match st with
    | "ack" => do
      let r ← replyOf reply
      some ⟨⟨cmd, key, a, b⟩, .ack, some r⟩
    | "err" => some ⟨⟨cmd, key, a, b⟩, .err, none⟩
    | "none" => some ⟨⟨cmd, key, a, b⟩, .none, none⟩
    | _ => none
  | _ => none

/-- diagnosis only: the longest prefix (all error-answered writes kept) whose replay equals the dump -/
def explain (ws : List W) (d : Store) : String :=
  let lastAck := (List.range ws.length).foldl (fun m i => if (ws[i]?.map (·.st)) == some St.ack then i + 1 else m) 0
  let best := (List.range (ws.length + 1)).foldl (fun (m : Option Nat) p =>
      if (keepMust (ws.take p)).any (fun l => decide (run [] (l.map (·.op)) = d)) then some p else m) none
  match best with
  | some p => if p < lastAck then s!"acked-lost the node serves the state after {p} of {ws.length} sent writes but write {lastAck} was acknowledged"
              else "wrong-reply an acknowledged reply is not the one the log order gives"
  | none => s!"not-a-prefix the served state is the replay of no prefix of the {ws.length} sent writes"

def verdict (ans : String) : String :=
  if ans.startsWith "err " then "reject harness " ++ ans else
  match splitOnChar ans ';' with
  | [] => "reject parse empty"
  | hd :: recs =>
    match fields hd with
    | ["R", _n, _died, restart] =>
      if restart != "ok" then "reject restart-failed the restarted node did not serve" else
      let recs := recs.filter (fun r => !r.startsWith "F ")
      let wrecs := recs.filter (fun r => r.startsWith "W ")
      let drecs := recs.filter (fun r => r.startsWith "D ")
      match wrecs.mapM parseW, drecs with
      | none, _ => "reject parse bad W record"
      | _, [] => "reject parse no dump"
      | some ws, drecs =>
        if (ws.filter (fun w => w.st == St.err)).length > 12 then "reject too-many-error-replies" else
        if drecs.any (fun d => some d != drecs.head?) then "reject replica-diverge the settled replicas serve different states" else
        -- one dump per replica (run3: three): every replica must serve an allowed state
        drecs.foldl (fun (acc : String) drec =>
          if acc != "ok" then acc else
          match fields drec with
          | ["D", v0, v1, v2, v3] =>
            match storeOf [v0, v1, v2, v3] with
            | some d => if checkCrash ws d then "ok" else "reject " ++ explain ws d
            | none => "reject parse bad dump"
          | _ => "reject parse bad D record") "ok"
    | _ => "reject parse bad header"

/-- certificate mode: "ok" = the checker agrees with what the real run's oracle said – accepted and not reported, or
    reported (record F, an oracle violation of the run) and indeed rejected -/
def agree (ans : String) : String :=
  let v := verdict ans
  match (splitOnChar ans ';').find? (fun r => r.startsWith "F ") with
  | none => v
  | some f => if v == "ok" then s!"reject oracle-disagrees the Go oracle reported [{f}] but the certificate is accepted"
              else if v.startsWith "reject harness" || v.startsWith "reject parse" then v else "ok"

def step (_ : Unit) (line : String) : Unit × String :=
  ((), match splitOnChar line '\t' with
  | [op, ans] => if op.startsWith "run " || op.startsWith "run3 " then agree ans else "bad-op"
  | _ => "bad-op")

end Drv.Crash
