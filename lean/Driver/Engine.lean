import ZanVerif.Engine.Store
import Driver.Util
namespace Drv.Engine
open Z.Store

def optKey (s : String) : Option (Option (List UInt8)) :=
  if s == "*" then some none else (unhex s).map some

def showKVs (l : List (List UInt8 × List UInt8)) : String :=
  "[" ++ ",".intercalate (l.map (fun p => hexs p.1 ++ "=" ++ hexs p.2)) ++ "]"

def step (s : Option St) (line : String) : Option St × String :=
  match fields line with
  | ["open"] => (some {}, "ok")
  | cmd =>
    match s with
    | none => (none, "err:not-open")
    | some st =>
      match cmd with
      | ["put", k, v] => match unhex k, unhex v with
        | some k, some v => (some (st.add (.put k v)), "ok")
        | _, _ => (s, "bad-op")
      | ["del", k] => match unhex k with
        | some k => (some (st.add (.del k)), "ok")
        | _ => (s, "bad-op")
      | ["delrange", a, b] => match unhex a, unhex b with
        | some a, some b => (some (st.add (.delRange a b)), "ok")
        | _, _ => (s, "bad-op")
      | ["merge", k, n] => match unhex k, n.toNat? with
        | some k, some n => (some (st.add (.merge k n)), "ok")
        | _, _ => (s, "bad-op")
      | ["commit"] => (some st.commit, "ok")
      | ["clear"] => (some st.clear, "ok")
      | ["get", k] => match unhex k with
        | some k => (s, match st.get k with | none => "nil" | some v => hexs v)
        | _ => (s, "bad-op")
      | ["exist", k] => match unhex k with
        | some k => (s, match st.get k with | none => "false" | some _ => "true")
        | _ => (s, "bad-op")
      | ["iter", mn, mx, tp, off, cnt, rev] =>
        match optKey mn, optKey mx, tp.toNat?, off.toInt?, cnt.toInt? with
        | some mn, some mx, some tp, some off, some cnt =>
          (s, showKVs (iter st.store mn mx (tp % 16 != 0) (tp / 16 % 16 != 0) off cnt (rev == "1")))
        | _, _, _, _, _ => (s, "bad-op")
      | _ => (s, "bad-op")

end Drv.Engine
