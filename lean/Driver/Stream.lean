import ZanVerif.Codec.Stream
import ZanVerif.Codec.AppV2G
import Driver.Util
namespace Drv.Stream
open Z.Stream

/-- what the driver knows about a full message payload (registered by the `v2 app` line that sent it) -/
structure Info where
  typ : Nat
  src : Nat
  dst : Nat
  term : Nat
  logTerm : Nat
  index : Nat
  commit : Nat
  fromG : Z.AppV2G.Grp
  toG : Z.AppV2G.Grp
  lastIdx : Option Nat
  ents : List Bytes

structure St where
  loc : Nat := 0
  rem : Nat := 0
  enc : Z.AppV2G.CState := ⟨0, 0, Z.AppV2G.zeroG, Z.AppV2G.zeroG⟩
  v2bytes : Bytes := []
  mbytes : Bytes := []
  table : List (Bytes × Info) := []
  deriving Inhabited

def sum16 (b : Bytes) : String :=
  s!"{b.length}:{b.foldl (fun s x => (s + x.toNat) % 65521) 0}"

def parseGrp (s : String) : Option Z.AppV2G.Grp :=
  match s.splitOn "." with
  | [a, b, c, d] => match a.toNat?, b.toNat?, c.toNat?, d.toNat? with
    | some a, some b, some c, some d => some ⟨a, b, c, d⟩
    | _, _, _, _ => none
  | _ => none

def canon (typ src dst term logTerm index commit : Nat) (fg tg : Z.AppV2G.Grp) (ents : List Bytes) : String :=
  s!"m({typ},{src},{dst},{term},{logTerm},{index},{commit},{fg.nodeId}.{fg.groupId}.{fg.replicaId},{tg.nodeId}.{tg.groupId}.{tg.replicaId},[{";".intercalate (ents.map sum16)}])"

def resName {α : Type} : Res α → String
  | .eof => "eof"
  | .unexpectedEOF => "ueof"
  | .tooLarge => "toolarge"
  | .badType _ => "err"
  | .ok _ _ => "ok"

/-- the decoder loop of the msgappv2 stream: framing by `decodeB`, message reconstruction by the
    stateful rules of `Z.AppV2G.dec` -/
def decV2 (st : St) : Nat → Z.AppV2G.CState → Bytes → List String → Option (List String)
  | 0, _, _, acc => some (acc.reverse ++ ["ueof"])
  | fuel + 1, cs, b, acc =>
    match decodeB b with
    | .ok .hb rest => decV2 st fuel cs rest ("hb" :: acc)
    | .ok (.ents ps c) rest =>
      if st.rem ≠ cs.fromG.nodeId ∨ st.loc ≠ cs.toG.nodeId then some ((acc.reverse) ++ ["err"])
      else
        let line := canon Z.AppV2G.msgApp cs.fromG.replicaId cs.toG.replicaId cs.term cs.term cs.index c cs.fromG cs.toG ps
        decV2 st fuel { cs with index := cs.index + ps.length } rest (line :: acc)
    | .ok (.full p) rest =>
      match st.table.find? (fun e => e.1 == p) with
      | none => none     -- a payload the driver was never told about: not modelled
      | some (_, i) =>
        let cs' : Z.AppV2G.CState := { term := i.term, index := (match i.lastIdx with | some l => l | none => i.index), toG := i.toG, fromG := i.fromG }
        decV2 st fuel cs' rest (canon i.typ i.src i.dst i.term i.logTerm i.index i.commit i.fromG i.toG i.ents :: acc)
    | r => some (acc.reverse ++ [resName r])

def decM : Nat → Bytes → List String → List String
  | 0, _, acc => acc.reverse ++ ["ueof"]
  | fuel + 1, b, acc =>
    match decodeM b with
    | .ok p rest => decM fuel rest (s!"p({sum16 p})" :: acc)
    | r => acc.reverse ++ [resName r]

def step (st : St) (line : String) : St × String :=
  match fields line with
  | ["reset", l, r] => match l.toNat?, r.toNat? with
    | some l, some r => ({ loc := l, rem := r }, "ok")
    | _, _ => (st, "bad-op")
  | ["v2", "hb"] =>
    let bytes := encodeB .hb
    ({ st with v2bytes := st.v2bytes ++ bytes }, hexs bytes)
  | ["v2", "app", _wf, src, dst, term, logTerm, index, commit, fg, tg, last, payload, ents] =>
    match src.toNat?, dst.toNat?, term.toNat?, logTerm.toNat?, index.toNat?, commit.toNat?, parseGrp fg, parseGrp tg, unhex payload with
    | some src, some dst, some term, some logTerm, some index, some commit, some fg, some tg, some payload =>
      let es : Option (List Bytes) := if ents == "-" then some [] else (ents.splitOn ",").mapM unhex
      match es with
      | none => (st, "bad-op")
      | some es =>
        let m : Z.AppV2G.Msg := { isHb := false, typ := Z.AppV2G.msgApp, src := src, dst := dst, term := term, logTerm := logTerm,
                                   index := index, commit := commit, toG := tg, fromG := fg, ents := [], other := 0 }
        let info : Info := { typ := Z.AppV2G.msgApp, src := src, dst := dst, term := term, logTerm := logTerm, index := index,
                             commit := commit, fromG := fg, toG := tg, lastIdx := last.toNat?, ents := es }
        if Z.AppV2G.isContinue st.enc m then
          let bytes := encodeB (.ents es commit)
          ({ st with enc := { st.enc with index := st.enc.index + es.length }, v2bytes := st.v2bytes ++ bytes }, hexs bytes)
        else
          let bytes := encodeB (.full payload)
          let cs' : Z.AppV2G.CState := { term := term, index := (match last.toNat? with | some l => l | none => index), toG := tg, fromG := fg }
          ({ st with enc := cs', v2bytes := st.v2bytes ++ bytes, table := (payload, info) :: st.table }, hexs bytes)
    | _, _, _, _, _, _, _, _, _ => (st, "bad-op")
  | ["v2dec", k] =>
    match k.toInt? with
    | some k =>
      let b := if k < 0 then st.v2bytes else st.v2bytes.take k.toNat
      match decV2 st (b.length + 2) ⟨0, 0, Z.AppV2G.zeroG, Z.AppV2G.zeroG⟩ b [] with
      | some out => (st, " ".intercalate out)
      | none => (st, "bad-op")
    | none => (st, "bad-op")
  | ["v2corrupt", _, _] => (st, "bad-op")   -- corrupted streams are outside the model (oracle only)
  | ["m", payload] =>
    match unhex payload with
    | some p => let bytes := encodeM p; ({ st with mbytes := st.mbytes ++ bytes }, hexs bytes)
    | none => (st, "bad-op")
  | ["mdec", k] =>
    match k.toInt? with
    | some k =>
      let b := if k < -1 then st.mbytes.take (st.mbytes.length - (-k - 1).toNat)
               else if k < 0 then st.mbytes else st.mbytes.take k.toNat
      (st, " ".intercalate (decM (b.length + 2) b []))
    | none => (st, "bad-op")
  | _ => (st, "bad-op")

end Drv.Stream
