/-
  Driver of protocol `datacorebit`: the answer lines of the `data` executor (notes/proto_data.md) for the BITMAP commands
  (setbit / setbitv2 / bitclear / bexpire / bpersist; getbit / bitcount / bkeyexist / bttl), computed by the executable
  storage model `Z.BitExec` over the real key codec, under both layouts (`policy=compact|local`), with several entries
  per apply event, plus the KV commands that share a key name with a bitmap (the legacy bitmap-in-a-string paths):
  `policy=compact` through Drv.DataKV / `Z.KVExec`; `policy=local` plain `set` / `del` / `get` only.
  Extra lines of this protocol (harness/cmd/zvh/proto_datacore_bit.go):
    `aw <ts> <b> <args>`   a setbit that enters the log WITHOUT the leader-side argument checks (the apply path must stand alone)
    `raw`                  the whole physical store, key order, values run-length coded
    `binv <key> <start> <end> <off>…`  BITCOUNT key start end  next to the number of listed offsets in that byte range whose GETBIT is 1
    `bchk <key> <off> <0|1>`           GETBIT key off against the bit a SETBIT just wrote (skipped when the meta carries an expiry)
  The model has no panic outcome (the two Go panics of the bitmap code were repaired: fixes 0ad0963, d794a70); a `panic` /
  `poisoned` answer of the executor is therefore a disagreement.
-/
import ZanVerif.Data.BitExec
import Driver.DataKV
namespace Drv.DataBit
open Z.BitExec Z.KVExec
open Drv.DataKV (ns lowerName)

abbrev Bytes := List UInt8
abbrev KV := Bytes × Bytes

/-- a queued log entry: timestamp, lower-cased name, client key, remaining arguments -/
structure Ent where
  ts : Int
  cmd : String
  key : Bytes
  rest : List Bytes

structure St where
  pol : Pol := .compact
  m : List KV := []
  keys : List Bytes := []
  now : Int := 1750000000000000000
  pend : List Ent := []

/-- client key → (table, key part): model domain = table and key part non-empty, key within MaxKeySize -/
def keyOf (key : Bytes) : Option (Bytes × Bytes) :=
  if key.take ns.length == ns then
    match Z.Codec.extractTable (key.drop ns.length) with
    | some (table, k) =>
      if table.isEmpty || k.isEmpty || key.length > Gen.cMaxKeySize || table.length > Gen.cMaxTableNameLen then none else some (table, k)
    | none => none
  else none

def showOut : BOut Int → String
  | .ok n => s!"int:{n}"
  | .err c => "err:" ++ c

def showTtl (now : Int) : BOut Int → String
  | .ok n => if n > 0 then s!"ttlat:{n + Int.tdiv now 1000000000}" else s!"int:{n}"
  | r => showOut r

def pErr : PRes → String
  | .syntax => "err:notint"
  | .range => "err:numrange"
  | .ok _ => "?"

def bitWrites : List String := ["setbit", "setbitv2", "bitclear", "bexpire", "bpersist"]
def bitReads : List String := ["getbit", "bitcount", "bkeyexist", "bttl"]
def kvWritesC : List String := ["set", "setex", "del", "expire", "persist"]
def kvReadsC : List String := ["get", "strlen", "exists", "ttl"]

/-- leader side of a write line: `none` = proposed (queued), `some s` = STATUS without a log entry, "bad-op" = outside the model -/
def leader (st : St) (unchecked : Bool) (cmd : String) (key : Bytes) (rest : List Bytes) : Option String :=
  match keyOf key with
  | none => some "bad-op"
  | some _ =>
    if cmd == "setbit" || cmd == "setbitv2" then
      if unchecked then (if rest.length == 2 then none else some "bad-op") else
      match rest with
      | [off, on] =>
        match parseInt off with
        | .ok o =>
          match parseInt on with
          | .ok v =>
            if Gen.bitLeaderOffsetBad o then some "err:bitoffset"
            else if Gen.bitLeaderValueBad v then some "err:bitvalue" else none
          | e => some (pErr e)
        | e => some (pErr e)
      | _ => some "err:argc"
    else if unchecked then some "bad-op"
    else if cmd == "bitclear" || cmd == "bpersist" then (if rest.isEmpty then none else some "err:argc")
    else if cmd == "bexpire" then
      (if rest.length != 1 then some "err:argc" else if st.pol == .local then some "bad-op" else none)
    else
      match st.pol with
      | .compact =>
        if kvWritesC.contains cmd then
          match Drv.DataKV.write { m := st.m, keys := st.keys, now := st.now } 0 cmd key rest with
          | .badop => some "bad-op"
          | .status s => some s
          | .queued _ _ => none
        else some "bad-op"
      | .local =>
        if (cmd == "set" && rest.length == 1) || (cmd == "del" && rest.isEmpty) then none else some "bad-op"

/-- one log entry applied to the store: (store, keys, reply) -/
def applyEnt (st : St) (e : Ent) : St × String :=
  match keyOf e.key with
  | none => (st, "err:?")
  | some (table, rk) =>
    let fin (r : List KV × BOut Int) : St × String := ({ st with m := r.1 }, showOut r.2)
    match e.cmd, e.rest with
    | "setbit", [off, on] | "setbitv2", [off, on] =>
      match parseInt off with
      | .ok o =>
        match parseInt on with
        | .ok v => fin (setbit st.pol st.m e.ts table rk o v)
        | er => (st, pErr er)
      | er => (st, pErr er)
    | "bitclear", [] => fin (bitclear st.pol st.m e.ts table rk)
    | "bpersist", [] => fin (bpersist st.pol st.m e.ts table rk)
    | "bexpire", [d] =>
      match parseInt d with
      | .ok n => fin (bexpire st.m e.ts table rk n)
      | er => (st, pErr er)
    | _, _ =>
      match st.pol with
      | .compact =>
        match Drv.DataKV.write { m := st.m, keys := st.keys, now := st.now } e.ts e.cmd e.key e.rest with
        | .queued s r => ({ st with m := s.m, keys := s.keys }, r)
        | _ => (st, "err:?")
      | .local =>
        match e.cmd, e.rest with
        | "set", [v] =>
          if tooBig v then (st, "err:valuelen") else
          ({ st with m := Z.Ref.put st.m (strK table rk) (v ++ Z.Codec.be64 (Z.Codec.toU64 e.ts)) }, "str:OK")
        | "del", [] =>
          ({ st with m := Z.Ref.del st.m (strK table rk) }, if (Z.Ref.get st.m (strK table rk)).isSome then "int:1" else "int:0")
        | _, _ => (st, "err:?")

/-- the apply event: entries in log order -/
def flush (st : St) : St × List String :=
  st.pend.foldl (fun (acc : St × List String) e => let (s, r) := applyEnt acc.1 e; (s, acc.2 ++ [r])) ({ st with pend := [] }, [])

def writeLine (st : St) (unchecked : Bool) (ts : Int) (b : String) (args : List Bytes) : St × String :=
  match args with
  | name :: key :: rest =>
    let cmd := lowerName name
    if !(bitWrites.contains cmd || kvWritesC.contains cmd) then (st, "bad-op") else
    -- a KV command ends its event (see the generator): DEL reads the committed store only
    if kvWritesC.contains cmd && b != "1" then (st, "bad-op") else
    match leader st unchecked cmd key rest with
    | some "bad-op" => (st, "bad-op")
    | lead =>
      let status := lead.getD "queued"
      let st1 := if lead.isNone then { st with pend := st.pend ++ [{ ts := ts, cmd := cmd, key := key, rest := rest }] } else st
      if b == "0" then (st1, status) else
      let (st2, rs) := flush st1
      (st2, status ++ " => " ++ (if rs.isEmpty then "-" else " | ".intercalate rs))
  | _ => (st, "bad-op")

def readCmd (st : St) (cmd : String) (key : Bytes) (rest : List Bytes) : String :=
  match keyOf key with
  | none => "bad-op"
  | some (table, rk) =>
    if cmd == "getbit" then
      match rest with
      | [] => "err:argc"
      | off :: _ =>
        match parseInt off with
        | .ok o => showOut (getbit st.pol st.m st.now table rk o)
        | e => pErr e
    else if cmd == "bitcount" then
      match rest with
      | [] => showOut (bitcount st.pol st.m st.now table rk 0 (-1))
      | [s, e] =>
        match parseInt s with
        | .ok a =>
          match parseInt e with
          | .ok b => showOut (bitcount st.pol st.m st.now table rk a b)
          | er => pErr er
        | er => pErr er
      | _ => "err:argc"
    else if cmd == "bkeyexist" then (if rest.isEmpty then showOut (bkeyexist st.pol st.m st.now table rk) else "err:argc")
    else if cmd == "bttl" then (if rest.isEmpty then showTtl st.now (bttl st.pol st.m st.now table rk) else "err:argc")
    else
      match st.pol with
      | .compact =>
        if kvReadsC.contains cmd then Drv.DataKV.read { m := st.m, keys := st.keys, now := st.now } cmd key rest else "bad-op"
      | .local =>
        if cmd == "get" && rest.isEmpty then
          match Z.Ref.get st.m (strK table rk) with
          | none => "nil"
          | some raw => "bulk:" ++ hexs (stripTs raw)
        else "bad-op"

/-! ### `raw` -/

def flushZeros (z : Nat) (acc : List String) : List String :=
  if z == 0 then acc else if z < 4 then String.ofList (List.replicate (2 * z) '0') :: acc else s!"z{z}." :: acc

def rleAux : List UInt8 → Nat → List String → List String
  | [], z, acc => flushZeros z acc
  | b :: t, z, acc =>
    if b == 0 then rleAux t (z + 1) acc
    else rleAux t 0 (String.ofList [hexChar (b.toNat / 16), hexChar (b.toNat % 16)] :: flushZeros z acc)

/-- hex, runs of four or more zero bytes as `z<n>.` -/
def rle (v : Bytes) : String := if v.isEmpty then "-" else String.join (rleAux v 0 []).reverse

def rawLine (st : St) : String :=
  if st.m.isEmpty then "raw n=0" else
  s!"raw n={st.m.length} " ++ ";".intercalate (st.m.map (fun p => hexs p.1 ++ "=" ++ rle p.2))

/-! ### `binv` -/

def dedupInts : List Int → List Int
  | [] => []
  | a :: t => a :: (dedupInts t).filter (· != a)

def binv (st : St) (key : Bytes) (start stop : Int) (offs : List Int) : String :=
  match keyOf key with
  | none => "bad-op"
  | some (table, rk) =>
    let bc := bitcount st.pol st.m st.now table rk start stop
    let inRange (o : Int) : Bool := decide (start ≤ Int.tdiv o 8) && (stop < 0 || decide (Int.tdiv o 8 ≤ stop))
    let en := ((dedupInts offs).filter (fun o => inRange o && getbit st.pol st.m st.now table rk o == .ok 1)).length
    s!"bc={showOut bc} en={en}"

/-- `bchk`: the stored meta carries user data and no expiry → GETBIT must show the bit just written -/
def bchk (st : St) (key : Bytes) (off : Int) (val : String) : String :=
  match keyOf key with
  | none => "bad-op"
  | some (table, rk) =>
    match Z.Ref.get st.m (metaK table rk) with
    | none => "skip"
    | some raw =>
      match decodeMeta st.pol (some raw) with
      | .err _ => "skip"
      | .ok h =>
        if (h.user.getD []).length == 0 || h.expireAt != 0 then "skip" else
        let r := showOut (getbit st.pol st.m st.now table rk off)
        if r == "int:" ++ val then "ok" else "fail:" ++ r

def parsePol (fs : List String) : Pol := if fs.contains "policy=local" then .local else .compact

def step (st : St) (line : String) : St × String :=
  match fields line with
  | "open" :: fs => ({ pol := parsePol fs, now := Drv.DataKV.parseNow fs }, "ok")
  | ["end"] => ({}, "ok")
  | fs =>
    match fs with
    | ["raw"] => (st, rawLine st)
    | "w" :: ts :: b :: hexargs =>
      if b != "0" && b != "1" then (st, "bad-op") else
      match ts.toInt?, hexargs.mapM unhex with
      | some t, some args => writeLine st false t b args
      | _, _ => (st, "bad-op")
    | "aw" :: ts :: b :: hexargs =>
      if b != "0" && b != "1" then (st, "bad-op") else
      match ts.toInt?, hexargs.mapM unhex with
      | some t, some args => writeLine st true t b args
      | _, _ => (st, "bad-op")
    | "r" :: hexargs =>
      match hexargs.mapM unhex with
      | some (name :: key :: rest) =>
        let cmd := lowerName name
        if bitReads.contains cmd || kvReadsC.contains cmd then (st, readCmd st cmd key rest) else (st, "bad-op")
      | _ => (st, "bad-op")
    | ["bchk", hk, o, v] =>
      match unhex hk, o.toInt? with
      | some key, some off => if v == "0" || v == "1" then (st, bchk st key off v) else (st, "bad-op")
      | _, _ => (st, "bad-op")
    | "binv" :: hk :: s :: e :: offs =>
      match unhex hk, s.toInt?, e.toInt?, offs.mapM (·.toInt?) with
      | some key, some a, some b, some os => (st, binv st key a b os)
      | _, _, _, _ => (st, "bad-op")
    | _ => (st, "bad-op")

end Drv.DataBit
