import ZanVerif.Route.Partition
import Driver.Util
namespace Drv.C15
open Z.Route

def step (_ : Unit) (line : String) : Unit × String :=
  ((), match fields line with
  | ["part", k, n] =>
    match unhex k, n.toInt? with
    | some pk, some n => s!"p={serverPartition pk n}"
    | _, _ => "bad-op"
  | ["route", k, n] =>
    match unhex k, n.toInt? with
    | some raw, some n =>
      match route raw n with
      | none => "err"
      | some (ns, pk, p) => s!"ns={hexs ns} pk={hexs pk} p={p}"
    | _, _ => "bad-op"
  | _ => "bad-op")

end Drv.C15
