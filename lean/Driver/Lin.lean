/- Driver of protocol `lin` (C04, certificate mode).  Input line: `<op line>\t<answer of the real code>`.
   Parses the recorded history, the per-replica apply traces and the final dumps, builds the offered order
   (operations in raft index order as reported by the apply hook; operations that were answered without a
   raft entry – GET and the "nothing to do" replies SETNX→0, LPOP→nil, SADD→0 – are inserted greedily at the
   earliest position that respects real time and explains their reply; those the Go oracle reported as stale –
   record `S`, each one an oracle violation of the run – are set aside) and runs the proven checker
   `Z.LinCert.checkCert` (built on `Z.Lin.checkLin`).  Everything besides `checkCert` is untrusted search /
   diagnosis: "ok" is answered only when `checkCert` returned true on the complete history. -/
import ZanVerif.Node.LinCert
import Driver.Util
namespace Drv.Lin
open Z.Lin Z.LinSpec Z.LinCert

instance : Inhabited R := ⟨⟨0, ⟨.get, 0, 0, 0⟩, 0, none⟩⟩

def isDigit (c : Char) : Bool := '0' ≤ c && c ≤ '9'

def natOf (cs : List Char) : Option Nat :=
  if cs.isEmpty || !cs.all isDigit then none
  else some (cs.foldl (fun n c => n * 10 + (c.toNat - '0'.toNat)) 0)

def intOf : List Char → Option Int
  | '-' :: r => (natOf r).map (fun n => - (n : Int))
  | cs => (natOf cs).map (fun n => (n : Int))

/-- `17`, `-3`, `v17`, `m3`, `f1` ↦ the integer spelled (a leading letter is dropped) -/
def atomOf (s : String) : Option Int :=
  match s.toList with
  | [] => none
  | c :: r => if isDigit c || c == '-' then intOf (c :: r) else intOf r

def hexOf (cs : List Char) : Option Nat :=
  cs.foldl (fun acc c => match acc, hexDigit c with
    | some n, some d => some (n * 16 + d)
    | _, _ => none) (some 0)

def splitOnChar (s : String) (c : Char) : List String :=
  let rec go : List Char → List Char → List String → List String
    | [], cur, acc => (String.ofList cur.reverse :: acc).reverse
    | x :: r, cur, acc => if x == c then go r [] (String.ofList cur.reverse :: acc) else go r (x :: cur) acc
  go s.toList [] []

def cmdOf : String → Option Cmd
  | "incr" => some .incr | "getset" => some .getset | "setnx" => some .setnx | "get" => some .get
  | "set" => some .set | "hincrby" => some .hincrby | "hset" => some .hset | "lpush" => some .lpush
  | "lpop" => some .lpop | "sadd" => some .sadd
  | _ => none

def argOf (s : String) : Option Int := if s == "-" then some 0 else atomOf s

def replyOf (t : String) : Option Reply :=
  if t == "n" then some .nil
  else if t == "sOK" then some .ok
  else match t.toList with
    | 'i' :: r => (intOf r).map .int
    | 'b' :: r => (atomOf (String.ofList r)).map .bulk
    | _ => none

def keyOf (s : String) : Option Nat :=
  match s.toList with
  | 'k' :: r => natOf r
  | _ => none

def showReply : Reply → String
  | .int i => s!"i{i}" | .bulk v => s!"b{v}" | .nil => "n" | .ok => "sOK" | .err => "e" | .state _ => "<state>"

/-- value tokens of a dump ↦ store (canonical through `put` / `hput` / `sins`) -/
def storeOf (toks : List String) : Option Store := do
  let mut s : Store := []
  let mut k := 0
  for t in toks do
    match t.toList with
    | ['n'] => pure ()
    | 'b' :: r => s := put s k (.str (← atomOf (String.ofList r)))
    | 'h' :: ':' :: r =>
      if !r.isEmpty then
        let mut h : List (Int × Int) := []
        for fv in splitOnChar (String.ofList r) ',' do
          match splitOnChar fv '=' with
          | [f, v] => h := hput h (← atomOf f) (← atomOf v)
          | _ => none
        s := put s k (.hash h)
    | 'l' :: ':' :: r =>
      if !r.isEmpty then
        s := put s k (.list (← (splitOnChar (String.ofList r) ',').mapM atomOf))
    | 'z' :: ':' :: r =>
      if !r.isEmpty then
        let mut z : List Int := []
        for m in splitOnChar (String.ofList r) ',' do
          z := sins z (← atomOf m)
        s := put s k (.set z)
    | _ => none
    k := k + 1
  return s

def evOf (t : String) : Option Ev :=
  match t.toList with
  | 's' :: r => (natOf r).map .reset
  | 'a' :: r =>
    match splitOnChar (String.ofList r) '.' with
    | [i, tm, tag] => do
      let i ← natOf i.toList
      let tm ← natOf tm.toList
      match tag.toList with
      | ['-'] => some (.app ⟨i, tm, [], 0⟩)
      | 'x' :: h => (hexOf h).map (fun n => .app ⟨i, tm, [], n + 1⟩)
      | _ =>
        let ids ← (splitOnChar tag '+').mapM (fun o => match o.toList with
          | 'o' :: d => natOf d
          | _ => none)
        some (.app ⟨i, tm, ids, 0⟩)
    | _ => none
  | _ => none

structure Parsed where
  H : List R := []
  traces : List (Nat × List Ev) := []
  dumps : List (Nat × Nat × Store) := []     -- replica, applied index, state
  stale : List Nat := []                     -- local answers the Go oracle reported as stale (set aside)
  flagged : Option String := none            -- class of a violation the Go oracle reported for this history

def parse (ans : String) : Except String Parsed := do
  let mut p : Parsed := {}
  for rec in splitOnChar ans ';' do
    match fields rec with
    | "H" :: _ => pure ()
    | ["O", id, _cl, inv, res, st, cmd, key, a, b, reply] =>
      match natOf id.toList, natOf inv.toList, natOf res.toList, cmdOf cmd, keyOf key, argOf a, argOf b with
      | some id, some inv, some res, some cmd, some key, some a, some b =>
        if st == "ok" then
          match replyOf reply with
          | some r => p := { p with H := ⟨id, ⟨cmd, key, a, b⟩, inv, some (r, res)⟩ :: p.H }
          | none => throw s!"bad reply {reply}"
        else p := { p with H := ⟨id, ⟨cmd, key, a, b⟩, inv, none⟩ :: p.H }
      | _, _, _, _, _, _, _ => throw s!"bad O record {rec}"
    | "T" :: rep :: evs =>
      match natOf rep.toList, evs.mapM evOf with
      | some rep, some evs => p := { p with traces := p.traces ++ [(rep, evs)] }
      | _, _ => throw "bad T record"
    | ["D", rep, applied, v0, v1, v2, v3] =>
      match natOf rep.toList, natOf applied.toList, storeOf [v0, v1, v2, v3] with
      | some rep, some ap, some s => p := { p with dumps := p.dumps ++ [(rep, ap, s)] }
      | _, _, _ => throw s!"bad D record {rec}"
    | ["F", cls] => p := { p with flagged := some cls }
    | "S" :: ids =>
      match ids.mapM (fun i => natOf i.toList) with
      | some ids => p := { p with stale := p.stale ++ ids }
      | none => throw "bad S record"
    | _ => throw s!"bad record {rec}"
  return { p with H := p.H.reverse }

def resStamp (x : R) : Option Nat := x.res.map (·.2)

/-- offered order + the answered operations that could not be placed -/
def buildWitness (H : List R) (apps : List App) : List R × List R × List R :=
  -- entries by index (first occurrence), ascending
  let sorted := (apps.toArray.qsort (fun a b => a.index < b.index)).toList
  let ids := (sorted.foldl (fun (acc : List Nat × Nat × Bool) a =>
      if acc.2.2 && a.index == acc.2.1 then acc else (a.ids.reverse ++ acc.1, a.index, true)) ([], 0, false)).1.reverse
  let ids := ids.eraseDups
  let maxId := H.foldl (fun m x => max m x.id) 0
  let tbl : Array (Option R) := H.foldl (fun t x => t.set! x.id (some x)) (Array.replicate (maxId + 1) none)
  let logged : Array R := (ids.filterMap (fun i => (tbl.getD i none))).toArray
  let isLogged : Array Bool := ids.foldl (fun t i => if i < t.size then t.set! i true else t) (Array.replicate (maxId + 1) false)
  let rest := H.filter (fun x => !(isLogged.getD x.id false) && x.res.isSome)
  let lost := rest.filter (fun x => match x.res with | some (r, _) => !readLike x.op r | none => false)
  let reads := (rest.filter (fun x => match x.res with | some (r, _) => readLike x.op r | none => false)).toArray.qsort
    (fun a b => a.inv < b.inv)
  -- states[p] = store before logged[p]
  let states : Array Store := logged.foldl (fun (acc : Array Store) x => acc.push (step (acc.back!) x.op).1) #[([] : Store)]
  let n := logged.size
  -- place the reads
  let (placed, bad) := reads.foldl (fun (acc : List (Nat × Nat × R) × List R) r =>
      let (placed, bad) := acc
      let lo1 := (List.range n).foldl (fun lo j => match resStamp logged[j]! with
        | some t => if t < r.inv then j + 1 else lo
        | none => lo) 0
      let lo := placed.foldl (fun lo (q : Nat × Nat × R) => if q.1 < r.inv then max lo q.2.1 else lo) lo1
      let want := match r.res with | some (rp, _) => rp | none => Reply.nil
      match (List.range (n + 1 - lo)).find? (fun d => (step states[lo + d]! r.op).2 == want) with
      | some d => ((((resStamp r).getD 0), lo + d, r) :: placed, bad)
      | none => (placed, r :: bad)) ([], [])
  let placed := placed.reverse
  let L := (List.range (n + 1)).foldl (fun (acc : List R) p =>
      let here := (placed.filter (fun q => q.2.1 == p)).map (·.2.2)
      let acc := acc ++ here
      if p < n then acc ++ [logged[p]!] else acc) []
  (L, bad.reverse, lost)

def firstConflict : List App → Option (App × App)
  | [] => none
  | a :: l => match l.find? (fun b => !agreeB a b) with
    | some b => some (a, b)
    | none => firstConflict l

def rtWhy : Nat → List R → Option String
  | _, [] => none
  | m, x :: xs => match x.res with
    | some (_, t) => if t < m then some s!"op {x.id} answered at {t} is ordered after an operation invoked at {m}" else rtWhy (max m x.inv) xs
    | none => rtWhy (max m x.inv) xs

def replayWhy : Store → List R → Option String
  | _, [] => none
  | s, x :: xs =>
    let (s', r) := step s x.op
    match x.res with
    | some (rp, _) => if rp = r then replayWhy s' xs else some s!"op {x.id} answered {showReply rp} but the order gives {showReply r}"
    | none => replayWhy s' xs

def diagnose (H : List R) (traces : List (Nat × List Ev)) (L : List R) : String :=
  let apps := allApps (traces.map (·.2))
  match firstConflict apps with
  | some (a, b) =>
    if a.index == b.index then s!"replica-diverge index {a.index}: term {a.term} ops {a.ids} other {a.other} vs term {b.term} ops {b.ids} other {b.other}"
    else s!"applied-twice an operation of {a.ids} is carried by index {a.index} and by index {b.index}"
  | none =>
  match traces.find? (fun t => !epochOk none t.2) with
  | some t => s!"applied-twice replica {t.1} applied a non-increasing index without a restore"
  | none =>
  if !decide ((L.map (·.id)).Nodup) then "applied-twice an operation occurs twice in the offered order" else
  match H.find? (fun x => x.res.isSome && !memId L x) with
  | some x => s!"acked-lost op {x.id} was answered but is not in the applied order"
  | none =>
  match rtWhy 0 L with
  | some w => "real-time " ++ w
  | none =>
  match replayWhy [] L with
  | some w => "wrong-reply " ++ w
  | none =>
  if !sortedB (L.filterMap (fun x => idxOf apps x.id)) then "raft-order the offered order is not the raft index order"
  else "not-in-history the offered order contains a record that is not in the history"

def verdict (ans : String) : String :=
  if ans.startsWith "err " then "reject harness " ++ ans else
  match parse ans with
  | .error e => "reject parse " ++ e
  | .ok p =>
    match p.dumps with
    | [] => "reject parse no dump"
    | (_, ap0, _) :: _ =>
    if p.dumps.any (fun d => d.2.1 != ap0) then "reject replica-diverge applied indexes differ after settling" else
    let maxT := p.H.foldl (fun m x => max (max m x.inv) ((resStamp x).getD 0)) 0
    let maxId := p.H.foldl (fun m x => max m x.id) 0
    let dumpOps : List R := p.dumps.map (fun d => ⟨maxId + d.1, ⟨.dump, 0, 0, 0⟩, maxT + 1, some (.state d.2.2, maxT + 2)⟩)
    -- operations the Go oracle reported as stale local answers (each is an oracle violation of the run) are set
    -- aside – only answered read-like operations may be; everything else must pass the complete check
    match p.stale.find? (fun i => !p.H.any (fun x => x.id == i && (match x.res with | some (r, _) => readLike x.op r | none => false))) with
    | some i => s!"reject bad-stale-flag op {i} is not an answered local read"
    | none =>
    let H := p.H.filter (fun x => !p.stale.contains x.id) ++ dumpOps
    let traces := p.traces.map (·.2)
    let (L, bad, lost) := buildWitness H (allApps traces)
    match lost with
    | x :: _ => s!"reject acked-lost op {x.id} was answered {showReply ((x.res.map (·.1)).getD .nil)} but no replica applied it"
    | [] =>
    if bad.isEmpty then
      if checkCert H traces L then "ok" else "reject " ++ diagnose H p.traces L
    else
      let H' := H.filter (fun x => !bad.any (fun b => b.id == x.id))
      if checkCert H' traces L then
        if bad.any (fun b => b.op.cmd == .dump) then
          s!"reject final-state replica dump {(bad.filter (fun b => b.op.cmd == .dump)).map (fun b => b.id - maxId)} is not the state the applied order produces"
        else s!"reject stale-read ops {bad.map (·.id)} were answered from local state with a reply no position allowed by real time explains (all other operations are linearizable in raft order)"
      else "reject " ++ diagnose H' p.traces L

/-- certificate mode: "ok" = the checker agrees with what the real run's oracle said about the history – accepted
    and not reported, or reported (record F, an oracle violation of the run) and indeed rejected -/
def agree (ans : String) : String :=
  let v := verdict ans
  let flagged := (splitOnChar ans ';').find? (fun r => r.startsWith "F ")
  match flagged with
  | none => v
  | some f => if v == "ok" then s!"reject oracle-disagrees the Go oracle reported [{f}] but the certificate is accepted"
              else if v.startsWith "reject harness" || v.startsWith "reject parse" then v else "ok"

def step (_ : Unit) (line : String) : Unit × String :=
  ((), match splitOnChar line '\t' with
  | [op, ans] => if op.startsWith "hist " then agree ans else "bad-op"
  | _ => "bad-op")

end Drv.Lin
