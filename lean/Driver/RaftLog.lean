/- zvdriver raftlog (diff mode): the executable log model `Z.LogModel` (ZanVerif/Raft/LogModel.lean,
   LogNode.lean) answering the op lines of harness/cmd/zvh/proto_raftlog.go.  Arguments are relative
   to the current state and resolved here against the MODEL's state (the Go side resolves them against
   the real state), the answer echoes the resolved arguments, the result and a full state dump.
   Core only. -/
import ZanVerif.Raft.LogNode
import ZanVerif.Raft.RocksModel
import Driver.Util
namespace Drv.RaftLog
open Z.LogModel

structure DS where
  log : RaftLog
  max : Nat
  node : Option NodeBk
  rd : Option Ready
  rs : RStorage

def init : DS := ⟨RaftLog.newLog Storage.new noLimit, noLimit, none, none, RStorage.new⟩

def parseSize (s : String) : Nat := if s == "max" then noLimit else s.toNat?.getD 0
def sizeStr (n : Nat) : String := if n == noLimit then "max" else toString n

def boolStr (b : Bool) : String := if b then "true" else "false"

/-- index expression `<B>+<k>` / `<B>-<k>` -/
def idx (l : RaftLog) (e : String) : Nat :=
  match e.toList with
  | b :: sg :: ks =>
    let base : Nat :=
      if b == 'F' then l.firstIndex
      else if b == 'L' then l.lastIndex
      else if b == 'C' then l.committed
      else if b == 'A' then l.applied
      else if b == 'O' then l.unstable.offset
      else if b == 'S' then l.storage.lastIndex
      else if b == 'D' then l.storage.dummy.index
      else if b == 'N' then l.storage.snapIndex
      else if b == 'P' then (match l.unstable.snapshot with | some (i, _) => i | none => 0)
      else 0
    if ks.isEmpty then 0 else
    let k := (String.ofList ks).toNat?.getD 0
    if sg == '-' then base - k else base + k
  | _ => 0

/-- the term the log holds at i, 0 on any error or panic -/
def termOr0 (l : RaftLog) (i : Nat) : Nat :=
  match l.term i with
  | .ok t => t
  | _ => 0

def termExpr (l : RaftLog) (e : String) (at_ : Nat) : Nat :=
  match e.toList with
  | '=' :: rest =>
    let t := termOr0 l at_
    match rest with
    | _ :: ks@(_ :: _) => t + ((String.ofList ks).toNat?.getD 0)
    | _ => t
  | _ => e.toNat?.getD 0

def parseEnt (l : RaftLog) (start k : Nat) (e : String) : Option Entry :=
  let (body, index) := match e.splitOn "@" with
    | [b, a] => (b, a.toNat?.getD 0)
    | _ => (e, start + k)
  match body.splitOn "/" with
  | [t, d, dl] => some ⟨index, termExpr l t index, d.toNat?.getD 0, dl.toNat?.getD 0⟩
  | _ => none

def parseEntsAux (l : RaftLog) (start : Nat) : Nat → List String → List Entry
  | _, [] => []
  | k, e :: es =>
    match parseEnt l start k e with
    | some x => x :: parseEntsAux l start (k + 1) es
    | none => parseEntsAux l start (k + 1) es

def parseEnts (l : RaftLog) (spec : String) (start : Nat) : List Entry :=
  if spec == "-" || spec == "" then [] else parseEntsAux l start 0 (spec.splitOn ",")

def entStr (e : Entry) : String := s!"{e.index}.{e.term}.{e.data}.{e.dlen}"

def entsStr (es : List Entry) : String :=
  if es.isEmpty then "-" else ",".intercalate (es.map entStr)

def errStr : Err → String
  | .compacted => "err:compacted"
  | .unavailable => "err:unavailable"
  | .snapOutOfDate => "err:snapoutofdate"
  | .notFound => "err:notfound"
  | .compactOob => "err:compactoob"

def panicStr : Panic → String
  | .tocommit => "tocommit" | .applied => "applied" | .conflict => "conflict" | .after => "after"
  | .sliceInv => "slice-inv" | .sliceOob => "slice-oob" | .usliceInv => "uslice-inv" | .usliceOob => "uslice-oob"
  | .unavailable => "unavailable" | .nextEntsErr => "nextents-err" | .lastTermErr => "lastterm-err"
  | .zeroTermErr => "zeroterm-err" | .stHi => "st-hi" | .stSnapOob => "st-snap-oob"
  | .stCompactOob => "st-compact-oob" | .stMissing => "st-missing" | .otherErr => "other-err"
  | .rtIndex => "rt-index" | .rtSlice => "rt-slice"

def termStr (l : RaftLog) (i : Nat) : String :=
  match l.term i with
  | .ok t => toString t
  | .err .compacted => "C"
  | .err .unavailable => "U"
  | .err _ => "E"
  | .panic _ => "P"

def dump (s : DS) : String :=
  let l := s.log
  let us := match l.unstable.snapshot with
    | some (i, t) => s!"{i}.{t}"
    | none => "-"
  let fi := l.firstIndex
  let li := l.lastIndex
  let tm :=
    if li + 1 < fi then "-"
    else if li + 1 - fi > 200 then "long"
    else ",".intercalate ((List.range (li + 2 - fi)).map (fun k => termStr l (fi - 1 + k)))
  let base := s!"c={l.committed} a={l.applied} off={l.unstable.offset} us={us} ue={entsStr l.unstable.entries} ss={l.storage.snapIndex}.{l.storage.snapTerm} se={entsStr l.storage.all} fi={fi} li={li} tm={tm} wf={boolStr (wfB l)}"
  match s.node with
  | none => base
  | some b =>
    let hc := match b.prevHard with
      | some c => toString c
      | none => "-"
    base ++ s!" node: need={boolStr b.needAdvance} stepped={b.lastSteppedIndex} have={boolStr b.havePrevLastUnstablei} pi={b.prevLastUnstablei} pt={b.prevLastUnstablet} psnap={b.prevSnapi} phc={hc}"

/-- render a result; on `ok` the state is replaced -/
def fin (s : DS) (head : String) (r : Res (DS × String)) : DS × String :=
  match r with
  | .ok (s', res) => (s', head ++ " => " ++ res ++ " | " ++ dump s')
  | .err e => (s, head ++ " => " ++ errStr e ++ " | " ++ dump s)
  | .panic p => (s, head ++ " => panic:" ++ panicStr p ++ " | " ++ dump s)

def withLog (s : DS) (r : Res RaftLog) (res : String) : Res (DS × String) :=
  match r with
  | .ok l => .ok ({ s with log := l }, res)
  | .err e => .err e
  | .panic p => .panic p

def withStorage (s : DS) (r : Res Storage) (res : String) : Res (DS × String) :=
  match r with
  | .ok st => .ok ({ s with log := { s.log with storage := st } }, res)
  | .err e => .err e
  | .panic p => .panic p

def query {α : Type} (s : DS) (r : Res α) (f : α → String) : Res (DS × String) :=
  match r with
  | .ok a => .ok (s, f a)
  | .err e => .err e
  | .panic p => .panic p

def arg (f : List String) (i : Nat) : String := f.getD i "Z+0"

/-! RocksStorage ops -/

def ridx (r : RStorage) (e : String) : Nat :=
  match e.toList with
  | b :: sg :: ks =>
    let base : Nat :=
      if b == 'f' then (if r.snapIndex != 0 then r.snapIndex + 1 else match r.db.head? with | some x => x.index + 1 | none => 0)
      else if b == 'l' then (match r.db.getLast? with | some x => x.index | none => 0)
      else if b == 'n' then r.snapIndex
      else 0
    if ks.isEmpty then 0 else
    let k := (String.ofList ks).toNat?.getD 0
    if sg == '-' then base - k else base + k
  | _ => 0

def rterm (r : RStorage) (e : String) (at_ : Nat) : Nat :=
  match e.toList with
  | '=' :: rest =>
    let t := match (r.db.filter (fun x => x.index == at_)).getLast? with | some x => x.term | none => 0
    match rest with
    | _ :: ks@(_ :: _) => t + ((String.ofList ks).toNat?.getD 0)
    | _ => t
  | _ => e.toNat?.getD 0

def rparseEntsAux (r : RStorage) (start : Nat) : Nat → List String → List Entry
  | _, [] => []
  | k, e :: es =>
    let (body, index) := match e.splitOn "@" with
      | [b, a] => (b, a.toNat?.getD 0)
      | _ => (e, start + k)
    match body.splitOn "/" with
    | [t, d, dl] => ⟨index, rterm r t index, d.toNat?.getD 0, dl.toNat?.getD 0⟩ :: rparseEntsAux r start (k + 1) es
    | _ => rparseEntsAux r start (k + 1) es

def rparseEnts (r : RStorage) (spec : String) (start : Nat) : List Entry :=
  if spec == "-" || spec == "" then [] else rparseEntsAux r start 0 (spec.splitOn ",")

def rdump (r : RStorage) : String :=
  s!"rs: sn={r.snapIndex}.{r.snapTerm} cf={r.cFirst} cl={r.cLast} db={entsStr r.db}"

def rfin {α : Type} (s : DS) (head : String) (p : RStorage × Res α) (f : α → String) : DS × String :=
  let res := match p.2 with
    | .ok a => f a
    | .err e => errStr e
    | .panic pn => "panic:" ++ panicStr pn
  ({ s with rs := p.1 }, head ++ " => " ++ res ++ " | " ++ rdump p.1)

def rarg (f : List String) (i : Nat) : String := f.getD i "z+0"

def rocksStep (s : DS) (f : List String) (op : String) : DS × String :=
  let r := s.rs
  if op == "rs.reset" then rfin s "rs.reset" ((RStorage.new, .ok ()) : RStorage × Res Unit) (fun _ => "ok")
  else if op == "rs.append" then
    let st := ridx r (rarg f 1)
    let es := rparseEnts r (rarg f 2) st
    rfin s ("rs.append " ++ entsStr es) (r.append es) (fun _ => "ok")
  else if op == "rs.compact" then
    let i := ridx r (rarg f 1)
    rfin s s!"rs.compact {i}" (r.compact i) (fun _ => "ok")
  else if op == "rs.snap" then
    let i := ridx r (rarg f 1)
    rfin s s!"rs.snap {i}" (r.createSnapshot i) (fun p => s!"ok {p.1}.{p.2}")
  else if op == "rs.apply" then
    let i := ridx r (rarg f 1)
    let t := rterm r (rarg f 2) i
    rfin s s!"rs.apply {i} {t}" (r.applySnapshot i t) (fun _ => "ok")
  else if op == "rs.first" then rfin s "rs.first" r.firstIndex toString
  else if op == "rs.last" then rfin s "rs.last" r.lastIndex toString
  else if op == "rs.term" then
    let i := ridx r (rarg f 1)
    rfin s s!"rs.term {i}" (r.term i) toString
  else if op == "rs.entries" then
    let lo := ridx r (rarg f 1)
    let hi := ridx r (rarg f 2)
    let m := parseSize (rarg f 3)
    rfin s s!"rs.entries {lo} {hi} {sizeStr m}" (r.entries lo hi m) entsStr
  else (s, "bad-op")

def step (s : DS) (line : String) : DS × String :=
  let f := fields line
  let l := s.log
  match f with
  | [] => (s, "bad-op")
  | op :: _ =>
    if op.startsWith "rs." then rocksStep s f op
    else if op == "reset" then
      let m := parseSize (arg f 1)
      fin s s!"reset {sizeStr m}" (.ok (⟨RaftLog.newLog Storage.new m, m, none, none, s.rs⟩, "ok"))
    else if op == "newlog" then
      let m := parseSize (arg f 1)
      fin s s!"newlog {sizeStr m}" (.ok (⟨RaftLog.newLog l.storage m, m, none, none, s.rs⟩, "ok"))
    else if op == "append" then
      let st := idx l (arg f 1)
      let es := parseEnts l (arg f 2) st
      fin s s!"append {entsStr es}" (match l.append es with
        | .ok (l', last) => .ok ({ s with log := l' }, s!"last={last}")
        | .err e => .err e
        | .panic p => .panic p)
    else if op == "mapp" then
      let prev := idx l (arg f 1)
      let lt := termExpr l (arg f 2) prev
      let cm := idx l (arg f 3)
      let es := parseEnts l (arg f 4) (prev + 1)
      fin s s!"mapp {prev} {lt} {cm} {entsStr es}" (match l.maybeAppend prev lt cm es with
        | .ok (l', some li) => .ok ({ s with log := l' }, s!"ok {li}")
        | .ok (l', none) => .ok ({ s with log := l' }, "rej")
        | .err e => .err e
        | .panic p => .panic p)
    else if op == "find" then
      let st := idx l (arg f 1)
      let es := parseEnts l (arg f 2) st
      fin s s!"find {entsStr es}" (query s (l.findConflict es) toString)
    else if op == "commit" then
      let i := idx l (arg f 1)
      fin s s!"commit {i}" (withLog s (l.commitTo i) "ok")
    else if op == "applied" then
      let i := idx l (arg f 1)
      fin s s!"applied {i}" (withLog s (l.appliedTo i) "ok")
    else if op == "stable" then
      let i := idx l (arg f 1)
      let t := termExpr l (arg f 2) i
      fin s s!"stable {i} {t}" (withLog s (l.stableTo i t) "ok")
    else if op == "stablesnap" then
      let i := idx l (arg f 1)
      fin s s!"stablesnap {i}" (.ok ({ s with log := l.stableSnapTo i }, "ok"))
    else if op == "restore" then
      let i := idx l (arg f 1)
      let t := termExpr l (arg f 2) i
      fin s s!"restore {i} {t}" (.ok ({ s with log := l.restore i t }, "ok"))
    else if op == "mcommit" then
      let i := idx l (arg f 1)
      let t := termExpr l (arg f 2) i
      fin s s!"mcommit {i} {t}" (match l.maybeCommit i t with
        | .ok (l', b) => .ok ({ s with log := l' }, boolStr b)
        | .err e => .err e
        | .panic p => .panic p)
    else if op == "term" then
      let i := idx l (arg f 1)
      fin s s!"term {i}" (query s (l.term i) toString)
    else if op == "match" then
      let i := idx l (arg f 1)
      let t := termExpr l (arg f 2) i
      fin s s!"match {i} {t}" (query s (l.matchTerm i t) boolStr)
    else if op == "uptodate" then
      let i := idx l (arg f 1)
      let t := termExpr l (arg f 2) l.lastIndex
      fin s s!"uptodate {i} {t}" (query s (l.isUpToDate i t) boolStr)
    else if op == "lastterm" then
      fin s "lastterm" (query s l.lastTerm toString)
    else if op == "hasnext" then
      fin s "hasnext" (.ok (s, boolStr l.hasNextEnts))
    else if op == "next" then
      fin s "next" (query s l.nextEnts entsStr)
    else if op == "unstable" then
      fin s "unstable" (.ok (s, entsStr l.unstableEntries))
    else if op == "snap" then
      let (i, t) := l.snapshot
      fin s "snap" (.ok (s, s!"{i}.{t} pending={boolStr l.hasPendingSnapshot}"))
    else if op == "slice" then
      let lo := idx l (arg f 1)
      let hi := idx l (arg f 2)
      let m := parseSize (arg f 3)
      fin s s!"slice {lo} {hi} {sizeStr m}" (query s (l.slice lo hi m) entsStr)
    else if op == "entries" then
      let i := idx l (arg f 1)
      let m := parseSize (arg f 2)
      fin s s!"entries {i} {sizeStr m}" (query s (l.entries i m) entsStr)
    else if op == "st.append" then
      let st := idx l (arg f 1)
      let es := parseEnts l (arg f 2) st
      fin s s!"st.append {entsStr es}" (withStorage s (l.storage.append es) "ok")
    else if op == "st.appendu" then
      let n := (arg f 1).toNat?.getD 0
      let es := l.unstable.entries.take n
      fin s s!"st.appendu {entsStr es}" (withStorage s (l.storage.append es) "ok")
    else if op == "st.compact" then
      let i := idx l (arg f 1)
      fin s s!"st.compact {i}" (withStorage s (l.storage.compact i) "ok")
    else if op == "st.snap" then
      let i := idx l (arg f 1)
      fin s s!"st.snap {i}" (match l.storage.createSnapshot i with
        | .ok (st, si, t) => .ok ({ s with log := { l with storage := st } }, s!"ok {si}.{t}")
        | .err e => .err e
        | .panic p => .panic p)
    else if op == "st.apply" then
      let i := idx l (arg f 1)
      let t := termExpr l (arg f 2) i
      fin s s!"st.apply {i} {t}" (withStorage s (l.storage.applySnapshot i t) "ok")
    else if op == "st.applyu" then
      match l.unstable.snapshot with
      | none => fin s "st.applyu -" (.ok (s, "none"))
      | some (i, t) => fin s s!"st.applyu {i}.{t}" (withStorage s (l.storage.applySnapshot i t) "ok")
    else if op == "st.entries" then
      let lo := idx l (arg f 1)
      let hi := idx l (arg f 2)
      let m := parseSize (arg f 3)
      fin s s!"st.entries {lo} {hi} {sizeStr m}" (query s (l.storage.entries lo hi m) entsStr)
    else if op == "st.term" then
      let i := idx l (arg f 1)
      fin s s!"st.term {i}" (query s (l.storage.term i) toString)
    else if op == "node.start" then
      let lo := l.storage.dummy.index
      let hi := l.storage.lastIndex
      let cm := min (max l.committed lo) hi
      -- (loadState's range panic cannot fire: cm is clamped into [firstIndex-1, lastIndex] of the storage)
      match NodeBk.restart l.storage s.max cm with
      | some (b, l') => fin s s!"node.start {cm}" (.ok (⟨l', s.max, some b, none, s.rs⟩, "ok"))
      | none => fin s s!"node.start {cm}" (.ok (s, "panic:loadstate"))
    else if op == "ready" then
      let more := arg f 1 == "1"
      let head := s!"ready {boolStr more}"
      match s.node with
      | none => fin s head (.ok (s, "nonode"))
      | some b =>
        fin s head (match b.stepNode l more with
          | .panic p => .panic p
          | .err e => .err e
          | .ok (_, none) => .ok (s, "none")
          | .ok (b', some rd) =>
            let snap := if NodeBk.snapIsEmpty rd then "-" else
              (match rd.snapshot with | some (i, t) => s!"{i}.{t}" | none => "-")
            let hc := match rd.hard with
              | some c => toString c
              | none => "-"
            .ok ({ s with node := some b', rd := some rd },
              s!"ents={entsStr rd.entries} committed={entsStr rd.committed} snap={snap} more={boolStr rd.more} hc={hc} notcont={boolStr (b.notContinued rd)}"))
    else if op == "advance" then
      match s.node with
      | none => fin s "advance" (.ok (s, "nonode"))
      | some b =>
        match s.rd with
        | none => fin s "advance" (.ok (s, "noready"))
        | some rd =>
          match b.advance l rd with
          | .ok (b', l') => fin s "advance" (.ok (⟨l', s.max, some b', none, s.rs⟩, "ok"))
          | .err e => fin { s with node := none, rd := none } "advance" (.err e)
          | .panic p => fin { s with node := none, rd := none } "advance" (.panic p)
    else (s, "bad-op")

end Drv.RaftLog
