import ZanVerif.Data.ZSetCmd
import Driver.Util
/-
  Protocol `datacorezset`: the answer lines of protocol `data` (notes/proto_data.md) for the sorted-set commands,
  computed by the executable storage model `Z.ZSetExec` / `Z.ZSetCmd` with the real key codec.
  One entry per apply event (`w <ts> 1 …`), local-deletion layout.
-/
namespace Drv.DataZSet
open Z.Ref Z.ZSetExec Z.ZSetCmd

structure St where
  m : List KV := []
  keys : List Bytes := []       -- client keys (with namespace) seen on `w` lines, for `dump`
  poisoned : Bool := false      -- an unmodelled write happened: the model state is unknown until the next `open`
  deriving Inhabited

def ns : Bytes := "default:".toUTF8.toList

/-- client key `default:table:key` → key after `CutNamesapce` if table and key part are non-empty -/
def cutKey (k : Bytes) : Option Bytes :=
  if k.take ns.length == ns then
    let c := k.drop ns.length
    match Z.Codec.extractTable c with
    | some (t, r) => if t.isEmpty || r.isEmpty then none else some c
    | none => none
  else none

mutual
def render : Reply → Option String
  | .int n => some s!"int:{n}"
  | .bulk b => some ("bulk:" ++ hexs b)
  | .nil => some "nil"
  | .err c => some ("err:" ++ c)
  | .unmodelled => none
  | .arr l => (renderList l).map (fun ss => "arr:[" ++ ",".intercalate ss ++ "]")
def renderList : List Reply → Option (List String)
  | [] => some []
  | r :: t =>
    match render r, renderList t with
    | some a, some b => some (a :: b)
    | _, _ => none
end

def cmdName (name : Bytes) : String := String.ofList ((lowerBytes name).map (fun b => Char.ofNat b.toNat))

def insertKey (l : List Bytes) (k : Bytes) : List Bytes := if l.contains k then l else l ++ [k]

def write (st : St) (ts : Int) (args : List Bytes) : St × String :=
  match args with
  | name :: key :: rest =>
    match cutKey key with
    | none => (st, "bad-op")
    | some k =>
      let cmd := cmdName name
      let st := { st with keys := insertKey st.keys key }
      match lead st.m cmd k rest with
      | .unmodelled => ({ st with poisoned := true }, "bad-op")
      | .err c => (st, "err:" ++ c ++ " => -")
      | .loc r =>
        match render r with
        | some s => (st, "local:" ++ s ++ " => -")
        | none => (st, "bad-op")
      | .propose =>
        let (m', r) := apply st.m ts cmd k rest
        match render r with
        | some s => ({ st with m := m' }, "queued => " ++ s)
        | none => ({ st with poisoned := true }, "bad-op")
  | _ => (st, "bad-op")

def read (st : St) (args : List Bytes) : String :=
  match args with
  | name :: key :: rest =>
    match cutKey key with
    | none => "bad-op"
    | some k =>
      match render (Z.ZSetCmd.read st.m (cmdName name) k rest) with
      | some s => s
      | none => "bad-op"
  | _ => "bad-op"

def insertSortedB : List Bytes → Bytes → List Bytes
  | [], k => [k]
  | a :: t, k => if k < a then k :: a :: t else if k = a then a :: t else a :: insertSortedB t k

/-- `zset <hexkey> <hexmember>=<score text>{,…} none` per key with a non-empty ZRANGE 0 -1 WITHSCORES, by key bytes -/
def dump (st : St) : String :=
  let ks := st.keys.foldl insertSortedB []
  let ents := ks.filterMap (fun key =>
    match cutKey key with
    | none => none
    | some k =>
      match zrange F st.m k 0 (-1) false with
      | .error e => some ("zset " ++ hexs key ++ " !err:" ++ e ++ " none")
      | .ok l =>
        if l.isEmpty then none else
        some ("zset " ++ hexs key ++ " " ++
          ",".intercalate (l.map (fun p => hexs p.1 ++ "=" ++
            (match scoreText p.2 with
             | some t => String.ofList (t.map (fun b => Char.ofNat b.toNat))
             | none => "?"))) ++ " none"))
  if ents.isEmpty then "empty" else ";".intercalate ents

/-- executable form of the representation invariant (the one `Z.ZSetInv.Inv` states) for the keys seen so far:
    stored size = member keys in range = index keys in range, every member key has its index key with the
    stored score and every index key decodes to a member that stores that score, meta present iff non-empty -/
def invKey (m : List KV) (k : Bytes) : Bool :=
  let mems := rscan m (F.memK k []) (F.memStop k) false true
  let idx := rscan m (F.idxStart k) (F.idxStop k) false false
  let size : Int := match zcard F m k with | .ok n => n | .error _ => -1
  size == (mems.length : Int) && size == (idx.length : Int) &&
  ((get m (F.metaK k)).isNone == (mems.length == 0)) &&
  mems.all (fun p =>
    match F.decMemK p.1, F.decScore p.2 with
    | some mem, some s => !Z.Codec.isNaNBits s && (get m (F.scoreK k s mem)).isSome
    | _, _ => false) &&
  idx.all (fun p =>
    match F.decScoreK p.1 with
    | some (mem, s) =>
      (match get m (F.memK k mem) with
       | some v => (match F.decScore v with | some s' => feqB s s' && F.scoreK k s' mem == p.1 | none => false)
       | none => false)
    | none => false)

def inv (st : St) : String :=
  if st.keys.all (fun key => match cutKey key with | some k => invKey st.m k | none => true) then "ok"
  else "model-inv-broken"

def step (st : St) (line : String) : St × String :=
  match fields line with
  | "open" :: _ => ({}, "ok")
  | ["end"] => ({}, "ok")
  | ["inv"] => if st.poisoned then (st, "bad-op") else (st, inv st)
  | ["dump"] => if st.poisoned then (st, "bad-op") else (st, dump st)
  | "w" :: ts :: b :: hexargs =>
    if b != "1" || st.poisoned then (st, "bad-op") else
    match ts.toInt?, hexargs.mapM unhex with
    | some t, some args => write st t args
    | _, _ => (st, "bad-op")
  | "r" :: hexargs =>
    if st.poisoned then (st, "bad-op") else
    match hexargs.mapM unhex with
    | some args => (st, read st args)
    | none => (st, "bad-op")
  | _ => (st, "bad-op")

end Drv.DataZSet
