import ZanVerif.Data.HashExec
import Driver.Util
namespace Drv.DataCore
open Z.HashExec Z.Ref

/-- the whole engine content (sorted reference store); hash commands of protocol `data`, local-deletion layout -/
structure St where
  m : List KV := []
  keys : List Bytes := []     -- client keys (with namespace) seen by writes, for `dump`
  pend : List (List Bytes) := []   -- writes queued in the open apply event (`w <ts> 0 …`), in log order
  deriving Inhabited

def ns : Bytes := "default:".toUTF8.toList

def bulk (b : Bytes) : String := "bulk:" ++ hexs b
def optBulk : Option Bytes → String
  | none => "nil"
  | some b => bulk b
def arr (l : List String) : String := "arr:[" ++ ",".intercalate l ++ "]"

/-- client key `default:table:key` → (table, key part) -/
def splitKey (k : Bytes) : Option (Bytes × Bytes) :=
  if k.take ns.length == ns then Z.Codec.extractTable (k.drop ns.length) else none

def dedupFirst : List Bytes → List Bytes
  | [] => []
  | a :: t => a :: (dedupFirst t).filter (· != a)

/-- last value wins, position of the first occurrence (dedupKVRecords) -/
def dedupPairs : List (Bytes × Bytes) → List (Bytes × Bytes)
  | [] => []
  | (f, v) :: t =>
    let rest := dedupPairs t
    match rest.find? (·.1 == f) with
    | some (_, v') => (f, v') :: rest.filter (·.1 != f)
    | none => (f, v) :: rest

def pairs : List Bytes → Option (List (Bytes × Bytes))
  | [] => some []
  | [_] => none
  | f :: v :: t => (pairs t).map ((f, v) :: ·)

def insertKey (l : List Bytes) (k : Bytes) : List Bytes := if l.contains k then l else l ++ [k]

def write (st : St) (args : List Bytes) : St × String :=
  match args with
  | name :: key :: rest =>
    match splitKey key with
    | none => (st, "bad-op")
    | some (table, k) =>
      let F := realFns table
      let cmd := String.fromUTF8! (ByteArray.mk name.toArray) |>.toLower
      let st' (m : List KV) : St := { st with m := m, keys := insertKey st.keys key }
      match cmd, rest with
      | "hset", [f, v] => (st' (hset F st.m k f v), s!"int:{hsetReply F st.m k f}")
      | "hsetnx", [f, v] =>
        if (hget F st.m k f).isSome then (st' st.m, "int:0") else (st' (hset F st.m k f v), "int:1")
      | "hmset", _ =>
        match pairs rest with
        | some ps => if ps.isEmpty then (st, "bad-op") else
          (st' ((dedupPairs ps).foldl (fun m p => hset F m k p.1 p.2) st.m), "str:OK")
        | none => (st, "bad-op")
      | "hdel", _ =>
        if rest.isEmpty then (st, "bad-op") else
        let fs := dedupFirst rest
        let n := (fs.filter (fun f => (hget F st.m k f).isSome)).length
        (st' (fs.foldl (fun m f => hdel F m k f) st.m), s!"int:{n}")
      | "hclear", [] =>
        if hlen F st.m k == 0 then (st' st.m, "int:0") else (st' (hclear F st.m k), "int:1")
      | "hincrby", [f, dtxt] =>
        let r := hincrbyCmd F st.m k f dtxt
        (st' r.1, match r.2 with
          | .int n => s!"int:{n}"
          | .err .notint => "err:notint"
          | .err .numrange => "err:numrange")
      | _, _ => (st, "bad-op")
  | _ => (st, "bad-op")

def read (st : St) (args : List Bytes) : String :=
  match args with
  | name :: key :: rest =>
    match splitKey key with
    | none => "bad-op"
    | some (table, k) =>
      let F := realFns table
      let cmd := String.fromUTF8! (ByteArray.mk name.toArray) |>.toLower
      let fieldOf (p : KV) : Bytes := p.1.drop (F.start k).length
      match cmd, rest with
      | "hget", [f] => optBulk (hget F st.m k f)
      | "hmget", _ => if rest.isEmpty then "bad-op" else arr (rest.map (fun f => optBulk (hget F st.m k f)))
      | "hlen", [] => s!"int:{hlen F st.m k}"
      | "hgetall", [] => arr ((hscan F st.m k).flatMap (fun p => [bulk (fieldOf p), bulk p.2]))
      | "hkeys", [] => arr ((hscan F st.m k).map (fun p => bulk (fieldOf p)))
      | "hvals", [] => arr ((hscan F st.m k).map (fun p => bulk p.2))
      | "hexists", [f] => if (hget F st.m k f).isSome then "int:1" else "int:0"
      | "hkeyexist", [] => if hlen F st.m k > 0 then "int:1" else "int:0"
      | _, _ => "bad-op"
  | _ => "bad-op"

def insertSortedB : List Bytes → Bytes → List Bytes
  | [], k => [k]
  | a :: t, k => if k < a then k :: a :: t else if k = a then a :: t else a :: insertSortedB t k

def dump (st : St) : String :=
  let ks := st.keys.foldl insertSortedB []
  let ents := ks.filterMap (fun key =>
    match splitKey key with
    | none => none
    | some (table, k) =>
      let F := realFns table
      let fs := hscan F st.m k
      if fs.isEmpty then none else
      some ("hash " ++ hexs key ++ " " ++ ",".intercalate (fs.map (fun p => hexs (p.1.drop (F.start k).length) ++ "=" ++ hexs p.2)) ++ " none"))
  if ents.isEmpty then "empty" else ";".intercalate ents

def step (st : St) (line : String) : St × String :=
  match fields line with
  | "open" :: _ => ({}, "ok")
  | ["end"] => ({}, "ok")
  | ["inv"] => (st, "ok")
  | ["dump"] => (st, dump st)
  | "w" :: _ts :: b :: hexargs =>
    -- hash writes have no leader-side answer: a well-formed one is always `queued`; `0` leaves the apply event open,
    -- `1` applies every entry queued since the last boundary, in log order, and answers their replies
    match hexargs.mapM unhex with
    | some args =>
      if (write st args).2 == "bad-op" then (st, "bad-op")
      else if b == "0" then ({ st with pend := st.pend ++ [args] }, "queued")
      else if b == "1" then
        let (st', rs) := (st.pend ++ [args]).foldl
          (fun (acc : St × List String) a => let (s', r) := write acc.1 a; (s', acc.2 ++ [r])) (st, [])
        ({ st' with pend := [] }, "queued => " ++ " | ".intercalate rs)
      else (st, "bad-op")
    | none => (st, "bad-op")
  | "r" :: hexargs =>
    match hexargs.mapM unhex with
    | some args => (st, read st args)
    | none => (st, "bad-op")
  | _ => (st, "bad-op")

end Drv.DataCore
