/- zvdriver <proto>: reads one operation per line on stdin, answers one canonical line per operation.
   Core-only (no Mathlib / Batteries anywhere below), so it links as a native executable. -/
import Driver.Util
import Driver.C15
import Driver.SrvMerge
import Driver.NsReg
import Driver.DataBit
import Driver.CFilter
import Driver.RaftLog
import Driver.DataZSet
import Driver.DataList
import Driver.DataSet
import Driver.DataTTL
import Driver.DataKV
import Driver.Wal
import Driver.Lin
import Driver.Crash
import Driver.Codec
import Driver.Engine
import Driver.SyncSend
import Driver.DataCore
import Driver.Place
import Driver.Coord
import Driver.Ckpt
import Driver.Raft
import Driver.Scan
import Driver.Sync
import Driver.Stream
import Driver.WaitTable

partial def loop {σ : Type} (step : σ → String → σ × String) (hin hout : IO.FS.Stream) (s : σ) : IO Unit := do
  let line ← hin.getLine
  if line.isEmpty then return ()
  let l := String.ofList (line.toList.filter (fun c => c != (Char.ofNat 10) && c != (Char.ofNat 13)))
  if l.isEmpty then loop step hin hout s else
  let (s', out) := step s l
  hout.putStrLn out
  loop step hin hout s'

def main (args : List String) : IO UInt32 := do
  let hin ← IO.getStdin
  let hout ← IO.getStdout
  match args with
  | ["datacorekv"] => loop Drv.DataKV.step hin hout {}; hout.flush; return 0
  | ["datacorettl"] => loop Drv.DataTTL.step hin hout {}; hout.flush; return 0
  | ["datacoreset"] => loop Drv.DataSet.step hin hout {}; hout.flush; return 0
  | ["datacorelist"] => loop Drv.DataList.step hin hout {}; hout.flush; return 0
  | ["datacorezset"] => loop Drv.DataZSet.step hin hout {}; hout.flush; return 0
  | ["raftlog"] => loop Drv.RaftLog.step hin hout Drv.RaftLog.init; hout.flush; return 0
  | ["cfilter"] => loop Drv.CFilter.step hin hout (); hout.flush; return 0
  | ["srvmerge"] => loop Drv.SrvMerge.step hin hout 3; hout.flush; return 0
  | ["c15"] => loop Drv.C15.step hin hout (); hout.flush; return 0
  | ["nsreg"] => loop Drv.NsReg.step hin hout Z.Reg.empty; hout.flush; return 0
  | ["datacorebit"] => loop Drv.DataBit.step hin hout {}; hout.flush; return 0
  | ["wal"] => loop Drv.Wal.step hin hout {}; hout.flush; return 0
  | ["lin"] => loop Drv.Lin.step hin hout (); hout.flush; return 0
  | ["crash"] => loop Drv.Crash.step hin hout (); hout.flush; return 0
  | ["engine"] => loop Drv.Engine.step hin hout none; hout.flush; return 0
  | ["stream"] => loop Drv.Stream.step hin hout {}; hout.flush; return 0
  | ["sync"] => loop Drv.Sync.step hin hout {}; hout.flush; return 0
  | ["scan"] => loop Drv.Scan.step hin hout none; hout.flush; return 0
  | ["raft"] => loop Drv.Raft.step hin hout Drv.Raft.init; hout.flush; return 0
  | ["ckpt"] => loop Drv.Ckpt.step hin hout (); hout.flush; return 0
  | ["place"] => loop Drv.Place.step hin hout (); hout.flush; return 0
  | ["coord"] => loop Drv.Coord.step hin hout none; hout.flush; return 0
  | ["datacore"] => loop Drv.DataCore.step hin hout {}; hout.flush; return 0
  | ["syncsend"] => loop Drv.SyncSend.step hin hout (); hout.flush; return 0
  | ["codec"] => loop Drv.Codec.step hin hout (); hout.flush; return 0
  | ["waittable"] => loop Drv.WaitTable.step hin hout {}; hout.flush; return 0
  | _ => IO.eprintln "usage: zvdriver <proto>"; return 2
