import ZanVerif.Data.SetExec
import Driver.Util
import Driver.DataCore
/-!
  Protocol `datacoreset`: the answer lines of the `data` executor (notes/proto_data.md) for the SET family under
  `policy=local`, one entry per apply event, computed by the executable storage model `Z.SetExec` with the real
  key codec. Leader side (node/set.go): argument counts, count parsing, the pre-checks that answer without raft.
-/
namespace Drv.DataSet
open Z.SetExec Z.Ref Z.Coll
open Drv.DataCore (ns bulk arr splitKey insertKey insertSortedB)

structure St where
  m : List KV := []
  keys : List Bytes := []
  deriving Inhabited

/-- `strconv.Atoi` / `strconv.ParseInt(s, 10, 64)`: optional sign, at least one digit, nothing else; error class of
    the `data` protocol otherwise (`notint`; `numrange` outside int64) -/
def parseInt (b : Bytes) : Except String Int :=
  let (neg, ds) := match b with
    | 45 :: r => (true, r)
    | 43 :: r => (false, r)
    | r => (false, r)
  if ds.isEmpty || !ds.all (fun c => 48 ≤ c && c ≤ 57) then .error "notint" else
  let n : Nat := ds.foldl (fun acc c => acc * 10 + (c.toNat - 48)) 0
  let v : Int := if neg then -(n : Int) else (n : Int)
  if v < -9223372036854775808 || v > 9223372036854775807 then .error "numrange" else .ok v

/-- model domain: table name and key part non-empty, raw key within `MaxKeySize` -/
def keyOf (key : Bytes) : Option RKey :=
  match splitKey key with
  | none => none
  | some (table, k) =>
    if table.isEmpty || k.isEmpty || (key.length - ns.length) > Gen.cMaxKeySize || key.length > Gen.cMaxKeySize then none
    else some (table, k)

def bulks (l : List Bytes) : String := arr (l.map bulk)

def outNat : Out Nat → String
  | .ok n => s!"int:{n}"
  | .error e => "err:" ++ e

def outArr : Out (List Bytes) → String
  | .ok l => bulks l
  | .error e => "err:" ++ e

def lower (name : Bytes) : String := String.fromUTF8! (ByteArray.mk name.toArray) |>.toLower

/-- a write line: (state, STATUS, reply of the applied entry if one was queued) -/
def write (st : St) (ts : Int) (args : List Bytes) : St × String :=
  match args with
  | name :: key :: rest =>
    match keyOf key with
    | none => (st, "bad-op")
    | some k =>
      let F := realFns
      let queued (m : List KV) (r : String) : St × String := ({ m := m, keys := insertKey st.keys key }, "queued => " ++ r)
      let noLog (s : String) : St × String := (st, s ++ " => -")
      match lower name, rest with
      | "sadd", _ :: _ =>
        match saddPre F st.m k rest with
        | some (.ok n) => noLog s!"local:int:{n}"
        | some (.error e) => noLog ("err:" ++ e)
        | none => let (m', r) := sadd F st.m ts k rest; queued m' (outNat r)
      | "srem", _ :: _ =>
        match sremPre F st.m k rest with
        | some r => noLog ("local:" ++ outNat r)
        | none => let (m', r) := srem F st.m ts k rest; queued m' (outNat r)
      | "spop", [] =>
        if spopPre F st.m k then noLog "local:nil" else
        let (m', r) := spop F st.m ts k 1
        queued m' (match r with
          | .ok (v :: _) => bulk v
          | .ok [] => "nil"
          | .error e => "err:" ++ e)
      | "spop", [c] =>
        match parseInt c with
        | .error e => noLog ("err:" ++ e)
        | .ok cnt =>
          if cnt < 1 then noLog "err:count" else
          if spopPre F st.m k then noLog "local:arr:[]" else
          let (m', r) := spop F st.m ts k cnt
          queued m' (outArr r)
      | "sclear", [] => let (m', n) := sclear F st.m k; queued m' s!"int:{n}"
      | _, _ => (st, "bad-op")
  | _ => (st, "bad-op")

def read (st : St) (args : List Bytes) : String :=
  match args with
  | name :: key :: rest =>
    match keyOf key with
    | none => "bad-op"
    | some k =>
      let F := realFns
      match lower name, rest with
      | "scard", [] => s!"int:{scard F st.m k}"
      | "sismember", [a] => outNat (sismember F st.m k a)
      | "smembers", [] => outArr (smembers F st.m k)
      | "srandmember", [] => outArr (srandmember F st.m k 1)
      | "srandmember", [c] =>
        match parseInt c with
        | .error e => "err:" ++ e
        | .ok cnt => if cnt < 1 then "err:count" else outArr (srandmember F st.m k cnt)
      | "skeyexist", [] => s!"int:{skeyexist F st.m k}"
      | _, _ => "bad-op"
  | _ => "bad-op"

def dump (st : St) : String :=
  let ks := st.keys.foldl insertSortedB []
  let ents := ks.filterMap (fun key =>
    match keyOf key with
    | none => none
    | some k =>
      match smembers realFns st.m k with
      | .ok [] => none
      | .ok ms => some ("set " ++ hexs key ++ " " ++ ",".intercalate (ms.map hexs) ++ " none")
      | .error e => some ("set " ++ hexs key ++ " !err:" ++ e ++ " none"))
  if ents.isEmpty then "empty" else ";".intercalate ents

def step (st : St) (line : String) : St × String :=
  match fields line with
  | "open" :: _ => ({}, "ok")
  | ["end"] => ({}, "ok")
  | ["inv"] => (st, "ok")
  | ["dump"] => (st, dump st)
  | "w" :: ts :: b :: hexargs =>
    if b != "1" then (st, "bad-op") else
    match ts.toInt?, hexargs.mapM unhex with
    | some t, some args => write st t args
    | _, _ => (st, "bad-op")
  | "r" :: hexargs =>
    match hexargs.mapM unhex with
    | some args => (st, read st args)
    | none => (st, "bad-op")
  | _ => (st, "bad-op")

end Drv.DataSet
