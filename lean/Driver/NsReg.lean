import ZanVerif.Route.Registry
import Driver.Util
/-
  Driver of protocol `nsreg` (C15: the data node's namespace registry). The real side is a live node.NamespaceMgr with
  really started single-replica raft groups; this side is the executable model Z.Reg of Route/Registry.lean, for which
  Props/C15Registry.lean proves what the property prescribes. One answer line per op line:
    open                       → ok                      (a new, empty registry)
    init <base> <part> <pnum>  → ok | err:conf | err:exists
    destroy <base> <part>      → ok | err:absent         (NamespaceNode.Destroy, then the stopped callback has run)
    route <base> <hexpk>       → p=<full name> | err:ns-not-found | err:partition-not-found
    meta <base>                → n=<nsMetas[base].PartitionNum> | none
    parts                      → parts=<full>:<pnum>,…   (kvNodes, sorted) | parts=-
-/
namespace Drv.NsReg
open Z.Reg

def insertSorted (s : String) : List String → List String
  | [] => [s]
  | x :: r => if s < x then s :: x :: r else x :: insertSorted s r

def sortStrings (l : List String) : List String := l.foldr insertSorted []

def step (r : Reg) (line : String) : Reg × String :=
  match fields line with
  | ["open"] => (empty, "ok")
  | ["init", b, p, n] =>
    match p.toInt?, n.toInt? with
    | some p, some n =>
      if p < 0 then (r, "bad-op") else
      let (r', res) := init r b.toList p n
      (r', match res with
        | .ok => "ok"
        | .conf => "err:conf"
        | .exist => "err:exists")
    | _, _ => (r, "bad-op")
  | ["destroy", b, p] =>
    match p.toInt? with
    | some p =>
      if p < 0 then (r, "bad-op") else
      let (r', was) := stopped r (nsDesp b.toList p)
      (r', if was then "ok" else "err:absent")
    | none => (r, "bad-op")
  | ["route", b, k] =>
    match unhex k with
    | some pk =>
      (r, match route r b.toList pk with
        | .ok full => "p=" ++ String.ofList full
        | .nsNotFound => "err:ns-not-found"
        | .partNotFound => "err:partition-not-found")
    | none => (r, "bad-op")
  | ["meta", b] =>
    (r, match r.metas b.toList with
      | some n => s!"n={n}"
      | none => "none")
  | ["parts"] =>
    let l := sortStrings (r.nodes.map (fun x => String.ofList x.full ++ ":" ++ toString x.pnum))
    (r, if l.isEmpty then "parts=-" else "parts=" ++ ",".intercalate l)
  | _ => (r, "bad-op")

end Drv.NsReg
