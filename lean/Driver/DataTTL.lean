/-
  Driver of protocol `datacorettl`: KV commands (through Drv.DataKV / `Z.KVExec`) and hash commands under
  the versioned layout of policy=compact (`Z.HashTTLExec`), incl. HEXPIRE / HPERSIST / HTTL, the logical
  `dump` (kv entries, then hash entries, with TTL class) and the C09 hash equalities of `inv`.
-/
import ZanVerif.Data.HashTTLExec
import Driver.DataKV
namespace Drv.DataTTL
open Z.KVExec Z.HashTTLExec Drv.DataKV

abbrev Bytes := List UInt8

/-- client key → (table, key part); collections refuse an empty key part (keylen) -/
def splitKey (k : Bytes) : Option (Bytes × Bytes) :=
  if k.take ns.length == ns then
    match Z.Codec.extractTable (k.drop ns.length) with
    | some (table, kp) => if table.isEmpty || kp.isEmpty then none else some (table, kp)
    | none => none
  else none

def hashWrites : List String := ["hset", "hsetnx", "hmset", "hdel", "hclear", "hexpire", "hpersist", "hincrby"]
def hashReads : List String := ["hget", "hmget", "hlen", "hgetall", "hkeys", "hvals", "hexists", "hkeyexist", "httl"]

def pairs : List Bytes → Option (List (Bytes × Bytes))
  | [] => some []
  | [_] => none
  | f :: v :: t => (pairs t).map ((f, v) :: ·)

def hwrite (st : St) (ts : Int) (cmd : String) (key : Bytes) (rest : List Bytes) : Out :=
  match splitKey key with
  | none => .badop
  | some (table, k) =>
    let st1 : St := { st with keys := insertKey st.keys key }
    let fin (r : List (Bytes × Bytes) × Reply) : Out := .queued { st1 with m := r.1 } (showReply r.2)
    match cmd, rest with
    | "hset", [f, v] => fin (hset st.m ts false table k f v)
    | "hsetnx", [f, v] => fin (hset st.m ts true table k f v)
    | "hmset", _ =>
      match pairs rest with
      | some ps => if ps.isEmpty then .badop else fin (hmset st.m ts table k ps)
      | none => .badop
    | "hdel", _ => if rest.isEmpty then .badop else fin (hdel st.m ts table k rest)
    | "hclear", [] => fin (hclear st.m st.now ts table k)
    | "hexpire", [s] =>
      match parseInt s with
      | .ok d => fin (hexpire st.m ts table k d)
      | .syntax => .queued st1 "err:notint"
      | .range => .queued st1 "err:numrange"
    | "hpersist", [] => fin (hpersist st.m ts table k)
    | "hincrby", [f, dtxt] => fin (hincrbyCmd st.m ts table k f dtxt)
    | _, _ => .badop

def bulk (b : Bytes) : String := "bulk:" ++ hexs b
def optBulk : Option Bytes → String
  | none => "nil"
  | some b => bulk b

def errS (e : KErr) : String := "err:" ++ errClass e

def hread (st : St) (cmd : String) (key : Bytes) (rest : List Bytes) : String :=
  match splitKey key with
  | none => "bad-op"
  | some (table, k) =>
    match cmd, rest with
    | "hget", [f] =>
      match hget st.m st.now table k f with
      | .ok v => optBulk v
      | .error e => errS e
    | "hmget", _ =>
      if rest.isEmpty then "bad-op" else
      let rs := rest.map (fun f => hget st.m st.now table k f)
      if rs.any (fun r => match r with | .error _ => true | .ok _ => false) then arr []
      else arr (rs.map (fun r => match r with | .ok v => optBulk v | .error _ => "nil"))
    | "hlen", [] =>
      match hlenAt st.m st.now table k with
      | .ok n => s!"int:{n}"
      | .error _ => "int:0"
    | "hgetall", [] =>
      match hscan st.m st.now table k with
      | .ok ps => arr (ps.flatMap (fun p => [bulk p.1, bulk p.2]))
      | .error e => errS e
    | "hkeys", [] =>
      match hscan st.m st.now table k with
      | .ok ps => arr (ps.map (fun p => bulk p.1))
      | .error e => errS e
    | "hvals", [] =>
      match hscan st.m st.now table k with
      | .ok ps => arr (ps.map (fun p => bulk p.2))
      | .error e => errS e
    | "hexists", [f] =>
      match hget st.m st.now table k f with
      | .ok (some _) => "int:1"
      | _ => "int:0"
    | "hkeyexist", [] =>
      match hkeyexist st.m st.now table k with
      | .ok n => s!"int:{n}"
      | .error e => errS e
    | "httl", [] =>
      match httl st.m st.now table k with
      | .ok n => showTtl st.now (.int n)
      | .error e => errS e
    | _, _ => "bad-op"

def ttlClass (s : String) : String :=
  if s == "int:-1" then "none" else if s.startsWith "ttlat:" then "at:" ++ (s.drop 6).toString else "?" ++ s

def insertPair : List (Bytes × Bytes) → Bytes × Bytes → List (Bytes × Bytes)
  | [], p => [p]
  | a :: t, p => if p.1 < a.1 then p :: a :: t else a :: insertPair t p

/-- the `hash` entries of `dump` -/
def dumpHash (st : St) : List String :=
  let ks := st.keys.foldl insertSortedB []
  ks.filterMap (fun key =>
    match splitKey key with
    | none => none
    | some (table, k) =>
      let ttlc := ttlClass (hread st "httl" key [])
      match hscan st.m st.now table k with
      | .error e => some ("hash " ++ hexs key ++ " !" ++ errS e ++ " " ++ ttlc)
      | .ok ps =>
        if ps.isEmpty then none else
        let sorted := ps.foldl insertPair []
        some ("hash " ++ hexs key ++ " " ++ ",".intercalate (sorted.map (fun p => hexs p.1 ++ "=" ++ hexs p.2)) ++ " " ++ ttlc))

/-- `inv` (C09, hash): HLEN = |HGETALL|/2 = |HKEYS| = |HVALS| and HKEYEXIST = 1 ⇔ HLEN > 0, first failure in key order.
    (HGETALL / HKEYS / HVALS come from one scan and HGET reads the scanned keys, so the other equalities of the Go
    oracle cannot fail in the model.) -/
def inv (st : St) : String :=
  let ks := st.keys.foldl insertSortedB []
  let fails := ks.filterMap (fun key =>
    match splitKey key with
    | none => none
    | some (table, k) =>
      match hlenAt st.m st.now table k, hscan st.m st.now table k, hkeyexist st.m st.now table k with
      | .ok hl, .ok ps, .ok ex =>
        if hl != (ps.length : Int) then
          some s!"hash {hexs key} hlen={hl} hgetall={ps.length} hkeys={ps.length} hvals={ps.length}"
        else if (ex == 1) != (hl > 0) then some s!"hash {hexs key} hkeyexist={ex} size={hl}"
        else none
      | _, _, _ => some s!"hash {hexs key} read-error")
  match fails with
  | [] => "ok"
  | f :: _ => f

/-- session state + the hash writes queued in the open apply event (`w <ts> 0 …` lines), in log order -/
structure TSt where
  st : St := {}
  pend : List (Int × String × Bytes × List Bytes) := []
  deriving Inhabited

/-- the entries of one apply event, applied in log order; `none` if one of them is not modelled -/
def applyEvent (st : St) : List (Int × String × Bytes × List Bytes) → Option (St × List String)
  | [] => some (st, [])
  | (t, cmd, key, rest) :: more =>
    match hwrite st t cmd key rest with
    | .queued st' r => (applyEvent st' more).map (fun p => (p.1, r :: p.2))
    | _ => none

def step (S : TSt) (line : String) : TSt × String :=
  let st := S.st
  let keep (p : St × String) : TSt × String := ({ S with st := p.1 }, p.2)
  match fields line with
  | "open" :: fs => ({ st := { now := parseNow fs } }, "ok")
  | ["end"] => ({}, "ok")
  | ["inv"] => (S, inv st)
  | ["dump"] => (S, let e := dumpKV st ++ dumpHash st; if e.isEmpty then "empty" else ";".intercalate e)
  | "w" :: ts :: b :: hexargs =>
    match ts.toInt?, hexargs.mapM unhex with
    | some t, some (name :: key :: rest) =>
      let cmd := lowerName name
      if hashWrites.contains cmd then
        -- hash writes have no leader-side answer: a well-formed one is always `queued`; boundary `0` leaves the apply
        -- event open, `1` applies every entry queued since the last boundary, in log order
        match hwrite st t cmd key rest with
        | .queued _ _ =>
          if b == "0" then ({ S with pend := S.pend ++ [(t, cmd, key, rest)] }, "queued")
          else if b == "1" then
            match applyEvent st (S.pend ++ [(t, cmd, key, rest)]) with
            | some (st', rs) => ({ st := st', pend := [] }, "queued => " ++ " | ".intercalate rs)
            | none => (S, "bad-op")
          else (S, "bad-op")
        | _ => (S, "bad-op")
      else if b != "1" || !S.pend.isEmpty then (S, "bad-op")   -- KV writes: one entry per apply event only
      else if kvWrites.contains cmd then keep (lineOf st (write st t cmd key rest))
      else (S, "bad-op")
    | _, _ => (S, "bad-op")
  | "r" :: hexargs =>
    match hexargs.mapM unhex with
    | some (name :: key :: rest) =>
      let cmd := lowerName name
      if kvReads.contains cmd then (S, read st cmd key rest)
      else if hashReads.contains cmd then (S, hread st cmd key rest)
      else (S, "bad-op")
    | _ => (S, "bad-op")
  | _ => (S, "bad-op")

end Drv.DataTTL
