/-
  Driver of protocol `datacorekv` (KV commands) and — through Driver/DataTTL.lean — of `datacorettl`:
  prints exactly the answer lines of the `data` executor (notes/proto_data.md) from the executable
  storage-level model `Z.KVExec`.  One entry per apply event (`w <ts> 1 …`).
  Read time = the `now=` of the `open` line (the wall clock of the real run lies in the same regime).
-/
import ZanVerif.Data.KVExec
import Driver.Util
namespace Drv.DataKV
open Z.KVExec

abbrev Bytes := List UInt8
abbrev KV := Bytes × Bytes

structure St where
  m : List KV := []
  keys : List Bytes := []     -- client keys (with namespace) that entered the log, for `dump` / `inv`
  now : Int := 1750000000000000000
  deriving Inhabited

def ns : Bytes := "default:".toUTF8.toList

def str (b : Bytes) : String := String.fromUTF8! (ByteArray.mk b.toArray)

def errClass : KErr → String
  | .header => "header"
  | .hdrVersion => "other:invalid-header-version"
  | .notint => "notint"
  | .numrange => "numrange"
  | .valuelen => "valuelen"
  | .ttl => "ttl"
  | .expoverflow => "expoverflow"
  | .args => "args"
  | .offset => "other:offset-is-out"

def showReply : Reply → String
  | .int n => s!"int:{n}"
  | .bulk b => "bulk:" ++ hexs b
  | .nil => "nil"
  | .ok => "str:OK"
  | .err e => "err:" ++ errClass e

def arr (l : List String) : String := "arr:[" ++ ",".intercalate l ++ "]"

/-- a TTL answer: a positive remaining time is printed as the absolute expiry second -/
def showTtl (now : Int) : Reply → String
  | .int n => if n > 0 then s!"ttlat:{n + Int.tdiv now 1000000000}" else s!"int:{n}"
  | r => showReply r

/-- client key `default:table:key` → raw redis key `table:key` (namespace cut); the table must not be empty -/
def rawKeyOf (k : Bytes) : Option Bytes :=
  if k.take ns.length == ns then
    match Z.Codec.extractTable (k.drop ns.length) with
    | some (table, _) => if table.isEmpty then none else some (k.drop ns.length)
    | none => none
  else none

def insertKey (l : List Bytes) (k : Bytes) : List Bytes := if l.contains k then l else l ++ [k]

def insertSortedB : List Bytes → Bytes → List Bytes
  | [], k => [k]
  | a :: t, k => if k < a then k :: a :: t else if k = a then a :: t else a :: insertSortedB t k

inductive Out
  | badop
  | status (s : String)                       -- rejected or answered by the leader: nothing enters the log
  | queued (st : St) (reply : String)

def lineOf (st : St) : Out → St × String
  | .badop => (st, "bad-op")
  | .status s => (st, s ++ " => -")
  | .queued st' r => (st', "queued => " ++ r)

def kvWrites : List String := ["set", "setnx", "setex", "setifeq", "delifeq", "getset", "incr", "incrby", "append",
  "setrange", "expire", "persist", "del"]

def kvReads : List String := ["get", "mget", "exists", "strlen", "getrange", "ttl", "stale.getversion"]

/-- a KV write line applied at log time `ts` -/
def write (st : St) (ts : Int) (cmd : String) (key : Bytes) (rest : List Bytes) : Out :=
  if cmd == "del" then
    match (key :: rest).mapM rawKeyOf with
    | none => .badop
    | some rks =>
      let (m', r) := delKeys st.m rks
      .queued { st with m := m', keys := (key :: rest).foldl insertKey st.keys } (showReply r)
  else
  match rawKeyOf key with
  | none => .badop
  | some rk =>
    let Vnow := view st.m st.now rk
    let st1 : St := { st with keys := insertKey st.keys key }
    let run (c : KCmd) : Out :=
      let (m', r) := kvApply st.m ts rk c
      .queued { st1 with m := m' } (showReply r)
    let applyErr (e : KErr) : Out := .queued st1 (showReply (.err e))
    let num (s : Bytes) (k : Int → Out) : Out :=
      match parseInt s with
      | .ok n => k n
      | .syntax => applyErr .notint
      | .range => applyErr .numrange
    let lead (l : Lead) (k : Out) : Out :=
      match l with
      | .propose => k
      | .localReply r => .status ("local:" ++ showReply r)
      | .reject e => .status ("err:" ++ errClass e)
    match cmd, rest with
    | "set", [v] => run (.set v)
    | "set", v :: opts =>
      match exNxXX opts {} false with
      | .error e => .status ("err:" ++ errClass e)
      | .ok o => run (.setOpts v o.dur o.nx o.xx)
    | "setnx", [v] => lead (leadSetnx Vnow) (run (.setnx v))
    | "setex", [s, v] => num s (fun d => run (.setex d v))
    | "setifeq", [old, new] => lead (leadIfEq old Vnow) (run (.setifeq old new 0))
    | "setifeq", [old, new, ex, secs] =>
      match exSecs ex secs with
      | .error e => .status ("err:" ++ errClass e)
      | .ok d => lead (leadIfEq old Vnow) (run (.setifeq old new d))
    | "delifeq", [old] => lead (leadIfEq old Vnow) (run (.delifeq old))
    | "getset", [v] => run (.getset v)
    | "incr", [] => run (.incrby 1)
    | "incrby", [d] => num d (fun n => run (.incrby n))
    | "append", [v] => run (.append v)
    | "setrange", off :: v :: _ => num off (fun o => run (.setrange o v))
    | "expire", [s] => num s (fun d => run (.expire d))
    | "persist", [] => run .persist
    | _, _ => .badop

def read (st : St) (cmd : String) (key : Bytes) (rest : List Bytes) : String :=
  match cmd with
  | "mget" =>
    match (key :: rest).mapM rawKeyOf with
    | none => "bad-op"
    | some rks => arr (rks.map (fun rk => showReply (rdMgetOne (view st.m st.now rk))))
  | "exists" =>
    match (key :: rest).mapM rawKeyOf with
    | none => "bad-op"
    | some [rk] =>
      match existsOne (view st.m st.now rk) with
      | (n, none) => s!"int:{n}"
      | (_, some _) => "int:0"       -- the merge layer does not count a partition that answered an error
    | some rks => s!"int:{existsCount (rks.map (fun rk => view st.m st.now rk))}"
  | _ =>
  match rawKeyOf key with
  | none => "bad-op"
  | some rk =>
    let V := view st.m st.now rk
    match cmd, rest with
    | "get", [] => showReply (rdGet V)
    | "strlen", [] => showReply (rdStrlen V)
    | "getrange", [s, e] =>
      match parseInt s, parseInt e with
      | .ok a, .ok b => showReply (rdGetRange a b V)
      | .syntax, _ => "err:notint"
      | .range, _ => "err:numrange"
      | _, .syntax => "err:notint"
      | _, .range => "err:numrange"
    | "ttl", [] => showTtl st.now (rdTtl st.now V)
    | "stale.getversion", [] => showReply (rdGetVer st.m rk)
    | _, _ => "bad-op"

/-- the `kv` entries of `dump`: GET as content, TTL class from TTL -/
def dumpKV (st : St) : List String :=
  let ks := st.keys.foldl insertSortedB []
  ks.filterMap (fun key =>
    match rawKeyOf key with
    | none => none
    | some rk =>
      let V := view st.m st.now rk
      let ttlc := match showTtl st.now (rdTtl st.now V) with
        | "int:-1" => "none"
        | s => if s.startsWith "ttlat:" then "at:" ++ (s.drop 6).toString else "?" ++ s
      match rdGet V with
      | .nil => none
      | .bulk b => some ("kv " ++ hexs key ++ " " ++ hexs b ++ " " ++ ttlc)
      | r => some ("kv " ++ hexs key ++ " !" ++ showReply r ++ " " ++ ttlc))

def parseNow (fs : List String) : Int :=
  match fs.find? (·.startsWith "now=") with
  | some f => match (f.drop 4).toString.toInt? with
    | some n => n * 1000000000
    | none => 1750000000000000000
  | none => 1750000000000000000

def lowerName (b : Bytes) : String := (str b).toLower

def step (st : St) (line : String) : St × String :=
  match fields line with
  | "open" :: fs => ({ now := parseNow fs }, "ok")
  | ["end"] => ({}, "ok")
  | ["inv"] => (st, "ok")
  | ["dump"] => (st, let e := dumpKV st; if e.isEmpty then "empty" else ";".intercalate e)
  | "w" :: ts :: b :: hexargs =>
    if b != "1" then (st, "bad-op") else
    match ts.toInt?, hexargs.mapM unhex with
    | some t, some (name :: key :: rest) =>
      let cmd := lowerName name
      if kvWrites.contains cmd then lineOf st (write st t cmd key rest) else (st, "bad-op")
    | _, _ => (st, "bad-op")
  | "r" :: hexargs =>
    match hexargs.mapM unhex with
    | some (name :: key :: rest) =>
      let cmd := lowerName name
      if kvReads.contains cmd then (st, read st cmd key rest) else (st, "bad-op")
    | _ => (st, "bad-op")
  | _ => (st, "bad-op")

end Drv.DataKV
