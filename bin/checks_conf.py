"""Per-property configuration of bin/check (what to regenerate, which theorem module, which protocols)."""

COMMON_TRUST = [
    "Lean 4.33.0 kernel (thorough tier: re-checked by leanchecker); axioms limited to propext, Classical.choice, Quot.sound; no native_decide / bv_decide / sorry / own axioms (grepped on every run)",
    "the hand-written Lean models are faithful to the Go code only as far as the correspondence runs exercise them (differential testing; distribution printed in coverage.correspondence)",
    "tools/translate (go/parser + a small printer) prints what it parsed; a missing anchor is a broken tie, never skipped",
    "the Go harness (harness/cmd/zvh), its canonicalisation and the Lean driver's line parsing",
    "Go runtime, OS, cgo libraries (RocksDB 7.8.3 here, not youzan's 6.4.6), gogo-protobuf, redcon: not modelled",
]

CHECKS = {
    'C15': dict(
        gens=['Partition'],
        props='ZanVerif.Props.C15',
        protos=[dict(name='c15', quick_seeds=1, thorough_seeds=5)],
        rule="random and adversarial raw keys (bytes incl. ':' 0x00 0xff, lengths 0..300, namespaces valid/malformed) x partition counts 1..1024; "
             "a case is non-trivial when the real code answered without error; distinct = distinct op lines",
        trusted=["murmur3 (spaolacci) itself is modelled in Lean and tied by the differential run only; 64-bit int assumed",
                 "the SDK is the copy in the module cache (go-zanredisdb v0.6.3)"],
        partial=["MGET across partitions is not a merge command in this tree (routed by first key): server-level merge behaviour is not covered by this check yet"],
        assumptions=["partition count > 0"],
        level_text="Theorems (for every key byte string and every partition count > 0): the partition is in range; the server's two routing expressions and the SDK's are the same function of the same bytes (expressions regenerated from node/namespace.go, server/server.go and the SDK on every run); merge = single store for DEL/EXISTS counting. Model tied to the code by 20k-1M differential evaluations per run of the real server functions, the SDK and the Lean murmur3/partition model.",
        level_note="murmur3 library and 64-bit int are trusted via the differential run; server-level execution of merge commands (and MGET, which this tree does not merge) is not yet driven by this check.",
        technique="Lean 4 proof over regenerated partition expressions + differential run of server/SDK/model",
    ),
    'C12': dict(
        gens=['Consts'],
        props='ZanVerif.Props.C12',
        protos=[dict(name='codec', quick_seeds=1, thorough_seeds=4)],
        rule="random tuples over an adversarial byte alphabet (0x00 0xff ':' ';' length bytes), names drawn from a pool and varied by one byte / one-byte extension / truncation so that prefix relations and near-collisions are probed; "
             "every encoder and decoder of the key codec is called; decoders also on truncated / bit-flipped / extended encodings; non-trivial = the real code returned a value (not err); distinct = distinct op lines",
        trusted=["bytes.Compare = lexicographic order on List UInt8 (Lean core's List order)",
                 "float scores: the transform is modelled on IEEE bit patterns; order preservation for floats is checked by the Go oracle only (not yet a theorem)"],
        partial=["C12_float_order (order preservation of the float score transform) and zscore-key injectivity are not yet theorems; NaN scores collide with small positive scores (ZADD accepts 'nan': recorded as a candidate finding for C08)",
                 "operation-level frame property (an operation on A leaves reads of B unchanged) is carried by the data-mapping model (C08/C09), not here"],
        assumptions=["table and key lengths below 65536 (the server enforces 255 / 10240: theorem limits_fit over regenerated constants)", "list sequence numbers and versions are int64"],
        level_text="Theorems over a byte-for-byte Lean model of the rockredis key codec (constants regenerated from the source): joint injectivity of all user-data key encoders (KV, size/meta, hash/set/zset sub-keys, list element keys) for ALL byte strings; range exactness of collection ranges, table ranges and KV table ranges ([start,stop) contains exactly the addressed sub-keys, and no key of another tuple); memcomparable bytes: order preservation + self-delimiting; int: order preservation + injectivity; versioned keys (key,version) injective and ordered as tuples; versioned sub-keys injective. The model is tied to the real encoders AND decoders (incl. their error and panic outcomes on damaged input) byte for byte on 30k (quick) / 6M (thorough) calls per run.",
        level_note="Go's bytes.Compare is taken to be Lean's lexicographic List order; float-score order is oracle-only; engine iteration honouring the ranges is C20's subject.",
        technique="Lean 4 proof (injectivity, range exactness, order) over a codec model + byte-for-byte differential run",
    ),
}

# properties not (yet) claimed, with the reason; bin/mkmanifest drops an entry as soon as CHECKS has it
NOT_APPLICABLE = {p: "check not built yet in this round (design in DESIGN.md §7 %s; to be claimed when its theorem module, tie and oracle run)" % p
                  for p in ['C%02d' % i for i in range(1, 21)]}
