"""Per-property configuration of bin/check (what to regenerate, which theorem module, which protocols)."""

COMMON_TRUST = [
    "Lean 4.33.0 kernel (thorough tier: re-checked by leanchecker); axioms limited to propext, Classical.choice, Quot.sound; no native_decide / bv_decide / sorry / own axioms (grepped on every run)",
    "the hand-written Lean models are faithful to the Go code only as far as the correspondence runs exercise them (differential testing; distribution printed in coverage.correspondence)",
    "tools/translate (go/parser + a small printer) prints what it parsed; a missing anchor is a broken tie, never skipped",
    "the Go harness (harness/cmd/zvh), its canonicalisation and the Lean driver's line parsing",
    "Go runtime, OS, cgo libraries (RocksDB 7.8.3 here, not youzan's 6.4.6), gogo-protobuf, redcon: not modelled",
]

DATA_RULE = "sessions of 30-200 redis commands (46 write, 39 read commands of the KV/hash/list/set/zset families incl. TTL commands) on a real KVNode (real leader-side handlers, real proposal path, real kvStoreSM/applyEntries, mem-btree and pebble engines, both expiry policies) over small adversarial pools (keys that are prefixes of each other / contain ':' / 0x00 / 0xff / empty key part, empty and binary members, negative and out-of-range indexes, inverted ranges), 15% mutated argument vectors (dropped/duplicated/extended args, huge/negative/non-numeric numbers, over-long keys and sub-keys, malformed keys), random grouping into apply events (sizes 1-36), log timestamps placed before/at/after expiry seconds; 25% of the sessions may repeat or go back in log time, 25% may put apply-failing batchable commands into multi-entry events; shadows: one-entry-per-event, other engine, isReplaying, packed entries; non-trivial = the real code answered without an error class; distinct = distinct op lines"
DATA_TRUST = ["protocol `data` is oracle-only at this stage: no Lean driver speaks it; the theorems are about abstract models whose codec / batching hypotheses are tied to the code by C12's theorems and by regenerated facts, not by a differential run", 'server layer (namespace lookup, router order, reply type switch, merge dispatch) is re-stated in the harness (marked SERVER-EMU)', 'read paths use the wall clock: expiry instants are kept decades away from the real clock; boundary behaviour is exercised on write paths only']

RAFT_RULE = '256 (quick) / 4800 (thorough) sessions of <= 300 schedule events on 1-5 REAL raft.Node instances (MemoryStorage, one goroutine, StepNode/Advance) with and without a learner, all four preVote x checkQuorum settings: ticks, campaigns, proposals, deliveries picked by position from the pool of every message ever sent (duplication, reordering, loss), partitions, crash + RestartNode from the storage object between events and inside a Ready (nothing persisted / everything persisted and nothing sent / leader Ready sent before the persist / entries without hard state), leader transfer, compaction so that lagging followers get MsgSnap; every event is mapped to abstract actions (event table of DESIGN.md section 7 C02) and checked by the Lean certificate, then the abstract nodes (term, role, commit, term of every log index, vote of the current term, durable term / vote / commit as read back from the storage object) are compared with the real ones; directed vote schedules (a voter enters a term without voting, optionally becomes pre-candidate, gets the MsgVote of two candidates of that term, optionally restarts in between) are generated with targeted deliveries and replayed from corpus/C01; non-trivial = an event whose certificate line was checked; distinct = distinct op lines'
RAFT_TRUST = ['the event table (harness/cmd/zvh/proto_raft.go) that maps events of the real nodes to abstract actions is trusted to name the right action; a wrong table shows up as a rejected certificate on the unchanged tree, not as a false acceptance of a different protocol step only as far as the state comparison after every event sees it', "ReadIndex, RocksStorage and node/raft.go's goroutines are outside these protocols; membership changes are outside protocol raft (certificate) and are exercised by protocol raftcc, which is judged by the implementation-level oracle only: its harness re-states what node/raft.go processReady and node/node.go applyEntries do with a committed conf change (waitApply hand-off through ConfChangedCh/HandleConfChanged, background ApplyConfChange after the new-leader Ready, ConfState kept for snapshots, destroy after the own removal, replayWAL-style restart) - marked in harness/cmd/zvh/proto_raftcc.go", 'single-voter groups: the certificate places the persist before the node acts on its own ack (what an application that persists before applying does; node/raft.go does not: known finding F1 under C06)']
RAFTCC_RULE = ('oracle-only sessions (44 per seed, quick; 400, thorough) of <= 460 / 900 schedule events on REAL raft.Node groups whose membership CHANGES: a universe of 3-7 nodes, 1-5 initial voters bootstrapped with StartNode(peers), every other node started as a joining node (StartNode without peers, as learner for addl) when a conf change names it; '
               'ProposeConfChange (add voter, add learner, promote, remove a member, remove the leader, update) on the leader or any node; committed conf changes applied the way node/raft.go + node/node.go do (inside the raft loop\'s waitApply through ConfChangedCh/HandleConfChanged before the messages of the Ready are sent; in the background through ApplyConfChange after the new-leader Ready, consumed by a later StepNode; '
               'self-removal destroys the node without sending the Ready), ConfState of ApplyConfChange kept for the application\'s snapshots (snapshot at the applied index, compaction 0-2 entries behind it), paginated hand-out (MaxCommittedSizePerReady / MaxSizePerMsg of 0, 30, 40, 120, 200 bytes or unlimited), hand-out withheld (moreEntriesToApply=false), '
               'crash + restart at arbitrary points and inside a Ready (nothing / everything / entries without hard state persisted; new-leader Ready sent before the persist) with the storage rebuilt as replayWAL does (snapshot ConfState + entries above it + hard state), RestartNode and ElectionTick-1 ticks queued at once, the first Ready left unconsumed so that ticks / Campaign arrive while committed conf changes are unapplied; '
               'scenarios: grow 1->3 and 3->5, shrink, replace, learner + promotion (+ transfer / campaign aimed at the learner), change while a node is isolated / restarting / behind a snapshot (MsgSnap carries the new ConfState), restart with unapplied conf changes behind ordinary entries followed by Campaign / election time-outs on both sides of a partition, stuck apply loop, remove the leader, '
               'conf change committed inside the new-leader Ready of a single-voter group, torn persist of an append that carries one or two conf changes followed by a campaign of that node, chaos mixes with duplication / reordering / loss; directed schedules are replayed from corpus/C0x/raftcc-*.txt; '
               'oracle: two leaders of one term, learner leads or grants a (pre-)vote, vote not durable / two votes in one term, ConfState returned by ApplyConfChange and raft\'s progress maps = fold of the applied conf changes, hand-out gap-free and identical per index on all nodes, an index reported committed (durable HardState.Commit) with one entry only, every committed entry in the log of every later leader, no panic; '
               'non-trivial = op answered by a running node; distinct = distinct op lines')
RAFT_PARTIAL = ['global theorems are for FIXED membership; dynamic membership (add voter / add learner / promote / remove / update, one at a time) is covered by NO theorem and NO certificate: it is exercised on real raft.Node groups by protocol raftcc and judged by the implementation-level oracle only (testing level: the schedules explored, not all schedules; DESIGN.md section 7 C01 R)', 'the universal forward simulation from an executable model of raft.go to the abstract system is replaced by the run-time refinement certificate (per-run, not for all runs)']

DATACORE_RULE = ("sessions of 20-100 well-formed hash commands (hset, hsetnx, hmset with repeated fields, hdel with repeated fields, hclear; hget, hmget, hlen, hgetall, hkeys, hvals, hexists, hkeyexist) on 2-5 keys over two tables (names that are prefixes of each other, contain ':', 0x00) "
                 "x 7 fields (incl. the empty field, binary, prefix-related) x 5 values, on a REAL KVNode (real leader-side handlers, proposal, kvStoreSM apply) under the local-deletion layout, mem and pebble engines; EVERY answer line (write replies, read replies, the logical dump) is compared with the executable Lean storage model running the real key codec; "
                 "the C09 invariant oracle runs after a quarter of the writes; non-trivial = answered without an error class; distinct = distinct op lines")
DATACORE_TRUST = ["only the hash family under the local-deletion layout (no versions, no TTL) is in the executable model; one entry per apply event; well-formed commands",
                  "the abstract codec facts (Z.HashInv.Enc) are unconditional in the theorems and proved of the real codec for key parts < 65536 bytes (C08_real_codec_facts); the server enforces 10240",
                  "table key counter and hash index maintenance are outside the model (not visible in replies)"]
C08_TEXT = ("Theorems (hash slice): refinement of the storage-level hash (size meta + field keys over the sorted reference store) to the plain redis hash key -> field -> value, for every codec satisfying the abstract facts: HGET reads the abstraction, HSET/HDEL replies are redis's, HSET/HDEL commute with the abstraction, the size meta never shows through; "
            "the executable model run in the correspondence is literally these functions (C08_exec_is_model, by rfl) and the REAL codec satisfies every abstract fact for in-limit keys (C08_real_codec_facts, from C12). The executable model - with the real key codec, multi-field HMSET/HDEL incl. repeated fields, HSETNX, HCLEAR and all hash reads - is compared line by line (every reply and the logical dump) with a real KVNode. "
            "KV / list / set / zset semantics have no theorem and no Lean model yet: C08 is claimed for the hash family only.")
C08_NOTE = "hash family only, local-deletion layout, one entry per apply event; other types: see C09/C10/C11 oracles"

DATACORE_SET_RULE = ("sessions of 20-100 well-formed SET commands (sadd with repeated members, srem with repeated members, spop with and without count incl. 0 / negative / 5000 / 5001, sclear; scard, sismember, smembers, srandmember with and without count, skeyexist; rarely a 10241-byte member) on 1-6 keys over two tables "
                     "(names that are prefixes of each other, contain ':', 0x00, 0xff) x 3-9 members (empty, binary, ':'-containing, prefix-related), on a REAL KVNode (real leader-side handlers incl. the sadd/srem/spop pre-checks that answer without raft, proposal, kvStoreSM apply) under the local-deletion layout, mem and pebble engines; "
                     "EVERY answer line (STATUS incl. local:<reply> / err:<class>, write replies, read replies, the logical dump) is compared with the executable Lean storage model running the real key codec; the C09 invariant oracle runs after a quarter of the writes; non-trivial = answered without an error class; distinct = distinct op lines")
DATACORE_LIST_RULE = ("sessions of 20-100 well-formed LIST commands (lpush / rpush with 1-4 values, lpop, rpop, lset, ltrim, lclear; llen, lindex, lrange, lkeyexist) on 1-6 keys over two tables x 8 values (empty, binary, ':'-containing) with indexes steered by generator-side length bookkeeping (60% inside -len-1..len, else boundary values -100..100, '+n' forms), a third of the sessions pop-heavy (lists emptied and re-created), "
                      "on a REAL KVNode (real leader-side handlers incl. preCheckListLength, proposal, kvStoreSM apply) under the local-deletion layout, mem and pebble engines; EVERY answer line is compared with the executable Lean storage model running the real key codec; the C09 invariant oracle runs after a quarter of the writes; non-trivial = answered without an error class; distinct = distinct op lines")
DATACORE_COLL_TRUST = ["only the local-deletion layout (no versions, no TTL); one entry per apply event; well-formed commands; keys inside the server's limits",
                       "the abstract codec facts (Z.SetInv.Enc / Z.ListInv.Enc) are unconditional in the theorems and proved of the real codec for admitted keys (table without ':', table and key part < 65536 bytes: Z.SetReal.realEnc / Z.ListReal.realEnc); the server enforces 255 / 10240",
                       "table key counter, topLargeCollKeys, slow log / metrics are outside the model (not visible in replies); DeleteRange branches (> RangeDeleteNum = 5000 elements) and the > MAX_BATCH_NUM error branches are modelled and proved but not reached by the generator (except spop / srandmember count 5001)",
                       "list: the repair fixListKey (run by the code when it finds its own meta inconsistent) is not modelled; those branches are proved dead under the invariant"]
DATACOREZSET_RULE = ("sessions of 25-115 sorted-set commands on 1-3 keys over two tables (names that are prefixes of each other, contain ':', 0x00), members from a pool with empty / binary / ':'-containing / prefix-related / 7-8-9 byte members, "
                     "scores = half-integers in many spellings (ties frequent), a quarter of the sessions with +-Inf and -0; writes zadd (1-12 pairs, repeated members), zincrby, zrem, zremrangebyrank (boundary / negative / inverted / > MAX_BATCH_NUM ranks), "
                     "zremrangebyscore, zremrangebylex (open / closed / inverted), zclear; reads zcard zscore zrank zrevrank zrange zrevrange (withscores) zrangebyscore zrevrangebyscore (withscores, limit) zcount zrangebylex (limit) zlexcount zkeyexist; "
                     "6 % malformed arguments (bad floats incl. nan, bad ints, bad range strings, wrong argc, bad option words); inv after a quarter of the writes and at the end, dump at the end; one entry per apply event, strictly increasing log time, mem (btree) and pebble engines; "
                     "non-trivial = the real code answered something other than an error; distinct = distinct op lines")
DATACOREZSET_TRUST = ["only the sorted-set family under the local-deletion layout (no versions, no TTL, header-less meta) is in this executable model; one entry per apply event",
                      "range iteration = filter of the sorted store + offset/count (the iterator wrapper and the engines are C20's subject)",
                      "float text <-> bits is modelled for half-integers |k/2| <= 2^52, +-0, +-Inf, NaN patterns (strconv.ParseFloat / FormatFloat 'g' -1 on exactly these); sums of halves are exact; x86 NaN pattern for Inf-Inf",
                      "the table key counter (IncrTableKeyCount merge) and the top-large-collection statistics are not modelled (not visible through sorted-set commands)",
                      "the harness's error classifier prints strconv.ParseFloat failures as `notint` (lower-cased match); the model prints the same class"]
DATACOREZSET_PARTIAL = ["ZINCRBY: the storage function below the NaN guard preserves the invariant under 'the sum is not NaN' (C09Z_inv_zincrby_partial, and false without it: C09Z_inv_zincrby_full_false); the command as the code runs it since fix 82330ea refuses NaN sums and preserves the invariant for every delta (C09Z_inv_zincrby)",
                        "members longer than MaxSubKeyLen, keys with empty table / empty key part and NaN range bounds are outside the generator (the model answers bad-op)",
                        "size > MAX_BATCH_NUM / RangeDeleteNum (5000) branches are in the model and in the theorems but not exercised by the generator"]
DATACOREZSET_ASSUME = ["fewer than 2^63 keys in the store (size round trip)", "table and key part lengths below 65536 (server: 255 / 10240)", "stored scores are non-NaN 64-bit patterns"]
DATACOREZSET_LEVEL = ("Theorems over the executable storage-level sorted-set model (mirrors rockredis/t_zset.go branch by branch incl. the write-batch discipline; member key -> score bits, score-index key, size meta; the REAL key codec is an instance of the abstract codec facts, proved from the C12 / C12Float theorems): "
                      "the representation invariant (size = #member keys = #index keys, member<->index bijection with equal scores, meta iff non-empty) is preserved by EVERY write command; corollaries in the property's wording; refinement to member -> score. "
                      "The model is tied to the real code line by line: real KVNode, real leader-side handlers (ZREM pre-check), real apply path, real read handlers, mem and pebble engines.")


CHECKS = {
    'C01': dict(
        gens=['Raft'],
        props='ZanVerif.Props.C01',
        protos=[dict(name='raft', mode='cert', quick_seeds=2, thorough_seeds=6, classes='(two-leaders-one-term|learner-leader|vote-not-durable|two-votes-one-term|panic)'),
                dict(name='raftcc', mode='oracle', quick_seeds=10, thorough_seeds=12, env={'ZV_RAFTCC_SALT': '1'},
                     classes='(two-leaders-one-term|learner-leader|learner-vote|vote-not-durable|two-votes-one-term|confstate-mismatch|panic)')],
        rule=RAFT_RULE + ' || raftcc (membership changes, oracle only): ' + RAFTCC_RULE,
        trusted=RAFT_TRUST,
        partial=RAFT_PARTIAL,
        assumptions=['fixed voter list (theorems, certificate); protocol raftcc: at most one conf change in flight is what raft itself enforces (pendingConf), replica ids are never re-used after a removal, a removed replica is destroyed once it applied its own removal'],
        level_text='Theorems: Election Safety of the abstract raft with crashes for EVERY schedule and ANY fixed voter list (two elected nodes of one term are equal; two leaders in one term are equal), a second message-level proof, quorum overlap over the REGENERATED quorum size for every group size, and two properties of the REGENERATED canVote disjunction (no second vote within a term, pre-votes only for strictly higher terms). Real runs are tied to the abstract system by the run-time refinement certificate (executable step checker proved sound in C02) on every event of real raft.Node runs, plus an implementation-level oracle (two leaders in one term, learner as leader, a granted vote released while the stored HardState does not hold it, two votes of one node in one term across restarts).',
        level_note='theorems and certificate: fixed membership only (learners are nodes outside the voter list); membership changes: oracle-only runs of protocol raftcc (two known panics on the way, see known_findings.json)',
        technique='Lean 4 proof (inductive invariants, any schedule) + per-run refinement certificate over real raft.Node runs + regenerated decision expressions',
    ),
    'C02': dict(
        gens=['Raft'],
        props=['ZanVerif.Props.C02', 'ZanVerif.Props.C02Log'],
        protos=[dict(name='raft', mode='cert', quick_seeds=2, thorough_seeds=6, classes='(applied-mismatch|commit-mismatch|panic)'),
                dict(name='raftlog', quick_seeds=6, thorough_seeds=25),
                dict(name='rocksvote', mode='oracle', quick_seeds=3, thorough_seeds=6, classes='vote-(granted-to-stale-candidate|differs-by-storage)'),
                dict(name='raftcc', mode='oracle', quick_seeds=10, thorough_seeds=12, env={'ZV_RAFTCC_SALT': '2'},
                     classes='(applied-mismatch|commit-mismatch|panic|harness-assumption|harness)')],
        rule=RAFT_RULE + ' || raftcc (membership changes, oracle only): ' + RAFTCC_RULE,
        trusted=RAFT_TRUST,
        partial=RAFT_PARTIAL,
        assumptions=['fixed voter list (theorems, certificate); protocol raftcc: at most one conf change in flight is what raft itself enforces (pendingConf), replica ids are never re-used after a removal, a removed replica is destroyed once it applied its own removal'],
        level_text="Theorems, for EVERY schedule and ANY fixed voter list (snapshots, heartbeat commits, stale acks, crashes included): Log Matching, Leader Completeness, State Machine Safety (committed prefixes of any two nodes agree) and its over-time form (never replaced); the model's quorum size, up-to-date rule and commit guard are proved equal to the expressions REGENERATED from raft/raft.go and raft/log.go; the executable certificate checker is proved sound (accepted action list => reachable state), so every real run it accepts is an execution of the proved system. Every event of the real-node runs is certified and the abstract state compared with the real state; oracle: applied-mismatch, committed-lost, commit-mismatch on the real nodes.",
        level_note="theorems and certificate: fixed membership only; membership changes: oracle-only runs of protocol raftcc; the node driver's hand-out contiguity (newReady/Advance) is proved on a four-field abstraction in ZanVerif/Raft/Handout.lean and not tied differentially",
        technique='Lean 4 proof (layered inductive invariants over an abstract raft with crashes) + sound executable certificate checker folded over real raft.Node runs',
    ),
    'C03': dict(
        gens=['Raft'],
        props='ZanVerif.Props.C03',
        protos=[dict(name='raft', mode='cert', quick_seeds=2, thorough_seeds=6, classes='(committed-lost|panic)'),
                dict(name='raftcc', mode='oracle', quick_seeds=10, thorough_seeds=12, env={'ZV_RAFTCC_SALT': '3'},
                     classes='(committed-lost|commit-mismatch|panic)')],
        rule=RAFT_RULE + ' || raftcc (membership changes, oracle only): ' + RAFTCC_RULE,
        trusted=RAFT_TRUST,
        partial=RAFT_PARTIAL,
        assumptions=['fixed voter list (theorems, certificate); protocol raftcc: at most one conf change in flight is what raft itself enforces (pendingConf), replica ids are never re-used after a removal, a removed replica is destroyed once it applied its own removal'],
        level_text='Theorems over the abstract raft with durable copies and created-vs-sent records: what a node has committed is in the log of every leader of a later term in EVERY later state of EVERY execution with crashes of any subset of nodes at any points; committed prefixes are never replaced over time; commit records are stable; reachable witnesses with a follower crash that loses an entry and its unsent ack and a leader crash right after committing. Real runs with crash/RestartNode between events and inside a Ready are certified event by event and compared with the abstract state.',
        level_note="theorems and certificate: fixed membership only; membership changes (restart from a snapshot whose ConfState is older than committed conf changes, torn persists of conf change entries): oracle-only runs of protocol raftcc; the liveness clause ('eventually applied by every live replica') is not a safety statement: not covered; persist order hard state before entries / snapshot without hard state are excluded torn modes (counted in the evidence)",
        technique='Lean 4 proof (durable/volatile twins of the invariants, flush and crash steps) + per-run refinement certificate with injected crashes',
    ),
    'C15': dict(
        gens=['Partition'],
        props='ZanVerif.Props.C15',
        protos=[dict(name='c15', spec=True, quick_seeds=1, thorough_seeds=5)],
        rule="random and adversarial raw keys (bytes incl. ':' 0x00 0xff, lengths 0..300, namespaces valid/malformed) x partition counts 1..1024; "
             "a case is non-trivial when the real code answered without error; distinct = distinct op lines",
        trusted=["murmur3 (spaolacci) itself is modelled in Lean and tied by the differential run only; 64-bit int assumed",
                 "the SDK is the copy in the module cache (go-zanredisdb v0.6.3)"],
        partial=["MGET across partitions is not a merge command in this tree (routed by first key): server-level merge behaviour is not covered by this check yet"],
        assumptions=["partition count > 0"],
        level_text="Theorems (for every key byte string and every partition count > 0): the partition is in range; the server's two routing expressions and the SDK's are the same function of the same bytes (expressions regenerated from node/namespace.go, server/server.go and the SDK on every run); merge = single store for DEL/EXISTS counting. Model tied to the code by 20k-1M differential evaluations per run of the real server functions, the SDK and the Lean murmur3/partition model.",
        level_note="murmur3 library and 64-bit int are trusted via the differential run; server-level execution of merge commands (and MGET, which this tree does not merge) is not yet driven by this check.",
        technique="Lean 4 proof over regenerated partition expressions + differential run of server/SDK/model",
    ),
    'C12': dict(
        gens=['Consts'],
        props=['ZanVerif.Props.C12', 'ZanVerif.Props.C12Float'],
        protos=[dict(name='codec', quick_seeds=1, thorough_seeds=4),
                dict(name='isol', mode='oracle', quick_seeds=2, thorough_seeds=3)],
        rule="random tuples over an adversarial byte alphabet (0x00 0xff ':' ';' length bytes), names drawn from a pool and varied by one byte / one-byte extension / truncation so that prefix relations and near-collisions are probed; "
             "every encoder and decoder of the key codec is called; decoders also on truncated / bit-flipped / extended encodings; non-trivial = the real code returned a value (not err); distinct = distinct op lines",
        trusted=["bytes.Compare = lexicographic order on List UInt8 (Lean core's List order)",
                 "float scores: the transform is modelled on IEEE bit patterns; order preservation for floats is checked by the Go oracle only (not yet a theorem)"],
        partial=["C12_float_order (order preservation of the float score transform) and zscore-key injectivity are not yet theorems; NaN scores collide with small positive scores (ZADD accepts 'nan': recorded as a candidate finding for C08)",
                 "operation-level frame property (an operation on A leaves reads of B unchanged): proved for the hash/set/list/kv storage models (C08/C09 modules); for the real range operations (whole-table delete, clears) it is judged by the `isol` oracle on a real store over prefix-related table names"],
        assumptions=["table and key lengths below 65536 (the server enforces 255 / 10240: theorem limits_fit over regenerated constants)", "list sequence numbers and versions are int64"],
        level_text="Theorems over a byte-for-byte Lean model of the rockredis key codec (constants regenerated from the source): joint injectivity of all user-data key encoders (KV, size/meta, hash/set/zset sub-keys, list element keys) for ALL byte strings; range exactness of collection ranges, table ranges and KV table ranges ([start,stop) contains exactly the addressed sub-keys, and no key of another tuple); memcomparable bytes: order preservation + self-delimiting; int: order preservation + injectivity; versioned keys (key,version) injective and ordered as tuples; versioned sub-keys injective. The model is tied to the real encoders AND decoders (incl. their error and panic outcomes on damaged input) byte for byte on 30k (quick) / 6M (thorough) calls per run.",
        level_note="Go's bytes.Compare is taken to be Lean's lexicographic List order; float-score order is oracle-only; engine iteration honouring the ranges is C20's subject.",
        technique="Lean 4 proof (injectivity, range exactness, order) over a codec model + byte-for-byte differential run",
    ),
    'C20': dict(
        gens=[],
        props='ZanVerif.Props.C20',
        protos=[dict(name='engine', quick_seeds=2, thorough_seeds=6)],
        rule="random sessions of write batches (put / delete / delete-range / counter merge, commit or clear) and reads (get, exist, range iterators with every combination of open/closed bounds, direction, offset incl. negative, count) over adversarial keys "
             "(shared 3-byte prefixes, suffixes with 0x00 / 0xff, keys that are prefixes of each other; Max slices with spare capacity); every op runs on rocksdb, pebble and the three in-memory structures and on the harness's sorted-map reference with an ideal cursor under the REAL iterator wrapper; "
             "non-trivial = answered without error; distinct = distinct op lines",
        trusted=["the engines are black boxes (RocksDB 7.8.3 C++, Pebble, btree/skiplist/radix): for them the claim is differential only (translation-validation level), every engine vs the sorted-map reference",
                 "rocksdb is only compared on iterator ranges whose Min and Max share the 3-byte prefix (the engine is opened with a 3-byte prefix extractor; ranges across prefixes are undefined for it) and keys are >= 3 bytes (Debian's librocksdb asserts)",
                 "delete-range is only issued with start <= end (RocksDB rejects the opposite order, the other engines ignore it)"],
        partial=["engines are compared, not proved; second open write batch on the radix structure (deadlock) is not exercised"],
        assumptions=["the engine cursor honours the contract Seek = first key >= k, SeekForPrev = last key <= k inside the bounds [Min, Max) / [Min, Max]"],
        level_text="Theorems, for every sorted store and every option record: the reference store stays sorted/duplicate-free under every batch; a batch is invisible until committed, is the in-order fold when committed and has no effect when cleared; point reads follow last-write-wins; the shared iterator wrapper (engine/iterator.go, both directions, all open/closed combinations, every offset and count) returns exactly take count (drop offset (filter inRange (orient keys))); engine-level bounds are transparent; n counter merges read back as the sum mod 2^64. The wrapper model is tied to the real wrapper code by running the real wrapper over an ideal cursor; each engine is compared with the reference on the same op sequences (differential).",
        level_note="engines themselves are black boxes (differential only). Findings on the in-memory engine are listed in known_findings.json; the pebble SeekForPrev defect was repaired (fix: commit aca9203).",
        technique="Lean 4 proof of the reference contract and the iterator wrapper + differential run of 5 engine variants against the reference",
    ),
    'C16': dict(
        gens=['Stream'],
        props='ZanVerif.Props.C16',
        protos=[dict(name='stream', quick_seeds=1, thorough_seeds=2)],
        rule="sessions on one shared stream: 1-3 raft groups interleaved with link heartbeats, MsgApps that continue / change term / go back (probe) / carry a non-matching LogTerm, 0-3 entries each incl. entries around the 1 MiB buffer, a few not-well-formed senders; "
             "the bytes of every encode call are compared, then the whole stream and random truncation points are decoded by the real decoder and by the model; generic message stream with all message types and arbitrary field values; "
             "corrupted (not truncated) length words: oracle only. non-trivial = answered without error; distinct = distinct op lines",
        trusted=["gogo-protobuf Marshal/Unmarshal (payloads are opaque bytes in the model; the harness passes the fields of every full message it sends)",
                 "io.ReadFull / binary.Read short-read semantics are modelled (EOF when nothing was read, ErrUnexpectedEOF when part was read)"],
        partial=["corrupted (not truncated) streams are outside the theorems: length words are bounded (fix: commit) and checked by the oracle, but a corrupted payload is handed to protobuf",
                 "the stream picker (MsgApp -> v2, MsgSnap -> pipeline, rest -> message stream) is not modelled; the writer goroutine (batching, flush) is exercised on the real code by the oracle of protocol streamw only"],
        assumptions=["WfRun: MsgApps on the v2 stream have From/To equal to the groups' replica ids, carry no Reject/Snapshot/Context, node ids match the connection, and a group's name does not change while its ids stay the same (isSameGroup ignores the name)"],
        level_text="Theorems: (message level) the stateful msgappv2 codec, with isContinue / isSameGroup regenerated from the Go source, returns exactly the sent messages for every well-formed run, any interleaving of raft groups and link heartbeats, with the two codec states staying equal; two `decide` examples show both hypotheses are needed. (byte level) the framing of both codecs round-trips for every frame sequence, and for EVERY byte offset a truncated stream decodes to a prefix of the frames followed by io.EOF / io.ErrUnexpectedEOF, never a different frame. The model is tied byte for byte to the real encoders and, on whole and truncated streams, to the real decoders (incl. which of the two EOF errors is returned).",
        level_note="protobuf is opaque; corrupted streams oracle-only; entries larger/smaller than the 1 MiB buffer take different branches in the Go code and identical bytes in the model (compared).",
        technique="Lean 4 proof (stateful codec round trip, framing round trip, truncation at every offset) + byte-for-byte differential run",
    ),
    'C19': dict(
        gens=['Sync'],
        props='ZanVerif.Props.C19',
        protos=[dict(name='sync', quick_seeds=1, thorough_seeds=2), dict(name='syncsend', quick_seeds=1, thorough_seeds=2)],
        rule="delivery sequences from 1-2 source clusters: in-order batches, stale re-sends of random old entries, sender restarts from earlier positions (overlapping batches), arbitrary (term, index) garbage, entries the state machine ignores (failed remote-snapshot apply), "
             "snapshots, restores with replay of the local log tail, the admin position override; each entry goes through the REAL KVNode.applyEntry around a recording state machine; non-trivial = answered without error; distinct = distinct op lines",
        trusted=["the recording state machine of the harness stands for the data (the effect of an entry is 'its source index was applied')",
                 "a bare KVNode (no raft, no storage) is enough for applyEntry: anything that needs more would crash the harness run"],
        partial=["'never skips an entry' depends on the sender resuming at <= synced+1: isContinueCommit only logs gaps (theorem C19_exactly_once_step is the per-step statement under that hypothesis)",
                 "SetRemoteClusterSyncedRaft (admin API) can move the position backwards by design; it is excluded from the monotonicity oracles and theorems",
                 "remote snapshot transfer/apply status machine (AddApplyingSnap …) is not modelled beyond 'ignored => no position update'",
                 "the gRPC receive-time filter is tied by its regenerated expression only (C19_receive_filter_same)"],
        assumptions=["source entries have index >= 1 (an entry with OrigTerm = OrigIndex = 0 is not position-tracked by postprocessRemoteApply)"],
        level_text="Theorems, for EVERY delivery sequence over any number of source clusters (no assumption on the sender): applied source indexes are strictly increasing per cluster (at most once, no duplicate effect); the synced position never moves backwards and moves only in a step whose effect ran, to that entry's own position; the position always covers the data; re-delivering ANY part of what was delivered changes neither data nor position (replay idempotence), hence restore-from-snapshot + replay of the tail (or of more than the tail) reproduces the pre-crash pair; per-step exactly-once under a sender that resumes at synced+1. The skip condition and the update guard are regenerated from node/remote_sync_mgr.go (and the gRPC receive filter from server/grpc_api.go is proved to be the same predicate). The model is tied to the real KVNode.applyEntry / RestoreFromSnapshot by differential runs.",
        level_note="state machine effects are abstract; sender behaviour is a hypothesis for 'never skips'; admin override excluded.",
        technique="Lean 4 proof (inductive invariant + replay idempotence over regenerated filter) + differential run of the real apply path",
    ),
    'C04': dict(
        gens=[],
        props='ZanVerif.Props.C04',
        protos=[dict(name='lin', mode='cert', quick_seeds=1, thorough_seeds=1)],
        rule="each op line is one concurrent history (quick 3 x 300 ops x 4 clients, thorough 20 x 1500 x 6) against a real 3-replica "
             "namespace (three server.Server in one process, raft over rafthttp loopback, pebble) under leader transfers and graceful "
             "stop/restart of a follower or of the leader; evaluations = histories, the notes count operations / faults / local answers",
        trusted=["the history recorder: monotonic stamps taken around Server.serverRedis calls on the client goroutine; request ids learnt "
                 "through a wrapper of KVNode.w (wait.Wait) on the proposing goroutine; apply trace from one inserted line in KVNode.applyEntry",
                 "half of the clients are plain TCP/RESP clients of the redis port (their server-side connection goroutine is learnt by a one-command "
                 "handshake), half call Server.serverRedis in-process with an in-memory redcon.Conn",
                 "sequential specification lean/ZanVerif/Node/LinSpec.lean (and its independent Go twin for the oracle) for the 8 commands used"],
        partial=["an LPOP that finds the list empty at apply time answers an empty bulk string instead of nil; both are read as 'no element' (counted in notes)",
                 "reads and 'nothing to do' write replies are answered from local state without a raft entry; they are placed by search, those that cannot "
                 "be placed are oracle violations of class stale-local-answer and are set aside by the certificate checker"],
        assumptions=["graceful faults only in this protocol (kill -9 is protocol crash / C06)", "one partition, one namespace, <= 4 keys per history"],
        level_text="Theorems: checkCert/checkLin soundness (acceptance => replicas agree on common indexes, no operation at two indexes, order = raft index order, "
                   "history linearizable w.r.t. LinSpec incl. the final dump of every replica). Tie: every recorded history of the real cluster is checked by that checker.",
        level_note="certificate checking of recorded runs, not a proof about the Go code",
        technique="Lean 4 proven certificate checker over histories recorded from real 3-replica clusters + independent Go oracle",
    ),
    'C05': dict(
        gens=['WalFrame'],
        props='ZanVerif.Props.C05',
        protos=[dict(name='wal', quick_seeds=1, thorough_seeds=1)],
        rule="save histories on a REAL wal (wal.Create in a temp dir, SegmentSizeBytes 256..4096 [16 KiB in thorough]): entries with "
             "overwriting suffixes (index goes back after a term change), hard states, snapshot markers (local and ahead-of-log), "
             "explicit Sync, cuts by size, optimized-fsync on/off, one history in 15 with 3x60-70 KB entries (PageWriter overflow); after "
             "a third of the operations: every byte offset (quick: dense sample) of the region written since the last real fdatasync "
             "as 'file ends here' (cut=) and zero-filled (trunc=), random subsets of its 512-byte sectors zeroed (zero=), random single "
             "bit flips in the written region (flip=); every segment file is compared byte for byte (bytes); fenc/fdec: 600 frame-size "
             "evaluations. A case is non-trivial when the real code returned a log; distinct = distinct op lines",
        trusted=["the CRC-32C table, gogo-protobuf's generated (un)marshallers of walpb.Record / Snapshot and raftpb.Entry / HardState are modelled in "
                 "Lean and tied by the byte-for-byte comparison of the segment files and by the reopen results only (the skipRecord/skipRaft "
                 "texts are not regenerated)",
                 "file-system model of the crash harness: a crash loses any suffix of the bytes written since the last fdatasync (file ends "
                 "there, or reads as zeros) or any subset of their 512-byte sectors; directory operations (rename of the .tmp segment, "
                 "fsync of the directory) and the preallocation (fallocate) are taken as atomic / not modelled",
                 "the offset of the last real fdatasync is observed through one call inserted into WAL.sync by tools/instrument (build-time "
                 "copy of wal/wal.go); in a tree in which WAL.sync no longer calls fileutil.Fdatasync(w.tail().File) the hook cannot be placed, "
                 "no fdatasync is observed and the oracle reports `no-fdatasync-observed` / `lost-synced`",
                 "restart = the sequence of node/raft.go (ValidSnapshotEntries, newest valid marker as if every marker had its snapshot file, "
                 "Open, ReadAll, one Repair on any error, Open, ReadAll); snapshot files themselves (snap package) are not part of this check"],
        partial=["bit flips: proved only for the data bytes of a record (C05_bitflip_data, concrete CRC-32C). A flipped bit in the length word, "
                 "in the protobuf framing of the record or in the record type is NOT detected in general — the restart silently truncates the "
                 "log (Repair takes io.ErrUnexpectedEOF for a torn tail), reads a record under another type (C05_type_not_protected), or panics "
                 "in MustUnmarshal: findings F-C05-1..3 in known_findings.json; statement C05_bitflip_frame_full is given, false",
                 "zero fill is proved for sector and frame boundaries (C05_truncation_zero_fill); arbitrary subsets of zeroed sectors "
                 "(C05_torn_sector_full) are stated and exercised by the harness oracle only; zero fill from an arbitrary byte offset is false for the "
                 "real decoder (partially zeroed sector -> crc mismatch) and outside the crash model",
                 "theorems about ReadAll+Repair are for a WAL read from its first segment (Open at a later segment starts a decoder with crc 0 "
                 "at a crcType record: covered by stream_head_crc for Repair, exercised for Open by the harness 'snap=' picks only)",
                 "the effect of the header records (crc, metadata, repeated hard state at a segment head) on top of the saved items is compared "
                 "by the harness oracle, not proved; ReadAll in write mode never reports ErrSnapshotNotFound (the error is overwritten by "
                 "`w.encoder, err = newFileEncoder(...)`): modelled as the code behaves, reported as F-C05-4",
                 "optimized-fsync mode: only vote/term changes are promised durable (what the fork's Save does); entries-only saves and cuts "
                 "are written but not fdatasync'ed"],
        assumptions=["record sizes below the decoder's 100 MB limit (the writer does not refuse larger records; they cannot be read back)",
                     "64-bit int/uint; indexes and terms below 2^64; files shorter than 2^62 bytes"],
        level_text="Theorems over a byte-level model whose arithmetic and decision expressions are regenerated from wal/{encoder,decoder,wal}.go, "
                   "walpb/record.go, raft/node.go, pkg/ioutil/pagewriter.go on every run: frame-size round trip; protobuf round trip of "
                   "Record/Entry/HardState/Snapshot; decoding the segment files of any writer history returns exactly the records written with the "
                   "crc chain verified (C05_roundtrip, C05_writer_sealed); for EVERY byte offset at which the tail segment ends, decoding returns "
                   "exactly the records wholly contained, ends in EOF/unexpected EOF, and ReadAll (+Repair+ReadAll as node/raft.go does) returns "
                   "exactly the effect of that record prefix (C05_truncation_prefix, C05_restart_prefix); the same with zero fill from any sector or "
                   "frame boundary up to an explicit crc collision (C05_truncation_zero_fill, C05_accepted_is_collision); ReadAll's effect as fold "
                   "laws — a later entry with the same index replaces it and cuts the tail, newest hard state wins (C05_effect_prefix); one changed "
                   "data byte always fails the chained CRC-32C check (C05_bitflip_data); Save/SaveSnapshot/Sync fdatasync everything encoded when "
                   "not in optimized-fsync mode (C05_save_syncs). Tie: the real wal package writes the histories, every segment file is compared BYTE "
                   "FOR BYTE with the Lean encoder, and ~10-14k damaged reopenings per run (real ValidSnapshotEntries/Open/ReadAll/Repair) are compared "
                   "line by line with the Lean restart model; independent oracle on the Go side: the reopened log is the effect of a prefix of the "
                   "saved items that contains everything promised durable before the lost bytes were written.",
        level_note="bit flips outside record data, arbitrary torn-sector subsets and Open at a later segment are covered by the differential "
                   "run and the oracle only (see partial); three robustness findings on bit flips and one masked error are recorded as known findings.",
        technique="Lean 4 proofs over a regenerated byte-level WAL model + byte-for-byte differential run of the real wal package + crash oracle",
    ),
    'C06': dict(
        gens=[],
        props='ZanVerif.Props.C06',
        protos=[dict(name='crash', mode='cert', quick_seeds=1, thorough_seeds=1)],
        rule="each op line is one crash/restart run of a real single-replica KVNode child process (raft, WAL with 4 kB segments, SnapCount 15, "
             "KeepBackup 2, KeepWAL 2, pebble; thorough also mem): quick = every reachable crash point x 2 placements (early; mid-history as a "
             "30 ms slow step) + 4 SIGKILL instants + 6 three-replica runs + 6 runs with TWO writing lives (phase=3: SIGKILL in the first, the crash under test after further acknowledged writes in the second, dump of the third), about 120 runs; thorough = 20 rounds with random k, history length, client window, engine; "
             "notes list crash-at:<point> / crash-point-not-reached:<point> / crash_points_missing:<point>",
        trusted=["tools/instrument: one statement verifCrash(\"name\") inserted before/after the anchor call found by name in copies of the CURRENT "
                 "node/raft.go, node/node.go, node/raft_storage.go, rockredis/rockredis.go, wal/wal.go, pkg/fileutil/purge.go (a missing anchor is listed, not hidden)",
                 "process death = os.Exit(137) at the point (nothing flushed) or SIGKILL; no power-loss model (page cache survives)",
                 "single client, proposals made in send order by one goroutine: log order = send order",
                 "sequential specification LinSpec for the 7 write commands used (Go twin for the oracle)"],
        partial=["the points that need a snapshot arriving from a leader (applysnap.*, persist.savesnap.*, ready.applysnap.*, ready.snapsync.after, "
                 "ready.release.after) are exercised only in the 3-process runs (run3 phase=2: 2 in the quick tier, all of them in the thorough tier)",
                 "Persist.lean is the abstract ordering model (prototype); its refinement to the two real loops is not part of this package"],
        assumptions=["engine directory is untrusted after a crash, checkpoint directories are intact once Save returned"],
        level_text="Theorems: checkCrash soundness (accepted run => served state = replay of a prefix of the sent writes containing every acknowledged one, "
                   "specified replies) and the abstract recovery model (recover_total, served_state). Tie: every crash/restart run of the real node is checked by that checker.",
        level_note="certificate checking of recorded crash runs; F1 (single-voter ack before persist) was found by this check and is repaired (7426c3f)",
        technique="Lean 4 proven certificate checker over crash/restart runs of a real node process with injected crash points + independent Go oracle",
    ),
    'C07': dict(
        gens=['Ttl', 'BatchOp'],
        props='ZanVerif.Props.C07',
        protos=[dict(name='data', mode='oracle', quick_seeds=1, thorough_seeds=1, classes='(batch|engine|replay|packed|restart)-dependent:')],
        rule=DATA_RULE,
        trusted=DATA_TRUST,
        partial=["C07_batch_independent is proved for the abstract model under 'no batchable command fails at apply time'; the failing case is a known finding", 'wall-clock independence of write paths is checked by the raw-byte comparison of shadows run at different instants only'],
        assumptions=[],
        level_text='Theorem: batch independence of the abstract apply-batch model (reads see the store as of batch start; pairwise distinct keys; commands read only their own key) for every command list and start store, with a `decide` witness that the distinct-key hypothesis is needed, and the regenerated batchable command set. On the real code the property is judged by metamorphic shadows on every generated log: one entry per apply event vs random grouping, mem vs pebble, isReplaying on/off, packed entries - comparing every client reply, the logical dump and the physical bytes of the whole engine after every event.',
        level_note='the abstract batch model is not differentially tied to kvbatchOperator (oracle-only protocol); bitmap/HLL/JSON/geo commands are outside the protocol; AbortBatchForError makes the property false for apply-failing batchable commands (known finding C07-batch-abort)',
        technique='Lean 4 proof over an abstract batch model + metamorphic exploration of the real apply path',
    ),
    'C08': dict(
        gens=['Consts', 'CollConsts', 'Ttl', 'TtlKV'],
        props=['ZanVerif.Props.C08', 'ZanVerif.Props.C08KV', 'ZanVerif.Props.C08Set', 'ZanVerif.Props.C08List', 'ZanVerif.Props.C08ZSet'],
        protos=[dict(name='datacore', quick_seeds=2, thorough_seeds=2, classes='panic', spec=True),
                dict(name='datacorekv', quick_seeds=2, thorough_seeds=2, classes='panic', spec=True),
                dict(name='datacoreset', quick_seeds=2, thorough_seeds=2, classes='panic', spec=True),
                dict(name='datacorelist', quick_seeds=2, thorough_seeds=2, classes='panic', spec=True),
                dict(name='datacorezset', quick_seeds=3, thorough_seeds=4, classes='panic', spec=True)],
        rule=DATACORE_RULE,
        trusted=DATACORE_TRUST,
        partial=['KV (Props/C08KV.lean): C08_kv_refines_partial / C08_kv_run_refines_partial / C08_del_keys_partial carry Z.KVSpec.Conforms; each excluded deviation from redis has a witness theorem C08_dev_* on the executable model (DEL / SETIFEQ / DELIFEQ on a key expired in log time, INCRBY wraps int64, APPEND / SETRANGE with an empty value answer 0, PERSIST answers 1 without TTL, EXPIRE onto an instant <= 0, DEL k k counts twice)', 'everything except hget/hset/hdel', 'duplicate fields inside one command were a genuine defect (fixed) and are outside the model'],
        assumptions=[],
        level_text="Theorems (hash slice): refinement of the storage-level hash (size meta + field keys over the sorted reference store, codec abstracted by exactly the facts C12 proves of the real encoders) to the plain redis hash key -> field -> value: HGET reads the abstraction, HSET/HDEL replies are redis's, HSET/HDEL commute with the abstraction, the size meta never shows through. All other types and commands have NO theorem yet and no Go-side oracle: C08 is claimed for this slice only.",
        level_note="only the hash slice (hget, hset, hdel) is modelled; no differential tie of this model to rockredis yet (the correspondence of the codec is C12's); KV/list/set/zset semantics are not covered by this check",
        technique="Lean 4 refinement proof (hash slice) over C12's codec facts",
    ),
    'C09': dict(
        gens=['Consts', 'CollConsts'],
        props=['ZanVerif.Props.C09', 'ZanVerif.Props.C09Set', 'ZanVerif.Props.C09List', 'ZanVerif.Props.C09ZSet'],
        protos=[dict(name='data', mode='oracle', quick_seeds=1, thorough_seeds=1, classes='count-enum-mismatch:'), dict(name='datacore', spec=True, quick_seeds=1, thorough_seeds=1, classes='count-enum-mismatch:'),
                dict(name='datacoreset', spec=True, quick_seeds=2, thorough_seeds=2, classes='count-enum-mismatch:'),
                dict(name='datacorelist', spec=True, quick_seeds=2, thorough_seeds=2, classes='count-enum-mismatch:'),
                dict(name='datacorezset', spec=True, quick_seeds=3, thorough_seeds=4, classes='(count-enum-mismatch:|panic)')],
        rule=DATA_RULE,
        trusted=DATA_TRUST,
        partial=['inv preserved by hdel / set / zset / list commands: not yet theorems'],
        assumptions=[],
        level_text="Theorem: the hash size-meta invariant (stored size = number of field keys in the collection's range, meta present iff non-empty) over the sorted reference store with the codec abstracted by the facts C12 proves; preserved by HSET (new field and overwrite), for all stores/keys/fields. On the real store the property's equalities (HLEN=|HGETALL|=|HKEYS|=|HVALS|, SCARD=|SMEMBERS|, LLEN=|LRANGE 0 -1|, ZCARD=|ZRANGE|=|ZRANGEBYSCORE -inf +inf|=|ZRANGEBYLEX - +|=|ZREVRANGE|, scores, xKEYEXIST <=> size>0, point lookups) are evaluated through read commands only after EVERY apply event of every generated session.",
        level_note='invariant proved for HSET only (HDEL/other types: oracle only); oracle-only protocol',
        technique='Lean 4 invariant proof (hash) + invariant oracle after every apply event on the real store',
    ),
    'C10': dict(
        gens=['Ttl', 'TtlKV', 'CFilter'],
        props=['ZanVerif.Props.C10', 'ZanVerif.Props.C10KV', 'ZanVerif.Props.C10Hash', 'ZanVerif.Props.C10Filter'],
        protos=[dict(name='data', mode='oracle', quick_seeds=1, thorough_seeds=1, classes='(expired-visible|resurrection|ttl-|early-removal):'),
                dict(name='datacorekv', spec=True, quick_seeds=2, thorough_seeds=2, classes='(expired-visible|resurrection|ttl-|panic)'),
                dict(name='datacorettl', spec=True, quick_seeds=2, thorough_seeds=2, classes='(expired-visible|resurrection|ttl-|panic)'),
                dict(name='cfilter', mode='cert', quick_seeds=2, thorough_seeds=4, classes='(filter-drops-live|panic)')],
        rule=DATA_RULE,
        trusted=DATA_TRUST,
        partial=['Props/C10KV.lean, C10Hash.lean (executable models, datacorekv / datacorettl): C10_dead_after_expiry_partial excludes DEL / SETIFEQ / DELIFEQ, C10_hash_dead_after_expiry_partial excludes HDEL (witnesses C10_*_false_*, known finding C10-removers-see-expired-generation); C10_no_resurrection (hash) carries the explicit fresh-version hypothesis, witnesses C10_equal_ts_witness(_expiry) by decide on the executable model', 'C10_no_resurrection_partial carries the equal-timestamp proviso (known finding)', 'C10_local_never_early is false on this tree (known finding C10-local-deletion-earliest-ttl); only the oracle covers the local-deletion policy', 'C10_filter_safe (compaction filter) not built'],
        assumptions=[],
        level_text="Theorems: the expiry rule and TTL value over the expressions REGENERATED from rockredis/t_ttl_compact.go (expired iff ExpireAt <= floor(ts/1e9), never for ExpireAt=0 or ts=0; TTL = ExpireAt - floor(ts/1e9) and positive iff not expired), for all values; the generation mechanism: dead after expiry, renewal shows exactly the new generation, no resurrection under the proviso 'no stale sub-key of the new generation is stored', and a `decide` witness that the proviso is needed (generation = log timestamp). On the real store: per-command monitors against a never-used key of a scratch store (expired-visible, resurrection), expiry bookkeeping rules (ttl-not-cleared / ttl-wrong / ttl-lost), read-side monitors, and the local-deletion scan monitor (early-removal).",
        level_note='generation model is abstract (hash-shaped); compaction filter not modelled; read-path expiry only far from the boundary (wall clock)',
        technique='Lean 4 proof over regenerated expiry arithmetic + generation model; per-command monitors on the real store',
    ),
    'C11': dict(
        gens=['CmdTable'],
        props='ZanVerif.Props.C11',
        protos=[dict(name='data', mode='oracle', quick_seeds=1, thorough_seeds=1, classes='(panic|error-changed-state|proposed-and-|no-reply|hang|proposal-count)'),
                dict(name='mergeargs', mode='oracle', quick_seeds=1, thorough_seeds=2, classes='panic')],
        rule=DATA_RULE,
        trusted=DATA_TRUST,
        partial=['C11_error_no_effect / C11_next_command_unaffected are oracle-only', 'read commands and merge commands: fuzz only'],
        assumptions=[],
        level_text='Theorem (shape safety): for EVERY registered write command (57, table regenerated from node_cmd_reg.go / util.go / the apply handlers on every run) and EVERY argument count, if the leader-side validator lets the command into the log then every constant-index access cmd.Args[i] / cmd.Args[i:] of its apply handler is in range; the extractor summarised every command. Everything beyond argument counts (numeric parses, offsets, sizes, error => nothing changed, nothing leaks into the next command) is judged by the oracle on mutated argument vectors sent the way a client can: real leader-side validation, proposal, real apply, with the physical bytes of the engine compared around every erroring command.',
        level_note="the extractor understands constant indexes and len guards, not data flow (a negative SETRANGE offset was found by the fuzz, not by the table; fixed); redcon parsing and the server's connection-level recover are outside",
        technique='Lean 4 proof by whole-table decision lifted to unbounded argc (table regenerated by go/ast extractor) + mutation fuzz with byte-level state comparison',
    ),
    'C13': dict(
        gens=[],
        props='ZanVerif.Props.C13',
        protos=[dict(name='scan', spec=True, quick_seeds=2, thorough_seeds=3)],
        rule="(besides what follows: oracle-only ops fullg/cfullg = the client loops with MATCH <general glob pattern> — alternation, classes, ? — judged against the subset the glob library itself selects, 4 per session; bigpop = one session per run with 5200-6700 non-matching keys between three matches, KV and SET key scans with MATCH *hit*) populations of up to 25 keys of the five types over 1-3 neighbouring tables (t, t!, t0, s) with names that are prefixes of each other / contain ':' ';' 0x00 0xff, collections of up to 12 members; "
             "single pages and full client loops (cursor fed back until empty) of ADVSCAN / ADVREVSCAN for every type and of HSCAN/SSCAN/ZSCAN and their reverse forms, COUNT 1-6 and 0 (default) / 7 / 30 / 100 / 5001, start cursors inside and beyond the population, on pebble and mem(btree); "
             "non-trivial = answered without error; distinct = distinct op lines",
        trusted=["gobwas/glob MATCH filtering is not exercised (no MATCH argument is generated): the MATCH clause of the property is not covered",
                 "the server-level cursor packing across partitions (server/scan_merge.go) is not driven"],
        partial=["key scans (ADVSCAN with the table-boundary truncation rule): model tied differentially and judged by the oracle, no theorem yet beyond the paging core",
                 "MATCH; stability under concurrent insert/remove between pages (C13_stable_under_static_part) not built",
                 "a negative COUNT makes the scan handlers index an empty page (runtime panic, recovered per connection by the server): outside the property's quantifier (COUNT from 1 up), noted"],
        assumptions=["non-empty element names (the property's quantifier): an empty member equals the exclusive lower bound of a reverse scan and is not returned by it", "1 <= COUNT <= 5000 in the theorems (checkScanCount clamps outside)"],
        level_text="Theorems over the scan model: the client loop of HSCAN / SSCAN / ZSCAN (forward) returns exactly the members beyond the start cursor, each once, in key order, and terminates - for EVERY duplicate-free sorted population of non-empty names, every COUNT in 1..5000, every start cursor; the reverse forms return the members before the start cursor in descending order; both are instances of one paging theorem parametric in the strict total order (page = first n keys beyond the cursor, next cursor = last key, stop at a short page). The model (store-level pages, checkScanCount, the node layer's next-cursor rule and table-boundary truncation, the client loop) is tied line by line to the real ADVSCAN/ADVREVSCAN merge handlers and HSCAN/SSCAN/ZSCAN read handlers on a real store.",
        level_note="MATCH and cross-partition cursor packing not covered; ADVSCAN's table rule is differential/oracle only",
        technique="Lean 4 proof (paged scan = keys beyond cursor, both directions) + line-by-line differential run of the real scan handlers",
    ),
    'C14': dict(
        gens=[],
        props='ZanVerif.Props.C14',
        protos=[dict(name='ckpt', quick_seeds=1, thorough_seeds=2)],
        rule="(a) 1500 / 60000 directories of 0-8 checkpoint names (term-index, shuffled, some with indexes not monotone in the term) x keepNum 0-4 x latestSnapIndex: the real purgeOldCheckpoint on real directories vs the Lean model; "
             "(b) sessions on real stores (pebble, rocksdb): a log that is a fixed function of the index (KV, hash, list, zset, counter writes), backups at random instants (also twice at one index), restores of random earlier checkpoints followed by replay of the same log, repeated restores; "
             "oracle: logical dump after restore = dump recorded at backup time, data files of EVERY checkpoint unchanged since written, restore succeeds, checkpoint still exists; a quarter of the sessions run with a 16 kB memtable and a burst of HyperLogLog writes (30 keys x 2000 elements) every 23rd log entry, so that restores close an engine whose write-back cache is dirty; (c) xfetch (6 / 60 runs): two replicas of one log with different checkpoint instants (half of them with 1 kB incompressible values and a forced flush: same-named sst files beyond 256 kB), the lagging one installs the other's checkpoint through RestoreFromRemoteBackup: data = the source replica's at that index, source checkpoint unchanged, both agree after 20 more entries; non-trivial = answered without error; distinct = distinct op lines",
        trusted=["engine checkpoint consistency (Pebble / RocksDB Checkpoint = a consistent snapshot) is the engines' contract",
                 "SameSstSound: restoreFromPath keeps a live .sst with the checkpoint's name when size and the last 256 KiB agree (explicit hypothesis of the file-level theorem as the `same` parameter; cannot be proved)",
                 "the file-level inode model (Z.Ckpt) is not differentially tied: only its consequences are observed by the oracle (checkpoint data files unchanged)"],
        partial=["C14_state_at_index (restore yields exactly the state at index i): proved at file level (the engine directory holds exactly the checkpoint's files); that the engines' view of those files is the state at index i is oracle-only on the real engines", "remote-backup path exercised by a plain copy of the checkpoint directory (the rsync transfer itself is not run)", "mem engine has no checkpoint"],
        assumptions=["C14_purge_safe: indexes do not decrease along the (term, index) order of checkpoint names (a later term's snapshot has a later index)"],
        level_text="Theorems: (file level) in the inode model of restoreFromPath - hard-linked sst files, copied other files - a restore leaves the checkpoint directory's view unchanged and establishes an invariant under which NO later engine activity (create / unlink / append to non-sst files) changes it, for every history of restores and writes and every `same` test; (purge) the real purge algorithm, modelled exactly and tied line by line to purgeOldCheckpoint on real directories, never removes one of the newest keepNum checkpoints and never removes a checkpoint at or above the latest recorded snapshot index. On real pebble and rocksdb stores the oracle checks that every restore yields exactly the logical state recorded at backup time and that no checkpoint's data files ever change.",
        level_note="restore exactness is oracle-level (engines are black boxes); SameSstSound is a hypothesis",
        technique="Lean 4 proof (inode-sharing invariant; purge algorithm) + differential run of the real purge + backup/restore oracle on real engines",
    ),
    'C17': dict(
        gens=['Place'],
        props='ZanVerif.Props.C17',
        protos=[dict(name='place', quick_seeds=1, thorough_seeds=5)],
        rule="random topologies: 1..40 node ids (unpadded numbers and real-looking ip ids, so string order differs from numeric order), 1..4 DC tags "
             "(incl. untagged nodes), even and uneven filling, partitions 1..64 (a quarter of them multiples of the node count), replica 1..5, both "
             "algorithms; for v2 chains of up to 6 layouts where the previous answer of the REAL code comes back as the old layout after node loss / "
             "addition / replacement, with mid-migration ISR shapes (a member missing, one extra member, only a prefix of the partitions), changed "
             "replication factor and grown partition count; a case is non-trivial when the real code produced a layout; distinct = distinct op lines",
        trusted=["murmur3 (twmb) start slot: modelled in Lean (Base.Murmur3), tied by the differential run only; 64-bit int assumed",
                 "emirpasic/gods treemap Min/Max = least/greatest by the comparator; utils.IntComparator = -1/0/1 (written out in Gen/Place.lean)",
                 "Go string comparison (bytewise) = Lean String order (code points): equal on valid UTF-8; node ids are ASCII",
                 "a node id is never the empty string (fillPartitionMapV2 uses \"\" for 'no old replica at this position')"],
        partial=["C17_v2_total_full (v2 answers for EVERY duplicate-free old layout) is false for the code: proved only for old lists no longer than the replication factor (C17_v2_total); the complement is finding F5 (C17_F5_witness, replayed on the real code)",
                 "DC spread is proved for the ring algorithm (v1) only; for v2 it is checked by the oracle on every fresh even topology of the runs (no counterexample seen), not proved",
                 "the balancing quality of v2 (how even the result is) is not part of the property and not proved; only that every balancing step keeps the layout valid"],
        assumptions=["node ids pairwise different and non-empty (they are map keys)", "replica >= 1"],
        level_text="Theorems about the executable Lean model of getRebalancedNamespacePartitions (getNodeNameList, interleave, fillPartitionMapV1, fillPartitionMapV2 with moveIfUnbalanced and both comparators), for all inputs: v1 shape, distinct names, DC spread incl. wrap-around, leader balance; refusal iff too few nodes (over the regenerated guards); v2: every answer has exactly `replica` distinct live names per partition for every duplicate-free old layout, and v2 answers (no panic) whenever no old list is longer than the replication factor; the answer does not depend on the enumeration order of the node map. The model is tied to the code by regenerated decision expressions (guards, ring slot/step, name index, comparators, thresholds, move budget) and by 5k-1M differential evaluations per run, every op also judged by an independent Go oracle.",
        level_note="F5 (nil.(loadItem) panic of fillPartitionMapV2 for an old ISR list longer than the replication factor) is reproduced on the unchanged tree and listed as a known finding; v2 DC spread is oracle-checked only.",
        technique="Lean 4 proofs over an executable model + regenerated decision expressions + differential run and Go oracle on the real layout functions",
    ),
    'C18': dict(
        gens=['Coord', 'Place'],
        props='ZanVerif.Props.C18',
        protos=[dict(name='coord', quick_seeds=1, thorough_seeds=4)],
        rule="sessions of 5..60 decisions on one partition (quick 250 sessions, thorough 4 x 5000): replication factor 1..5, pool of 3..8 data nodes, both balance "
             "algorithms, valid start layouts (replica count from the quorum minimum to factor+1, sparse replica ids, optionally one pending removal, optionally with "
             "RemoveTime 0); the environment (alive set, synced / members-ready / still-joined answers of the loopback data-node stubs, grace time elapsed, register "
             "compare-and-swap ok/fail) is perturbed at random between decisions; decisions: migrate 40%, finish 20%, balance 15%, add 10%, remove 15%; plus a quarter as many sessions driven ONLY through `act check` = one full pass of the coordinator's own loop doCheckNamespaces (finish removals, migrate after the grace time, trim an over-replicated partition; half of them over-replicated starts, half ring layouts), not modelled in Lean, every register write of a pass judged by the Go oracle against the write before it; "
             "a case is non-trivial when the real code attempted a register write; distinct = distinct op lines",
        trusted=["the in-memory PDRegister and the loopback HTTP stubs of the harness stand for etcd and the data nodes (answers are inputs of the property, any combination is allowed)",
                 "one partition per namespace in the runs; the layout function inside the decisions is the real one on the Go side and the C17 model on the Lean side",
                 "goroutine interleaving of checkNamespaces / balance / removing-node handling is serialised by the doChecking / balanceWaiting flags in the real coordinator: decisions are atomic steps here",
                 "rebalanceNamespace is run with a monitor channel that is closed at the first register write, so one call performs at most one write and none of its 5 s waits is taken"],
        partial=["C18_no_removal_when_majority_dead_full is false for the code: removeNamespaceFromNode (operator API RemoveNamespaceFromNode) has no liveness guard - proved for migrate and balance, counterexample C18_remove_unguarded_witness for remove (replayed on the real code: known finding F16)",
                 "the readiness clause of C18_growth for `add` holds through its only caller (addNodeToNamespaceAndWaitReady, inside balance); addNamespaceToNode itself has no gate",
                 "doCheckNamespaces (grace-time table, the aliveCount > Replica trimming path via decideUnwantedRaftNode, removings first) is driven on the real code and judged by the oracle only (act check); processRemovingNodes is not driven; their writes go through the modelled removeNamespaceFromNode / addNamespaceToNode"],
        assumptions=["start info valid (Inv): <= 1 removal pending, ISR a strict majority, raft nodes pairwise different, ids <= MaxRaftID"],
        level_text="Theorems about the executable Lean model of handleNamespaceMigrate, addNamespaceToNode, removeNamespaceFromNode, removeNamespaceFromRemovings and rebalanceNamespace (one-partition namespace), for every valid start info and every sequence of environments (alive set, data-node answers, CAS result, ANY answer of the layout function) and decisions: every info handed to the register has <= 1 pending removal, a duplicate-free ISR that is a strict majority of the replication factor (IsISRQuorum proved to be exactly that, even factors included), ids <= MaxRaftID and never reused; a decision adds at most one node, only with no removal pending, after every ISR member reported ready, with id = MaxRaftID+1; migrate and balance never mark a removal without a live majority. All guards are regenerated from the Go source. The model is tied to the code by a differential run of the real decision methods against an in-memory register and loopback data-node stubs (10k-400k decisions per run), each logged write also judged by an independent Go oracle.",
        level_note="The clause 'never marks a removal when more than half of the replicas are unreachable' fails for removeNamespaceFromNode called through the operator API (no liveness guard): proved counterexample, reproduced on the unchanged tree, listed as known finding F16.",
        technique="Lean 4 proofs over an executable model + regenerated guards + differential run of the real coordinator methods against an in-memory register and HTTP stubs",
    ),
}

# properties not (yet) claimed, with the reason; bin/mkmanifest drops an entry as soon as CHECKS has it
NOT_APPLICABLE = {p: "check not built yet in this round (design in DESIGN.md §7 %s; to be claimed when its theorem module, tie and oracle run)" % p
                  for p in ['C%02d' % i for i in range(1, 21)]}

# ---- texts of the data-mapping properties after the per-family executable models were merged (hash, KV, set, list, zset)
_HASH_RULE = CHECKS['C08']['rule']
_KV_RULE = ("datacorekv / datacorettl: sessions of KV commands (set with EX/NX/XX, setnx, setex, setifeq, delifeq, getset, incr/incrby, append, setrange, expire, persist, del; get, ttl, exists, strlen, mget) and of hash commands with "
            "hexpire / hpersist / httl / hclear under the value-header (compact) expiry layout on a REAL KVNode, log timestamps placed before/at/after expiry seconds and near the uint32 overflow of the expiry instant, read clock steered independently of the log time; every answer line is compared with the executable Lean models (KVExec, HashTTLExec)")
CHECKS['C08'].update(
    rule=_HASH_RULE + " || " + _KV_RULE + " || " + DATACORE_SET_RULE + " || " + DATACORE_LIST_RULE + " || " + DATACOREZSET_RULE,
    trusted=CHECKS['C08']['trusted'] + DATACORE_COLL_TRUST + DATACOREZSET_TRUST,
    partial=[x for x in CHECKS['C08']['partial'] if not x.startswith('everything except')] + DATACOREZSET_PARTIAL + [
        "not modelled (no theorem, no differential run; exercised only by the oracles of C07/C09-C11): bitmap, HyperLogLog, JSON, geo, index commands, *mclear, LTrimFront/LTrimBack, hincrby; table key counter",
        "hash: HGET/HSET/HDEL have refinement theorems; HMSET, HGETALL, HKEYS, HVALS, HCLEAR are tied by the differential run only",
        "zset: exclusive score bounds are implemented as x+-1 (deviation from redis: ZRANGEBYSCORE k (1 +inf skips 1.5), witness theorem C08Z_exclusive_bound_witness; stated as a deviation, not claimed as redis behaviour"],
    assumptions=DATACOREZSET_ASSUME + ["set/list/zset/hash models: local-deletion layout, one entry per apply event, keys inside the server limits"],
    level_text="Theorems over five executable storage-level models that mirror rockredis branch by branch over the sorted reference store with the REAL key codec "
               "(hash: HashExec; KV with the value header: KVExec; set: SetExec; list: ListExec; sorted set: ZSetExec/ZSetCmd incl. float text<->bits for half-integers): refinement of every modelled write and read to the plain redis-like "
               "specification of its type (KV: key -> (value, expiry) with KVSpec; hash: key -> field -> value; set: key -> finite set; list: key -> sequence; zset: member -> score with redis index arithmetic for ZRANGE/ZREVRANGE), "
               "replies included, with the representation invariant of each type proved reachable-closed. Every deviation from redis the proofs forced out is stated as a witness theorem (C08_dev_*, C08Z_exclusive_bound_witness). "
               "Each model is tied to the real code line by line: real KVNode, real leader-side handlers (incl. the pre-checks that answer without raft), real proposal and apply path, real read handlers, mem and pebble engines.",
    level_note="claimed for the five modelled command families (about 75 commands); commands outside them have no theorem (listed under partial); 'behaves like redis' holds up to the listed witness deviations",
    technique="Lean 4 refinement proofs over executable storage models running the real key codec + line-by-line differential run against a real KVNode",
)
CHECKS['C09'].update(
    rule=CHECKS['C09']['rule'] + " || " + DATACORE_SET_RULE + " || " + DATACORE_LIST_RULE + " || " + DATACOREZSET_RULE,
    trusted=CHECKS['C09']['trusted'] + DATACORE_COLL_TRUST + DATACOREZSET_TRUST,
    partial=["hash: invariant preservation is a theorem for HSET; HDEL / HMSET / HCLEAR are covered by the differential run and the oracle",
             "collections above 5000 elements (DeleteRange / batch-size branches) are in the models and theorems; on the real code they are exercised by protocol data's big-collection session only",
             "TTL layouts (compact) for set/list/zset: oracle only"],
    assumptions=DATACOREZSET_ASSUME,
    level_text="Theorems: for set, list and sorted set the representation invariant (stored size = number of member/element keys = number of index keys; member<->index bijection with equal scores; list head/tail window contiguous; meta present iff non-empty) "
               "is preserved by EVERY write command of the family (SADD SREM SPOP SCLEAR; LPUSH RPUSH LPOP RPOP LSET LTRIM LCLEAR; ZADD ZREM ZINCRBY* ZREMRANGEBYRANK/SCORE/LEX ZCLEAR) and holds in every reachable state; the property's equalities "
               "(SCARD=|SMEMBERS|, LLEN=|LRANGE 0 -1|, ZCARD=|ZRANGE|=|ZRANGEBYSCORE -inf +inf|=|ZRANGEBYLEX - +|, each member once with ZSCORE's score, ZRANK=position, xKEYEXIST<=>size>0) are corollaries. Hash: size-meta invariant preserved by HSET. "
               "The models are tied to the real code line by line (protocols datacore*), and the same equalities are evaluated through read commands after every apply event of the mixed-command sessions of protocol data.",
    level_note="proved on executable models tied by differential runs; hash beyond HSET and the TTL layouts of collections are oracle-only",
    technique="Lean 4 invariant proofs over executable storage models + differential run + invariant oracle after every apply event on the real store",
)
CHECKS['C12']['partial'] = [x for x in CHECKS['C12']['partial'] if 'C12_float_order' not in x] + [
    "float scores: order preservation, injectivity modulo +-0 and decoder round trip are now theorems (Props/C12Float.lean, on IEEE bit patterns; NaN excluded, witness of the NaN collision included); Go's float comparison is taken to be the order on those bit patterns for non-NaN values"]
CHECKS['C12']['trusted'] = [x for x in CHECKS['C12']['trusted'] if 'float scores' not in x] + ["float64 <-> bit pattern conversion (math.Float64bits) and Go's < on non-NaN floats = the order of the modelled bit patterns"]

# ---- the log layer of raft (work package wI), merged into C02
_C02LOG = dict(
        gens=['Raft'],
        props='ZanVerif.Props.C02Log',
        protos=[dict(name='raftlog', quick_seeds=20, thorough_seeds=25)],
        rule=("300 (quick) / 900 (thorough) sessions x 60-80 calls per seed on a REAL unexported raftLog + unstable over a real MemoryStorage, "
              "method by method through the overlay exports (append, maybeAppend with matching / conflicting / stale prev, findConflict, commitTo, "
              "maybeCommit, appliedTo, stableTo, stableSnapTo, restore, slice, entries, nextEnts with MaxCommittedSizePerReady pagination, term, matchTerm, "
              "isUpToDate, newLog restart; storage Append / Compact / CreateSnapshot / ApplySnapshot / Entries / Term), five session kinds: raft-legal life, "
              "mostly legal, arbitrary (illegal) calls, Ready/Advance cycles of a REAL raft.Node (RestartNode, StepNode, Advance) over the same log, and a REAL "
              "RocksStorage on the mem engine (Append incl. suffix overwrite, CreateSnapshot, Compact, ApplySnapshot ahead of / inside the log, FirstIndex, LastIndex, Term, Entries; raw caches + DB content compared); "
              "arguments are relative to the current state and resolved by each side against its own state; every answer carries the result "
              "(value | err:compacted|unavailable|snapoutofdate | panic:<class>, state rolled back after a panic) and a FULL state dump (committed, applied, offset, "
              "unstable snapshot + entries, storage snapshot meta + all entries incl. the dummy, first/last index, term(i) for every index, wf flag, node bookkeeping); "
              "every call is compared whatever its outcome (value, error, panic); the outcome distribution (panic classes, error kinds, accepted / rejected / truncating maybeAppend, clean node cycles, paginated Readys, Readys with snapshot + entries) is in coverage.correspondence.notes; distinct = distinct op lines"),
        trusted=["the Go-side accessors in harness/overlay/raft/verif_export.go (add-only wrappers of the unexported methods; Save/Load roll a panicked call back)",
                 "uint64 arithmetic is modelled on Nat with the four wrap-around sites made explicit (see the header of lean/ZanVerif/Raft/LogModel.lean); indexes < 2^64",
                 "Entry.Size() is modelled for entries with Type = DataType = Timestamp = 0 (what the harness builds)"],
        partial=["RocksStorage: only the index bookkeeping is modelled (DB as a sorted list, snapshot meta, the two caches); the 1000-entry intermediate commits of writeEnts, DeleteFilesInRange, engine errors and the rocksdb/pebble engines are not (mem engine only)",
                 "raftLog is tied on MemoryStorage only; raftLog over RocksStorage (whose FirstIndex follows the snapshot index and whose ApplySnapshot keeps a stale tail, F16) is not run",
                 "the node driver model covers a node with empty queues (no message, tick, proposal, conf change): Term / Vote / SoftState constant",
                 "the link from the executable raft core (raft.go Step) to the abstract actions is not part of this check; `C02_op_refines` / `C02_recvApp_image` are its log-layer half"],
        assumptions=['calls within the stated contracts (`Legal`) for the preservation / refinement theorems; the spec theorems of single functions state their own hypotheses'],
        level_text=("Theorems about the EXECUTABLE model of raftLog + unstable + MemoryStorage (mirrors raft/log.go, log_unstable.go, storage.go function by function; every Go panic and error an explicit outcome), "
                    "for ALL logs and arguments: the well-formedness invariant WfLog (decided by the executable wfB, printed by the driver and recomputed by the Go harness on the real state) is preserved by every "
                    "non-panicking operation called within its contract and holds in every reachable state; term / matchTerm / findConflict / maybeAppend / append / truncateAndAppend / commitTo / maybeCommit / appliedTo / "
                    "restore / stableTo / stableSnapTo / slice / nextEnts / isUpToDate and the four MemoryStorage mutators compute on `fullLog` exactly what is stated, panics fire exactly under the stated conditions; "
                    "findConflict IS the abstract matchLen and an accepted maybeAppend IS Z.LogMatch.maybeAppend on the represented whole log with the commit update of RaftAbs.recvApp (C02_maybeAppend_refines, C02_recvApp_image); "
                    "every operation refines a step on the represented whole log (C02_op_refines) and every reachable log represents one (C02_reachable_represents); nextEnts hands out exactly max(applied+1, firstIndex).. in order without gaps, "
                    "nothing above committed (C02_nextEnts_contiguous); isUpToDate and maybeCommit's guard equal the REGENERATED expressions; the node driver model (newReady / StepNode / Advance bookkeeping) is tied differentially on a real raft.Node "
                    "and refines the four-field abstraction of Raft/Handout.lean (C02_node_cycle, C02_node_inv_between_cycles); RocksStorage's cached first / last index are the true ones after every operation (C02_rocks_cached_index_inv). Model tied to the real code by >= 20 seeds x 18k differential calls with full state comparison per call."),
        level_note="raftLog on MemoryStorage; RocksStorage index bookkeeping separately (known finding F16: ApplySnapshot keeps entries above the snapshot index); raft core above the log layer is covered by C01-C03's certificate runs, not here",
        technique='Lean 4 proofs over an executable function-by-function model + differential run of the real unexported raftLog / MemoryStorage / raft.Node against it',
    )
CHECKS['C02'].update(
    rule=CHECKS['C02']['rule'] + " || raftlog: " + _C02LOG['rule'],
    trusted=CHECKS['C02']['trusted'] + _C02LOG['trusted'],
    partial=CHECKS['C02']['partial'] + _C02LOG['partial'],
    assumptions=CHECKS['C02']['assumptions'] + _C02LOG['assumptions'],
    level_text=CHECKS['C02']['level_text'] + " LOG LAYER (Props/C02Log.lean): " + _C02LOG['level_text'],
)

# ---- C17 after the repair of F5 (fillPartitionMapV2 no longer panics on old lists longer than the replica factor)
CHECKS['C17']['partial'][0] = 'an old layout with MORE partitions than requested can make moveIfUnbalanced index partitionNodes out of range (outcome panicIndex of the model, excluded by the hypothesis old.length <= parts of C17_v2_total / C17_v2_total_full; the partition count of a namespace never shrinks); C17_v2_never_empty_candidates needs no such hypothesis'
CHECKS['C17']['level_text'] = 'Theorems about the executable Lean model of getRebalancedNamespacePartitions (getNodeNameList, interleave, fillPartitionMapV1, fillPartitionMapV2 with moveIfUnbalanced and both comparators), for all inputs: v1 shape, distinct names, DC spread incl. wrap-around, leader balance; refusal iff too few nodes (over the regenerated guards); v2: every answer has exactly `replica` distinct live names per partition for every duplicate-free old layout, and v2 answers (no panic) for EVERY old layout with no more partitions than requested - old ISR lists of any length, mid-migration lists longer than the replication factor included - so that v2 either refuses (iff too few nodes) or returns a valid layout (C17_v2_total_full); the empty-candidate-set panic is unreachable for every old layout whatsoever (C17_v2_never_empty_candidates); the answer does not depend on the enumeration order of the node map. The model is tied to the code by regenerated decision expressions (guards, ring slot/step, name index, comparators, thresholds, move budget) and by 5k-1M differential evaluations per run, every op also judged by an independent Go oracle.'
CHECKS['C17']['level_note'] = 'F5 (nil.(loadItem) panic of fillPartitionMapV2 for an old ISR list longer than the replication factor) was found here and is fixed in the repository (the fill loop reuses and excludes only the first `replica` old names); its witnesses are corpus lines; v2 DC spread is oracle-checked only.'

# ---- C10: compaction filter (work package wK)
CHECKS['C10']['partial'] = [x for x in CHECKS['C10']['partial'] if 'C10_filter_safe' not in x]
CHECKS['C10']['level_note'] = 'generation model is abstract (hash-shaped); compaction filter: model + theorems + certificate runs of the real filter function with a set clock (the rocksdb compaction itself, the refresh of the cached clock and engine read errors are outside); read-path expiry only far from the boundary (wall clock)'
CHECKS['C10']['level_text'] = CHECKS['C10']['level_text'] + " Compaction filter (Props/C10Filter.lean over the executable model Data/CFilter.lean; every decision expression of rockCompactFilter.lazyExpireCheck / Filter REGENERATED from rockredis.go with Go's fixed-width arithmetic made explicit, the statement structure around them pinned): for every entry, store and clock, a value-type entry is removed only if its expiry second e satisfies e > 1500000000 and e + 172800 < clock, hence is expired by the regenerated read/write rule at every clock not behind the filter's (e < 2^32 the only size hypothesis); a collection sub-key is removed only if its collection's meta is absent, of another generation, or expired in that sense; a member of the current generation of an unexpired collection and every entry of another key type is kept; removable stays removable at later clocks; exact closed forms of both cases (lazy removal does happen; generations younger than 48 h are kept). On real stores (protocol cfilter, certificate mode): the REAL filter is called with its cached clock set on EVERY raw engine entry of stores built through the store API (all six types, EXPIRE/PERSIST, cleared / deleted / re-created collections, expiry instants up to the largest admitted one, clocks around every expiry and generation +-1 s, +48 h +-1 s, far future); the Lean driver recomputes the decoded generation, the meta lookup and the verdict of every entry with the model; the Go oracle (filter-drops-live) states the property on the raw bytes (own header decoder) and, for partial compactions that physically remove the rejected entries, on the read API."

# ---- C07: the apply-time batch operator (model Z.BatchOp over the regenerated admission rule)
CHECKS['C07']['level_text'] = CHECKS['C07']['level_text'] + (" BATCH OPERATOR: an executable model of kvbatchOperator / ApplyRaftRequest / applyEntries (admission by the REGENERATED IsBatchable "
    "- multi-key DEL excluded, batchable set, batch size bound, key not yet in the batch -, reads of admitted requests on the committed store, buffered writes, kept replies, commit before every "
    "request that is not admitted and at the end of the event; the statement structure around AddBatchKey is pinned by the translator) with the theorems C07_event_is_sequential (one apply event = "
    "sequential execution, store and replies), C07_grouping_independent and C07_two_groupings_agree (however the log is cut into apply events the result is that of the sequential execution), "
    "for every store and request list, under the stated hypothesis that batchable-named single-key requests read and write their first key only.")
CHECKS['C07']['partial'] = CHECKS['C07']['partial'] + ["the hypothesis `Admissible` of the batch-operator theorems (SET / SETEX / HMSET / single-key DEL touch only their first key) is discharged for the KV model by its shape, not for the real handlers: the table key counter (a commutative merge) and the HyperLogLog cache are outside; on the real code grouping independence is judged by the shadows"]

# ---- protocol srvmerge (work package wS): the server's merge layer on a real multi-partition server
SRVMERGE_RULE = "srvmerge: sessions on a REAL in-process server.Server (pebble, single replica, ONE namespace `default` with P partitions, P from 1,2,3,4,5,6,7,8,10,12,16 - every run has an even non-power-of-two, an odd and a power-of-two count; each partition its own raft group) through the real entry point Server.serverRedis, half of the sessions over a real TCP/RESP connection to the redis port (redcon reads and pipelines), half through an in-memory redcon.Conn that hands out pipelines like redcon; a Go shadow of everything written (per-type keyspaces) is the reference 'one store'. "
CHECKS['C15']['protos'].append({'name': 'srvmerge', 'quick_seeds': 1, 'thorough_seeds': 2, 'env': {'SRVMERGE_FOCUS': 'route,multi'}, 'classes': '(route-|multi-|pipe-|panic|hang|harness)'})
CHECKS['C15']['rule'] = CHECKS['C15']['rule'] + ' || ' + SRVMERGE_RULE + "C15 part (9 sessions x 90 ops quick, 40 x 200 thorough) over a pool of 6-15 adversarial keys in five tables (t, t2, order, order_item, a-b): writes of all five types through the server, after each one EVERY partition's node is asked directly (its own read handler) who holds the key - exactly one, the one the SDK formula and the Lean partition model compute (line-by-line comparison) - and GET / EXISTS through the server find it; EXISTS / DEL / PLSET / MGET with 1-8 keys spread over partitions, a quarter of the arguments repeated; pipelines of 2-8 commands (all SETs = rewritten to one PLSET by the server; or mixed with GET / EXISTS / DEL; one in ten all-SET pipelines carries a SET whose key no store accepts) judged by 'pipelining is transparent'; after every multi-key command the state of every touched key is read back through the server and located in the partitions"
CHECKS['C15']['level_note'] = 'murmur3 library and 64-bit int are trusted via the differential run; server-level execution (routing of every write, EXISTS / DEL / PLSET / MGET and pipelined SETs across 1-16 partitions) is driven by protocol srvmerge on a real multi-partition server: which partition holds a key is compared with the Lean partition model, replies and resulting state with a Go shadow store.'
CHECKS['C13']['protos'].append({'name': 'srvmerge', 'quick_seeds': 1, 'thorough_seeds': 2, 'env': {'SRVMERGE_FOCUS': 'scan'}, 'classes': '(scan-|panic|hang|harness)'})
CHECKS['C13']['rule'] = CHECKS['C13']['rule'] + ' || ' + SRVMERGE_RULE + "C13 part (9 sessions quick, 30 thorough): 2-5 tables whose names are prefixes of each other and neighbours in byte order (t / t2 / t_ / tt, order / order_item / orde) populated through the server with 0-55 (thorough: up to 270) keys per table and type (kv and collections of 1-5 elements; sequential names or adversarial ones with ':' ';' 0x00 0xfe 0xff, prefixes of each other) spread over all partitions; 36 (thorough 120) client loops 'feed the cursor back until it is empty' per session for SCAN / REVSCAN / ADVSCAN / ADVREVSCAN (all five types) / FULLSCAN, COUNT omitted, 1, 2, 3, 7, 100 and k*P, a quarter with MATCH (patterns of literals, * and ?); reverse loops start from the cursor base64(pid:base64(ff ff ff ff);...) for every partition; oracle: every key of the table and type exactly once (FULLSCAN: every element of every key exactly once), nothing of another table or type, termination within keys+2P+8 rounds, ascending (reverse: descending) order inside each partition, with MATCH exactly the matching subset; SCAN / REVSCAN additionally with a client that repairs the returned cursor (see known finding C13-merged-scan-cursor-table-twice)"
CHECKS['C13']['level_note'] = "ADVSCAN's table rule is differential/oracle only; MATCH and the server's cross-partition cursor packing (server/scan_merge.go) are driven by protocol srvmerge on a real multi-partition server and judged by the oracle only"
CHECKS['C11']['protos'].append({'name': 'srvmerge', 'quick_seeds': 1, 'thorough_seeds': 2, 'env': {'SRVMERGE_FOCUS': 'raw'}, 'classes': '(process-died|panic|no-reply|hang|harness)'})
CHECKS['C11']['rule'] = CHECKS['C11']['rule'] + ' || ' + SRVMERGE_RULE + "C11 part: the server runs in a CHILD process (a panic inside a goroutine of the merge layer has no recover and kills the whole process); 4 x 400 (quick) / 20 x 2500 (thorough) argument vectors for SCAN / REVSCAN / ADVSCAN / ADVREVSCAN / FULLSCAN / HIDX.FROM / EXISTS / DEL / PLSET (30% from the vector generator of protocol mergeargs: malformed cursors and types, COUNT / MATCH / WHERE words at wrong places, negative / huge / non-numeric numbers, dropped and duplicated arguments; 40% valid merge commands with one adversarial argument - COUNT negative / -P / huge / non-numeric, every WHERE condition of the pool with and without a post command, MATCH patterns that do not compile, valid and damaged cross-partition cursors base64(pid:base64(cursor);...) - which get past the server's own argument handling into the partitions' handlers; the rest EXISTS / DEL / PLSET / SET / GET / MGET over malformed, foreign-namespace, over-long keys) are sent over TCP, the first child of a run has 1 or 2 partitions; each request is followed by a PING: the process must be alive (process-died), the connection must still answer (hang), must not have been closed by the server's recover (panic:conn-closed) and the request must have been answered at all (no-reply)"
CHECKS['C11']['level_note'] = "the extractor understands constant indexes and len guards, not data flow (a negative SETRANGE offset was found by the fuzz, not by the table; fixed); redcon parsing and the server's connection-level recover are outside"
CHECKS['C15']['partial'] = ['MGET across partitions is not a merge command in this tree (routed by first key): known finding C15-mget-not-merged, reproduced by protocol srvmerge on the real server', 'srvmerge judges the multi-key commands by a Go shadow store (oracle), the Lean theorem C15_merge_equals_single_store covers the counting argument only; DEL counts a repeated existing key per occurrence exactly as one store of this code base does (`DEL k k` = 2, redis: 1; counted in the notes as deviation-from-redis)']
CHECKS['C13']['trusted'] = ['MATCH: the store matches the pattern against `table:key` for key scans and against the key part for FULLSCAN of collections, a client sees key parts only; the srvmerge oracle accepts either reading for patterns that do not start with `*` and counts which one the code took (notes match-reading:*); its own matcher knows literals, * and ? only', 'srvmerge is oracle-only for scans (no Lean model of the cross-partition cursor codec)']
CHECKS['C13']['partial'] = [x for x in CHECKS['C13']['partial'] if 'negative COUNT' not in x and not x.startswith('MATCH;')] + ['MATCH: oracle only (protocols scan: fullm/cfullm; srvmerge); stability under concurrent insert/remove between pages not built', 'a negative COUNT is refused (fix 4c13001)']
CHECKS['C11']['partial'] = ['C11_error_no_effect / C11_next_command_unaffected are oracle-only', 'read commands and merge commands: fuzz only (merge commands: through the real Server.serverRedis of a multi-partition server in a child process, protocol srvmerge; survival and reply presence only)']

# ---- C11: "an erroring command changes nothing" on the executable storage models (Props/C11Models.lean)
CHECKS['C11']['props'] = ['ZanVerif.Props.C11', 'ZanVerif.Props.C11Models']
CHECKS['C11']['level_text'] = CHECKS['C11']['level_text'] + (" ERROR => NOTHING CHANGED on the executable storage models that are tied line by line to the real validation + apply path (C08's protocols): "
    "for every store, key, argument vector and log time, a KV write (13 commands incl. SET options, SETEX, SETIFEQ, GETSET, INCRBY, APPEND, SETRANGE, EXPIRE, PERSIST), SADD / SREM, LPUSH / RPUSH / LPOP / RPOP / LSET / LTRIM and every "
    "sorted-set write (ZADD ZREM ZINCRBY ZREMRANGEBYRANK/SCORE/LEX ZCLEAR) that answers an error leaves the store exactly as it was (C11_kv_error_no_effect, C11_sadd/srem/lpush/lpop/lset/ltrim_error_no_effect, C11_zset_error_no_effect).")
CHECKS['C11']['partial'] = [x for x in CHECKS['C11']['partial'] if not x.startswith('C11_error_no_effect')] + ['error => nothing changed is a theorem for the KV / set / list / zset models (Props/C11Models.lean); hash commands of the model have no error outcome; "nothing leaks into the next command" (the shared write batch) is oracle-only']

# ---- C06/C03: the persist-before-publish rule as a theorem over the regenerated decision
CHECKS['C06']['gens'] = CHECKS['C06']['gens'] + ['WalSync']
CHECKS['C06']['level_text'] = CHECKS['C06']['level_text'] + (" PERSIST BEFORE PUBLISH: over the REGENERATED shouldWaitWALSync (node/raft.go) and the pinned statement order of processReady (early persist before publishEntries): "
    "for every Ready of one log with non-decreasing terms, either the Ready is persisted before its committed entries are handed to the apply loop, or every committed entry lies strictly below the first unstable one (C06_publish_only_persisted).")

# C04, kill -9: 3-process groups of protocol crash with a SIGKILL of the leader / a follower in the MIDDLE of the history (killat), the
# client going on with the new leader and the victim coming back meanwhile (CRASH_FOCUS=cluster makes the generator emit only these)
CHECKS['C04']['protos'].append({'name': 'crash', 'mode': 'cert', 'quick_seeds': 1, 'thorough_seeds': 1, 'env': {'CRASH_FOCUS': 'cluster'}})
CHECKS['C04']['rule'] = CHECKS['C04']['rule'] + ("; protocol crash (CRASH_FOCUS=cluster): quick 6 / thorough 60 runs of a 3-PROCESS group (three zvh child processes, "
    "real server.Server each, raft over rafthttp, snapshot transfer between their directories), one client, SIGKILL of the leader or a follower after a random number "
    "of acknowledgements in the middle of 120-200 writes, the client goes on with the new leader (what the dead leader left unanswered is optional), the victim is "
    "restarted a fifth of the history later or at the end; plus 1 / 4 runs in which the leader applies ONE entry 4.5 s late (slow step at apply.entry.before, beyond the 4 s proposal timeout; GOMAXPROCS=1 in the children; LPOPs of a filled list right behind the stalled entry); after settling EVERY replica is dumped and checked by CrashCert.checkCrash; Go oracle: acked-lost, "
    "wrong-reply, phantom-write, not-a-prefix, replica-diverge, restart-failed")
CHECKS['C04']['assumptions'] = ["kill -9 runs have one (pipelining) client; concurrent clients only under graceful faults (protocol lin)", "one partition, one namespace, <= 4 keys per history"]
CHECKS['C04']['level_text'] = CHECKS['C04']['level_text'] + (" KILL -9: C04_kill9_acked_never_lost — every replica dump accepted by the crash certificate checker is the sequential "
    "replay of a sub-sequence of the sent writes, in the order sent, that contains every acknowledged write (tie: 3-process runs with SIGKILL in mid-history).")

# C09, hash: HDEL and HCLEAR invariants + every reachable state (Props/C09Hash.lean)
CHECKS['C09']['props'] = CHECKS['C09']['props'] + ['ZanVerif.Props.C09Hash']
CHECKS['C09']['level_text'] = CHECKS['C09']['level_text'] + (" HASH (Props/C09Hash): the size invariant is preserved by HDEL and HCLEAR too, hence "
    "C09H_reachable: after ANY sequence of HSET/HDEL/HCLEAR, HLEN = number of enumerated fields and meta present <=> non-empty, for every key (abstract codec facts of C12; "
    "the executable functions diffed by `datacore` are these by rfl).")

# C01, membership: the pending-configuration-change guard of raft.hup (regenerated: Gen/Hup.lean) over the C02 log-layer model
_p = CHECKS['C01']['props']
CHECKS['C01']['props'] = (_p if isinstance(_p, list) else [_p]) + ['ZanVerif.Props.C01Hup']
CHECKS['C01']['gens'] = CHECKS['C01']['gens'] + ['Hup']
CHECKS['C01']['level_text'] = CHECKS['C01']['level_text'] + (" MEMBERSHIP (Props/C01Hup): over the REGENERATED guard of raft.hup (scan of applied+1..committed with noLimit, blocking test, "
    "numOfPendingConf, campaign only behind the guard) and the function-by-function log model of C02: C01_no_campaign_with_pending_conf_change — for every well-formed log a replica that goes "
    "on to campaign has NO configuration change among its committed-but-unapplied entries, however many bytes of ordinary entries precede it (C01_hup_scan_complete, witness of a size-limited scan missing one).")

# C16: the real streamWriter goroutine (batching, forced flush, backlog at attach time) between a queue and the real decoders
CHECKS['C16']['protos'].append({'name': 'streamw', 'mode': 'oracle', 'quick_seeds': 1, 'thorough_seeds': 2})
CHECKS['C16']['rule'] = CHECKS['C16']['rule'] + ("; protocol streamw (oracle): backlogs of 1 .. 3*streamBufSize/2+7 messages of 1-4 interleaved groups (sizes around the forced-flush limit streamBufSize/2 and the "
    "channel capacity), queued before / while the connection is attached, through the REAL streamWriter goroutine of both stream types, read back by the real decoders: same sequence")
# ---- C15: the data node's namespace registry (work package wV): which partition count routing uses when a namespace is re-created
CHECKS['C15']['props'] = ['ZanVerif.Props.C15', 'ZanVerif.Props.C15Registry']
CHECKS['C15']['gens'] = CHECKS['C15']['gens'] + ['Registry']
CHECKS['C15']['protos'].append(dict(name='nsreg', spec=True, quick_seeds=2, thorough_seeds=2))
CHECKS['C15']['rule'] = CHECKS['C15']['rule'] + (" || nsreg: sessions on a REAL node.NamespaceMgr (rafthttp transport, nsMgr.Start(); every partition a real single-replica raft group on pebble created by InitNamespaceNode and really started with Start(false), removed by NamespaceNode.Destroy + the stopped callback) "
    "with 2-3 base names per session (a, ns, default, t_1, X9; every other session also names containing '-' and digits: a-1, ns-2-x, b-0, x-y, thorough: the trailing-dash name a- next to a), their scripts interleaved step by step; per base name a first generation with 1-8 (thorough: up to 16) partitions, complete or partial (only some partitions local), then 1-3 transitions: "
    "re-create N->M with the partitions replaced one after another in a random order (an old partition still registered when the first new one is created; M larger / smaller / not dividing / 1), re-create after all partitions are gone, a partition of another generation that comes and goes while the old ones stay, restart of partitions with the same count, error cases (count 0 / negative, a registered full name again with another count, destroy of an absent partition); "
    "after every step 2-16 routed keys (sequential tb:keyN and the adversarial keys of protocol c15), meta and registry dumps; 14 sessions (~5000 ops) per quick seed, 150 per thorough seed; every line compared with the Lean registry model, the Go oracle judges routing by the SDK formula in every state without a partition of an older generation; non-trivial = answered without error; distinct = distinct op lines")
CHECKS['C15']['level_text'] = CHECKS['C15']['level_text'] + (" NAMESPACE REGISTRY (node/namespace.go NamespaceMgr: InitNamespaceNode, onNamespaceStopped, GetNamespaceNodeWithPrimaryKeySum, common.GetNsDesp / GetNamespaceAndPartition modelled character by character): for EVERY sequence of partition creations, stops and routings from the empty registry "
    "(partition indexes machine ints >= 0): a registered partition always has its meta and the meta is the partition count of the LAST successful creation of that base name; for base names without '-' the meta exists iff a partition is registered; routing answers partition sdkPartition(pk, N) for that N - never an index >= N - and partition-not-found exactly when that partition is not registered; "
    "after a namespace was re-created with count N (only N used for the base since, one creation succeeded) and 0..N-1 are registered, every key is served by exactly one registered node, the partition the client computes with N, and with no older partition left it is one created with N (C15_recreate_completed). "
    "The model is tied to a real NamespaceMgr with real raft groups line by line (protocol nsreg); as its answers are what the property prescribes, a differing answer of the real code is a failing input. "
    "The decisions of InitNamespaceNode (PartitionNum guard, mismatch test, what is stored on first creation and on a mismatch) are REGENERATED from the source into Gen/Registry.lean and the invariants are re-proved over them on every run; the statement order of InitNamespaceNode, the stopped callback, the routing lookup and GetNsDesp / GetNamespaceAndPartition are pinned by the extractor.")
CHECKS['C15']['partial'] = CHECKS['C15']['partial'] + [
    "registry: the count of the registered partitions alone does not fix the divisor (theorem C15_registered_counts_alone_do_not_fix_the_meta, witness init a 0 2; init a 1 2; init a 2 3; destroy a 2; route a 'k3' -> a-0 while a client of the 2-partition namespace computes a-1): the registry follows the LAST creation; which generation a same-named partition belongs to (magic code) and when the coordinator replaces old partitions is outside this model",
    "registry: a base name containing '-' never parses back from its full name (GetNamespaceAndPartition splits at the first '-'), so its meta is not dropped when its last partition stops (theorem C15_dash_base_keeps_meta; the placement driver refuses such names: common.IsValidNamespaceName); routing is unaffected",
    "registry: partitions are always started (the IsReady branch of routing is not reachable in protocol nsreg); the shared rocksdb WAL of the meta (walEng, UseRocksWAL) is off; Close() instead of Destroy() and concurrent init / stop / route are not driven"]
CHECKS['C15']['assumptions'] = CHECKS['C15']['assumptions'] + ["registry theorems: partition indexes are ints in [0, 2^63) (strconv.Itoa / Atoi round trip)"]
CHECKS['C15']['technique'] = CHECKS['C15']['technique'] + " + executable registry model vs a real NamespaceMgr with real raft groups"
# ---- HINCRBY in both executable hash models (Data/HashIncr.lean + HashExec.lean: local-deletion layout; Data/HashTTLExec.lean:
#      value-header layout), stated over the regenerated decisions of rockredis HIncrBy (Gen/HIncr.lean)
_HINCR_RULE = ("HINCRBY (protocols datacore / datacorettl): field values and increments at the int64 boundaries, the forms strconv.ParseInt(.,10,64) accepts (+5, -0, 007) and refuses "
               "(' 5', '5 ', 0x10, 1_0, 1.5, empty, sign only, non-ASCII digit), out of range by one, 38-digit strings; sequences HSET f v / HINCRBY f d / HDEL f / HINCRBY f d' as one apply event and as four; "
               "apply events of 2-5 hash writes (about one write in ten); under the value-header layout HINCRBY one nanosecond before / at / after the expiry second, after HPERSIST, after HEXPIRE 0, "
               "and as the re-creating write of the equal-timestamp bursts; fixed scenario files corpus/C08|C09|C10|C11/datacore*-hincrby.txt are replayed first")
for _p in ('C08', 'C09', 'C10', 'C11'):
    CHECKS[_p]['gens'] = CHECKS[_p]['gens'] + ['HIncr'] + (['HIncrShape'] if _p in ('C08', 'C11') else [])
    CHECKS[_p]['rule'] = CHECKS[_p]['rule'] + " || " + _HINCR_RULE
    CHECKS[_p]['trusted'] = [x.replace('only the hash family under the local-deletion layout (no versions, no TTL) is in the executable model; one entry per apply event; well-formed commands',
                                       'only the hash family (incl. HINCRBY) under the local-deletion layout (no versions, no TTL) is in the executable model of protocol datacore; apply events of 1-5 hash writes; well-formed commands')
                             for x in CHECKS[_p]['trusted']]
CHECKS['C08']['partial'] = [x.replace('LTrimFront/LTrimBack, hincrby; table key counter', 'LTrimFront/LTrimBack; table key counter')
                             .replace('hash: HGET/HSET/HDEL have refinement theorems;', 'hash: HGET/HSET/HDEL/HINCRBY have refinement theorems;')
                            for x in CHECKS['C08']['partial']] + [
    "HINCRBY: C08_abs_hincrby carries the size invariant (needed: witness C08_hincrby_needs_invariant; reachable stores satisfy it, C09) and the no-wrap hypothesis: int64 addition wraps silently "
    "(deviation from redis, witness C08_dev_hincrby_wraps, same as INCRBY); integer texts are Go's strconv.ParseInt(.,10,64) (+5, -0, 007 accepted: C08_hincrby_integer_syntax), not redis's string2ll; "
    "HINCRBYFLOAT is not a command of this tree (answers 'invalid command'): nothing to model"]
CHECKS['C08']['level_text'] = CHECKS['C08']['level_text'] + (" HINCRBY (both hash models mirror rockredis HIncrBy over the REGENERATED guard/parse/order facts Gen/HIncr): under the size invariant and when the exact sum fits int64 "
    "the reply and the abstraction are the specification's field := old + delta (missing = 0), reply = new value, every other field and key untouched, a non-integer value answers the error and changes nothing "
    "(C08_abs_hincrby, C08_hincrby_frame, C08_hincrby_cmd for the raw increment argument).")
CHECKS['C09']['partial'] = [x.replace('hash: invariant preservation is a theorem for HSET; HDEL / HMSET / HCLEAR', 'hash: invariant preservation is a theorem for HSET and HINCRBY (and every state reachable by them: C09_inv_reachable_hset_hincrby); HDEL / HMSET / HCLEAR')
                            for x in CHECKS['C09']['partial']]
CHECKS['C09']['level_text'] = CHECKS['C09']['level_text'].replace('Hash: size-meta invariant preserved by HSET.', 'Hash: size-meta invariant preserved by HSET and by HINCRBY (new field, existing field, error; also on the raw increment argument).')
CHECKS['C09']['level_note'] = CHECKS['C09']['level_note'].replace('hash beyond HSET', 'hash beyond HSET / HINCRBY')
CHECKS['C10']['level_text'] = CHECKS['C10']['level_text'] + (" HINCRBY under the value header (Props/C10Hash.lean over Data/HashTTLExec.hincrby, stated over the regenerated `hGetRawFieldValue(checkExpired)` guard): on a hash that is dead at the log time "
    "the increment starts from 0 whatever the dead generation stores, in a NEW generation that shows exactly the one field and has no TTL (C10_hincrby_no_resurrection, C10_hincrby_dead_after_expiry: same answer as on the store without the key); "
    "on a live hash it works on the live generation and keeps generation and expiry second, or answers an error and changes nothing (C10_hincrby_live_keeps); the fresh-version proviso is needed here too (C10_equal_ts_witness_hincrby).")
CHECKS['C10']['partial'] = CHECKS['C10']['partial'] + [
    "HINCRBY at the log timestamp of a dead generation whose field keys are still stored (known finding C10-generation-equals-timestamp): HINCRBY on a stale field answers its result but writes no size meta - the acknowledged increment is invisible "
    "(HLEN 0, HGET nil); on another field it brings the stale fields back (witness C10_equal_ts_witness_hincrby, replayed on the real code by corpus/C10/datacorettl-hincrby.txt)"]
CHECKS['C11']['protos'] = CHECKS['C11']['protos'] + [
    dict(name='datacore', spec=True, quick_seeds=1, thorough_seeds=1, classes='(panic|error-changed-state)'),
    dict(name='datacorettl', spec=True, quick_seeds=1, thorough_seeds=1, classes='(panic|error-changed-state)')]
CHECKS['C11']['level_text'] = CHECKS['C11']['level_text'] + (" HASH: HINCRBY - the one hash write with a data-dependent error (stored value not an integer / beyond int64, ill-formed increment) - leaves the store as it was whenever it answers an error, "
    "under both storage layouts, for every store, key, field, increment text and log time (C11_hincrby_error_no_effect, C11_hincrby_error_no_effect_ttl; the parse-before-write order is regenerated from HIncrBy); "
    "protocols datacore / datacorettl tie these two models line by line and compare the engine bytes around every erroring event.")
CHECKS['C11']['partial'] = [x.replace('error => nothing changed is a theorem for the KV / set / list / zset models (Props/C11Models.lean); hash commands of the model have no error outcome;',
                                      'error => nothing changed is a theorem for the KV / set / list / zset models and for HINCRBY of both hash models (Props/C11Models.lean); the other hash commands of the local-deletion model have no error outcome, '
                                      'those of the value-header model (value too large, undecodable size meta, expiry overflow) have no C11 theorem yet;')
                            for x in CHECKS['C11']['partial']]

# C14, file level: after a restore the engine directory holds exactly the checkpoint's files (Node/CkptRestore.lean), over the pinned
# statement structure of restoreFromPath / CopyFileForHardLink (Gen/Restore.lean)
CHECKS['C14']['gens'] = CHECKS['C14'].get('gens', []) + ['Restore']
CHECKS['C14']['level_text'] = CHECKS['C14']['level_text'] + (" RESTORE YIELDS THE CHECKPOINT'S FILES: C14_restore_yields_checkpoint_files — in the inode model of restoreFromPath, after a restore every "
    "non-LOG name of the engine directory reads exactly what the checkpoint holds under it and names the checkpoint does not have are gone, for every previous content of the engine directory and every answer of "
    "the isSameSSTFile heuristic; the statement structure of restoreFromPath (engine closed BEFORE the directory is listed, cleanup, copy) and of common.CopyFileForHardLink (replace unless same inode) is pinned by Gen/Restore.")

# C18: the trimming branch of the coordinator's own loop as a theorem over regenerated decisions (Gen/CoordLoop.lean)
_p = CHECKS['C18']['props']
CHECKS['C18']['props'] = (_p if isinstance(_p, list) else [_p]) + ['ZanVerif.Props.C18Loop']
CHECKS['C18']['gens'] = CHECKS['C18']['gens'] + ['CoordLoop']
CHECKS['C18']['level_text'] = CHECKS['C18']['level_text'] + (" CHECK LOOP (Props/C18Loop): over the REGENERATED decisions of doCheckNamespaces (ISR-too-short test, aliveCount loop, trimming guard; pinned: one removal per pass, "
    "through removeNamespaceFromNode, only without a removing node and with all ISR members fully ready): C18_trim_keeps_live_quorum — whenever the trimming guard lets a removal through, all ISR members are alive, and after "
    "the removal at least `replica` live members remain (a strict majority); C18_trim_refuses; witness that a non-strict comparison would break it.")

# C16: the batching loop of the stream writer as a model over its pinned statement list (Gen/StreamWriter.lean)
_p = CHECKS['C16']['props']
CHECKS['C16']['props'] = (_p if isinstance(_p, list) else [_p]) + ['ZanVerif.Props.C16Writer']
CHECKS['C16']['gens'] = CHECKS['C16']['gens'] + ['StreamWriter']
CHECKS['C16']['level_text'] = CHECKS['C16']['level_text'] + (" WRITER (Props/C16Writer): the batching loop of streamWriter.run, statement list and batch-limit test regenerated: C16_writer_batch_conserves — encoded ++ failed ++ still-in-channel "
    "= what the loop started with, for every queue, counter, buffer size and encoder behaviour (nothing is taken from the channel and dropped); C16_writer_batch_no_loss; C16_writer_batch_bounded (forced flush); witness of the seeded late-limit variant dropping a message. "
    "Tie besides the pin: protocol streamw runs the real writer goroutine.")
# ---- bitmap family (work package wX): executable model Z.BitExec (lean/ZanVerif/Data/Bit*.lean), protocol datacorebit
#      (harness/cmd/zvh/proto_datacore_bit.go, lean/Driver/DataBit.lean), Props/C08Bit, C09Bit, C12Bit, C11Models; Gen/Bit.lean
DATACORE_BIT_RULE = ("datacorebit: sessions of 25-95 bitmap commands (setbit / setbitv2 incl. clearing bits on missing keys and segments, bitclear, bexpire, bpersist; getbit, bitcount with and without range, bkeyexist, bttl) "
    "on 1-4 keys over two tables (names that are prefixes of each other, contain ':' / 0x00 / 0xff) on a REAL KVNode (real leader-side handlers, proposal capture, real apply path, real read handlers), both expiry layouts (compact 75% / local 25%), "
    "mem-btree and pebble, a third of the sessions with several entries per apply event; offsets around byte and segment boundaries (+-1 bit / byte), the growth rule of a stored segment (doubling beyond 1024 bytes), sparse far bits, the leader's "
    "maximum (MaxBitOffset) +-1 and - through `aw` lines that enter the log without the leader-side argument checks - the apply path's maximum (MaxBitOffsetV2) +-1, 2^32, 2^33, int64 extremes, negative; values other than 0 / 1, non-integer / "
    "empty / overflowing offsets and values, wrong argument counts; BITCOUNT with every start / end shape (negative, crossing segments, start > end, beyond the size, int64 extremes, non-numeric); log time stepping onto / across expiry seconds "
    "(past and future regime as in datacorettl, 2000000000 = overflow in the future regime, 0 / negative / non-numeric durations); in half of the sessions KV commands (set, setex, expire, del) on the SAME names (the legacy bitmap-in-a-string paths of "
    "GETBIT / BITCOUNT / BKEYEXIST and the conversion at the head of BitSetV2); after EVERY apply event the whole physical store (`raw`: every engine pair, values run-length coded, table key counters left out) is compared with the model's store, "
    "and `binv` lines put BITCOUNT key start end next to the number of offsets the session ever tried to set (plus the bits of every string stored under the name) that lie in the byte range and whose GETBIT is 1 (Go-side C09 oracle), "
    "`bchk` lines ask GETBIT for the bit a well-formed SETBIT just wrote (Go-side C08 oracle get-after-set, skipped while the meta carries an expiry); "
    "non-trivial = answered without error class; distinct = distinct op lines")
for _p, _cls, _spec, _q, _t in (('C08', '(get-after-set:|panic|hang|harness)', True, 1, 2), ('C09', '(count-enum-mismatch:|panic)', True, 1, 2), ('C10', '(expired-visible|resurrection|ttl-|panic)', True, 1, 1),
                                 ('C11', '(panic|error-changed-state|proposed-and-|no-reply|hang|proposal-count)', False, 1, 1)):
    _pc = dict(name='datacorebit', quick_seeds=_q, thorough_seeds=_t, classes=_cls)
    if _spec:
        _pc['spec'] = True
    CHECKS[_p]['protos'].append(_pc)
    CHECKS[_p]['gens'] = CHECKS[_p]['gens'] + ['Bit']
    CHECKS[_p]['rule'] = CHECKS[_p]['rule'] + ' || ' + DATACORE_BIT_RULE
CHECKS['C08']['props'] = CHECKS['C08']['props'] + ['ZanVerif.Props.C08Bit']
CHECKS['C09']['props'] = CHECKS['C09']['props'] + ['ZanVerif.Props.C09Bit']
CHECKS['C10']['props'] = CHECKS['C10']['props'] + ['ZanVerif.Props.C08Bit']
CHECKS['C12']['props'] = CHECKS['C12']['props'] + ['ZanVerif.Props.C12Bit']
CHECKS['C12']['gens'] = CHECKS['C12']['gens'] + ['Bit']
_BIT_TRUST = ["bitmap model: model domain = table name and key part non-empty, keys inside the server's limits (an EMPTY key part is outside: finding C11-setbit-empty-keypart); the table key counter, slow log / metrics and the time index BEXPIRE writes under local_deletion are not modelled (BEXPIRE is generated under the value-header layout only); "
              "reads use the wall clock in the code and the `now=` of the session in the model (same expiry regime, as in datacorettl); KV commands on bitmap names always close their apply event (DEL reads the committed store only)"]
_BIT_PARTIAL = ["bitmap: the model follows the code after fixes 0ad0963 (an absent / expired bitmap starts with size 0) and d794a70 (the loop of BitCountV2 breaks behind the segment of `end`, an inverted cut is clamped); both are pinned by the translator (Gen.bitDeadSizeZero, Gen.bitCountBehind, Gen.bitCountInverted, statement order of the loop body); the model has no panic outcome; the former witnesses are regression examples (C09Bit_regression_*, C08Bit_expired_size_reset, C11_setbit_expired_over_string) and corpus files (corpus/C09, C10, C11 datacorebit-*.txt)",
                "bitmap: the size invariant (stored size >= end of every stored segment of the live generation) is proved established by the SETBIT that starts a generation (from size 0: C08Bit_setbit_dead gives exactly the size of a never-used key) and kept by every later SETBIT on the key and on other keys (C09Bit_sizeOK_setbit_self / _other, hypothesis: no legacy conversion, fresh generation = the proviso of the known finding generation = timestamp), NOT as a reachability theorem over all commands (BEXPIRE / BPERSIST / BITCLEAR steps are not proved); no theorem depends on it any more (the repaired BITCOUNT is right in every well-formed store)",
                "bitmap: SETBIT theorems carry the hypothesis `no legacy conversion` (live v2 bitmap, or no string under the name); the conversion is tied by the differential run and shown by witness (C08Bit_legacy_string_lost_witness: under the value-header layout the string's bits are lost - open finding, DESIGN section 0.3; C11_setbit_conversion_size_check_dead: its size check cannot fire)",
                "bitmap: open finding outside the model domain: SETBIT with an EMPTY key part answers `invalid key size` after converting and deleting a string of that name (notes/probes/bitmap_findings.txt F-bit-4)"]
CHECKS['C08']['trusted'] = CHECKS['C08']['trusted'] + _BIT_TRUST
CHECKS['C09']['trusted'] = CHECKS['C09']['trusted'] + _BIT_TRUST
CHECKS['C08']['partial'] = [x.replace('bitmap, HyperLogLog', 'HyperLogLog') for x in CHECKS['C08']['partial']] + _BIT_PARTIAL
CHECKS['C09']['partial'] = CHECKS['C09']['partial'] + _BIT_PARTIAL[:2]
CHECKS['C10']['partial'] = CHECKS['C10']['partial'] + [_BIT_PARTIAL[0]]
CHECKS['C10']['trusted'] = CHECKS['C10']['trusted'] + _BIT_TRUST
CHECKS['C08']['level_text'] = CHECKS['C08']['level_text'] + (" BITMAP (Props/C08Bit.lean over the executable model Data/BitExec.lean, both layouts, every decision expression regenerated in Gen/Bit.lean, tied by protocol datacorebit incl. the physical store after every apply event): "
    "SETBIT on a live bitmap answers the bit GETBIT showed and afterwards GETBIT reads the new bit at that offset and the old bit at every other offset, at every read time before the expiry (C08Bit_setbit_live); on an absent or expired bitmap it answers 0 and starts an all-zero bitmap whose size is the size a never-used key gets - nothing of the expired generation survives (C08Bit_setbit_dead, under the fresh-generation proviso; regression C08Bit_expired_size_reset, fix 0ad0963); "
    "no other bitmap key (GETBIT / BITCOUNT / BKEYEXIST / BTTL) and no key of another type changes (C08Bit_setbit_other_bitmaps / _other_types, over the codec separation of Props/C12Bit.lean); the argument guards (C08Bit_setbit_guards).")
CHECKS['C09']['level_text'] = CHECKS['C09']['level_text'] + (" BITMAP (Props/C09Bit.lean): the prescribed BITCOUNT (point lookups) equals the number of offsets of the byte range whose GETBIT is 1 for the whole key and every start / end, in EVERY store (C09Bit_bitcountSpec_eq_enum); "
    "BitCountV2 as the code is (iterator from the start segment, break behind the segment of `end`, clamped cuts - fix d794a70, regenerated) answers exactly that in every well-formed store, well-formedness is preserved by every command, hence in every reachable store, and the outcome is always a number "
    "(C09Bit_bitcount_eq_enum, C09Bit_wf_reachable, C09Bit_bitcount_eq_enum_reachable, C09Bit_cut_never_inverted; regression examples C09Bit_regression_behind_end / _short_start_segment for the two repaired defects).")
CHECKS['C11']['level_text'] = CHECKS['C11']['level_text'] + " Bitmap: C11_setbit / bitclear / bexpire / bpersist_error_no_effect on the model of protocol datacorebit (both layouts); the model has no panic outcome: the apply-path panic of SETBIT over an expired bitmap and a string of the same name is repaired (fix 0ad0963; regression C11_setbit_expired_over_string; the size check of the conversion is dead: C11_setbit_conversion_size_check_dead)."
CHECKS['C10']['level_text'] = CHECKS['C10']['level_text'] + " BITMAP (Props/C08Bit.lean, protocol datacorebit): an absent or expired bitmap without a string under its name reads all-zero (C08Bit_getbit_dead_zero, C09Bit_bitcount_dead_zero); a SETBIT on it answers 0 and starts a generation without expiry, all-zero but the new bit, of exactly the size a never-used key gets (C08Bit_setbit_dead, C08Bit_expired_size_reset; fix 0ad0963)."
CHECKS['C12']['level_text'] = CHECKS['C12']['level_text'] + " Bitmap keys (Props/C12Bit.lean): segment keys injective in (table, versioned key, index), meta keys in (table, key), both type bytes apart from each other and from every other tuple, segment keys of a generation ordered by index below its stop key, iterator range isolation."

# ---- C13: theorems for the KEY scans (ADVSCAN / ADVREVSCAN over one table of a multi-table store): Data/ScanKeyLemmas.lean,
#      Props/C13.lean C13_key_scan_*; their examples are replayed on the real node by corpus/C13/scan-keyscan-theorem-examples.txt
CHECKS['C13']['level_text'] = CHECKS['C13']['level_text'] + (" KEY SCANS (ADVSCAN / ADVREVSCAN, the functions advPage / advFull that protocol scan runs against the real merge handlers): "
    "for EVERY ascending duplicate-free population of raw keys of any number of tables (no condition on the keys: neighbour tables t / t! / t0, a key `t:` with an empty key part, "
    "keys that are prefixes of each other, keys without ':'), every table name without the byte ':' (the empty one included), EVERY start cursor, every COUNT in 1..5000 and fuel >= results/COUNT + 1: "
    "the client loop 'feed the cursor back as table:cursor until it is empty' returns exactly the keys of that table beyond the cursor - a filter of the population, so each once, in key order, nothing of a "
    "neighbouring table - forwards in exactly results/COUNT + 1 rounds (C13_key_scan_forward), in reverse the keys before the cursor in descending order in results/COUNT or results/COUNT + 1 rounds "
    "(C13_key_scan_reverse; the smaller number only when a full page ends with the key `t:`); with a filter (MATCH as the driver applies it) exactly the matching ones (C13_key_scan_match, both directions); "
    "COUNT 0 / omitted (pages of 100, only the EMPTY page is called last): same answer within results/100 + 2 rounds (C13_key_scan_default_count). The proof rests on the contiguity of a table in byte order "
    "(between two keys with prefix `t:` there are only keys with prefix `t:`), the next cursor being the last key of a full in-table page, and the table-boundary cut being a takeWhile of a prefix. "
    "COUNT > 5000 is proved NOT to be complete: the store clamps the page to 5000 while the node compares with the unclamped COUNT, so the loop ends after one round with the first 5000 keys "
    "(C13_key_scan_count_over_5000, _incomplete, _witness on 5001 keys by kernel evaluation; the real node answers the same: notes/probes/C13-count-over-5000.*).")
CHECKS['C13']['partial'] = [x for x in CHECKS['C13']['partial'] if not x.startswith('key scans (ADVSCAN')] + [
    "COUNT > 5000 (key scans and HSCAN/SSCAN/ZSCAN alike): the scan ends after its first page of 5000 elements with the empty cursor (`length < count` in node/scan.go against the page clamped by checkScanCount); "
    "theorem for the key-scan model (C13_key_scan_count_over_5000*), reproduced on the real node by notes/probes/C13-count-over-5000.ops (oracle: scan-wrong-result); the generator has COUNT 5001 only on populations of <= 25 keys, "
    "so the checks do not meet it; the collection-scan theorems assume COUNT <= 5000",
    "key scans: table names containing ':' are outside the theorems (no raw key has such a table: C13_key_scan_table_with_colon_witness); MATCH is a theorem for the model's reading (paging over the matching keys), "
    "general glob patterns stay oracle-only"]
CHECKS['C13']['assumptions'] = [x for x in CHECKS['C13']['assumptions'] if not x.startswith('1 <= COUNT')] + [
    "collection-scan theorems: 1 <= COUNT <= 5000; key-scan theorems: 0 <= COUNT <= 5000 (0 = default 100; a negative COUNT is refused by parseScanArgs; beyond 5000 see partial), table name without ':'"]
CHECKS['C13']['level_note'] = CHECKS['C13']['level_note'].replace("ADVSCAN's table rule is differential/oracle only; ", "COUNT > 5000 truncates the scan (proved of the model, reproduced on the real node); ")

# C13 after fix fbc9256 (COUNT clamped by parseScanArgs): regenerated COUNT handling (Gen/Scan.lean), positive any-COUNT theorem
CHECKS['C13']['gens'] = CHECKS['C13'].get('gens', []) + ['Scan']
CHECKS['C13']['level_text'] = CHECKS['C13']['level_text'] + (" SINCE FIX fbc9256 the node clamps COUNT to the store's page limit when it parses it (parseCount, regenerated from parseScanArgs): "
    "C13_key_scan_any_count — the key-scan loop is complete for EVERY COUNT >= 1, both directions; the C13_key_scan_count_over_5000* theorems now describe the unclamped loop (the repaired defect), "
    "and the former probe is replayed from corpus/C13/scan-count-over-5000.txt on every run.")
CHECKS['C13']['partial'] = [x for x in CHECKS['C13']['partial'] if not x.startswith('COUNT > 5000')] + [
    "COUNT > 5000: clamped by parseScanArgs since fbc9256 (model: parseCount); the collection-scan theorems are stated for 1 <= COUNT <= 5000, which is every COUNT that reaches them"]

# C04: the proposal wait table with POOLED wait channels (work package wA2; after fix 184e1b3: wA3): model Node/WaitTable.lean over the
# regenerated decisions Gen/WaitTable.lean, theorems Props/C04Wait.lean ("a request is woken only by its own result")
_p = CHECKS['C04']['props']
CHECKS['C04']['props'] = (_p if isinstance(_p, list) else [_p]) + ['ZanVerif.Props.C04Wait']
CHECKS['C04']['gens'] = CHECKS['C04']['gens'] + ['WaitTable']
CHECKS['C04']['level_text'] = CHECKS['C04']['level_text'] + (" WAIT TABLE (Props/C04Wait, model Node/WaitTable): ProposeInternal / queueRequest's wait function / waitReqHeaders.release and "
    "pkg/wait RegisterWithC / Trigger as a small-step model (wait table, one-place channels, the pool of released headers, in-flight requests), over the REGENERATED decisions (stale-signal replacement test, "
    "Trigger on timeout / cancel, Trigger on a failed propose, Trigger stores and signals UNDER the lock [fix 184e1b3]; pinned: registration before the propose call, release leaves `done` alone, statement lists of "
    "RegisterWithC and Trigger). For EVERY schedule of any number of clients, the apply path and a pool that hands any released header to any later proposal — no schedule condition: "
    "C04_wait_woken_only_by_own_result — a waiter that wakes with a success result does so only after `applied` of its OWN id, with exactly that result; C04_wait_ends_once (every configuration, every schedule); "
    "C04_wait_no_registration_leak (+ no Trigger is ever half-done, neither Panicf can fire); C04_wait_code — all of it for the configuration regenerated from the current tree. Witnesses: the seeded variants "
    "without the replacement test (C04-m1) / without the Trigger on timeout (C04-m4) violate (a). REPAIRED DEFECT (184e1b3), kept as theorems about the pre-fix configuration Cfg.preFix (Trigger in TWO steps: "
    "lookup+delete under the lock, store+signal after it): C04_wait_FIXED_trigger_gap_before_184e1b3 (a waiter that times out between the two parts pools an empty channel, the late signal wakes the next user of "
    "the header with nil = success), C04_wait_fixed_schedule_now_correct (the same schedule on the code as it is), C04_wait_prefix_safe_pick_suffices / _atomic_schedule_suffices / _safe_pick_is_exact (the exact "
    "schedule condition the old code needed).")
CHECKS['C04']['partial'] = CHECKS['C04']['partial'] + [
    "wait table model: one request per header (ProposeInternal appends exactly one), a header is identified with its `done` channel, sync.Pool is an adversary (any released header to any later proposal, may drop), "
    "ids are the generator's (unique); a Trigger that runs under the registry lock is ONE step of the model (every other access to the registration of the same id takes the same lock; the slot is read only after "
    "the signal); the syncer path ProposeRawAsyncFromSyncer (wait.Register with a private channel, no pool) and double WaitRsp calls are outside the model"]
# protocol waittable: schedules of the model replayed on the REAL queueRequest / ProposeInternal / wait function, pkg/wait registry and sync.Pool
CHECKS['C04']['protos'].append(dict(name='waittable', quick_seeds=1, thorough_seeds=2))
CHECKS['C04']['rule'] = CHECKS['C04']['rule'] + ("; protocol waittable (diff): corpus/C04/waittable-trigger-gap.txt (the witness of the defect repaired by 184e1b3) + 5 fixed scenarios (the witness schedules of "
    "Props/C04Wait) + quick 400 / thorough 20000 random sessions of 8-47 steps propose / proposefail / applied / giveup-in-window / signal / timeout / wake on a REAL KVNode.queueRequest + wait function over the real "
    "pkg/wait registry and the real sync.Pool of request headers (node.VerifWaitNode: raft replaced by a stand-in that accepts or refuses the proposal and keeps the drop callback; GOMAXPROCS=1, collector off: "
    "the pool is the deterministic private-slot + LIFO structure the driver mirrors); every apply-side Trigger runs on its own goroutine and is STOPPED between its delete and its store + signal (inserted hook "
    "before the `if rd != nil` of wait.Trigger, tools/instrument point trace:triggergap) where the harness PROBES the registry lock: held (the tree since 184e1b3) — the Trigger is let go at once, `applied` is one "
    "step; `giveup-in-window` cancels the request while the Trigger of its id is stopped there and checks that its wait function does NOT return before the Trigger is let go (the waiter's own Trigger waits for "
    "the lock) and then pools a channel that holds the signal; not held (a tree whose Trigger drops the lock first) — the two-step behaviour is driven as before the fix and the old witness fails. Every answer line "
    "(which channel a request was registered with, registered or not at Trigger time, woken with which result, blocked, panic) is compared with the model in configuration Cfg.code. Go oracle: early-wake (a wait "
    "function returned success / an error that is not a result of its own applied entry), registration-leak, chan-full-panic, window-not-exclusive; findings of sessions with a give-up inside an OPEN window carry @gap-giveup")
CHECKS['C04']['trusted'] = CHECKS['C04']['trusted'] + [
    "protocol waittable: the recording wrapper of KVNode.w (learns the channel an id is registered with), the raft stand-in, the hook call `verifTriggerGap(id, rd != nil)` inserted before the `if rd != nil` of "
    "wait.Trigger (a no-op unless the protocol installs its hook), the TryLock probe of the registry shard (wait.VerifShardLocked), channel identity by first appearance; `giveup-in-window` lets the second "
    "goroutine run with 50 runtime.Gosched() calls on one P before it looks whether the wait function has returned"]

# C11: the error path of the apply loop clears the shared write batch (Gen/Abort.lean, Props/C11Abort.lean)
CHECKS['C11']['props'] = CHECKS['C11']['props'] + ['ZanVerif.Props.C11Abort']
CHECKS['C11']['gens'] = CHECKS['C11']['gens'] + ['Abort']
CHECKS['C11']['level_text'] = CHECKS['C11']['level_text'] + (" SHARED WRITE BATCH (Props/C11Abort): over the pinned error branch of ApplyRaftRequest (IsNeedAbortError false for errTooMuchBatchSize only; "
    "AbortBatchForError clears the store's batch first, in front of its IsBatched guard): C11_failed_write_leaves_nothing_staged — a command that answered an error leaves nothing of what it had staged in the shared "
    "batch, so a later write never commits it; C11_event_batch_holds_only_successful_writes over a whole apply event.")

CHECKS['C14']['level_text'] = CHECKS['C14']['level_text'] + (" WRITE-BACK CACHE: over the pinned order of Backup (HyperLogLog cache flushed before the checkpoint request is queued) and reOpenEng (fresh cache "
    "after every restore): C14_backup_sees_cached_writes — what the checkpoint is taken of is the logical content incl. every dirty cache entry; C14_restore_forgets_cache.")

# C03 (and C02): the quorum index of raft.maybeCommit over exactly the current voters (Gen/QuorumIndex.lean, Props/C03Quorum.lean)
_p = CHECKS['C03']['props']
CHECKS['C03']['props'] = (_p if isinstance(_p, list) else [_p]) + ['ZanVerif.Props.C03Quorum']
CHECKS['C03']['gens'] = CHECKS['C03']['gens'] + ['QuorumIndex']
CHECKS['C03']['level_text'] = CHECKS['C03']['level_text'] + (" QUORUM INDEX (Props/C03Quorum): over the pinned statement list of raft.maybeCommit (buffer re-sized to the current voters on every call, "
    "sorted, entry at len - quorum()) and the regenerated quorum(): C03_quorum_index_has_quorum — for every voter count and all Match values at least quorum() of the CURRENT voters store the index a leader commits; "
    "witness of the seeded stale-slot variant (C03-m4).")

# C01: a changed vote is handed out for persistence with MustSync (Gen/HardState.lean, Props/C01HardState.lean)
CHECKS['C01']['props'] = CHECKS['C01']['props'] + ['ZanVerif.Props.C01HardState']
CHECKS['C01']['gens'] = CHECKS['C01']['gens'] + ['HardState']
CHECKS['C01']['level_text'] = CHECKS['C01']['level_text'] + (" VOTE DURABILITY (Props/C01HardState): over the regenerated isHardStateEqual / MustSync and the pinned hand-out of newReady: "
    "C01_changed_vote_is_persisted — a Ready whose vote differs from the previous hard state carries the hard state and demands a sync, whatever term and commit are.")

# C20: the repaired reverse start fallback over a cursor the engine does not bound (Engine/IterFallback.lean)
CHECKS['C20']['level_text'] = CHECKS['C20']['level_text'] + (" UNBOUNDED CURSOR (Engine/IterFallback, C20_iter_spec_unbounded_engine): the wrapper as repaired by 855ff6c "
    "(start fallback SeekToFirst + Valid checking Max in reverse) over a cursor that ignores the bounds hands out exactly the specified keys for every sorted store and option record; "
    "tie: the real wrapper runs over the harness's bounded AND unbounded reference cursor on every iter line and must agree (class wrapper-unbounded-cursor).")

# C11: every PLSET request is answered, one reply per pair (Gen/Plset.lean, Props/C11Plset.lean; srvmerge op `plcount`)
CHECKS['C11']['props'] = CHECKS['C11']['props'] + ['ZanVerif.Props.C11Plset']
CHECKS['C11']['gens'] = CHECKS['C11']['gens'] + ['Plset']
CHECKS['C11']['level_text'] = CHECKS['C11']['level_text'] + (" PLSET (Props/C11Plset over the regenerated guards and pinned pairing / reply loops of server/merge.go): "
    "C11_plset_always_answered — every PLSET request gets at least one reply whatever its arguments, their number, the partition function and the outcome of the dispatch; "
    "C11_plset_one_reply_per_pair — an accepted one gets exactly one reply per key/value pair and every argument is in a pair; tie: srvmerge op `plcount` compares the number of replies "
    "of the real server (in-process, mem and tcp connections, 1-8 partitions, 0-9 arguments) with the executable model.")

# C07: the flush timing of the HyperLogLog write-back cache is invisible to DEL / existence (Gen/HllDel.lean, Props/C07HllDel.lean)
_p = CHECKS['C07']['props']
CHECKS['C07']['props'] = (_p if isinstance(_p, list) else [_p]) + ['ZanVerif.Props.C07HllDel']
CHECKS['C07']['gens'] = list(CHECKS['C07'].get('gens', [])) + ['HllDel']
CHECKS['C07']['level_text'] = CHECKS['C07']['level_text'] + (" HLL CACHE (Props/C07HllDel over the regenerated reply rule of kvDel, fix aee65e1): C07_hll_flush_timing_invisible — two replicas with the same logical keys "
    "that apply the same PFADD / DEL / existence commands with flushes of the write-back cache (snapshot, restart, eviction) at any points of their own give the same replies; "
    "tie: data op pfwin runs PFADD / DEL / PFCOUNT with and without a flush in between on the real store.")
