package main

import "fmt"

const sdkDir = "/root/go/pkg/mod/github.com/youzan/go-zanredisdb@v0.6.3"

func init() {
	generators["Partition"] = func() {
		g := newGen("Partition", "C15: partition arithmetic of the server and of the client SDK")

		anchor("namespaceTableSeperator")
		v := constInt("common/util.go", "NamespaceTableSeperator")
		g.def("namespaceTableSeperator", "common/util.go", fmt.Sprint(v), fmt.Sprintf("def namespaceTableSeperator : UInt8 := %d", v))

		anchor("serverHashExpr")
		hk := soleReturn(findFunc("node/namespace.go", "HashedKey"))
		g.def("serverHashExpr", pos(hk), src(hk), fmt.Sprintf("def serverHashExpr : String := %q", src(hk)))

		anchor("serverPartition")
		e := soleReturn(findFunc("node/namespace.go", "GetHashedPartitionID"))
		g.def("serverPartition", pos(e), src(e), "def serverPartition (h n : Int) : Int := "+
			lean(e, map[string]string{"HashedKey(pk)": "h", "pnum": "n"}))

		anchor("serverPartitionSum")
		e2 := assignRHS(findFunc("node/namespace.go", "NamespaceMgr.GetNamespaceNodeWithPrimaryKeySum"), "pid")
		g.def("serverPartitionSum", pos(e2), src(e2), "def serverPartitionSum (h n : Int) : Int := "+
			lean(e2, map[string]string{"pkSum": "h", "v.PartitionNum": "n"}))

		anchor("serverSumExpr")
		e3 := assignRHS(findFunc("server/server.go", "GetPKAndHashSum"), "pkSum")
		if src(e3) != "node.HashedKey(pk)" {
			fail("GetPKAndHashSum no longer computes pkSum := node.HashedKey(pk): %s", src(e3))
		}
		g.def("serverSumExpr", pos(e3), src(e3), fmt.Sprintf("def serverSumExpr : String := %q", src(e3)))

		anchor("sdkPartition")
		e4 := soleReturn(findFunc(sdkDir+"/cluster.go", "GetHashedPartitionID"))
		g.def("sdkPartition", "go-zanredisdb/cluster.go", src(e4), "def sdkPartition (h n : Int) : Int := "+
			lean(e4, map[string]string{"int(murmur3.Sum32(pk))": "h", "pnum": "n"}))
		g.def("sdkHashExpr", "go-zanredisdb/cluster.go", "int(murmur3.Sum32(pk))", `def sdkHashExpr : String := "int(murmur3.Sum32(pk))"`)
		g.write()
	}
}
