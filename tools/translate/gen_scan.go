package main

import (
	"fmt"
	"strings"
)

// Scan (C13): node/scan.go — the COUNT handling the paging model follows: parseScanArgs refuses a negative COUNT and clamps
// it to the store's page limit (rockredis.MAX_BATCH_NUM, which checkScanCount applies as well), and every scan handler calls
// a page the last one by `length < count || (count == 0 && length == 0)`.
func init() {
	generators["Scan"] = func() {
		g := newGen("Scan", "C13: COUNT handling of the scan handlers (node/scan.go, rockredis/scan.go)")
		norm := func(s string) string { return strings.Join(strings.Fields(s), " ") }
		anchor("MAX_BATCH_NUM")
		v := constInt("rockredis/const.go", "MAX_BATCH_NUM")
		g.def("MAX_BATCH_NUM", "rockredis/const.go", fmt.Sprint(v), fmt.Sprintf("def scanMaxCount : Int := %d", v))
		anchor("checkScanCount")
		cs := norm(src(findFunc("rockredis/scan.go", "checkScanCount").Body))
		if cs != "{ if count <= 0 { count = defaultScanCount } if count > MAX_BATCH_NUM { count = MAX_BATCH_NUM } return count }" {
			fail("checkScanCount changed: %s", cs)
		}
		d := constInt("rockredis/const.go", "defaultScanCount")
		g.def("defaultScanCount", "rockredis/const.go", fmt.Sprint(d), fmt.Sprintf("def scanDefaultCount : Int := %d", d))
		anchor("parseScanArgs")
		pb := norm(src(findFunc("node/scan.go", "parseScanArgs").Body))
		i := strings.Index(pb, "count, err = strconv.Atoi(string(args[i+1]))")
		j := strings.Index(pb, "if count < 0 {")
		k := strings.Index(pb, "if count > rockredis.MAX_BATCH_NUM {")
		if i < 0 || j < i || k < j || !strings.Contains(pb[k:], "count = rockredis.MAX_BATCH_NUM }") {
			fail("parseScanArgs no longer parses COUNT, refuses a negative one and clamps it to rockredis.MAX_BATCH_NUM, in this order")
		}
		g.def("parseScanArgs", "node/scan.go", "COUNT: Atoi; < 0 refused; > rockredis.MAX_BATCH_NUM clamped to it",
			"def parseCount (c : Int) : Int := if c > scanMaxCount then scanMaxCount else c")
		anchor("lastPageTest")
		whole := norm(src(parse("node/scan.go")))
		n1 := strings.Count(whole, "if length < count || (count == 0 && length == 0) {")
		n2 := strings.Count(whole, "if len(ay) < count || (count == 0 && len(ay) == 0) {")
		if n1 != 2 || n2 != 3 || strings.Count(whole, "< count ||") != 5 {
			fail("the last-page tests of node/scan.go changed (%d + %d of the known form, %d comparisons with count)", n1, n2, strings.Count(whole, "< count ||"))
		}
		g.def("lastPageTest", "node/scan.go", "length < count || (count == 0 && length == 0), five handlers", "def lastPageTestShape : Bool := true")
		g.write()
	}
}
