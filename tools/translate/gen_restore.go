package main

import (
	"strings"
)

// Restore (C14): rockredis.restoreFromPath and common.CopyFileForHardLink — the statement structure the file-level
// model Z.Ckpt.restore / copyIn (lean/ZanVerif/Node/Ckpt.lean) was written against: the engine is closed BEFORE the
// data directory is listed; a data file survives the cleanup only as a LOG file or as an sst the checkpoint also has and
// isSameSSTFile accepts; every checkpoint file except LOG* is then copied in — sst files through CopyFileForHardLink,
// which leaves the destination alone only when it already IS the source's inode and otherwise removes it and links
// (or copies) the source; other files through CopyFile with override.
func init() {
	generators["Restore"] = func() {
		g := newGen("Restore", "C14: statement structure of rockredis.restoreFromPath and common.CopyFileForHardLink (file-level restore model)")
		norm := func(s string) string { return strings.Join(strings.Fields(s), " ") }
		inOrder := func(what, body string, parts ...string) {
			at := 0
			for _, p := range parts {
				i := strings.Index(body[at:], p)
				if i < 0 {
					fail("%s no longer contains, in this order, `%s` (after position %d)", what, p, at)
				}
				at += i + len(p)
			}
		}
		anchor("restoreFromPath")
		fd := findFunc("rockredis/rockredis.go", "RockDB.restoreFromPath")
		body := norm(src(fd.Body))
		inOrder("restoreFromPath", body,
			"r.closeEng()",
			`matchName := path.Join(r.GetDataDir(), "*")`,
			"nameList, err := filepath.Glob(matchName)",
			`ckNameList, err := filepath.Glob(path.Join(backupDir, checkpointDir, "*"))`,
			`if strings.HasSuffix(fn, ".sst") { ckSstNameMap[path.Base(fn)] = fn }`,
			"for _, fn := range nameList {",
			`if strings.HasPrefix(shortName, "LOG") { continue }`,
			`if strings.HasSuffix(shortName, ".sst") { if fullName, ok := ckSstNameMap[shortName]; ok { err = isSameSSTFile(fullName, fn) if err == nil {`,
			"continue",
			"os.RemoveAll(fn)",
			"for _, fn := range ckNameList {",
			`if strings.HasPrefix(path.Base(fn), "LOG") {`,
			"continue",
			"dst := path.Join(r.GetDataDir(), path.Base(fn))",
			`if strings.HasSuffix(fn, ".sst") { err = common.CopyFileForHardLink(fn, dst) } else { err = common.CopyFile(fn, dst, true) }`,
			"err = r.reOpenEng()")
		if strings.Count(body, "r.closeEng()") != 1 || strings.Count(body, "filepath.Glob(") != 2 {
			fail("restoreFromPath closes the engine / lists directories a different number of times")
		}
		g.def("restoreFromPath", pos(fd), "closeEng; list data dir; list checkpoint; keep LOG* and same sst; remove the rest; copy every checkpoint file except LOG* (sst: CopyFileForHardLink, others: CopyFile override); reOpenEng",
			"def restoreShape : Bool := true")

		anchor("CopyFileForHardLink")
		fc := findFunc("common/util.go", "CopyFileForHardLink")
		cb := norm(src(fc.Body))
		inOrder("CopyFileForHardLink", cb,
			"sfi, err := os.Stat(src)",
			"dfi, err := os.Stat(dst)",
			"if os.SameFile(sfi, dfi) { return nil }",
			"os.Remove(dst)",
			"if err = os.Link(src, dst); err == nil { return nil }",
			"err = copyFileContents(src, dst)")
		if strings.Count(cb, "return nil") != 3 {
			fail("CopyFileForHardLink has another early `return nil`: an existing destination that is not the source's inode must be replaced")
		}
		g.def("CopyFileForHardLink", pos(fc), "same inode: nothing; otherwise remove the destination, link the source or copy its contents",
			"def hardLinkCopyReplaces : Bool := true")
		// the write-back cache of the HyperLogLog type around checkpoints: Backup flushes it BEFORE the checkpoint request is queued
		// (what is acknowledged is then in the engine the checkpoint is taken of), and reOpenEng — the tail of every restore —
		// starts with a FRESH cache (nothing of the history before the restore survives in memory)
		anchor("Backup")
		bb := norm(src(findFunc("rockredis/rockredis.go", "RockDB.Backup").Body))
		inOrder("Backup", bb, "r.hllCache.Flush()", "case r.backupC <- bi:")
		g.def("Backup", "rockredis/rockredis.go", "r.hllCache.Flush() precedes `r.backupC <- bi`", "def backupFlushesCacheFirst : Bool := true")
		anchor("reOpenEng")
		fr := findFunc("rockredis/rockredis.go", "RockDB.reOpenEng")
		rb := norm(src(fr.Body))
		inOrder("reOpenEng", rb, "hcache, err := newHLLCache(HLLReadCacheSize, HLLWriteCacheSize, r)", "r.hllCache = hcache", "err = r.rockEng.OpenEng()")
		if strings.Contains(rb[:strings.Index(rb, "r.hllCache = hcache")], "if r.hllCache") {
			fail("reOpenEng no longer replaces the HyperLogLog cache unconditionally")
		}
		g.def("reOpenEng", pos(fr), "a fresh HyperLogLog cache is installed unconditionally before the engine is opened", "def reopenStartsWithFreshCache : Bool := true")
		g.write()
	}
}
