package main

import (
	"strings"
)

// QuorumIndex (C03/C02): raft/raft.go raft.maybeCommit — the index a leader may commit is computed from the Match values of
// EXACTLY the current voters: the scratch buffer is (re)sized to len(r.prs) on every call, filled from r.prs, sorted, and the
// entry at position len - quorum() is taken.
func init() {
	generators["QuorumIndex"] = func() {
		g := newGen("QuorumIndex", "C03/C02: the quorum index of raft.maybeCommit is computed over exactly the current voters")
		norm := func(s string) string { return strings.Join(strings.Fields(s), " ") }
		anchor("maybeCommit")
		fd := findFunc("raft/raft.go", "raft.maybeCommit")
		want := []string{
			"if cap(r.matchBuf) < len(r.prs) { r.matchBuf = make(uint64Slice, len(r.prs)) }",
			"r.matchBuf = r.matchBuf[:len(r.prs)]",
			"idx := 0",
			"for _, p := range r.prs { r.matchBuf[idx] = p.Match idx++ }",
			"sort.Sort(&r.matchBuf)",
			"mci := r.matchBuf[len(r.matchBuf)-r.quorum()]",
			"return r.raftLog.maybeCommit(mci, r.Term)",
		}
		if len(fd.Body.List) != len(want) {
			fail("raft.maybeCommit has %d statements, the model was written against %d", len(fd.Body.List), len(want))
		}
		for i, st := range fd.Body.List {
			if s := norm(src(st)); s != want[i] {
				fail("statement %d of raft.maybeCommit is `%s`, the model was written against `%s`", i+1, s, want[i])
			}
		}
		g.def("maybeCommit", pos(fd), "matchBuf sized to len(prs) on every call, filled from prs, sorted ascending, mci = matchBuf[len - quorum()]",
			"def quorumIndexOverCurrentVoters : Bool := true")
		g.write()
	}
}
