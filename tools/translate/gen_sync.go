package main

import (
	"go/ast"
)

// the body of isAlreadyApplied is: if ok { if C1 {return true}; if C2 {return true} }; return false
func init() {
	generators["Sync"] = func() {
		g := newGen("Sync", "C19: the receiver-side filters of cross-cluster log replay")
		anchor("isAlreadyApplied")
		fd := findFunc("node/remote_sync_mgr.go", "KVNode.isAlreadyApplied")
		var conds []ast.Expr
		var outer *ast.IfStmt
		for _, st := range fd.Body.List {
			if is, ok := st.(*ast.IfStmt); ok && src(is.Cond) == "ok" {
				outer = is
			}
		}
		if outer == nil {
			fail("no `if ok {…}` block")
		}
		for _, st := range outer.Body.List {
			is, ok := st.(*ast.IfStmt)
			if !ok {
				continue
			}
			// body must end in `return true`
			last := is.Body.List[len(is.Body.List)-1]
			if r, ok := last.(*ast.ReturnStmt); !ok || len(r.Results) != 1 || src(r.Results[0]) != "true" {
				fail("inner if does not end in `return true`: %s", src(is.Cond))
			}
			conds = append(conds, is.Cond)
		}
		lastSt := fd.Body.List[len(fd.Body.List)-1]
		if r, ok := lastSt.(*ast.ReturnStmt); !ok || len(r.Results) != 1 || src(r.Results[0]) != "false" {
			fail("function does not end in `return false`")
		}
		if len(conds) == 0 {
			fail("no skip conditions found")
		}
		sub := map[string]string{"reqList.OrigTerm": "t", "oldState.SyncedTerm": "st", "reqList.OrigIndex": "i", "oldState.SyncedIndex": "si"}
		body := "false"
		txt := ""
		for _, c := range conds {
			body = "(" + body + " || " + lean(c, sub) + ")"
			txt += src(c) + " ; "
		}
		g.def("isAlreadyApplied", pos(fd), txt,
			"def isAlreadyApplied (t i st si : Int) : Bool := "+body)

		anchor("grpcRecvFilter")
		fd2 := findFunc("server/grpc_api.go", "Server.ApplyRaftReqs")
		var cond ast.Expr
		ast.Inspect(fd2.Body, func(n ast.Node) bool {
			if is, ok := n.(*ast.IfStmt); ok && cond == nil {
				if len(is.Body.List) > 0 {
					if b, ok := is.Body.List[len(is.Body.List)-1].(*ast.BranchStmt); ok && b.Tok.String() == "continue" {
						cond = is.Cond
					}
				}
			}
			return true
		})
		if cond == nil {
			fail("no `if … { …; continue }` filter in ApplyRaftReqs")
		}
		g.def("grpcRecvFilter", pos(cond), src(cond), "def grpcRecvFilter (t i st si : Int) : Bool := "+
			lean(cond, map[string]string{"r.Term": "t", "term": "st", "r.Index": "i", "index": "si"}))

		anchor("postprocessGuard")
		// position is written only inside `if !isRemoteSnapTransfer { if retErr != errIgnoredRemoteApply { UpdateState … } }`
		fd3 := findFunc("node/remote_sync_mgr.go", "KVNode.postprocessRemoteApply")
		found := false
		ast.Inspect(fd3.Body, func(n ast.Node) bool {
			if is, ok := n.(*ast.IfStmt); ok && src(is.Cond) == "!isRemoteSnapTransfer" {
				if len(is.Body.List) > 0 {
					if in, ok := is.Body.List[0].(*ast.IfStmt); ok && src(in.Cond) == "retErr != errIgnoredRemoteApply" {
						if len(in.Body.List) > 0 && src(in.Body.List[0]) == "nd.remoteSyncedStates.UpdateState(reqList.OrigCluster, ss)" {
							found = true
						}
					}
				}
			}
			return true
		})
		if !found {
			fail("postprocessRemoteApply no longer has the shape `if !isRemoteSnapTransfer { if retErr != errIgnoredRemoteApply { UpdateState(…) … } }`")
		}
		n := 0
		ast.Inspect(fd3.Body, func(nn ast.Node) bool {
			if c, ok := nn.(*ast.CallExpr); ok && src(c.Fun) == "nd.remoteSyncedStates.UpdateState" {
				n++
			}
			return true
		})
		if n != 1 {
			fail("postprocessRemoteApply calls UpdateState %d times (expected once, under the two guards)", n)
		}
		g.def("postprocessUpdates", pos(fd3), "UpdateState only if !isRemoteSnapTransfer && retErr != errIgnoredRemoteApply",
			"def postprocessUpdates (isSnapTransfer ignored : Bool) : Bool := !isSnapTransfer && !ignored")
		g.write()
	}
}
