package main

import (
	"fmt"
	"go/ast"
	"go/token"
	"os"
	"path/filepath"
	"strconv"
	"strings"
)

// CFilter: the decisions of the compaction filter of the value-header expiry policy
// (rockredis/rockredis.go rockCompactFilter.lazyExpireCheck / Filter) that the Lean model
// lean/ZanVerif/Data/CFilter.lean is built on and lean/ZanVerif/Props/C10Filter.lean proves safe.
//
// Two things are produced for each of the two functions:
//   - the SKELETON of the function body (its source with the extracted decision expressions replaced by named
//     holes, whitespace-normalised, comments dropped) is compared with the skeleton the Lean model was written
//     against: a statement that was added, removed, reordered, or a `return` whose value changed is ANCHOR-BROKEN;
//   - every decision expression in a hole is rendered as a Lean term over Int by a TYPED renderer that follows
//     Go's fixed-width arithmetic: every arithmetic result and every conversion is wrapped to the width of its
//     Go type (`cfI64`, `cfU32`, `cfU64`), so that an expression computed in a narrower type (e.g. a deadline
//     `h.ExpireAt + uint32(…)` in uint32) is rendered WITH its wrap-around and the proofs have to deal with it.
//     An identifier, call or operator the renderer does not know is ANCHOR-BROKEN, never skipped.

type cfTV struct{ s, t string } // Lean text, Go type class: int64 | uint32 | uint64 | untyped | bool

var cfConv = map[string]string{"int64": "int64", "int": "int64", "uint32": "uint32", "uint64": "uint64", "time.Duration": "int64"}

func cfWrap(t, s string) string {
	switch t {
	case "int64":
		return "(cfI64 " + s + ")"
	case "uint32":
		return "(cfU32 " + s + ")"
	case "uint64":
		return "(cfU64 " + s + ")"
	case "untyped":
		return s
	}
	fail("no integer wrap for type class %q of %s", t, s)
	return ""
}

func cfUnify(e ast.Expr, a, b cfTV) string {
	if a.t == "bool" || b.t == "bool" {
		fail("boolean operand in integer expression %q", src(e))
	}
	if a.t == b.t {
		return a.t
	}
	if a.t == "untyped" {
		return b.t
	}
	if b.t == "untyped" {
		return a.t
	}
	fail("operands of %q have different integer types (%s, %s): the typing table of the generator is out of date", src(e), a.t, b.t)
	return ""
}

// cfLean renders a Go integer/boolean expression with Go's fixed-width semantics.
// env maps the source text of a leaf to its Lean text and type class (leaves are assumed to be in the range of their type).
func cfLean(e ast.Expr, env map[string]cfTV) cfTV {
	if v, ok := env[src(e)]; ok {
		return v
	}
	switch x := e.(type) {
	case *ast.ParenExpr:
		r := cfLean(x.X, env)
		return cfTV{"(" + r.s + ")", r.t}
	case *ast.BasicLit:
		if x.Kind == token.INT {
			v, err := strconv.ParseInt(x.Value, 0, 64)
			if err != nil {
				fail("bad literal %s", x.Value)
			}
			return cfTV{fmt.Sprintf("(%d : Int)", v), "untyped"}
		}
	case *ast.CallExpr:
		if t, ok := cfConv[src(x.Fun)]; ok && len(x.Args) == 1 {
			a := cfLean(x.Args[0], env)
			if a.t == "bool" {
				fail("conversion of a boolean in %q", src(e))
			}
			return cfTV{cfWrap(t, a.s), t}
		}
	case *ast.UnaryExpr:
		a := cfLean(x.X, env)
		switch x.Op {
		case token.NOT:
			if a.t != "bool" {
				fail("! of a non-boolean in %q", src(e))
			}
			return cfTV{"(!" + a.s + ")", "bool"}
		case token.SUB:
			if a.t == "bool" {
				fail("- of a boolean in %q", src(e))
			}
			return cfTV{cfWrap(a.t, "(-"+a.s+")"), a.t}
		}
	case *ast.BinaryExpr:
		a, b := cfLean(x.X, env), cfLean(x.Y, env)
		switch x.Op {
		case token.LAND, token.LOR:
			if a.t != "bool" || b.t != "bool" {
				fail("non-boolean operand of %s in %q", x.Op, src(e))
			}
			op := " && "
			if x.Op == token.LOR {
				op = " || "
			}
			return cfTV{"(" + a.s + op + b.s + ")", "bool"}
		}
		t := cfUnify(e, a, b)
		switch x.Op {
		case token.ADD:
			return cfTV{cfWrap(t, "("+a.s+" + "+b.s+")"), t}
		case token.SUB:
			return cfTV{cfWrap(t, "("+a.s+" - "+b.s+")"), t}
		case token.MUL:
			return cfTV{cfWrap(t, "("+a.s+" * "+b.s+")"), t}
		case token.QUO:
			return cfTV{cfWrap(t, "(Int.tdiv "+a.s+" "+b.s+")"), t}
		case token.EQL:
			return cfTV{"(" + a.s + " == " + b.s + ")", "bool"}
		case token.NEQ:
			return cfTV{"(" + a.s + " != " + b.s + ")", "bool"}
		case token.LSS:
			return cfTV{"(decide (" + a.s + " < " + b.s + "))", "bool"}
		case token.LEQ:
			return cfTV{"(decide (" + a.s + " ≤ " + b.s + "))", "bool"}
		case token.GTR:
			return cfTV{"(decide (" + a.s + " > " + b.s + "))", "bool"}
		case token.GEQ:
			return cfTV{"(decide (" + a.s + " ≥ " + b.s + "))", "bool"}
		}
	}
	fail("cannot render %q with fixed-width semantics (add it to the typing table of gen_cfilter.go)", src(e))
	return cfTV{}
}

func cfBool(e ast.Expr, env map[string]cfTV) string {
	r := cfLean(e, env)
	if r.t != "bool" {
		fail("%q is not a boolean decision", src(e))
	}
	return r.s
}

// a time.Duration constant expression: products / sums of integer literals and the time.* units
func cfEvalDur(e ast.Expr) int64 {
	units := map[string]int64{"time.Nanosecond": 1, "time.Microsecond": 1000, "time.Millisecond": 1000000, "time.Second": 1000000000,
		"time.Minute": 60000000000, "time.Hour": 3600000000000}
	if u, ok := units[src(e)]; ok {
		return u
	}
	switch x := e.(type) {
	case *ast.ParenExpr:
		return cfEvalDur(x.X)
	case *ast.BasicLit:
		if x.Kind == token.INT {
			v, err := strconv.ParseInt(x.Value, 0, 64)
			if err == nil {
				return v
			}
		}
	case *ast.BinaryExpr:
		a, b := cfEvalDur(x.X), cfEvalDur(x.Y)
		switch x.Op {
		case token.MUL:
			if a != 0 && (a*b)/a != b {
				fail("duration constant %q overflows", src(e))
			}
			return a * b
		case token.ADD:
			return a + b
		}
	}
	fail("cannot evaluate the duration constant %q", src(e))
	return 0
}

func cfNorm(s string) string { return strings.Join(strings.Fields(s), " ") }

// source of a statement list with the given sub-expressions replaced by named holes, whitespace-normalised
func cfSkeleton(stmts []ast.Stmt, holes map[string]ast.Expr, order []string) string {
	s := cfNorm(src(&ast.BlockStmt{List: stmts}))
	for _, name := range order {
		h := cfNorm(src(holes[name]))
		if strings.Count(s, h) != 1 {
			fail("decision %s (`%s`) does not occur exactly once in the function body", name, h)
		}
		s = strings.Replace(s, h, "«"+name+"»", 1)
	}
	return s
}

func cfExpectSkeleton(what, got, want string) {
	if got == want {
		return
	}
	// point at the first difference
	i := 0
	for i < len(got) && i < len(want) && got[i] == want[i] {
		i++
	}
	lo := i - 40
	if lo < 0 {
		lo = 0
	}
	cut := func(s string) string {
		hi := i + 60
		if hi > len(s) {
			hi = len(s)
		}
		if lo > len(s) {
			return ""
		}
		return s[lo:hi]
	}
	fail("%s no longer has the statement structure the Lean model (Data/CFilter.lean) was written against; first difference: source has `…%s…` where the model has `…%s…`", what, cut(got), cut(want))
}

// if-statement without else / init whose body ends in `return <lit>[, nil]`: (cond, the returned literal)
func cfIfReturn(st ast.Stmt) (ast.Expr, string, bool) {
	is, ok := st.(*ast.IfStmt)
	if !ok || is.Else != nil || is.Init != nil || len(is.Body.List) == 0 {
		return nil, "", false
	}
	r, ok := is.Body.List[len(is.Body.List)-1].(*ast.ReturnStmt)
	if !ok || len(r.Results) == 0 {
		return nil, "", false
	}
	return is.Cond, src(r.Results[0]), true
}

const cfSkelLazy = "{ if «noExpiry» { return false } if «tooSmall» { dbLog.Infof(\"db %s key %v has invalid small expired timestamp: %v\", cf.rdb.GetDataDir(), h.UserData, h.ExpireAt) return false } " +
	"ts := atomic.LoadInt64(&cf.cachedTimeSec) if curCnt > int64(timeUpdateFreq) || ts <= 0 { ts = time.Now().Unix() atomic.StoreInt64(&cf.cachedTimeSec, ts) atomic.StoreInt64(&cf.checkedCnt, 0) } " +
	"if «longExpired» { atomic.AddInt64(&cf.ExpiredCleanCnt, 1) return true } return false }"

const cfSkelHead = "{ if len(key) < 1 { return false, nil } newCnt := atomic.AddInt64(&cf.checkedCnt, 1) switch key[0] { «cases» } return false, nil }"

const cfSkelValue = "{ var h headerMetaValue _, err := h.decode(value) if err != nil { return false, nil } return cf.lazyExpireCheck(h, newCnt), nil }"

const cfSkelSub = "{ dt, rawKey, ver, err := convertCollDBKeyToRawKey(key) if err != nil { return false, nil } if «verZero» { return false, nil } " +
	"ts := atomic.LoadInt64(&cf.cachedTimeSec) if «youngGen» { return false, nil } " +
	"metak, err := encodeMetaKey(dt, rawKey) if err != nil { return false, nil } " +
	"metav, err := cf.rdb.GetBytesNoLock(metak) if err != nil { return false, nil } " +
	"if metav == nil { atomic.AddInt64(&cf.DelCleanCnt, 1) return true, nil } " +
	"var h headerMetaValue _, err = h.decode(metav) if err != nil { return false, nil } " +
	"if «metaNoVer» { return false, nil } if «verMismatch» { atomic.AddInt64(&cf.VersionCleanCnt, 1) return true, nil } " +
	"return cf.lazyExpireCheck(h, newCnt), nil }"

func init() {
	generators["CFilter"] = func() {
		g := newGen("CFilter", "C10: decisions of the compaction filter (rockredis.go rockCompactFilter.lazyExpireCheck / Filter), fixed-width arithmetic made explicit")
		g.buf.WriteString("/-- Go's wrap-around of a mathematical integer to uint32 / uint64 / int64 (two's complement) -/\n" +
			"def cfU32 (x : Int) : Int := x % 4294967296\n" +
			"def cfU64 (x : Int) : Int := x % 18446744073709551616\n" +
			"def cfI64 (x : Int) : Int :=\n  if x % 18446744073709551616 < 9223372036854775808 then x % 18446744073709551616 else x % 18446744073709551616 - 18446744073709551616\n\n")
		file := "rockredis/rockredis.go"

		anchor("minExpiredPossible")
		minExp := constInt(file, "minExpiredPossible")
		g.def("minExpiredPossible", file, fmt.Sprint(minExp), fmt.Sprintf("def cfMinExpiredPossible : Int := %d", minExp))

		anchor("lazyCleanExpired")
		lce := constValue(file, "lazyCleanExpired")
		lazy := cfEvalDur(lce)
		// it is a package variable: no non-test file of the package may assign it or take its address
		ents, err := os.ReadDir(filepath.Join(repo, "rockredis"))
		if err != nil {
			fail("cannot list rockredis: %v", err)
		}
		for _, en := range ents {
			n := en.Name()
			if !strings.HasSuffix(n, ".go") || strings.HasSuffix(n, "_test.go") {
				continue
			}
			f := parse(filepath.Join("rockredis", n))
			ast.Inspect(f, func(nd ast.Node) bool {
				switch x := nd.(type) {
				case *ast.AssignStmt:
					for _, l := range x.Lhs {
						if src(l) == "lazyCleanExpired" {
							fail("the package variable lazyCleanExpired is assigned in %s", pos(x))
						}
					}
				case *ast.IncDecStmt:
					if src(x.X) == "lazyCleanExpired" {
						fail("the package variable lazyCleanExpired is modified in %s", pos(x))
					}
				case *ast.UnaryExpr:
					if x.Op == token.AND && src(x.X) == "lazyCleanExpired" {
						fail("the address of lazyCleanExpired is taken in %s", pos(x))
					}
				}
				return true
			})
		}
		g.def("lazyCleanExpired", file, src(lce), fmt.Sprintf("def cfLazyCleanExpired : Int := %d", lazy))

		// leaves: what they are in the Lean model and their Go type class
		env := map[string]cfTV{
			"h.ExpireAt":                     {"expireAt", "uint32"},
			"h.ValueVersion":                 {"hver", "int64"},
			"ver":                            {"ver", "int64"},
			"ts":                             {"ts", "int64"},
			"minExpiredPossible":             {"cfMinExpiredPossible", "untyped"},
			"lazyCleanExpired":               {"cfLazyCleanExpired", "int64"},
			"lazyCleanExpired.Nanoseconds()": {"cfLazyCleanExpired", "int64"},
			"time.Second":                    {"(1000000000 : Int)", "int64"},
			"time.Millisecond":               {"(1000000 : Int)", "int64"},
			"time.Minute":                    {"(60000000000 : Int)", "int64"},
			"time.Hour":                      {"(3600000000000 : Int)", "int64"},
			"math.MaxUint32":                 {"(4294967295 : Int)", "untyped"},
			"math.MaxInt64":                  {"(9223372036854775807 : Int)", "untyped"},
		}

		// ---- lazyExpireCheck
		anchor("lazyExpireCheck")
		fd := findFunc(file, "rockCompactFilter.lazyExpireCheck")
		if p := src(fd.Type); cfNorm(p) != "func(h headerMetaValue, curCnt int64) bool" {
			fail("signature of lazyExpireCheck changed: %s", p)
		}
		var conds []ast.Expr
		var rets []string
		for _, st := range fd.Body.List {
			if c, r, ok := cfIfReturn(st); ok {
				conds = append(conds, c)
				rets = append(rets, r)
			}
		}
		if len(conds) != 3 || strings.Join(rets, ",") != "false,false,true" {
			fail("lazyExpireCheck no longer is `if A {return false}; if B {…; return false}; <clock>; if C {…; return true}; return false` (returning ifs: %v)", rets)
		}
		holes := map[string]ast.Expr{"noExpiry": conds[0], "tooSmall": conds[1], "longExpired": conds[2]}
		cfExpectSkeleton("lazyExpireCheck", cfSkeleton(fd.Body.List, holes, []string{"noExpiry", "tooSmall", "longExpired"}), cfSkelLazy)
		g.def("noExpiry", pos(conds[0]), src(conds[0]), "def cfNoExpiry (expireAt : Int) : Bool := "+cfBool(conds[0], env))
		g.def("tooSmall", pos(conds[1]), src(conds[1]), "def cfTooSmall (expireAt : Int) : Bool := "+cfBool(conds[1], env))
		g.def("longExpired", pos(conds[2]), src(conds[2]), "def cfLongExpired (expireAt ts : Int) : Bool := "+cfBool(conds[2], env))

		// ---- Filter
		anchor("Filter")
		ff := findFunc(file, "rockCompactFilter.Filter")
		if p := src(ff.Type); cfNorm(p) != "func(level int, key, value []byte) (bool, []byte)" {
			fail("signature of Filter changed: %s", p)
		}
		var sw *ast.SwitchStmt
		for _, st := range ff.Body.List {
			if s, ok := st.(*ast.SwitchStmt); ok {
				if sw != nil {
					fail("Filter has more than one switch")
				}
				sw = s
			}
		}
		if sw == nil || sw.Init != nil || src(sw.Tag) != "key[0]" || len(sw.Body.List) != 2 {
			fail("Filter no longer is one `switch key[0]` with exactly two cases (value types, sub-key types)")
		}
		// head of the function: everything around the case clauses
		hs := cfNorm(src(ff.Body))
		swBody := cfNorm(src(sw.Body))
		if strings.Count(hs, swBody) != 1 {
			fail("cannot isolate the switch body of Filter")
		}
		cfExpectSkeleton("Filter (statements around the switch)", strings.Replace(hs, swBody, "{ «cases» }", 1), cfSkelHead)
		typeList := func(cc *ast.CaseClause) (string, string) {
			if len(cc.List) == 0 {
				fail("Filter has a default case")
			}
			var names, vals []string
			for _, e := range cc.List {
				id, ok := e.(*ast.Ident)
				if !ok {
					fail("case expression %q is not a type constant", src(e))
				}
				names = append(names, id.Name)
				vals = append(vals, fmt.Sprint(constInt("rockredis/const.go", id.Name)))
			}
			return strings.Join(names, ", "), "[" + strings.Join(vals, ", ") + "]"
		}
		c0, c1 := sw.Body.List[0].(*ast.CaseClause), sw.Body.List[1].(*ast.CaseClause)
		n0, v0 := typeList(c0)
		n1, v1 := typeList(c1)
		anchor("valueBranch")
		cfExpectSkeleton("the value-type case of Filter", cfNorm(src(&ast.BlockStmt{List: c0.Body})), cfSkelValue)
		g.def("valueTypes", pos(c0), n0, "def cfValueTypes : List UInt8 := "+v0)
		g.def("subKeyTypes", pos(c1), n1, "def cfSubKeyTypes : List UInt8 := "+v1)

		anchor("subKeyBranch")
		var sc []ast.Expr
		var sr []string
		for _, st := range c1.Body {
			if c, r, ok := cfIfReturn(st); ok {
				s := src(c)
				if s == "err != nil" || s == "metav == nil" {
					continue // error exits and the absent-meta exit are part of the skeleton
				}
				sc = append(sc, c)
				sr = append(sr, r)
			}
		}
		if len(sc) != 4 || strings.Join(sr, ",") != "false,false,false,true" {
			fail("the sub-key case of Filter no longer has the four decisions `ver == 0 → keep`, `generation young → keep`, `meta version 0 → keep`, `version mismatch → drop` (found returning ifs: %v)", sr)
		}
		sh := map[string]ast.Expr{"verZero": sc[0], "youngGen": sc[1], "metaNoVer": sc[2], "verMismatch": sc[3]}
		cfExpectSkeleton("the sub-key case of Filter", cfSkeleton(c1.Body, sh, []string{"youngGen", "verMismatch", "metaNoVer", "verZero"}), cfSkelSub)
		g.def("verZero", pos(sc[0]), src(sc[0]), "def cfVerZero (ver : Int) : Bool := "+cfBool(sc[0], env))
		g.def("youngGen", pos(sc[1]), src(sc[1]), "def cfYoungGen (ver ts : Int) : Bool := "+cfBool(sc[1], env))
		g.def("metaNoVer", pos(sc[2]), src(sc[2]), "def cfMetaNoVer (hver : Int) : Bool := "+cfBool(sc[2], env))
		g.def("verMismatch", pos(sc[3]), src(sc[3]), "def cfVerMismatch (hver ver : Int) : Bool := "+cfBool(sc[3], env))
		g.write()
	}
}
