package main

import (
	"go/ast"
)

func init() {
	generators["Raft"] = func() {
		g := newGen("Raft", "C01-C03: the decision expressions of the raft core that the abstract protocol's preconditions stand for")
		anchor("quorum")
		e := soleReturn(findFunc("raft/raft.go", "raft.quorum"))
		g.def("quorum", pos(e), src(e), "def quorum (nPrs : Int) : Int := "+lean(e, map[string]string{"len(r.prs)": "nPrs"}))

		anchor("isUpToDate")
		e2 := soleReturn(findFunc("raft/log.go", "raftLog.isUpToDate"))
		g.def("isUpToDate", pos(e2), src(e2), "def isUpToDate (lasti term myLastTerm myLastIndex : Int) : Bool := "+
			lean(e2, map[string]string{"term": "term", "lasti": "lasti", "l.lastTerm()": "myLastTerm", "l.lastIndex()": "myLastIndex"}))

		anchor("maybeCommit")
		fd := findFunc("raft/log.go", "raftLog.maybeCommit")
		is, ok := fd.Body.List[0].(*ast.IfStmt)
		if !ok {
			fail("maybeCommit does not start with its guard")
		}
		g.def("maybeCommitGuard", pos(is.Cond), src(is.Cond), "def maybeCommitGuard (maxIndex committed termOfMaxIndex term : Int) : Bool := "+
			lean(is.Cond, map[string]string{"maxIndex": "maxIndex", "l.committed": "committed",
				"l.zeroTermOnErrCompacted(l.term(maxIndex))": "termOfMaxIndex", "term": "term"}))

		anchor("canVote")
		fd2 := findFunc("raft/raft.go", "raft.Step")
		cv := assignRHS(fd2, "canVote")
		g.def("canVote", pos(cv), src(cv), "def canVote (vote msgFrom lead none : Int) (isPreVote : Bool) (mTerm rTerm : Int) : Bool := "+
			lean(cv, map[string]string{"r.Vote": "vote", "m.From": "msgFrom", "None": "none", "r.lead": "lead",
				"m.Type == pb.MsgPreVote": "isPreVote", "m.Term": "mTerm", "r.Term": "rTerm"}))

		anchor("heartbeatCommit")
		// sendHeartbeat: commit := min(r.getProgress(to).Match, r.raftLog.committed)
		fd3 := findFunc("raft/raft.go", "raft.sendHeartbeat")
		hc := assignRHS(fd3, "commit")
		if src(hc) != "min(pr.Match, r.raftLog.committed)" {
			fail("sendHeartbeat no longer attaches min(Match, committed): %s", src(hc))
		}
		g.def("heartbeatCommit", pos(hc), src(hc), "def heartbeatCommit (matched committed : Nat) : Nat := min matched committed")
		g.write()
	}
}
