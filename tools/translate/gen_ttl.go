package main

import (
	"go/ast"
	"sort"
	"strconv"
	"strings"
)

func init() {
	generators["Ttl"] = func() {
		g := newGen("Ttl", "C10/C07: expiry arithmetic of the value header and the set of batchable write commands")
		anchor("isExpired")
		fd := findFunc("rockredis/t_ttl_compact.go", "headerMetaValue.isExpired")
		// shape: if Ver != V1 {return false}; if <never> {return false}; ttl := <expr>; return <cond>
		var never, ttlE, ret ast.Expr
		for _, st := range fd.Body.List {
			switch x := st.(type) {
			case *ast.IfStmt:
				if strings.Contains(src(x.Cond), "ExpireAt") {
					never = x.Cond
				}
			case *ast.AssignStmt:
				if len(x.Lhs) == 1 && src(x.Lhs[0]) == "ttl" {
					ttlE = x.Rhs[0]
				}
			case *ast.ReturnStmt:
				ret = x.Results[0]
			}
		}
		if never == nil || ttlE == nil || ret == nil {
			fail("isExpired no longer has the shape `if ExpireAt == 0 || ts == 0 {return false}; ttl := …; return …`")
		}
		sub := map[string]string{"h.ExpireAt": "expireAt", "ts": "ts", "int64(h.ExpireAt)": "expireAt", "int64(time.Second)": "(1000000000 : Int)"}
		ttlL := lean(ttlE, sub)
		sub["ttl"] = "(" + ttlL + ")"
		g.def("isExpired", pos(fd), src(never)+" ; ttl := "+src(ttlE)+" ; return "+src(ret),
			"def isExpired (expireAt ts : Int) : Bool := if "+lean(never, sub)+" then false else "+lean(ret, sub))

		anchor("ttl")
		fd2 := findFunc("rockredis/t_ttl_compact.go", "headerMetaValue.ttl")
		var ttl2 ast.Expr
		for _, st := range fd2.Body.List {
			if x, ok := st.(*ast.AssignStmt); ok && len(x.Lhs) == 1 && src(x.Lhs[0]) == "ttl" {
				ttl2 = x.Rhs[0]
			}
		}
		if ttl2 == nil || src(ttl2) != src(ttlE) {
			fail("ttl() and isExpired() no longer compute the same remaining time")
		}
		g.def("ttlSeconds", pos(fd2), src(ttl2), "def ttlSeconds (expireAt ts : Int) : Int := "+lean(ttl2, sub))

		anchor("batchableCmds")
		f := parse("rockredis/rockredis.go")
		var cmds []string
		ast.Inspect(f, func(n ast.Node) bool {
			if a, ok := n.(*ast.AssignStmt); ok && len(a.Lhs) == 1 {
				if ix, ok := a.Lhs[0].(*ast.IndexExpr); ok && src(ix.X) == "batchableCmds" {
					if bl, ok := ix.Index.(*ast.BasicLit); ok && src(a.Rhs[0]) == "true" {
						s, _ := strconv.Unquote(bl.Value)
						cmds = append(cmds, s)
					}
				}
			}
			return true
		})
		if len(cmds) == 0 {
			fail("no batchableCmds[...] = true assignments found")
		}
		sort.Strings(cmds)
		var q []string
		for _, c := range cmds {
			q = append(q, strconv.Quote(c))
		}
		g.def("batchableCmds", "rockredis/rockredis.go", strings.Join(cmds, " "), "def batchableCmds : List String := ["+strings.Join(q, ", ")+"]")
		g.write()
	}
}
