package main

import (
	"go/ast"
	"strings"
)

// TtlKV: decision expressions of the value-header expiry code that the executable KV / hash-TTL models
// (lean/ZanVerif/Data/Header.lean, KVExec.lean, HashTTLExec.lean) are built on:
//   - the overflow guard of compactExpiration.rawExpireAt,
//   - the "no positive remaining time => -1" rule of headerMetaValue.ttl,
//   - the "nothing to count" guard of incr (t_kv.go) that makes an expired value start from 0.
func init() {
	generators["TtlKV"] = func() {
		g := newGen("TtlKV", "C10/C08: overflow guard of rawExpireAt, TTL clamp, INCR start-from-zero guard")

		anchor("expOverflow")
		fd := findFunc("rockredis/t_ttl_compact.go", "compactExpiration.rawExpireAt")
		var guard ast.Expr
		n := 0
		ast.Inspect(fd.Body, func(nd ast.Node) bool {
			if is, ok := nd.(*ast.IfStmt); ok && strings.Contains(src(is.Body), "errExpOverflow") {
				guard = is.Cond
				n++
			}
			return true
		})
		if guard == nil || n != 1 {
			fail("rawExpireAt no longer has exactly one `if <guard> { return nil, errExpOverflow }` (found %d)", n)
		}
		// the assignment that truncates to the 32-bit field must still be there
		trunc := false
		ast.Inspect(fd.Body, func(nd ast.Node) bool {
			if a, ok := nd.(*ast.AssignStmt); ok && len(a.Lhs) == 1 && src(a.Lhs[0]) == "h.ExpireAt" && src(a.Rhs[0]) == "uint32(when)" {
				trunc = true
			}
			return true
		})
		if !trunc {
			fail("rawExpireAt no longer stores `h.ExpireAt = uint32(when)`")
		}
		sub := map[string]string{"when": "when", "int64(math.MaxUint32 - 1)": "(4294967294 : Int)", "int64(math.MaxUint32)": "(4294967295 : Int)",
			"math.MaxUint32": "(4294967295 : Int)"}
		g.def("expOverflow", pos(fd), src(guard), "def expOverflow (when : Int) : Bool := "+lean(guard, sub))

		anchor("ttlClamp")
		fd2 := findFunc("rockredis/t_ttl_compact.go", "headerMetaValue.ttl")
		var clamp ast.Expr
		for _, st := range fd2.Body.List {
			if is, ok := st.(*ast.IfStmt); ok && strings.Contains(src(is.Cond), "ttl") && strings.Contains(src(is.Body), "ttl = -1") {
				clamp = is.Cond
			}
		}
		if clamp == nil {
			fail("headerMetaValue.ttl no longer has `if <cond on ttl> { ttl = -1 }`")
		}
		g.def("ttlClamp", pos(fd2), src(clamp), "def ttlClamp (ttl : Int) : Bool := "+lean(clamp, map[string]string{"ttl": "ttl"}))

		anchor("incrFromZero")
		fd3 := findFunc("rockredis/t_kv.go", "RockDB.incr")
		var zero ast.Expr
		for _, st := range fd3.Body.List {
			if is, ok := st.(*ast.IfStmt); ok && strings.Contains(src(is.Body), "created =") && is.Else != nil && strings.Contains(src(is.Else), "StrInt64") {
				zero = is.Cond
			}
		}
		if zero == nil {
			fail("incr no longer has `if <absent or expired> { created = … } else { n, err = StrInt64(realV, err) … }`")
		}
		g.def("incrFromZero", pos(fd3), src(zero), "def incrFromZero (absent expired : Bool) : Bool := "+
			lean(zero, map[string]string{"realV == nil": "absent", "keyInfo.Expired": "expired"}))
		g.write()
	}
}
