package main

import (
	"fmt"
	"go/ast"
	"strings"
)

// WaitTable (C04): the proposal wait table with POOLED wait channels — node/node.go ProposeInternal, queueRequest's wait
// function, waitReqHeaders.release, the pool constructor, and pkg/wait/wait.go RegisterWithC / Trigger. The model
// lean/ZanVerif/Node/WaitTable.lean follows these functions statement by statement; this generator pins the statement
// structure and emits the DECISIONS the theorems of Props/C04Wait.lean take as hypotheses:
//
//	waitReplaceStale      ProposeInternal replaces a pooled `done` channel that still holds a signal, before registering it
//	waitTimeoutTriggers   the ctx.Done() arm of the wait function calls nd.w.Trigger(req.Header.ID, err) (before release)
//	waitFailTriggers      a failed propose calls nd.w.Trigger(irr.Header.ID, err) before the header is released
//	waitTriggerSignalsUnderLock   pkg/wait Trigger stores the result and signals the channel while it still holds the lock (fix 184e1b3)
//
// A change of one of these is NOT an anchor failure: the fact becomes `false` and the theorem over the regenerated
// configuration no longer compiles. A change of the surrounding structure (order of registration and propose, what release
// resets, the parts of Trigger) is an anchor failure: the model has to be re-read against the code.
func init() {
	generators["WaitTable"] = func() {
		g := newGen("WaitTable", "C04: the proposal wait table with pooled wait channels (node/node.go ProposeInternal, queueRequest; pkg/wait/wait.go)")
		norm := func(s string) string { return strings.Join(strings.Fields(s), " ") }
		boolStr := func(b bool) string {
			if b {
				return "true"
			}
			return "false"
		}
		countSel := func(n ast.Node, sel string) int {
			c := 0
			ast.Inspect(n, func(x ast.Node) bool {
				if s, ok := x.(*ast.SelectorExpr); ok && norm(src(s)) == sel {
					c++
				}
				return true
			})
			return c
		}

		// ---- ProposeInternal
		anchor("ProposeInternal")
		fp := findFunc("node/node.go", "KVNode.ProposeInternal")
		getAt, testAt, regAt, propAt, failAt := -1, -1, -1, -1, -1
		var test, failIf *ast.IfStmt
		for i, st := range fp.Body.List {
			s := norm(src(st))
			switch {
			case s == "wrh := nd.wrPools.getWaitReq(1)":
				getAt = i
			case s == "wrh.wr = nd.w.RegisterWithC(irr.Header.ID, wrh.done)":
				regAt = i
			case s == "err := nd.rn.node.ProposeEntryWithDrop(ctx, e, cancel)":
				propAt = i
			}
			if x, ok := st.(*ast.IfStmt); ok {
				if regAt < 0 && countSel(x, "wrh.done") > 0 { // a test on the pooled channel before the registration
					if test != nil {
						fail("ProposeInternal has more than one if statement on wrh.done before the registration")
					}
					test, testAt = x, i
				}
				if propAt >= 0 && i == propAt+1 && norm(src(x.Cond)) == "err != nil" {
					failIf, failAt = x, i
				}
			}
		}
		if getAt != 0 {
			fail("ProposeInternal no longer starts with `wrh := nd.wrPools.getWaitReq(1)` (the pooled header)")
		}
		if regAt < 0 || propAt < 0 {
			fail("ProposeInternal: `wrh.wr = nd.w.RegisterWithC(irr.Header.ID, wrh.done)` / `err := nd.rn.node.ProposeEntryWithDrop(ctx, e, cancel)` not found as statements of the body")
		}
		if !(regAt < propAt) {
			fail("ProposeInternal registers the request id AFTER the propose call: the entry may be applied before its registration (the model's `applied` is enabled only for registered-then-proposed ids)")
		}
		if failAt < 0 {
			fail("ProposeInternal: the propose call is no longer followed by `if err != nil { … }`")
		}
		replace := false
		testSrc := "(no test on wrh.done before RegisterWithC)"
		if test != nil {
			testSrc = norm(src(test))
			replace = testAt < regAt && test.Init == nil && test.Else == nil &&
				norm(src(test.Cond)) == "len(wrh.done) != 0" &&
				len(test.Body.List) == 1 && norm(src(test.Body.List[0])) == "wrh.done = make(chan struct{}, 1)"
		}
		// wrh.done is touched nowhere else: the test, the replacement, the registration (no send, no receive, no other assignment)
		wantDone := 1 // the registration argument
		if test != nil {
			wantDone += countSel(test, "wrh.done") // + the occurrences inside the if statement
		}
		if n := countSel(fp.Body, "wrh.done"); n != wantDone {
			fail("ProposeInternal uses wrh.done at %d places; the model knows the replacement test and the registration only", n)
		}
		g.def("ProposeInternal.replaceStale", pos(fp.Body.List[maxInt(testAt, 0)]), testSrc,
			"-- the pooled channel is replaced when it holds a signal, before it is registered\ndef waitReplaceStale : Bool := "+boolStr(replace))
		g.def("ProposeInternal.registerBeforePropose", pos(fp.Body.List[regAt]),
			fmt.Sprintf("statement %d `%s` precedes statement %d `%s`", regAt+1, norm(src(fp.Body.List[regAt])), propAt+1, norm(src(fp.Body.List[propAt]))),
			"def waitRegisterBeforePropose : Bool := true")
		// failed propose: … nd.w.Trigger(irr.Header.ID, err); wrh.release(false); return nil, err
		trigAt, relAt, retAt := -1, -1, -1
		for i, st := range failIf.Body.List {
			switch norm(src(st)) {
			case "nd.w.Trigger(irr.Header.ID, err)":
				trigAt = i
			case "wrh.release(false)":
				relAt = i
			case "return nil, err":
				retAt = i
			}
		}
		if relAt < 0 || retAt != len(failIf.Body.List)-1 || relAt > retAt {
			fail("the failed-propose branch of ProposeInternal no longer ends with `wrh.release(false)` … `return nil, err`")
		}
		g.def("ProposeInternal.failTriggers", pos(failIf), "nd.w.Trigger(irr.Header.ID, err) before wrh.release(false) in the `if err != nil` after the propose call",
			"-- a failed propose removes the registration before the header goes back to the pool\ndef waitFailTriggers : Bool := "+boolStr(trigAt >= 0 && trigAt < relAt))

		// ---- queueRequest: the wait function
		anchor("queueRequest")
		fq := findFunc("node/node.go", "KVNode.queueRequest")
		var waitFn *ast.FuncLit
		callAt, fnAt := -1, -1
		for i, st := range fq.Body.List {
			if norm(src(st)) == "wrh, err := nd.ProposeInternal(ctx, req, cancel, start)" {
				callAt = i
			}
			if a, ok := st.(*ast.AssignStmt); ok && len(a.Lhs) == 1 && len(a.Rhs) == 1 && norm(src(a.Lhs[0])) == "futureRsp.waitFunc" {
				if fl, ok := a.Rhs[0].(*ast.FuncLit); ok {
					waitFn, fnAt = fl, i
				}
			}
		}
		if callAt < 0 || waitFn == nil || !(callAt < fnAt) {
			fail("queueRequest is no longer `wrh, err := nd.ProposeInternal(ctx, req, cancel, start)` … `futureRsp.waitFunc = func() …`")
		}
		selAt, relDeferAt := -1, -1
		var sel *ast.SelectStmt
		for i, st := range waitFn.Body.List {
			if x, ok := st.(*ast.SelectStmt); ok {
				if sel != nil {
					fail("the wait function of queueRequest has more than one select")
				}
				sel, selAt = x, i
			}
			if norm(src(st)) == "defer wrh.release(err == nil)" {
				relDeferAt = i
			}
		}
		if sel == nil || relDeferAt < 0 || !(selAt < relDeferAt) {
			fail("the wait function of queueRequest is no longer `select { … }` followed by `defer wrh.release(err == nil)` (the header must not be pooled before the select is over)")
		}
		if n := strings.Count(src(waitFn), ".release("); n != 1 {
			fail("the wait function of queueRequest releases the header at %d places", n)
		}
		var doneArm, wakeArm *ast.CommClause
		for _, c := range sel.Body.List {
			cc := c.(*ast.CommClause)
			if cc.Comm == nil {
				fail("the select of the wait function has a default arm")
			}
			switch norm(src(cc.Comm)) {
			case "<-ctx.Done()":
				doneArm = cc
			case "<-wrh.wr.WaitC()":
				wakeArm = cc
			default:
				fail("the select of the wait function has an unknown arm `%s`", norm(src(cc.Comm)))
			}
		}
		if doneArm == nil || wakeArm == nil || len(sel.Body.List) != 2 {
			fail("the select of the wait function is no longer { case <-ctx.Done(): …  case <-wrh.wr.WaitC(): … }")
		}
		if len(wakeArm.Body) != 1 || norm(src(wakeArm.Body[0])) != "rsp = wrh.wr.GetResult()" {
			fail("the WaitC arm is no longer `rsp = wrh.wr.GetResult()` (the waiter reads the slot of ITS registration after the signal)")
		}
		trig := false
		for _, st := range doneArm.Body {
			if norm(src(st)) == "nd.w.Trigger(req.Header.ID, err)" {
				trig = true
			}
		}
		var armSrc []string
		for _, st := range doneArm.Body {
			armSrc = append(armSrc, norm(src(st)))
		}
		g.def("queueRequest.timeoutTriggers", pos(doneArm), "case <-ctx.Done(): "+strings.Join(armSrc, "; "),
			"-- the waiter that gives up removes its registration (Trigger with the context error) before the header is released\ndef waitTimeoutTriggers : Bool := "+boolStr(trig))
		g.def("queueRequest.wake", pos(wakeArm), "case <-wrh.wr.WaitC(): rsp = wrh.wr.GetResult(); … defer wrh.release(err == nil) after the select",
			"def waitWakeReadsOwnSlotThenReleases : Bool := true")

		// ---- release / the pool
		anchor("release")
		fr := findFunc("node/node.go", "waitReqHeaders.release")
		rs := norm(src(fr.Body))
		if strings.Contains(rs, "done") {
			fail("waitReqHeaders.release touches the `done` channel: %s", rs)
		}
		if !strings.Contains(rs, "wrh.wr = nil") || !strings.Contains(rs, "wrh.pool.Put(wrh)") {
			fail("waitReqHeaders.release is no longer { wrh.wr = nil … wrh.pool.Put(wrh) }: %s", rs)
		}
		g.def("release", pos(fr), "wrh.wr = nil; …; wrh.pool.Put(wrh) — `done` neither drained nor replaced",
			"-- release pools the header with its `done` channel as it is (a buffered signal stays)\ndef waitReleaseKeepsDone : Bool := true")
		anchor("pool.New")
		fn := findFunc("node/node.go", "newWaitReqPoolArray")
		fgw := findFunc("node/node.go", "waitReqPoolArray.getWaitReq")
		for _, f := range []*ast.FuncDecl{fn, fgw} {
			if !strings.Contains(norm(src(f.Body)), "obj.done = make(chan struct{}, 1)") {
				fail("%s no longer creates the header with `obj.done = make(chan struct{}, 1)` (one-place buffer)", f.Name.Name)
			}
		}
		if !strings.Contains(norm(src(fgw.Body)), "return wa[index].Get().(*waitReqHeaders)") {
			fail("getWaitReq no longer returns a pooled header (`wa[index].Get()`)")
		}
		g.def("pool.New", pos(fn), "obj.done = make(chan struct{}, 1)", "def waitChanCap : Nat := 1")

		// ---- pkg/wait: RegisterWithC, Trigger
		anchor("wait.RegisterWithC")
		frg := findFunc("pkg/wait/wait.go", "multList.RegisterWithC")
		wantReg := []string{
			"w := mw[id%uint64(len(mw))]",
			"e := newResultData(done)",
			"w.l.Lock()",
			"defer w.l.Unlock()",
			"rd := w.m[id]",
			`if rd == nil { rd = e w.m[id] = rd } else { log.Panicf("dup id %x", id) }`,
			"return rd",
		}
		pinList := func(what string, list []ast.Stmt, want []string) {
			if len(list) != len(want) {
				fail("%s has %d statements, the model was written against %d", what, len(list), len(want))
			}
			for i, st := range list {
				if s := norm(src(st)); s != want[i] {
					fail("statement %d of %s is `%s`, the model was written against `%s`", i+1, what, s, want[i])
				}
			}
		}
		pinList("RegisterWithC", frg.Body.List, wantReg)
		fnr := findFunc("pkg/wait/wait.go", "newResultData")
		if s := norm(src(fnr.Body)); s != "{ if done == nil { return &resultData{ done: make(chan struct{}, 1), } } return &resultData{ done: done, } }" {
			fail("newResultData no longer returns a FRESH resultData (value nil) around the given channel: %s", s)
		}
		g.def("wait.RegisterWithC", pos(frg), "m[id] = fresh resultData{value: nil, done: done}; a registered id panics",
			"-- every registration has its own result slot; what is shared through the pool is the channel only\ndef waitRegisterFreshSlot : Bool := true")
		anchor("wait.Trigger")
		ft := findFunc("pkg/wait/wait.go", "multList.Trigger")
		// two known shapes: the store and the signal UNDER the lock (since fix 184e1b3: `defer w.l.Unlock()` right after Lock), or
		// after `w.l.Unlock()` (before the fix). Both keep: lookup + delete under the lock, store BEFORE the non-blocking send,
		// panic when the buffer is full. Anything else is an anchor failure.
		part2 := `if rd != nil { rd.value = x select { case rd.done <- struct{}{}: default: log.Panicf("done chan is full: %v", id) } }`
		underLock := []string{
			"w := mw[id%uint64(len(mw))]",
			"w.l.Lock()",
			"defer w.l.Unlock()",
			"rd := w.m[id]",
			"delete(w.m, id)",
			part2,
		}
		afterUnlock := []string{
			"w := mw[id%uint64(len(mw))]",
			"w.l.Lock()",
			"rd := w.m[id]",
			"delete(w.m, id)",
			"w.l.Unlock()",
			part2,
		}
		var got []string
		for _, st := range ft.Body.List {
			got = append(got, norm(src(st)))
		}
		atomic := strings.Join(got, " ; ") == strings.Join(underLock, " ; ")
		if !atomic && strings.Join(got, " ; ") != strings.Join(afterUnlock, " ; ") {
			pinList("Trigger", ft.Body.List, underLock) // reports the first statement that differs from the current shape
		}
		if n := strings.Count(src(ft.Body), "Unlock"); n != 1 {
			fail("Trigger mentions Unlock %d times", n)
		}
		g.def("wait.Trigger", pos(ft), "Lock; rd := m[id]; delete(m, id); if rd != nil { rd.value = x; non-blocking send on rd.done, panic when full }",
			"-- lookup + delete under the lock; the result is stored BEFORE the signal\ndef waitTriggerDeletesStoresSignals : Bool := true")
		unlockAt, unlockSrc := 2, "defer w.l.Unlock() right after w.l.Lock(): delete, `rd.value = x` and the send all happen under the lock"
		if !atomic {
			unlockAt, unlockSrc = 4, "w.l.Unlock() precedes `rd.value = x` and the send"
		}
		g.def("wait.Trigger.underLock", pos(ft.Body.List[unlockAt]), unlockSrc,
			"-- true: Trigger is atomic w.r.t. every other access to the registration of the same id (the waiter's own Trigger on timeout takes the\n"+
				"-- same lock). false (the code before fix 184e1b3): the store and the signal happen AFTER the lock is dropped — the window of the\n"+
				"-- repaired defect C04_wait_FIXED_trigger_gap\ndef waitTriggerSignalsUnderLock : Bool := "+boolStr(atomic))
		g.write()
	}
}

func maxInt(a, b int) int {
	if a > b {
		return a
	}
	return b
}
