package main

import "fmt"

func init() {
	generators["Stream"] = func() {
		g := newGen("Stream", "C16: frame type bytes and size limits of the rafthttp stream codecs")
		f := "transport/rafthttp/msgappv2_codec.go"
		for _, n := range []string{"msgTypeLinkHeartbeat", "msgTypeAppEntries", "msgTypeApp"} {
			anchor(n)
			v := constInt(f, n)
			g.def(n, f, fmt.Sprint(v), fmt.Sprintf("def %s : UInt8 := %d", n, v))
		}
		anchor("msgAppV2BufSize")
		v := constInt(f, "msgAppV2BufSize")
		g.def("msgAppV2BufSize", f, fmt.Sprint(v), fmt.Sprintf("def msgAppV2BufSize : Nat := %d", v))
		anchor("readBytesLimit")
		v = constInt("transport/rafthttp/msg_codec.go", "readBytesLimit")
		g.def("readBytesLimit", "transport/rafthttp/msg_codec.go", fmt.Sprint(v), fmt.Sprintf("def readBytesLimit : Nat := %d", v))

		// isContinue: the conjunction that decides whether a MsgApp is sent as bare entries
		anchor("isContinue")
		e := soleReturn(findFunc(f, "msgAppV2Encoder.isContinue"))
		g.def("isContinue", pos(e), src(e),
			"def isContinue (encIndex encTerm mIndex mLogTerm mTerm : Int) (sameTo sameFrom : Bool) : Bool := "+
				lean(e, map[string]string{"enc.index": "encIndex", "m.Index": "mIndex", "enc.term": "encTerm", "m.LogTerm": "mLogTerm",
					"m.Term": "mTerm", "isSameGroup(&enc.ToGroup, &m.ToGroup)": "sameTo", "isSameGroup(&enc.FromGroup, &m.FromGroup)": "sameFrom"}))
		anchor("isSameGroup")
		e2 := soleReturn(findFunc(f, "isSameGroup"))
		g.def("isSameGroup", pos(e2), src(e2),
			"def isSameGroup (ln lg lr rn rg rr : Int) : Bool := "+
				lean(e2, map[string]string{"l.NodeId": "ln", "r.NodeId": "rn", "l.GroupId": "lg", "r.GroupId": "rg",
					"l.RaftReplicaId": "lr", "r.RaftReplicaId": "rr"}))
		g.write()
	}
}
