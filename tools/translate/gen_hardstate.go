package main

import (
	"go/ast"
	"strings"
)

// HardState (C01/C03): raft/node.go — when a Ready carries the hard state and when it must be synced: newReady hands out the
// hard state whenever it differs from the previous one in Term, Vote OR Commit (isHardStateEqual), and MustSync demands a sync
// whenever entries are handed out or Vote / Term changed. A vote is therefore durable before the message that releases it is sent
// (the Ready contract: persist, then send).
func init() {
	generators["HardState"] = func() {
		g := newGen("HardState", "C01/C03: when a Ready carries the hard state and when it must be synced (raft/node.go)")
		norm := func(s string) string { return strings.Join(strings.Fields(s), " ") }
		anchor("isHardStateEqual")
		e := soleReturn(findFunc("raft/node.go", "isHardStateEqual"))
		g.def("isHardStateEqual", pos(e), src(e), "def hardStateEqual (aTerm aVote aCommit bTerm bVote bCommit : Int) : Bool := "+
			lean(e, map[string]string{"a.Term": "aTerm", "a.Vote": "aVote", "a.Commit": "aCommit", "b.Term": "bTerm", "b.Vote": "bVote", "b.Commit": "bCommit"}))
		anchor("newReady")
		fd := findFunc("raft/node.go", "newReady")
		var hs *ast.IfStmt
		n := 0
		for _, st := range fd.Body.List {
			if is, ok := st.(*ast.IfStmt); ok && is.Init != nil && norm(src(is.Init)) == "hardSt := r.hardState()" {
				hs = is
				n++
			}
		}
		if n != 1 || norm(src(hs.Cond)) != "!isHardStateEqual(hardSt, prevHardSt)" || norm(src(hs.Body)) != "{ rd.HardState = hardSt }" || hs.Else != nil {
			fail("newReady no longer hands out the hard state as `if hardSt := r.hardState(); !isHardStateEqual(hardSt, prevHardSt) { rd.HardState = hardSt }`")
		}
		if strings.Count(norm(src(fd.Body)), "rd.HardState =") != 1 {
			fail("rd.HardState is assigned at more than one place in newReady")
		}
		if !strings.Contains(norm(src(fd.Body)), "rd.MustSync = MustSync(r.hardState(), prevHardSt, len(rd.Entries))") {
			fail("newReady no longer sets rd.MustSync = MustSync(r.hardState(), prevHardSt, len(rd.Entries))")
		}
		g.def("newReady", pos(fd), "HardState handed out iff !isHardStateEqual(hardSt, prevHardSt); MustSync from MustSync(...)", "def readyCarriesChangedHardState : Bool := true")
		anchor("MustSync")
		ms := soleReturn(findFunc("raft/node.go", "MustSync"))
		g.def("MustSync", pos(ms), src(ms), "def mustSync (entsnum stVote prevVote stTerm prevTerm : Int) : Bool := "+
			lean(ms, map[string]string{"entsnum": "entsnum", "st.Vote": "stVote", "prevst.Vote": "prevVote", "st.Term": "stTerm", "prevst.Term": "prevTerm"}))
		g.write()
	}
}
