package main

import (
	"fmt"
	"go/ast"
	"go/token"
	"strconv"
	"strings"
)

// evaluates []byte("lit" + string(constByte)) style expressions to bytes
func evalBytes(path string, e ast.Expr) []byte {
	switch x := e.(type) {
	case *ast.CallExpr:
		if len(x.Args) == 1 {
			f := src(x.Fun)
			if f == "[]byte" {
				return evalBytes(path, x.Args[0])
			}
			if f == "string" {
				return []byte{byte(evalInt(path, x.Args[0]))}
			}
		}
	case *ast.BasicLit:
		if x.Kind == token.STRING {
			s, err := strconv.Unquote(x.Value)
			if err != nil {
				fail("bad string %s", x.Value)
			}
			return []byte(s)
		}
	case *ast.BinaryExpr:
		if x.Op == token.ADD {
			return append(evalBytes(path, x.X), evalBytes(path, x.Y)...)
		}
	}
	fail("cannot evaluate bytes expression %s", src(e))
	return nil
}

func leanBytes(b []byte) string {
	var s []string
	for _, x := range b {
		s = append(s, fmt.Sprint(x))
	}
	return "[" + strings.Join(s, ", ") + "]"
}

func init() {
	generators["Consts"] = func() {
		g := newGen("Consts", "C12/C08-C13: type bytes, separators, prefixes, limits of the rockredis key codec")
		byteConsts := []struct{ file, name string }{
			{"rockredis/const.go", "KVType"}, {"rockredis/const.go", "HashType"}, {"rockredis/const.go", "HSizeType"},
			{"rockredis/const.go", "ListType"}, {"rockredis/const.go", "LMetaType"}, {"rockredis/const.go", "ZSetType"},
			{"rockredis/const.go", "ZSizeType"}, {"rockredis/const.go", "ZScoreType"}, {"rockredis/const.go", "SetType"},
			{"rockredis/const.go", "SSizeType"}, {"rockredis/const.go", "JSONType"}, {"rockredis/const.go", "BitmapType"},
			{"rockredis/const.go", "BitmapMetaType"}, {"rockredis/const.go", "TableMetaType"}, {"rockredis/const.go", "TableIndexMetaType"},
			{"rockredis/const.go", "ExpTimeType"}, {"rockredis/const.go", "ExpMetaType"},
			{"rockredis/t_table.go", "tableStartSep"}, {"rockredis/t_table.go", "metaSep"},
			{"rockredis/t_collections.go", "collStartSep"},
			{"rockredis/t_zset.go", "zsetKeySep"}, {"rockredis/t_zset.go", "zsetScoreSep"},
			{"rockredis/t_kv.go", "defaultSep"},
			{"rockredis/memcmp_codec.go", "NilFlag"}, {"rockredis/memcmp_codec.go", "bytesFlag"}, {"rockredis/memcmp_codec.go", "intFlag"},
			{"rockredis/memcmp_codec.go", "floatFlag"},
			{"rockredis/bytes.go", "encMarker"}, {"rockredis/bytes.go", "encPad"},
		}
		for _, c := range byteConsts {
			anchor(c.name)
			v := constInt(c.file, c.name)
			g.def(c.name, c.file, fmt.Sprint(v), fmt.Sprintf("def c%s : UInt8 := %d", strings.ToUpper(c.name[:1])+c.name[1:], v))
		}
		natConsts := []struct{ file, name string }{
			{"rockredis/bytes.go", "encGroupSize"}, {"rockredis/t_ttl_compact.go", "headerV1Len"},
			{"common/limit.go", "MaxKeySize"}, {"common/limit.go", "MaxSubKeyLen"}, {"common/limit.go", "MaxValueSize"},
			{"rockredis/const.go", "MaxTableNameLen"},
		}
		for _, c := range natConsts {
			anchor(c.name)
			v := constInt(c.file, c.name)
			g.def(c.name, c.file, fmt.Sprint(v), fmt.Sprintf("def c%s : Nat := %d", strings.ToUpper(c.name[:1])+c.name[1:], v))
		}
		anchor("metaPrefix")
		mp := evalBytes("rockredis/t_table.go", constValue("rockredis/t_table.go", "metaPrefix"))
		g.def("metaPrefix", "rockredis/t_table.go", string(mp), "def cMetaPrefix : List UInt8 := "+leanBytes(mp))
		anchor("collStopSep")
		// collStopSep = collStartSep + 1
		cs := constValue("rockredis/t_collections.go", "collStopSep")
		if src(cs) != "collStartSep + 1" {
			fail("collStopSep is no longer collStartSep + 1: %s", src(cs))
		}
		g.def("collStopSep", "rockredis/t_collections.go", src(cs), "def cCollStopSep : UInt8 := cCollStartSep + 1")
		g.write()
	}
}
