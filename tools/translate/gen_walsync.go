package main

import (
	"go/ast"
	"strings"
)

// WalSync (C06/C03): node/raft.go shouldWaitWALSync — when the entries of a Ready must be in the WAL BEFORE its committed
// entries are handed to the apply loop — and the place where processReady consults it (before publishEntries).
func init() {
	generators["WalSync"] = func() {
		g := newGen("WalSync", "C06: persist-before-publish rule of the raft loop (node/raft.go shouldWaitWALSync, processReady)")
		norm := func(s string) string { return strings.Join(strings.Fields(s), " ") }
		anchor("shouldWaitWALSync")
		fd := findFunc("node/raft.go", "shouldWaitWALSync")
		if len(fd.Body.List) != 4 {
			fail("shouldWaitWALSync no longer has four statements (empty test; lastCommitted; firstUnstable; return)")
		}
		if s := norm(src(fd.Body.List[0])); s != `if len(rd.CommittedEntries) == 0 || len(rd.Entries) == 0 { return false }` {
			fail("empty test of shouldWaitWALSync changed: %s", s)
		}
		if s := norm(src(fd.Body.List[1])); s != `lastCommitted := rd.CommittedEntries[len(rd.CommittedEntries)-1]` {
			fail("lastCommitted of shouldWaitWALSync changed: %s", s)
		}
		if s := norm(src(fd.Body.List[2])); s != `firstUnstable := rd.Entries[0]` {
			fail("firstUnstable of shouldWaitWALSync changed: %s", s)
		}
		ret, ok := fd.Body.List[3].(*ast.ReturnStmt)
		if !ok || len(ret.Results) != 1 {
			fail("shouldWaitWALSync no longer ends with one return expression")
		}
		sub := map[string]string{"lastCommitted.Term": "tc", "lastCommitted.Index": "ic", "firstUnstable.Term": "tu", "firstUnstable.Index": "iu"}
		g.def("shouldWaitWALSync", pos(fd), src(ret.Results[0]),
			"def shouldWait (tc ic tu iu : Int) : Bool := "+lean(ret.Results[0], sub))

		anchor("processReady")
		fp := findFunc("node/raft.go", "raftNode.processReady")
		// the early persist: `if raft.IsEmptySnap(rd.Snapshot) && shouldWaitWALSync(&rd) { if err := rc.persistRaftState(&rd) … }`
		// is a statement of processReady's body that comes BEFORE the statement that calls rc.publishEntries(
		early, publish := -1, -1
		for i, st := range fp.Body.List {
			if x, ok := st.(*ast.IfStmt); ok && norm(src(x.Cond)) == `raft.IsEmptySnap(rd.Snapshot) && shouldWaitWALSync(&rd)` &&
				strings.Contains(src(x.Body), "rc.persistRaftState(&rd)") {
				early = i
			}
			if strings.Contains(src(st), "rc.publishEntries(") && publish < 0 {
				publish = i
			}
		}
		if early < 0 || publish < 0 || early > publish {
			fail("processReady no longer persists (`if raft.IsEmptySnap(rd.Snapshot) && shouldWaitWALSync(&rd) { … rc.persistRaftState(&rd) … }`) before the statement that calls rc.publishEntries")
		}
		g.def("processReady", pos(fp), "early persist under shouldWaitWALSync precedes publishEntries", "def persistPrecedesPublish : Bool := true")
		// the snapshot of index i is taken INSIDE the apply loop and the loop goes on only when the engine checkpoint is complete:
		// kvStoreSM.GetSnapshot waits (si.WaitReady()) for the channel that the engines' checkpoint Save closes AFTER the
		// checkpoint call returned (fix 2bce29a), so the checkpoint named (term, i) cannot contain entry i+1
		anchor("GetSnapshot")
		gs := norm(src(findFunc("node/state_machine.go", "kvStoreSM.GetSnapshot").Body))
		i1 := strings.Index(gs, "si.BackupInfo = kvsm.store.Backup(term, index)")
		i2 := strings.Index(gs, "si.WaitReady()")
		i3 := strings.Index(gs, "return &si, nil")
		if i1 < 0 || i2 < i1 || i3 < i2 {
			fail("GetSnapshot no longer waits (si.WaitReady()) between store.Backup(term, index) and its return")
		}
		anchor("checkpointSaveNotify")
		for _, e := range [][3]string{{"engine/pebble_eng.go", "pebbleEngCheckpoint.Save", "err := pck.pe.eng.Checkpoint(path)"},
			{"engine/rockeng.go", "rockEngCheckpoint.Save", "err := rck.ck.Save(path, math.MaxUint64)"}} {
			b := norm(src(findFunc(e[0], e[1]).Body))
			j1 := strings.Index(b, e[2])
			j2 := strings.Index(b, "close(notify)")
			if j1 < 0 || j2 < j1 || strings.Count(b, "close(notify)") != 1 {
				fail("%s no longer closes the notify channel AFTER the engine's checkpoint call returned", e[1])
			}
		}
		g.def("snapshotWaits", "node/state_machine.go, engine/*", "GetSnapshot: Backup; WaitReady; return — the engines close the awaited channel after their checkpoint call returned",
			"def snapshotWaitsForCheckpoint : Bool := true")
		g.write()
	}
}
