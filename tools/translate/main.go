// translate: go/ast fact extractor. Re-reads /repo (and the SDK in the module cache) and regenerates
// lean/ZanVerif/Gen/*.lean: constants, small pure expressions at named anchor sites, and tables.
// It prints what it parsed; an anchor it cannot find or an expression it cannot render is a hard
// error (exit 3, message "ANCHOR-BROKEN <gen file> <anchor> <reason>") — never skipped.
package main

import (
	"bytes"
	"crypto/sha256"
	"encoding/json"
	"fmt"
	"go/ast"
	"go/parser"
	"go/printer"
	"go/token"
	"os"
	"path/filepath"
	"sort"
	"strconv"
	"strings"
)

var repo = "/repo"
var outDir = "/verif/lean/ZanVerif/Gen"
var fset = token.NewFileSet()
var files = map[string]*ast.File{}
var facts = map[string]interface{}{}
var curGen, curAnchor string

type broken struct{ msg string }

func fail(format string, a ...interface{}) {
	panic(broken{fmt.Sprintf("ANCHOR-BROKEN %s %s %s", curGen, curAnchor, fmt.Sprintf(format, a...))})
}

func parse(path string) *ast.File {
	if !filepath.IsAbs(path) {
		path = filepath.Join(repo, path)
	}
	if f, ok := files[path]; ok {
		return f
	}
	f, err := parser.ParseFile(fset, path, nil, parser.ParseComments)
	if err != nil {
		fail("cannot parse %s: %v", path, err)
	}
	files[path] = f
	return f
}

func src(n ast.Node) string {
	var b bytes.Buffer
	printer.Fprint(&b, fset, n)
	return b.String()
}

func recvName(fd *ast.FuncDecl) string {
	if fd.Recv == nil || len(fd.Recv.List) == 0 {
		return ""
	}
	t := fd.Recv.List[0].Type
	if s, ok := t.(*ast.StarExpr); ok {
		t = s.X
	}
	return src(t)
}

// findFunc: name is "Func" or "Recv.Method"
func findFunc(path, name string) *ast.FuncDecl {
	f := parse(path)
	recv, fn := "", name
	if i := strings.Index(name, "."); i >= 0 {
		recv, fn = name[:i], name[i+1:]
	}
	for _, d := range f.Decls {
		if fd, ok := d.(*ast.FuncDecl); ok && fd.Name.Name == fn && recvName(fd) == recv && fd.Body != nil {
			return fd
		}
	}
	fail("func %s not found in %s", name, path)
	return nil
}

// the single `return <expr>` of a function whose body is exactly one return statement
func soleReturn(fd *ast.FuncDecl) ast.Expr {
	if len(fd.Body.List) != 1 {
		fail("func %s: body is not a single return", fd.Name.Name)
	}
	r, ok := fd.Body.List[0].(*ast.ReturnStmt)
	if !ok || len(r.Results) != 1 {
		fail("func %s: body is not a single return", fd.Name.Name)
	}
	return r.Results[0]
}

// the RHS of the unique assignment/definition `lhs := …` / `lhs = …` inside fd (single LHS only)
func assignRHS(fd *ast.FuncDecl, lhs string) ast.Expr {
	var found []ast.Expr
	ast.Inspect(fd.Body, func(n ast.Node) bool {
		if a, ok := n.(*ast.AssignStmt); ok && len(a.Lhs) == 1 && len(a.Rhs) == 1 && src(a.Lhs[0]) == lhs {
			found = append(found, a.Rhs[0])
		}
		return true
	})
	if len(found) != 1 {
		fail("func %s: expected exactly one assignment to %s, found %d", fd.Name.Name, lhs, len(found))
	}
	return found[0]
}

func constValue(path, name string) ast.Expr {
	f := parse(path)
	for _, d := range f.Decls {
		gd, ok := d.(*ast.GenDecl)
		if !ok || (gd.Tok != token.CONST && gd.Tok != token.VAR) {
			continue
		}
		for _, s := range gd.Specs {
			vs := s.(*ast.ValueSpec)
			for i, n := range vs.Names {
				if n.Name == name && i < len(vs.Values) {
					return vs.Values[i]
				}
			}
		}
	}
	fail("const %s not found in %s", name, path)
	return nil
}

// evaluates simple constant expressions (ints, chars, shifts, iota is not supported)
func constInt(path, name string) int64 {
	e := constValue(path, name)
	return evalInt(path, e)
}

func evalInt(path string, e ast.Expr) int64 {
	switch x := e.(type) {
	case *ast.BasicLit:
		switch x.Kind {
		case token.INT:
			v, err := strconv.ParseInt(x.Value, 0, 64)
			if err != nil {
				u, err2 := strconv.ParseUint(x.Value, 0, 64)
				if err2 != nil {
					fail("bad int %s", x.Value)
				}
				return int64(u)
			}
			return v
		case token.CHAR:
			r, _, _, err := strconv.UnquoteChar(x.Value[1:len(x.Value)-1], '\'')
			if err != nil {
				fail("bad char %s", x.Value)
			}
			return int64(r)
		}
	case *ast.ParenExpr:
		return evalInt(path, x.X)
	case *ast.Ident:
		return constInt(path, x.Name)
	case *ast.CallExpr: // conversions like byte(…), int64(…)
		if len(x.Args) == 1 {
			return evalInt(path, x.Args[0])
		}
	case *ast.BinaryExpr:
		a, b := evalInt(path, x.X), evalInt(path, x.Y)
		switch x.Op {
		case token.ADD:
			return a + b
		case token.SUB:
			return a - b
		case token.MUL:
			return a * b
		case token.QUO:
			return a / b
		case token.SHL:
			return a << uint(b)
		case token.SHR:
			return a >> uint(b)
		case token.OR:
			return a | b
		case token.AND:
			return a & b
		}
	}
	fail("cannot evaluate constant expression %s", src(e))
	return 0
}

// lean renders a Go integer/boolean expression as a Lean term over Int / Bool.
// subst maps the *source text* of a sub-expression to Lean text; an identifier or call that is not in
// subst is an error. Go's / and % on ints are truncated: Int.tdiv / Int.tmod.
func lean(e ast.Expr, subst map[string]string) string {
	if s, ok := subst[src(e)]; ok {
		return s
	}
	switch x := e.(type) {
	case *ast.ParenExpr:
		return "(" + lean(x.X, subst) + ")"
	case *ast.BasicLit:
		if x.Kind == token.INT {
			v, err := strconv.ParseInt(x.Value, 0, 64)
			if err != nil {
				fail("bad literal %s", x.Value)
			}
			return fmt.Sprintf("(%d : Int)", v)
		}
	case *ast.UnaryExpr:
		switch x.Op {
		case token.NOT:
			return "(!" + lean(x.X, subst) + ")"
		case token.SUB:
			return "(-" + lean(x.X, subst) + ")"
		case token.XOR: // ^x, bitwise complement of an unsigned 64-bit value
			if subst["#bits"] == "u64" {
				return "(Z.Bits.not64 " + lean(x.X, subst) + ")"
			}
		}
	case *ast.CallExpr:
		// integer conversions, only in "#bits" mode: values are Ints, uint64(x) is x mod 2^64 and
		// int64(x) / int(x) the signed 64-bit reading
		if id, ok := x.Fun.(*ast.Ident); ok && len(x.Args) == 1 && subst["#bits"] == "u64" {
			switch id.Name {
			case "uint64":
				return "(Z.Bits.u64 " + lean(x.Args[0], subst) + ")"
			case "int64", "int":
				return "(Z.Bits.i64 " + lean(x.Args[0], subst) + ")"
			}
		}
	case *ast.BinaryExpr:
		a, b := lean(x.X, subst), lean(x.Y, subst)
		switch x.Op {
		case token.ADD:
			return "(" + a + " + " + b + ")"
		case token.SUB:
			return "(" + a + " - " + b + ")"
		case token.MUL:
			return "(" + a + " * " + b + ")"
		case token.QUO:
			return "(Int.tdiv " + a + " " + b + ")"
		case token.REM:
			return "(Int.tmod " + a + " " + b + ")"
		case token.LAND:
			return "(" + a + " && " + b + ")"
		case token.LOR:
			return "(" + a + " || " + b + ")"
		case token.EQL:
			return "(" + a + " == " + b + ")"
		case token.NEQ:
			return "(" + a + " != " + b + ")"
		case token.LSS:
			return "(decide (" + a + " < " + b + "))"
		case token.LEQ:
			return "(decide (" + a + " ≤ " + b + "))"
		case token.GTR:
			return "(decide (" + a + " > " + b + "))"
		case token.GEQ:
			return "(decide (" + a + " ≥ " + b + "))"
		}
		// bit operators, only in "#bits" mode (the caller asserts that the operands are unsigned 64-bit values
		// or non-negative ints; results are truncated to 64 bits where Go truncates)
		if subst["#bits"] == "u64" {
			switch x.Op {
			case token.OR:
				return "(Z.Bits.or64 " + a + " " + b + ")"
			case token.AND:
				return "(Z.Bits.and64 " + a + " " + b + ")"
			case token.SHL:
				return "(Z.Bits.shl64 " + a + " " + b + ")"
			case token.SHR:
				return "(Z.Bits.shr64 " + a + " " + b + ")"
			}
		}
	}
	fail("cannot render %q (add it to the substitution table or the printer)", src(e))
	return ""
}

type genFile struct {
	name string
	buf  bytes.Buffer
}

func newGen(name, doc string) *genFile {
	g := &genFile{name: name}
	curGen = name
	fmt.Fprintf(&g.buf, "/- GENERATED by /verif/tools/translate from the current source tree. Do not edit.\n   %s -/\nnamespace Gen\n\n", doc)
	return g
}

func (g *genFile) def(anchor, where, srcText, leanDecl string) {
	fmt.Fprintf(&g.buf, "/-- anchor `%s` at %s: `%s` -/\n%s\n\n", anchor, where, strings.ReplaceAll(srcText, "\n", " "), leanDecl)
	facts[g.name+"."+anchor] = map[string]string{"where": where, "source": srcText}
}

func (g *genFile) write() {
	g.buf.WriteString("end Gen\n")
	os.MkdirAll(outDir, 0755)
	p := filepath.Join(outDir, g.name+".lean")
	old, _ := os.ReadFile(p)
	if !bytes.Equal(old, g.buf.Bytes()) { // keep mtime when unchanged so lake does not rebuild
		if err := os.WriteFile(p, g.buf.Bytes(), 0644); err != nil {
			panic(err)
		}
	}
}

func pos(n ast.Node) string {
	p := fset.Position(n.Pos())
	return fmt.Sprintf("%s:%d", strings.TrimPrefix(p.Filename, repo+"/"), p.Line)
}

func anchor(a string) { curAnchor = a }

var generators = map[string]func(){}

func main() {
	only := map[string]bool{}
	for _, a := range os.Args[1:] {
		if strings.HasPrefix(a, "-repo=") {
			repo = strings.TrimPrefix(a, "-repo=")
		} else if strings.HasPrefix(a, "-out=") {
			outDir = strings.TrimPrefix(a, "-out=")
		} else {
			only[a] = true
		}
	}
	var names []string
	for n := range generators {
		names = append(names, n)
	}
	sort.Strings(names)
	status := map[string]string{}
	rc := 0
	for _, n := range names {
		if len(only) > 0 && !only[n] {
			continue
		}
		func() {
			defer func() {
				if r := recover(); r != nil {
					if b, ok := r.(broken); ok {
						fmt.Println(b.msg)
						status[n] = b.msg
						// a stale generated file must not survive a broken anchor
						os.Remove(filepath.Join(outDir, n+".lean"))
						rc = 3
						return
					}
					panic(r)
				}
			}()
			generators[n]()
			status[n] = "ok"
		}()
	}
	hashes := map[string]string{}
	for p := range files {
		b, _ := os.ReadFile(p)
		hashes[strings.TrimPrefix(p, repo+"/")] = fmt.Sprintf("%x", sha256.Sum256(b))[:16]
	}
	out := map[string]interface{}{"status": status, "facts": facts, "source_hashes": hashes}
	b, _ := json.MarshalIndent(out, "", " ")
	os.WriteFile(filepath.Join(outDir, "facts.json"), b, 0644)
	os.Exit(rc)
}
