package main

import (
	"go/ast"
	"strings"
)

// CoordLoop (C18): the coordinator's own check loop pd_coordinator.go doCheckNamespaces — the decisions in front of its
// trimming branch (an over-replicated partition loses the member the placement does not want): when a partition counts
// as "needs migrate", how aliveCount is computed, the trimming guard, and that the removal it performs is the one call of
// removeNamespaceFromNode behind `canRemove` (no removing node anywhere, all ISR members fully ready).
func init() {
	generators["CoordLoop"] = func() {
		g := newGen("CoordLoop", "C18: decisions of the coordinator's check loop (doCheckNamespaces) in front of its trimming branch")
		norm := func(s string) string { return strings.Join(strings.Fields(s), " ") }
		fd := findFunc(coordFile, "PDCoordinator.doCheckNamespaces")

		anchor("isrTooShort")
		short := cdIfExact(fd, "len(nsInfo.GetISR()) < nsInfo.Replica")
		if !strings.Contains(norm(src(short.Body)), "needMigrate = true") {
			fail("`if len(nsInfo.GetISR()) < nsInfo.Replica` no longer sets needMigrate = true")
		}
		g.def("isrTooShort", pos(short.Cond), src(short.Cond), "def isrTooShort (isrLen replica : Int) : Bool := "+
			lean(short.Cond, map[string]string{"len(nsInfo.GetISR())": "isrLen", "nsInfo.Replica": "replica"}))

		anchor("aliveCount")
		// for _, replica := range nsInfo.GetISR() { if _, ok := currentNodes[replica]; !ok { …; needMigrate = true; … } else { aliveCount++ } }
		var loop *ast.RangeStmt
		ast.Inspect(fd.Body, func(n ast.Node) bool {
			if r, ok := n.(*ast.RangeStmt); ok && norm(src(r.X)) == "nsInfo.GetISR()" && loop == nil {
				loop = r
			}
			return true
		})
		if loop == nil || len(loop.Body.List) != 1 {
			fail("the loop over nsInfo.GetISR() that counts the alive members was not found")
		}
		is, ok := loop.Body.List[0].(*ast.IfStmt)
		if !ok || is.Init == nil || norm(src(is.Init)) != "_, ok := currentNodes[replica]" || norm(src(is.Cond)) != "!ok" ||
			!strings.Contains(norm(src(is.Body)), "needMigrate = true") || is.Else == nil || norm(src(is.Else)) != "{ aliveCount++ }" {
			fail("the alive-member loop is no longer `if _, ok := currentNodes[replica]; !ok { …needMigrate = true… } else { aliveCount++ }`")
		}
		if n := strings.Count(norm(src(fd.Body)), "needMigrate = true"); n != 2 {
			fail("needMigrate is set at %d places (expected 2: ISR shorter than the replication factor, an ISR member lost)", n)
		}
		if n := strings.Count(norm(src(fd.Body)), "aliveCount++"); n != 1 {
			fail("aliveCount is incremented at %d places", n)
		}
		g.def("aliveCount", pos(loop), "aliveCount = number of ISR members in currentNodes; an ISR member not in currentNodes sets needMigrate",
			"def aliveCountsIsrMembersAlive : Bool := true")

		anchor("trimGuard")
		var trim *ast.IfStmt
		for _, c := range cdIfConds(fd) {
			if strings.Contains(src(c.Cond), "aliveCount") {
				if trim != nil {
					fail("more than one `if` of doCheckNamespaces tests aliveCount")
				}
				trim = c
			}
		}
		if trim == nil {
			fail("the trimming guard (… aliveCount …) was not found")
		}
		tb := norm(src(trim.Body))
		if strings.Count(norm(src(fd.Body)), "pdCoord.removeNamespaceFromNode(") != 1 || !strings.Contains(tb, "if canRemove { removeNode := pdCoord.dpm.decideUnwantedRaftNode(&nsInfo, currentNodes) if removeNode != \"\" { coordErr := pdCoord.removeNamespaceFromNode(&nsInfo, removeNode)") {
			fail("the trimming branch no longer performs its single removal as `if canRemove { removeNode := decideUnwantedRaftNode(…); if removeNode != \"\" { removeNamespaceFromNode(&nsInfo, removeNode) … } }`")
		}
		if !strings.Contains(tb, "canRemove := true if pdCoord.hasRemovingNode() { canRemove = false }") ||
			!strings.Contains(tb, "ok, err := IsAllISRFullReady(&nsInfo)") || !strings.Contains(tb, "if !ok { canRemove = false }") {
			fail("canRemove is no longer cleared by hasRemovingNode() and by !IsAllISRFullReady")
		}
		g.def("trimGuard", pos(trim.Cond), src(trim.Cond), "def trimGuard (aliveCount replica : Int) (needMigrate : Bool) : Bool := "+
			lean(trim.Cond, map[string]string{"aliveCount": "aliveCount", "nsInfo.Replica": "replica", "needMigrate": "needMigrate"}))
		g.write()
	}
}
