package main

import (
	"strings"
)

// HllDel (C07): the reply of DEL and what it removes do not depend on whether the HyperLogLog write-back cache was flushed
// (Backup, Close, eviction happen at replica-local times): rockredis/t_kv.go kvDel answers 0 only for a key that is neither
// in the engine nor in the cache (fix aee65e1), and it always deletes the engine key AND the cache entry (no early return
// in front of `wb.Delete(key)` / `db.delPFCache(rawKey)`).
func init() {
	generators["HllDel"] = func() {
		g := newGen("HllDel", "C07: DEL of a HyperLogLog is independent of the flush timing of the write-back cache (rockredis/t_kv.go kvDel)")
		norm := func(s string) string { return strings.Join(strings.Fields(s), " ") }
		anchor("kvDelReply")
		fd := findFunc("rockredis/t_kv.go", "RockDB.kvDel")
		body := norm(stripComments(src(fd.Body)))
		want := "delCnt := int64(1) if db.cfg.EnableTableCounter { if !db.cfg.EstimateTableCounter { vok, _ := db.ExistNoLock(key) if vok { db.IncrTableKeyCount(table, -1, wb) } else if _, cached := db.hllCache.Get(rawKey); !cached { delCnt = int64(0) } } else { db.IncrTableKeyCount(table, -1, wb) } } wb.Delete(key) db.delPFCache(rawKey) return delCnt, nil }"
		if !strings.HasSuffix(body, want) {
			fail("kvDel is no longer `delCnt 1; with the exact table counter: 0 only if the key is neither in the engine nor in the HyperLogLog cache; then wb.Delete(key); db.delPFCache(rawKey); return delCnt` (no early return): %s", body)
		}
		if strings.Count(body, "return") != 2 { // the key conversion error and the final one
			fail("kvDel has another return than the key conversion error and the final one")
		}
		g.def("kvDelReply", pos(fd), "vok := ExistNoLock(key); if vok {…} else if _, cached := hllCache.Get(rawKey); !cached { delCnt = 0 }; wb.Delete(key); delPFCache(rawKey)",
			"def delReply (inEngine cached : Bool) : Int := if inEngine then 1 else if !cached then 0 else 1\ndef delAlwaysClearsEngineAndCache : Bool := true")
		g.write()
	}
}
