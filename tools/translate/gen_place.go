package main

import (
	"fmt"
	"go/ast"
	"go/token"
	"strings"
)

// Gen/Place.lean — C17: the decision expressions of cluster/pdnode_coord/place_driver.go
// (refusal guards, ring slot, name index, the two treemap comparators, the balance thresholds, the move budget).

const placeFile = "cluster/pdnode_coord/place_driver.go"

// the condition of the unique top-level-or-nested `if` of fd whose body is exactly `return <rets>`
func plIfReturning(fd *ast.FuncDecl, rets string) ast.Expr {
	var found []ast.Expr
	ast.Inspect(fd.Body, func(n ast.Node) bool {
		is, ok := n.(*ast.IfStmt)
		if !ok || is.Init != nil || len(is.Body.List) != 1 {
			return true
		}
		r, ok := is.Body.List[0].(*ast.ReturnStmt)
		if !ok {
			return true
		}
		var parts []string
		for _, e := range r.Results {
			parts = append(parts, src(e))
		}
		if strings.Join(parts, ", ") == rets {
			found = append(found, is.Cond)
		}
		return true
	})
	if len(found) != 1 {
		fail("func %s: expected exactly one `if … { return %s }`, found %d", fd.Name.Name, rets, len(found))
	}
	return found[0]
}

// renders utils.IntComparator(a, b) calls, everything else through lean()
func plCmpExpr(e ast.Expr, subst map[string]string) string {
	if c, ok := e.(*ast.CallExpr); ok && src(c.Fun) == "utils.IntComparator" && len(c.Args) == 2 {
		return "(intComparator " + lean(c.Args[0], subst) + " " + lean(c.Args[1], subst) + ")"
	}
	return lean(e, subst)
}

// a comparator body of the shape: li := l.(loadItem); ri := r.(loadItem); (if c { return e })* ; return e
func plIfChain(fd *ast.FuncDecl, subst map[string]string) string {
	stmts := fd.Body.List
	if len(stmts) < 3 || src(stmts[0]) != "li := l.(loadItem)" || src(stmts[1]) != "ri := r.(loadItem)" {
		fail("func %s: does not start with li := l.(loadItem); ri := r.(loadItem)", fd.Name.Name)
	}
	out, closing := "", ""
	for _, s := range stmts[2:] {
		switch x := s.(type) {
		case *ast.IfStmt:
			if x.Init != nil || x.Else != nil || len(x.Body.List) != 1 {
				fail("func %s: unsupported if shape: %s", fd.Name.Name, src(x))
			}
			r, ok := x.Body.List[0].(*ast.ReturnStmt)
			if !ok || len(r.Results) != 1 {
				fail("func %s: if body is not a single return: %s", fd.Name.Name, src(x))
			}
			out += "(if " + lean(x.Cond, subst) + " then " + plCmpExpr(r.Results[0], subst) + " else "
			closing += ")"
		case *ast.ReturnStmt:
			if len(x.Results) != 1 {
				fail("func %s: final return has %d results", fd.Name.Name, len(x.Results))
			}
			return out + plCmpExpr(x.Results[0], subst) + closing
		default:
			fail("func %s: unsupported statement %s", fd.Name.Name, src(s))
		}
	}
	fail("func %s: no final return", fd.Name.Name)
	return ""
}

// the i-th top-level `if` of the function body
func plTopIf(fd *ast.FuncDecl, i int) *ast.IfStmt {
	k := 0
	for _, s := range fd.Body.List {
		if is, ok := s.(*ast.IfStmt); ok {
			if k == i {
				return is
			}
			k++
		}
	}
	fail("func %s: no top-level if #%d", fd.Name.Name, i)
	return nil
}

func init() {
	generators["Place"] = func() {
		g := newGen("Place", "C17: decision expressions of cluster/pdnode_coord/place_driver.go")
		g.buf.WriteString("/-- `utils.IntComparator` of github.com/emirpasic/gods (third party, trusted): -1 / 0 / 1 -/\n" +
			"def intComparator (a b : Int) : Int := if a < b then -1 else if a > b then 1 else 0\n\n")

		anchor("refuseNodes")
		fm := findFunc(placeFile, "getRebalancedNamespacePartitions")
		c1 := plIfReturning(fm, "nil, ErrNodeUnavailable")
		g.def("refuseNodes", pos(c1), src(c1), "def refuseNodes (nodes replica : Int) : Bool := "+
			lean(c1, map[string]string{"len(currentNodes)": "nodes", "replica": "replica"}))
		// the guard must come before the layout is computed: it has to be the first statement
		if is, ok := fm.Body.List[0].(*ast.IfStmt); !ok || is.Cond != c1 {
			fail("the refusal guard is no longer the first statement of getRebalancedNamespacePartitions")
		}

		anchor("refuseTotal")
		fl := findFunc(placeFile, "getRebalancedPartitionsFromNameList")
		c2 := plIfReturning(fl, "nil, ErrNodeUnavailable")
		g.def("refuseTotal", pos(c2), src(c2), "def refuseTotal (totalCnt replica : Int) : Bool := "+
			lean(c2, map[string]string{"totalCnt": "totalCnt", "replica": "replica"}))

		anchor("algSwitch")
		var sw *ast.IfStmt
		for _, s := range fl.Body.List {
			if is, ok := s.(*ast.IfStmt); ok && strings.Contains(src(is.Cond), "balanceVer") {
				sw = is
			}
		}
		if sw == nil || src(sw.Cond) != "balanceVer == BalanceV2Str" {
			fail("getRebalancedPartitionsFromNameList: `if balanceVer == BalanceV2Str` not found")
		}
		if !strings.HasPrefix(src(sw.Body.List[0]), "return fillPartitionMapV2(ns, partitionNum, replica, oldPartitionNodes, combined)") {
			fail("v2 branch changed: %s", src(sw.Body.List[0]))
		}
		last := fl.Body.List[len(fl.Body.List)-1]
		if !strings.HasPrefix(src(last), "return fillPartitionMapV1(ns, partitionNum, replica, combined)") {
			fail("v1 branch changed: %s", src(last))
		}
		g.def("algSwitch", pos(sw), src(sw.Cond), fmt.Sprintf("def algSwitch : String := %q", src(sw.Cond)))

		anchor("ringSlot")
		f1 := findFunc(placeFile, "fillPartitionMapV1")
		rs := assignRHS(f1, "nlist[j]")
		ix, ok := rs.(*ast.IndexExpr)
		if !ok || src(ix.X) != "sortedNodes" {
			fail("nlist[j] is no longer sortedNodes[…]: %s", src(rs))
		}
		g.def("ringSlot", pos(ix), src(ix.Index), "def ringSlot (selectIndex j n : Int) : Int := "+
			lean(ix.Index, map[string]string{"selectIndex": "selectIndex", "j": "j", "len(sortedNodes)": "n"}))

		anchor("ringStart")
		st := assignRHS(f1, "selectIndex")
		if src(st) != "int(murmur3.Sum32([]byte(ns)))" {
			fail("fillPartitionMapV1: selectIndex := %s", src(st))
		}
		g.def("ringStart", pos(st), src(st), fmt.Sprintf("def ringStart : String := %q", src(st)))

		anchor("ringStep")
		// the outer loop `for i := 0; i < partitionNum; i++ { … selectIndex++ }`
		var outer *ast.ForStmt
		for _, s := range f1.Body.List {
			if fs, ok := s.(*ast.ForStmt); ok {
				outer = fs
			}
		}
		if outer == nil || src(outer.Cond) != "i < partitionNum" || src(outer.Init) != "i := 0" || src(outer.Post) != "i++" {
			fail("fillPartitionMapV1: outer loop changed")
		}
		steps := 0
		for _, s := range outer.Body.List {
			if id, ok := s.(*ast.IncDecStmt); ok && src(id.X) == "selectIndex" && id.Tok == token.INC {
				steps++
			} else if as, ok := s.(*ast.AssignStmt); ok && len(as.Lhs) == 1 && src(as.Lhs[0]) == "selectIndex" {
				fail("fillPartitionMapV1: selectIndex is assigned in the loop: %s", src(as))
			}
		}
		if steps != 1 {
			fail("fillPartitionMapV1: expected exactly one selectIndex++ per partition, found %d", steps)
		}
		var inner *ast.ForStmt
		for _, s := range outer.Body.List {
			if fs, ok := s.(*ast.ForStmt); ok {
				inner = fs
			}
		}
		if inner == nil || src(inner.Cond) != "j < replica" || src(inner.Init) != "j := 0" || src(inner.Post) != "j++" {
			fail("fillPartitionMapV1: inner loop changed")
		}
		g.def("ringStep", pos(outer), "selectIndex++ once per partition; j := 0; j < replica; j++", "def ringStep : Int := 1")

		anchor("nameIndex")
		f2 := findFunc(placeFile, "fillPartitionMapV2")
		ni := assignRHS(f2, "nameIndexMap[n]")
		g.def("nameIndex", pos(ni), src(ni), "def nameIndex (i selectIndex n : Int) : Int := "+
			lean(ni, map[string]string{"i": "i", "selectIndex": "selectIndex", "len(sortedNodes)": "n"}))

		anchor("moveBudget")
		mb := assignRHS(f2, "maxMoved")
		g.def("moveBudget", pos(mb), src(mb), "def moveBudget (replica partitionNum : Int) : Int := "+
			lean(mb, map[string]string{"replica": "replica", "partitionNum": "partitionNum"}))

		cs := map[string]string{
			"len(li.leaderPids)": "lLeaders", "len(ri.leaderPids)": "rLeaders",
			"len(li.replicaPids)": "lReplicas", "len(ri.replicaPids)": "rReplicas",
			"li.nameIndex": "lIdx", "ri.nameIndex": "rIdx",
		}
		anchor("loadItemLeaderCmp")
		fc := findFunc(placeFile, "loadItemLeaderCmp")
		g.def("loadItemLeaderCmp", pos(fc), "(if-chain of loadItemLeaderCmp)",
			"def loadItemLeaderCmp (lLeaders lReplicas lIdx rLeaders rReplicas rIdx : Int) : Int := "+plIfChain(fc, cs))
		anchor("loadItemReplicaCmp")
		fr := findFunc(placeFile, "loadItemReplicaCmp")
		g.def("loadItemReplicaCmp", pos(fr), "(if-chain of loadItemReplicaCmp)",
			"def loadItemReplicaCmp (lReplicas lIdx rReplicas rIdx : Int) : Int := "+plIfChain(fr, cs))

		anchor("leaderBalanced")
		fmv := findFunc(placeFile, "moveIfUnbalanced")
		i1 := plTopIf(fmv, 0)
		g.def("leaderBalanced", pos(i1), src(i1.Cond), "def leaderBalanced (maxLeaders minLeaders : Int) : Bool := "+
			lean(i1.Cond, map[string]string{"len(max.leaderPids)": "maxLeaders", "len(min.leaderPids)": "minLeaders"}))
		anchor("replicaBalanced")
		i2 := plTopIf(fmv, 1)
		g.def("replicaBalanced", pos(i2), src(i2.Cond), "def replicaBalanced (maxReplicas minReplicas : Int) : Bool := "+
			lean(i2.Cond, map[string]string{"len(max.replicaPids)": "maxReplicas", "len(min.replicaPids)": "minReplicas"}))
		g.write()
	}
}
