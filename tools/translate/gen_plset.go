package main

import (
	"strings"
)

// Plset (C11): every PLSET request is answered, with one reply per key/value pair the client sent — server/merge.go
// doMergeKeysCommand refuses a request whose key/value arguments do not pair up (fix d9960d0) in front of the dispatch,
// getHandlersForKeys pairs the arguments two by two and hands every pair to exactly one partition command
// (name, k, v, k, v …), and the reply loop writes one reply per pair of every partition command.
func init() {
	generators["Plset"] = func() {
		g := newGen("Plset", "C11: every PLSET request is answered, one reply per key/value pair (server/merge.go)")
		norm := func(s string) string { return strings.Join(strings.Fields(s), " ") }

		anchor("plsetGuards")
		fd := findFunc("server/merge.go", "Server.doMergeKeysCommand")
		body := norm(src(fd.Body))
		disp := strings.Index(body, "s.dispatchAndWaitMergeCmd(cmd)")
		if disp < 0 {
			fail("doMergeKeysCommand no longer calls s.dispatchAndWaitMergeCmd(cmd)")
		}
		head := body[:disp]
		g1 := "if len(cmd.Args) < 2 { err := fmt.Errorf(\"ERR wrong number of arguments for '%s' command\", string(cmd.Args[0])) conn.WriteError(err.Error()) return }"
		if !strings.Contains(head, g1) {
			fail("the guard `len(cmd.Args) < 2 => one error reply, return` in front of the dispatch was not found")
		}
		i := strings.Index(head, "if cmdName == \"plset\" && ")
		if i < 0 {
			fail("no PLSET argument-count guard in front of the dispatch of doMergeKeysCommand")
		}
		rest := head[i+len("if cmdName == \"plset\" && "):]
		j := strings.Index(rest, " {")
		cond := rest[:j]
		if cond != "len(cmd.Args)%2 == 0" {
			fail("the PLSET guard is no longer `len(cmd.Args)%%2 == 0`: %s", cond)
		}
		blk := rest[j:]
		k := strings.Index(blk, "return }")
		if k < 0 || !strings.Contains(blk[:k], "conn.WriteError(err.Error())") || strings.Count(blk[:k], "conn.Write") != 1 {
			fail("the PLSET guard no longer answers exactly one error and returns")
		}
		g.def("plsetGuards", pos(fd), "len(cmd.Args) < 2 => one error; cmdName == \"plset\" && len(cmd.Args)%2 == 0 => one error; both in front of the dispatch",
			"def tooFew (nargs : Int) : Bool := nargs < 2\ndef plsetRefused (nargs : Int) : Bool := nargs % 2 == 0")

		anchor("plsetPairing")
		fh := findFunc("server/merge.go", "Server.getHandlersForKeys")
		hb := norm(src(fh.Body))
		pair := "for i := 0; i < len(origArgs)-1; i = i + 2 { origKeys = append(origKeys, origArgs[i]) vals = append(vals, origArgs[i+1]) }"
		if !strings.Contains(hb, pair) {
			fail("getHandlersForKeys no longer pairs the PLSET arguments two by two (`for i := 0; i < len(origArgs)-1; i = i + 2`)")
		}
		app := "cmdArgs = append(cmdArgs, arg) if cmdName == \"plset\" { cmdArgs = append(cmdArgs, vals[kindex]) } cmdArgMap[nsNode.FullName()] = cmdArgs"
		if !strings.Contains(hb, app) || !strings.Contains(hb, "cmdArgs = append(cmdArgs, []byte(cmdName))") {
			fail("getHandlersForKeys no longer builds one partition command `name k v k v …` with every pair appended to the command of its partition")
		}
		g.def("plsetPairing", pos(fh), "pairs (origArgs[i], origArgs[i+1]) for i = 0, 2, … < len-1; each pair appended to the command of the partition of its key",
			"def pairsOf (nKV : Nat) : Nat := nKV / 2")

		anchor("plsetReplies")
		c := strings.Index(body, "case \"plset\":")
		if c < 0 {
			fail("doMergeKeysCommand has no `case \"plset\":` reply branch")
		}
		rb := body[c:]
		e := strings.Index(rb, "return")
		want := "case \"plset\": for i, ret := range results { if err, ok := ret.(error); ok { for ci := 1; ci < len(cmds[i].Args); ci += 2 { conn.WriteError(\"ERR :\" + err.Error()) } } else { for ci := 1; ci < len(cmds[i].Args); ci += 2 { conn.WriteString(\"OK\") } } }"
		if e < 0 || norm(rb[:e]) != want {
			fail("the PLSET reply loop is no longer `one reply (OK or ERR) per pair of every partition command`: %s", norm(rb[:e]))
		}
		g.def("plsetReplies", pos(fd), "for every partition command: for ci := 1; ci < len(Args); ci += 2 { one reply }",
			"def repliesOf (cmdLen : Nat) : Nat := cmdLen / 2")
		g.write()
	}
}
