package main

import (
	"fmt"
	"go/ast"
	"strconv"
	"strings"
)

// HINCRBY (C08/C09/C10/C11), two generators:
//
// HIncr — the decisions that the two hash models (Data/HashIncr.lean, Data/HashTTLExec.lean) are stated over: what "the
// field is missing" means for rockredis/t_hash.go HIncrBy (hGetRawFieldValue with checkExpired,
// collVerKeyInfo.IsNotExistOrExpired), the checkNX argument of its one hSetField(…, FormatInt64ToSlice(n), …) call, how
// the old value and the increment are parsed (base / bit size of strconv.ParseInt in StrInt64 and in node/hash.go
// localHIncrbyCommand).
//
// HIncrShape — the pinned statement shape (imported by theorem modules only, so a change of shape breaks C08/C11 and not
// the driver): in HIncrBy the parse block, whose error returns, precedes `n += delta` (plain int64 addition), which
// precedes the hSetField call, and nothing writes before it; FormatInt64ToSlice is AppendInt(·, 10); localHIncrbyCommand
// parses the increment and returns its error before HIncrBy is called.
func hincrNorm(s string) string { return strings.Join(strings.Fields(s), " ") }

func hincrCalls(root ast.Node, fun string) []*ast.CallExpr {
	var out []*ast.CallExpr
	ast.Inspect(root, func(n ast.Node) bool {
		if c, ok := n.(*ast.CallExpr); ok && src(c.Fun) == fun {
			out = append(out, c)
		}
		return true
	})
	return out
}

func init() {
	// HIncrShape: the pinned statement shape of HIncrBy / localHIncrbyCommand (only theorem modules import it)
	generators["HIncrShape"] = func() {
		g := newGen("HIncrShape", "C08/C11: pinned statement order of HINCRBY (rockredis/t_hash.go HIncrBy; node/hash.go localHIncrbyCommand)")
		norm := hincrNorm
		anchor("HIncrBy")
		fh := findFunc("rockredis/t_hash.go", "RockDB.HIncrBy")
		// pinned shape of the body: … read … ; if fv != nil { strip ts ; if n, err = StrInt64(fv, err); err != nil { return 0, err } } ;
		// n += delta ; _, err = db.hSetField(ts, false, key, field, FormatInt64ToSlice(n), wb, hindex) ; … MaybeCommitBatch
		pi, ai, wi := -1, -1, -1
		for i, st := range fh.Body.List {
			s := norm(src(st))
			switch {
			case strings.HasPrefix(s, "if fv != nil {"):
				want := "if fv != nil { if len(fv) >= tsLen { fv = fv[:len(fv)-tsLen] } if n, err = StrInt64(fv, err); err != nil { return 0, err } }"
				if s != want {
					fail("the parse block of HIncrBy changed: %s", s)
				}
				pi = i
			case s == "n += delta":
				ai = i
			case strings.Contains(s, "db.hSetField("):
				if wi < 0 {
					wi = i
				}
			}
		}
		if pi < 0 || ai < 0 || wi < 0 || !(pi < ai && ai < wi) {
			fail("HIncrBy no longer is: parse block (error returns) ; `n += delta` ; hSetField (found at statements %d, %d, %d)", pi, ai, wi)
		}
		for i, st := range fh.Body.List[:wi] {
			s := src(st)
			for _, w := range []string{"wb.Put(", "wb.Delete(", "hSetField(", "hIncrSize(", "CommitBatch(", ".Write(", "IncrTableKeyCount("} {
				if strings.Contains(s, w) {
					fail("statement %d of HIncrBy writes (%s) before the parsed value is known", i, w)
				}
			}
		}
		g.def("HIncrBy.order", pos(fh), "parse block (error returns) ; n += delta ; hSetField", "def hincrParseBeforeWrite : Bool := true")
		g.def("HIncrBy.add", pos(fh.Body.List[ai]), "n += delta (int64 addition, no overflow check)", "def hincrAddWraps : Bool := true")

		ff := findFunc("rockredis/util.go", "FormatInt64ToSlice")
		if s := norm(src(soleReturn(ff))); s != "strconv.AppendInt(nil, int64(v), 10)" {
			fail("FormatInt64ToSlice is no longer strconv.AppendInt(nil, int64(v), 10): %s", s)
		}

		anchor("localHIncrbyCommand")
		fl := findFunc("node/hash.go", "kvStoreSM.localHIncrbyCommand")
		if len(fl.Body.List) != 4 || norm(src(fl.Body.List[1])) != "if err != nil { return 0, err }" ||
			!strings.Contains(src(fl.Body.List[2]), "kvsm.store.HIncrBy(ts, cmd.Args[1], cmd.Args[2], int64(v))") {
			fail("localHIncrbyCommand no longer is: parse ; error returns ; HIncrBy(ts, key, field, int64(v)) ; return")
		}
		g.def("localHIncrbyCommand.order", pos(fl), "parse ; error returns ; HIncrBy ; return", "def hincrDeltaParsedFirst : Bool := true")
		g.write()
	}
	generators["HIncr"] = func() {
		g := newGen("HIncr", "C08-C11: decisions of HINCRBY (rockredis/t_hash.go HIncrBy, hGetRawFieldValue, StrInt64; node/hash.go localHIncrbyCommand)")
		norm, calls := hincrNorm, hincrCalls
		intLit := func(e ast.Expr, what string) int64 {
			b, ok := e.(*ast.BasicLit)
			if !ok {
				fail("%s is not an integer literal: %s", what, src(e))
			}
			v, err := strconv.ParseInt(b.Value, 0, 64)
			if err != nil {
				fail("%s is not an integer literal: %s", what, src(e))
			}
			return v
		}
		boolLit := func(e ast.Expr, what string) string {
			s := src(e)
			if s != "true" && s != "false" {
				fail("%s is not a boolean literal: %s", what, s)
			}
			return s
		}

		anchor("IsNotExistOrExpired")
		fd := findFunc("rockredis/t_collections.go", "collVerKeyInfo.IsNotExistOrExpired")
		ne := soleReturn(fd)
		g.def("IsNotExistOrExpired", pos(fd), src(ne), "def notExistOrExpired (expired metaNil : Bool) : Bool := "+
			lean(ne, map[string]string{"info.Expired": "expired", "info.MetaData() == nil": "metaNil"}))

		anchor("hGetRawFieldValue")
		fg := findFunc("rockredis/t_hash.go", "RockDB.hGetRawFieldValue")
		var guard ast.Expr
		gi, ri := -1, -1
		for i, st := range fg.Body.List {
			if is, ok := st.(*ast.IfStmt); ok && strings.Contains(src(is.Cond), "IsNotExistOrExpired") {
				if norm(src(is.Body)) != "{ return nil, nil }" || is.Else != nil {
					fail("the IsNotExistOrExpired guard of hGetRawFieldValue no longer is `{ return nil, nil }`: %s", norm(src(is.Body)))
				}
				guard, gi = is.Cond, i
			}
			if ri < 0 && (strings.Contains(src(st), "db.GetBytes(") || strings.Contains(src(st), "db.GetBytesNoLock(")) {
				ri = i
			}
		}
		if guard == nil || ri < 0 || gi > ri {
			fail("hGetRawFieldValue no longer has `if <checkExpired, IsNotExistOrExpired> { return nil, nil }` before the field read")
		}
		g.def("hGetRawFieldValue", pos(fg), src(guard), "def hgetRawMissing (checkExpired notExist : Bool) : Bool := "+
			lean(guard, map[string]string{"checkExpired": "checkExpired", "keyInfo.IsNotExistOrExpired()": "notExist"}))

		anchor("HIncrBy")
		fh := findFunc("rockredis/t_hash.go", "RockDB.HIncrBy")
		rd := calls(fh.Body, "db.hGetRawFieldValue")
		if len(rd) != 1 || len(rd[0].Args) != 5 || src(rd[0].Args[0]) != "ts" || src(rd[0].Args[1]) != "key" || src(rd[0].Args[2]) != "field" {
			fail("HIncrBy no longer reads with exactly one db.hGetRawFieldValue(ts, key, field, <checkExpired>, <useLock>)")
		}
		g.def("HIncrBy.read", pos(rd[0]), src(rd[0]), "def hincrCheckExpired : Bool := "+boolLit(rd[0].Args[3], "checkExpired argument"))
		fmt.Fprintf(&g.buf, "/-- HINCRBY treats the field as missing (old value 0): hash expired at the log time / no size meta -/\n"+
			"def hincrFieldMissing (expired metaNil : Bool) : Bool := hgetRawMissing hincrCheckExpired (notExistOrExpired expired metaNil)\n\n")

		ws := calls(fh.Body, "db.hSetField")
		if len(ws) != 1 || len(ws[0].Args) != 7 || src(ws[0].Args[0]) != "ts" || src(ws[0].Args[2]) != "key" || src(ws[0].Args[3]) != "field" ||
			norm(src(ws[0].Args[4])) != "FormatInt64ToSlice(n)" {
			fail("HIncrBy no longer writes with exactly one db.hSetField(ts, <checkNX>, key, field, FormatInt64ToSlice(n), wb, hindex)")
		}
		g.def("HIncrBy.write", pos(ws[0]), src(ws[0]), "def hincrCheckNX : Bool := "+boolLit(ws[0].Args[1], "checkNX argument"))

		anchor("StrInt64")
		fs := findFunc("rockredis/util.go", "StrInt64")
		pc := calls(fs.Body, "strconv.ParseInt")
		if len(pc) != 1 || len(pc[0].Args) != 3 || norm(src(pc[0].Args[0])) != "string(v)" {
			fail("StrInt64 no longer is one strconv.ParseInt(string(v), <base>, <bits>)")
		}
		g.def("StrInt64.base", pos(pc[0]), src(pc[0]), fmt.Sprintf("def cStrInt64Base : Nat := %d", intLit(pc[0].Args[1], "base")))
		g.def("StrInt64.bits", pos(pc[0]), src(pc[0]), fmt.Sprintf("def cStrInt64Bits : Nat := %d", intLit(pc[0].Args[2], "bit size")))

		anchor("localHIncrbyCommand")
		fl := findFunc("node/hash.go", "kvStoreSM.localHIncrbyCommand")
		dc := calls(fl.Body, "strconv.ParseInt")
		if len(dc) != 1 || len(dc[0].Args) != 3 || norm(src(dc[0].Args[0])) != "string(cmd.Args[3])" {
			fail("localHIncrbyCommand no longer parses the increment with one strconv.ParseInt(string(cmd.Args[3]), <base>, <bits>)")
		}
		g.def("localHIncrbyCommand.base", pos(dc[0]), src(dc[0]), fmt.Sprintf("def cHIncrDeltaBase : Nat := %d", intLit(dc[0].Args[1], "base")))
		g.def("localHIncrbyCommand.bits", pos(dc[0]), src(dc[0]), fmt.Sprintf("def cHIncrDeltaBits : Nat := %d", intLit(dc[0].Args[2], "bit size")))
		g.write()
	}
}
