package main

import (
	"fmt"
	"go/ast"
	"go/token"
	"strings"
)

// C05: WAL frame arithmetic, record constants and the decision expressions of the decoder, of
// ReadAll, of Save (sync policy) and of the PageWriter, regenerated from the current source.
func init() {
	generators["WalFrame"] = func() {
		g := newGen("WalFrame", "C05: wal frame-size arithmetic, record types, decoder / ReadAll / Save / PageWriter decision expressions")
		// the generated file needs the 64-bit helpers: put the import in front of the header comment
		head := g.buf.String()
		g.buf.Reset()
		g.buf.WriteString("import ZanVerif.Wal.Bits\n" + head)
		bits := func(m map[string]string) map[string]string {
			m["#bits"] = "u64"
			return m
		}

		// ---- constants
		for _, c := range []struct{ name, file string }{
			{"minSectorSize", "wal/decoder.go"}, {"frameSizeBytes", "wal/decoder.go"},
		} {
			anchor(c.name)
			v := constInt(c.file, c.name)
			g.def("wal_"+c.name, c.file, fmt.Sprint(v), fmt.Sprintf("def wal_%s : Int := %d", c.name, v))
		}
		anchor("walPageBytes")
		pe := constValue("wal/encoder.go", "walPageBytes")
		g.def("wal_walPageBytes", pos(pe), src(pe), "def wal_walPageBytes : Int := "+lean(pe, map[string]string{"minSectorSize": "wal_minSectorSize"}))
		anchor("maxWALEntrySizeLimit")
		me := constValue("wal/decoder.go", "maxWALEntrySizeLimit")
		g.def("wal_maxWALEntrySizeLimit", pos(me), src(me), "def wal_maxWALEntrySizeLimit : Int := "+lean(me, bits(map[string]string{})))
		anchor("defaultBufferBytes")
		be := constValue("pkg/ioutil/pagewriter.go", "defaultBufferBytes")
		g.def("wal_defaultBufferBytes", pos(be), src(be), "def wal_defaultBufferBytes : Int := "+lean(be, map[string]string{}))

		// record types: a const block `metadataType int64 = iota + 1; entryType; stateType; crcType; snapshotType`
		anchor("recordTypes")
		wf := parse("wal/wal.go")
		found := map[string]int64{}
		for _, d := range wf.Decls {
			gd, ok := d.(*ast.GenDecl)
			if !ok || gd.Tok != token.CONST {
				continue
			}
			var last ast.Expr
			for i, sp := range gd.Specs {
				vs := sp.(*ast.ValueSpec)
				if len(vs.Values) == 1 {
					last = vs.Values[0]
				} else if len(vs.Values) != 0 {
					last = nil
				}
				for _, n := range vs.Names {
					switch n.Name {
					case "metadataType", "entryType", "stateType", "crcType", "snapshotType":
						if len(vs.Values) > 1 || last == nil {
							fail("const %s: unsupported declaration form", n.Name)
						}
						found[n.Name] = evalIota(last, int64(i))
					}
				}
			}
		}
		for _, n := range []string{"metadataType", "entryType", "stateType", "crcType", "snapshotType"} {
			v, ok := found[n]
			if !ok {
				fail("const %s not found in wal/wal.go", n)
			}
			g.def("wal_"+n, "wal/wal.go", fmt.Sprint(v), fmt.Sprintf("def wal_%s : Int := %d", n, v))
		}

		// ---- encodeFrameSize: lenField = uint64(dataBytes); padBytes = …; if padBytes != 0 { lenField |= … }; return
		anchor("encodeFrameSize")
		ef := findFunc("wal/encoder.go", "encodeFrameSize")
		if len(ef.Body.List) != 4 {
			fail("encodeFrameSize: expected 4 statements (assign, assign, if, return), found %d", len(ef.Body.List))
		}
		a0, ok0 := ef.Body.List[0].(*ast.AssignStmt)
		a1, ok1 := ef.Body.List[1].(*ast.AssignStmt)
		i2, ok2 := ef.Body.List[2].(*ast.IfStmt)
		r3, ok3 := ef.Body.List[3].(*ast.ReturnStmt)
		if !ok0 || !ok1 || !ok2 || !ok3 || a0.Tok != token.ASSIGN || a1.Tok != token.ASSIGN || src(a0.Lhs[0]) != "lenField" ||
			src(a1.Lhs[0]) != "padBytes" || i2.Else != nil || i2.Init != nil || len(i2.Body.List) != 1 || len(r3.Results) != 0 {
			fail("encodeFrameSize: unexpected statement structure")
		}
		or, okor := i2.Body.List[0].(*ast.AssignStmt)
		if !okor || or.Tok != token.OR_ASSIGN || src(or.Lhs[0]) != "lenField" {
			fail("encodeFrameSize: the if body is not `lenField |= …`")
		}
		g.def("wal_encLen0", pos(a0), src(a0), "def wal_encLen0 (dataBytes : Int) : Int := "+lean(a0.Rhs[0], bits(map[string]string{"dataBytes": "dataBytes"})))
		g.def("wal_encPad", pos(a1), src(a1), "def wal_encPad (dataBytes : Int) : Int := "+lean(a1.Rhs[0], map[string]string{"dataBytes": "dataBytes"}))
		g.def("wal_encPadCond", pos(i2.Cond), src(i2.Cond), "def wal_encPadCond (padBytes : Int) : Bool := "+lean(i2.Cond, map[string]string{"padBytes": "padBytes"}))
		g.def("wal_encLenPadded", pos(or), src(or), "def wal_encLenPadded (lenField padBytes : Int) : Int := (Z.Bits.or64 lenField "+
			lean(or.Rhs[0], bits(map[string]string{"padBytes": "padBytes"}))+")")

		// ---- decodeFrameSize: recBytes = …; if lenField < 0 { padBytes = … }; return
		anchor("decodeFrameSize")
		df := findFunc("wal/decoder.go", "decodeFrameSize")
		if len(df.Body.List) != 3 {
			fail("decodeFrameSize: expected 3 statements (assign, if, return), found %d", len(df.Body.List))
		}
		d0, okd0 := df.Body.List[0].(*ast.AssignStmt)
		d1, okd1 := df.Body.List[1].(*ast.IfStmt)
		d2, okd2 := df.Body.List[2].(*ast.ReturnStmt)
		if !okd0 || !okd1 || !okd2 || src(d0.Lhs[0]) != "recBytes" || d1.Else != nil || len(d1.Body.List) != 1 || len(d2.Results) != 0 {
			fail("decodeFrameSize: unexpected statement structure")
		}
		dp, okdp := d1.Body.List[0].(*ast.AssignStmt)
		if !okdp || dp.Tok != token.ASSIGN || src(dp.Lhs[0]) != "padBytes" {
			fail("decodeFrameSize: the if body is not `padBytes = …`")
		}
		g.def("wal_decRec", pos(d0), src(d0), "def wal_decRec (lenField : Int) : Int := "+lean(d0.Rhs[0], bits(map[string]string{"lenField": "lenField"})))
		g.def("wal_decPadCond", pos(d1.Cond), src(d1.Cond), "def wal_decPadCond (lenField : Int) : Bool := "+lean(d1.Cond, map[string]string{"lenField": "lenField"}))
		g.def("wal_decPad", pos(dp), src(dp), "def wal_decPad (lenField : Int) : Int := "+lean(dp.Rhs[0], bits(map[string]string{"lenField": "lenField"})))

		// ---- decodeRecord
		anchor("decodeRecord")
		dr := findFunc("wal/decoder.go", "decoder.decodeRecord")
		var sizeCond, crcGuard, zeroLen ast.Expr
		var adv *ast.AssignStmt
		nValidate, nTornUnmarshal := 0, 0
		ast.Inspect(dr.Body, func(n ast.Node) bool {
			switch x := n.(type) {
			case *ast.IfStmt:
				c := src(x.Cond)
				switch {
				case strings.Contains(c, "maxWALEntrySizeLimit"):
					sizeCond = x.Cond
				case strings.Contains(c, "rec.Type"):
					crcGuard = x.Cond
				case strings.Contains(c, "l == 0"):
					zeroLen = x.Cond
				case c == "d.isTornEntry(data)":
					nTornUnmarshal++
				}
				if x.Init != nil && strings.Contains(src(x.Init), "rec.Validate(d.crc.Sum32())") {
					nValidate++
					if src(x.Init) != "err := rec.Validate(d.crc.Sum32())" || src(x.Cond) != "err != nil" {
						fail("decodeRecord: the crc test is no longer `if err := rec.Validate(d.crc.Sum32()); err != nil`: %s; %s", src(x.Init), src(x.Cond))
					}
				}
			case *ast.AssignStmt:
				if x.Tok == token.ADD_ASSIGN && src(x.Lhs[0]) == "d.lastValidOff" {
					adv = x
				}
			}
			return true
		})
		if sizeCond == nil || crcGuard == nil || zeroLen == nil || adv == nil {
			fail("decodeRecord: size limit check, crc guard, zero-length test or lastValidOff advance not found")
		}
		if nValidate != 1 || nTornUnmarshal != 2 {
			fail("decodeRecord: expected one `rec.Validate(d.crc.Sum32())` and two `if d.isTornEntry(data)` (found %d, %d)", nValidate, nTornUnmarshal)
		}
		if src(zeroLen) != "err == io.EOF || (err == nil && l == 0)" {
			fail("decodeRecord: end-of-segment test changed: %s", src(zeroLen))
		}
		g.def("wal_decSizeLimit", pos(sizeCond), src(sizeCond), "def wal_decSizeLimit (recBytes padBytes : Int) : Bool := "+
			lean(sizeCond, map[string]string{"recBytes": "recBytes", "padBytes": "padBytes", "maxWALEntrySizeLimit": "wal_maxWALEntrySizeLimit"}))
		g.def("wal_decCrcChecked", pos(crcGuard), src(crcGuard), "def wal_decCrcChecked (recType : Int) : Bool := "+
			lean(crcGuard, map[string]string{"rec.Type": "recType", "crcType": "wal_crcType", "metadataType": "wal_metadataType",
				"entryType": "wal_entryType", "stateType": "wal_stateType", "snapshotType": "wal_snapshotType"}))
		g.def("wal_decAdvance", pos(adv), src(adv), "def wal_decAdvance (recBytes padBytes : Int) : Int := "+
			lean(adv.Rhs[0], map[string]string{"recBytes": "recBytes", "padBytes": "padBytes", "frameSizeBytes": "wal_frameSizeBytes"}))
		// Validate: `if rec.Crc == crc { return nil }`
		anchor("Record.Validate")
		vf := findFunc("wal/walpb/record.go", "Record.Validate")
		vi, okv := vf.Body.List[0].(*ast.IfStmt)
		if !okv || len(vi.Body.List) != 1 || src(vi.Body.List[0]) != "return nil" {
			fail("Record.Validate: first statement is not `if … { return nil }`")
		}
		g.def("wal_validateOk", pos(vi.Cond), src(vi.Cond), "def wal_validateOk (recCrc crc : Int) : Bool := "+
			lean(vi.Cond, map[string]string{"rec.Crc": "recCrc", "crc": "crc"}))

		// ---- isTornEntry
		anchor("isTornEntry")
		tf := findFunc("wal/decoder.go", "decoder.isTornEntry")
		g0, okg := tf.Body.List[0].(*ast.IfStmt)
		if !okg || len(g0.Body.List) != 1 || src(g0.Body.List[0]) != "return false" {
			fail("isTornEntry: first statement is not `if … { return false }`")
		}
		g.def("wal_tornNotLast", pos(g0.Cond), src(g0.Cond), "def wal_tornNotLast (readers : Int) : Bool := "+
			lean(g0.Cond, map[string]string{"len(d.brs)": "readers"}))
		fo := defineRHS(tf, "fileOff")
		g.def("wal_tornStart", pos(fo), src(fo), "def wal_tornStart (lastValidOff : Int) : Int := "+
			lean(fo, map[string]string{"d.lastValidOff": "lastValidOff", "frameSizeBytes": "wal_frameSizeBytes"}))
		cl := defineRHS(tf, "chunkLen")
		ce, okc := cl.(*ast.CallExpr)
		if !okc || src(ce.Fun) != "int" || len(ce.Args) != 1 {
			fail("isTornEntry: chunkLen is not int(…)")
		}
		g.def("wal_tornChunk", pos(cl), src(cl), "def wal_tornChunk (fileOff : Int) : Int := "+
			lean(ce.Args[0], map[string]string{"fileOff": "fileOff", "minSectorSize": "wal_minSectorSize"}))
		// the rest of the function (split on sector boundaries, any all-zero chunk) is a loop: pinned by its text
		rest := ""
		for _, st := range tf.Body.List[1:] {
			rest += strings.Join(strings.Fields(src(st)), " ") + "; "
		}
		const tornLoop = "fileOff := d.lastValidOff + frameSizeBytes; curOff := 0; chunks := [][]byte{}; " +
			"for curOff < len(data) { chunkLen := int(minSectorSize - (fileOff % minSectorSize)) if chunkLen > len(data)-curOff { chunkLen = len(data) - curOff } chunks = append(chunks, data[curOff:curOff+chunkLen]) fileOff += int64(chunkLen) curOff += chunkLen }; " +
			"for _, sect := range chunks { isZero := true for _, v := range sect { if v != 0 { isZero = false break } } if isZero { return true } }; return false; "
		if rest != tornLoop {
			fail("isTornEntry: the chunk loop changed: %s", rest)
		}
		g.def("wal_tornLoop", pos(tf), "(loop text pinned)", fmt.Sprintf("def wal_tornLoop : String := %q", "split on sector boundaries; torn iff some chunk is all zero"))

		// ---- ReadAll, entry case
		anchor("ReadAll.entry")
		ra := findFunc("wal/wal.go", "WAL.ReadAll")
		var keep, gap ast.Expr
		var app *ast.AssignStmt
		ast.Inspect(ra.Body, func(n ast.Node) bool {
			switch x := n.(type) {
			case *ast.IfStmt:
				c := src(x.Cond)
				if strings.Contains(c, "e.Index") && strings.Contains(c, "w.start.Index") {
					keep = x.Cond
				}
				if strings.Contains(c, "up") && strings.Contains(c, "len(ents)") {
					gap = x.Cond
				}
			case *ast.AssignStmt:
				if len(x.Lhs) == 1 && src(x.Lhs[0]) == "ents" && strings.HasPrefix(src(x.Rhs[0]), "append(") {
					app = x
				}
			}
			return true
		})
		up := defineRHS(ra, "up")
		if keep == nil || gap == nil || app == nil {
			fail("ReadAll: entry handling (keep test, gap test, append) not found")
		}
		if src(app) != "ents = append(ents[:up], e)" {
			fail("ReadAll: entries are no longer collected by `ents = append(ents[:up], e)`: %s", src(app))
		}
		rs := map[string]string{"e.Index": "eIndex", "w.start.Index": "startIndex", "up": "up", "uint64(len(ents))": "n"}
		g.def("wal_readKeep", pos(keep), src(keep), "def wal_readKeep (eIndex startIndex : Int) : Bool := "+lean(keep, rs))
		g.def("wal_readUp", pos(up), src(up), "def wal_readUp (eIndex startIndex : Int) : Int := "+lean(up, rs))
		g.def("wal_readGap", pos(gap), src(gap), "def wal_readGap (up n : Int) : Bool := "+lean(gap, rs))
		g.def("wal_readAppend", pos(app), src(app), fmt.Sprintf("def wal_readAppend : String := %q", src(app)))
		// newest state wins: `state = mustUnmarshalState(rec.Data)`
		nst := 0
		ast.Inspect(ra.Body, func(n ast.Node) bool {
			if a, ok := n.(*ast.AssignStmt); ok && src(a) == "state = mustUnmarshalState(rec.Data)" {
				nst++
			}
			return true
		})
		if nst != 1 {
			fail("ReadAll: `state = mustUnmarshalState(rec.Data)` not found exactly once")
		}
		// the chained crc test of a crcType record
		var chain ast.Expr
		ast.Inspect(ra.Body, func(n ast.Node) bool {
			if x, ok := n.(*ast.IfStmt); ok && strings.Contains(src(x.Cond), "rec.Validate(crc)") {
				chain = x.Cond
			}
			return true
		})
		if chain == nil {
			fail("ReadAll: crc chain test not found")
		}
		g.def("wal_chainBad", pos(chain), src(chain), "def wal_chainBad (crc : Int) (validateFails : Bool) : Bool := "+
			lean(chain, map[string]string{"crc": "crc", "rec.Validate(crc) != nil": "validateFails"}))
		for _, fn := range []string{"ValidSnapshotEntries", "Verify"} {
			var c2 ast.Expr
			ast.Inspect(findFunc("wal/wal.go", fn).Body, func(n ast.Node) bool {
				if x, ok := n.(*ast.IfStmt); ok && strings.Contains(src(x.Cond), "rec.Validate(crc)") {
					c2 = x.Cond
				}
				return true
			})
			if c2 == nil || src(c2) != src(chain) {
				fail("%s: crc chain test differs from ReadAll's", fn)
			}
		}
		var c3 ast.Expr
		ast.Inspect(findFunc("wal/repair.go", "Repair").Body, func(n ast.Node) bool {
			if x, ok := n.(*ast.IfStmt); ok && strings.Contains(src(x.Cond), "rec.Validate(crc)") {
				c3 = x.Cond
			}
			return true
		})
		if c3 == nil || src(c3) != src(chain) {
			fail("Repair: crc chain test differs from ReadAll's")
		}
		// snapshot markers are valid up to the committed index
		anchor("ValidSnapshotEntries.filter")
		var vcond ast.Expr
		ast.Inspect(findFunc("wal/wal.go", "ValidSnapshotEntries").Body, func(n ast.Node) bool {
			if x, ok := n.(*ast.IfStmt); ok && strings.Contains(src(x.Cond), "state.Commit") {
				vcond = x.Cond
			}
			return true
		})
		if vcond == nil {
			fail("ValidSnapshotEntries: commit filter not found")
		}
		g.def("wal_snapValid", pos(vcond), src(vcond), "def wal_snapValid (snapIndex commit : Int) : Bool := "+
			lean(vcond, map[string]string{"s.Index": "snapIndex", "state.Commit": "commit"}))

		// ---- Save: sync policy and cut decision
		anchor("Save")
		sv := findFunc("wal/wal.go", "WAL.Save")
		ms := defineRHS(sv, "mustSync")
		if src(ms) != "raft.MustSync(st, w.state, len(ents))" {
			fail("Save: mustSync is no longer raft.MustSync(st, w.state, len(ents)): %s", src(ms))
		}
		var fs ast.Expr
		var nFsyncTrue int
		var optGuard, cutCond ast.Expr
		ast.Inspect(sv.Body, func(n ast.Node) bool {
			switch x := n.(type) {
			case *ast.AssignStmt:
				if len(x.Lhs) == 1 && src(x.Lhs[0]) == "fsync" {
					if x.Tok == token.DEFINE {
						fs = x.Rhs[0]
					} else if src(x.Rhs[0]) == "true" {
						nFsyncTrue++
					} else {
						fail("Save: unexpected assignment %s", src(x))
					}
				}
			case *ast.IfStmt:
				c := src(x.Cond)
				if strings.Contains(c, "optimizedFsync") {
					optGuard = x.Cond
					if len(x.Body.List) != 1 || src(x.Body.List[0]) != "fsync = true" || x.Else != nil {
						fail("Save: the optimizedFsync guard no longer just sets fsync = true")
					}
				}
				if strings.Contains(c, "SegmentSizeBytes") {
					cutCond = x.Cond
					body := strings.Join(strings.Fields(src(x.Body)), " ")
					if body != "{ if mustSync { return w.sync(fsync) } return nil }" {
						fail("Save: the no-cut branch changed: %s", body)
					}
				}
			}
			return true
		})
		if fs == nil || optGuard == nil || cutCond == nil || nFsyncTrue != 1 {
			fail("Save: fsync decision, optimizedFsync guard or cut test not found")
		}
		lastSt := sv.Body.List[len(sv.Body.List)-1]
		if src(lastSt) != "return w.cut()" {
			fail("Save: does not end with `return w.cut()`")
		}
		if strings.Join(strings.Fields(src(sv.Body.List[2])), " ") != "if raft.IsEmptyHardState(st) && len(ents) == 0 { return nil }" {
			fail("Save: the empty short cut changed: %s", src(sv.Body.List[2]))
		}
		ss := map[string]string{"raft.IsEmptyHardState(st)": "stEmpty", "st.Vote": "vote", "w.state.Vote": "pvote", "st.Term": "term",
			"w.state.Term": "pterm", "w.optimizedFsync": "opt", "curOff": "curOff", "SegmentSizeBytes": "seg"}
		g.def("wal_saveFsync", pos(fs), src(fs), "def wal_saveFsync (stEmpty : Bool) (vote pvote term pterm : Int) : Bool := "+lean(fs, ss))
		g.def("wal_saveForceFsync", pos(optGuard), src(optGuard), "def wal_saveForceFsync (opt : Bool) : Bool := "+lean(optGuard, ss))
		g.def("wal_saveNoCut", pos(cutCond), src(cutCond), "def wal_saveNoCut (curOff seg : Int) : Bool := "+lean(cutCond, ss))
		anchor("raft.MustSync")
		mse := soleReturn(findFunc("raft/node.go", "MustSync"))
		g.def("wal_mustSync", pos(mse), src(mse), "def wal_mustSync (entsnum vote pvote term pterm : Int) : Bool := "+
			lean(mse, map[string]string{"entsnum": "entsnum", "st.Vote": "vote", "prevst.Vote": "pvote", "st.Term": "term", "prevst.Term": "pterm"}))
		// the entries and the state are written before the decision
		order := ""
		for _, st := range sv.Body.List {
			t := strings.Join(strings.Fields(src(st)), " ")
			switch {
			case strings.HasPrefix(t, "for i := range ents"):
				order += "E"
			case strings.Contains(t, "w.saveState(&st)"):
				order += "S"
			case strings.Contains(t, "w.tail().Seek(0, io.SeekCurrent)"):
				order += "O"
			case strings.Contains(t, "SegmentSizeBytes"):
				order += "D"
			}
		}
		if order != "ESOD" {
			fail("Save: order of entries / state / offset / decision changed: %s", order)
		}
		// SaveSnapshot and cut sync with !w.optimizedFsync
		anchor("SaveSnapshot.sync")
		sn := findFunc("wal/wal.go", "WAL.SaveSnapshot")
		lr, oklr := sn.Body.List[len(sn.Body.List)-1].(*ast.ReturnStmt)
		if !oklr || src(lr) != "return w.sync(!w.optimizedFsync)" {
			fail("SaveSnapshot: does not end with return w.sync(!w.optimizedFsync)")
		}
		anchor("cut.sync")
		nsync := 0
		ast.Inspect(findFunc("wal/wal.go", "WAL.cut").Body, func(n ast.Node) bool {
			if c, ok := n.(*ast.CallExpr); ok && src(c.Fun) == "w.sync" {
				if src(c.Args[0]) != "!w.optimizedFsync" {
					fail("cut: w.sync called with %s", src(c.Args[0]))
				}
				nsync++
			}
			return true
		})
		if nsync != 2 {
			fail("cut: expected two w.sync(!w.optimizedFsync), found %d", nsync)
		}
		g.def("wal_markerFsync", pos(lr), "w.sync(!w.optimizedFsync) in SaveSnapshot and twice in cut", "def wal_markerFsync (opt : Bool) : Bool := (!opt)")
		// WAL.sync: flush, then `if !fsync { return nil }`, then Fdatasync
		anchor("WAL.sync")
		sy := findFunc("wal/wal.go", "WAL.sync")
		t := strings.Join(strings.Fields(src(sy.Body)), " ")
		if !strings.HasPrefix(t, "{ if w.encoder != nil { if err := w.encoder.flush(); err != nil { return err } } if !fsync { return nil } start := time.Now() err := fileutil.Fdatasync(w.tail().File)") {
			fail("WAL.sync: flush / fsync structure changed")
		}

		// ---- PageWriter.Write
		anchor("PageWriter.Write")
		pw := findFunc("pkg/ioutil/pagewriter.go", "PageWriter.Write")
		fit, okf := pw.Body.List[0].(*ast.IfStmt)
		if !okf {
			fail("PageWriter.Write: first statement is not the no-overflow test")
		}
		ps := map[string]string{"len(p)": "n", "pw.bufferedBytes": "buffered", "pw.bufWatermarkBytes": "watermark",
			"pw.pageBytes": "pageBytes", "pw.pageOffset": "pageOffset", "slack": "slack"}
		g.def("wal_pwFits", pos(fit.Cond), src(fit.Cond), "def wal_pwFits (n buffered watermark : Int) : Bool := "+lean(fit.Cond, ps))
		var slackDef ast.Expr
		ast.Inspect(pw.Body, func(n ast.Node) bool {
			if a, ok := n.(*ast.AssignStmt); ok && a.Tok == token.DEFINE && len(a.Lhs) == 1 && src(a.Lhs[0]) == "slack" {
				slackDef = a.Rhs[0]
			}
			return true
		})
		if slackDef == nil {
			fail("PageWriter.Write: slack definition not found")
		}
		g.def("wal_pwSlack", pos(slackDef), src(slackDef), "def wal_pwSlack (pageBytes pageOffset buffered : Int) : Int := "+lean(slackDef, ps))
		pg := defineRHS(pw, "pages")
		g.def("wal_pwPages", pos(pg), src(pg), "def wal_pwPages (n pageBytes : Int) : Int := "+lean(pg, ps))
		var direct ast.Expr
		ast.Inspect(pw.Body, func(n ast.Node) bool {
			if x, ok := n.(*ast.IfStmt); ok && src(x.Cond) == "len(p) > pw.pageBytes" {
				direct = x.Cond
			}
			return true
		})
		if direct == nil {
			fail("PageWriter.Write: direct page write test changed")
		}
		g.def("wal_pwDirect", pos(direct), src(direct), "def wal_pwDirect (n pageBytes : Int) : Bool := "+lean(direct, ps))
		g.write()
	}
}

// the RHS of the unique short variable declaration `lhs := …` inside fd
func defineRHS(fd *ast.FuncDecl, lhs string) ast.Expr {
	var found []ast.Expr
	ast.Inspect(fd.Body, func(n ast.Node) bool {
		if a, ok := n.(*ast.AssignStmt); ok && a.Tok == token.DEFINE && len(a.Lhs) == 1 && len(a.Rhs) == 1 && src(a.Lhs[0]) == lhs {
			found = append(found, a.Rhs[0])
		}
		return true
	})
	if len(found) != 1 {
		fail("func %s: expected exactly one definition %s := …, found %d", fd.Name.Name, lhs, len(found))
	}
	return found[0]
}

// evalIota evaluates `iota`, `iota + k`, `k + iota` and plain integer constants
func evalIota(e ast.Expr, iota int64) int64 {
	switch x := e.(type) {
	case *ast.Ident:
		if x.Name == "iota" {
			return iota
		}
	case *ast.ParenExpr:
		return evalIota(x.X, iota)
	case *ast.BasicLit:
		return evalInt("", x)
	case *ast.BinaryExpr:
		a, b := evalIota(x.X, iota), evalIota(x.Y, iota)
		switch x.Op {
		case token.ADD:
			return a + b
		case token.SUB:
			return a - b
		case token.MUL:
			return a * b
		}
	}
	fail("cannot evaluate iota expression %s", src(e))
	return 0
}
