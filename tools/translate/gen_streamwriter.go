package main

import (
	"go/ast"
	"strings"
)

// StreamWriter (C16): transport/rafthttp/stream.go streamWriter.run — the batching loop of the `case m := <-msgc` arm:
// every message taken from the channel is encoded before another one is taken or the batch ends; the forced-flush limit
// is tested BEFORE the non-blocking receive (a message is only taken when it will be encoded in this batch).
func init() {
	generators["StreamWriter"] = func() {
		g := newGen("StreamWriter", "C16: the batching loop of rafthttp streamWriter.run")
		norm := func(s string) string { return strings.Join(strings.Fields(s), " ") }
		fd := findFunc("transport/rafthttp/stream.go", "streamWriter.run")
		anchor("batchLoop")
		var arm *ast.CommClause
		ast.Inspect(fd.Body, func(n ast.Node) bool {
			if c, ok := n.(*ast.CommClause); ok && c.Comm != nil && norm(src(c.Comm)) == "m := <-msgc" {
				arm = c
			}
			return true
		})
		if arm == nil {
			fail("the `case m := <-msgc` arm of streamWriter.run was not found")
		}
		var loop *ast.ForStmt
		for _, st := range arm.Body {
			if f, ok := st.(*ast.ForStmt); ok {
				if loop != nil {
					fail("the msgc arm has more than one for loop")
				}
				loop = f
			}
		}
		if loop == nil || loop.Init == nil || norm(src(loop.Init)) != "done := false" || loop.Cond == nil || norm(src(loop.Cond)) != "!done" || loop.Post != nil {
			fail("the batching loop is no longer `for done := false; !done; { … }`")
		}
		want := []string{
			"err = enc.encode(&m)",
			"unflushed += m.Size()",
			"batched++",
			"m.Entries = nil",
			"if err != nil { break }",
			"if batched > streamBufSize/2 { done = true break }",
			"select { case m = <-msgc: default: done = true }",
		}
		if len(loop.Body.List) != len(want) {
			fail("the batching loop has %d statements, the model was written against %d", len(loop.Body.List), len(want))
		}
		for i, st := range loop.Body.List {
			if s := norm(src(st)); s != want[i] {
				fail("statement %d of the batching loop is `%s`, the model was written against `%s`", i+1, s, want[i])
			}
		}
		lim := loop.Body.List[5].(*ast.IfStmt).Cond
		g.def("batchLoop", pos(loop), "encode m; batched++; on error stop; batch limit reached: stop (nothing taken); otherwise take the next message if one is waiting, else stop",
			"def batchLoopShape : Bool := true")
		g.def("batchLimit", pos(lim), src(lim), "def batchFull (batched streamBufSize : Int) : Bool := "+
			lean(lim, map[string]string{"batched": "batched", "streamBufSize": "streamBufSize"}))
		g.write()
	}
}
