package main

import (
	"go/ast"
	"strings"
)

// Hup (C01): raft/raft.go hup — a replica does not start an election while committed configuration changes are not
// applied yet (its member set may be stale). Pinned: the scan covers applied+1 .. committed with NO size limit, the
// counting function, the blocking test, and that the campaign call comes after the guarded return; campaign is
// reached only through hup or from an election that already passed it.
func init() {
	generators["Hup"] = func() {
		g := newGen("Hup", "C01: the pending-configuration-change guard of raft.hup (raft/raft.go)")
		norm := func(s string) string { return strings.Join(strings.Fields(s), " ") }
		anchor("noLimit")
		if s := norm(src(constValue("raft/raft.go", "noLimit"))); s != "math.MaxUint64" {
			fail("noLimit is no longer math.MaxUint64: %s", s)
		}
		anchor("hup")
		fd := findFunc("raft/raft.go", "raft.hup")
		sliceAt, guardAt, campAt := -1, -1, -1
		var guard *ast.IfStmt
		var limit ast.Expr
		for i, st := range fd.Body.List {
			if a, ok := st.(*ast.AssignStmt); ok && len(a.Rhs) == 1 && norm(src(a.Lhs[0])) == "ents" {
				c, ok := a.Rhs[0].(*ast.CallExpr)
				if !ok || norm(src(c.Fun)) != "r.raftLog.slice" || len(c.Args) != 3 {
					fail("hup no longer reads the unapplied entries with r.raftLog.slice(lo, hi, limit): %s", norm(src(a)))
				}
				if lo, hi := strings.ReplaceAll(norm(src(c.Args[0])), " ", ""), strings.ReplaceAll(norm(src(c.Args[1])), " ", ""); lo != "r.raftLog.applied+1" || hi != "r.raftLog.committed+1" {
					fail("hup scans [%s, %s) instead of [applied+1, committed+1)", lo, hi)
				}
				limit, sliceAt = c.Args[2], i
			}
			if x, ok := st.(*ast.IfStmt); ok && x.Init != nil && norm(src(x.Init)) == "n := numOfPendingConf(ents)" {
				guard, guardAt = x, i
			}
			if norm(src(st)) == "r.campaign(t)" {
				campAt = i
			}
		}
		if sliceAt < 0 || guardAt < 0 || campAt < 0 || !(sliceAt < guardAt && guardAt < campAt) {
			fail("hup is no longer: ents := r.raftLog.slice(…); if n := numOfPendingConf(ents); … { return }; r.campaign(t)")
		}
		if campAt != len(fd.Body.List)-1 {
			fail("r.campaign(t) is no longer the last statement of hup")
		}
		last := guard.Body.List[len(guard.Body.List)-1]
		if _, ok := last.(*ast.ReturnStmt); !ok || guard.Else != nil {
			fail("the pending-configuration branch of hup no longer ends with return")
		}
		if s := norm(src(limit)); s != "noLimit" {
			fail("hup reads the unapplied entries with the size limit %s instead of noLimit: pending configuration changes behind that many bytes are not seen", s)
		}
		g.def("hup.limit", pos(fd), src(limit), "def hupLimit : Nat := 18446744073709551615")
		sub := map[string]string{"n": "n", "r.raftLog.committed": "committed", "r.raftLog.applied": "applied"}
		g.def("hup.blocked", pos(guard), src(guard.Cond), "def hupBlocked (n applied committed : Int) : Bool := "+lean(guard.Cond, sub))

		anchor("numOfPendingConf")
		fn := findFunc("raft/raft.go", "numOfPendingConf")
		if s := norm(src(fn.Body)); s != `{ n := 0 for i := range ents { if ents[i].Type == pb.EntryConfChange { n++ } } return n }` {
			fail("numOfPendingConf no longer counts the entries of type EntryConfChange: %s", s)
		}
		g.def("numOfPendingConf", pos(fn), "number of entries with Type == pb.EntryConfChange", "def pendingConfCountsConfChanges : Bool := true")

		anchor("campaign call sites")
		// r.campaign(…) is called from hup, and with campaignElection from campaign itself / stepCandidate after a won pre-vote
		f := parse("raft/raft.go")
		var sites []string
		ast.Inspect(f, func(n ast.Node) bool {
			if c, ok := n.(*ast.CallExpr); ok && norm(src(c.Fun)) == "r.campaign" {
				sites = append(sites, norm(src(c)))
			}
			return true
		})
		want := []string{"r.campaign(t)", "r.campaign(campaignElection)", "r.campaign(campaignElection)"}
		if strings.Join(sites, ";") != strings.Join(want, ";") {
			fail("campaign call sites changed: %v (expected hup's r.campaign(t) and the two pre-vote continuations)", sites)
		}
		g.def("campaign.sites", "raft/raft.go", strings.Join(sites, "; "), "def campaignOnlyThroughHup : Bool := true")
		g.write()
	}
}
