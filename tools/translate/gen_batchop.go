package main

import (
	"go/ast"
	"regexp"
	"strconv"
	"strings"
)

// BatchOp (C07): the decision of the apply-time batch operator (node/state_machine.go kvbatchOperator.IsBatchable) and the
// places where ApplyRaftRequest consults it. The statement texts are pinned (white space normalised); what is extracted
// are the arity bound of the multi-key DEL exclusion and maxDBBatchCmdNum. Any other change is ANCHOR-BROKEN.
func init() {
	generators["BatchOp"] = func() {
		g := newGen("BatchOp", "C07: which write requests join the open apply-time write batch")
		norm := func(s string) string { return strings.Join(strings.Fields(s), " ") }

		anchor("isBatchable")
		fd := findFunc("node/state_machine.go", "kvbatchOperator.IsBatchable")
		if len(fd.Body.List) != 4 {
			fail("IsBatchable no longer has four statements (del exclusion; dup lookup; the admission test; return false)")
		}
		re := regexp.MustCompile(`^if cmdName == "del" && len\(args\) > (\d+) \{ (?:// [^\n]*)?\s*return false \}$`)
		s0 := norm(stripComments(src(fd.Body.List[0])))
		m := regexp.MustCompile(`^if cmdName == "del" && len\(args\) > (\d+) \{ return false \}$`).FindStringSubmatch(s0)
		_ = re
		if m == nil {
			fail("first statement of IsBatchable is no longer `if cmdName == \"del\" && len(args) > N { return false }`: %s", s0)
		}
		delArgc, _ := strconv.Atoi(m[1])
		if s := norm(src(fd.Body.List[1])); s != `_, ok := bo.dupCheckMap[string(pk)]` {
			fail("second statement of IsBatchable changed: %s", s)
		}
		if s := norm(src(fd.Body.List[2])); s != `if rockredis.IsBatchableWrite(cmdName) && len(bo.batchReqIDList) < maxDBBatchCmdNum && !ok { return true }` {
			fail("admission test of IsBatchable changed: %s", s)
		}
		if s := norm(src(fd.Body.List[3])); s != `return false` {
			fail("last statement of IsBatchable changed: %s", s)
		}
		maxN := constInt("node/state_machine.go", "maxDBBatchCmdNum")
		g.def("isBatchable", pos(fd), `del with more than `+m[1]+` args excluded; IsBatchableWrite(cmdName) && len(batchReqIDList) < maxDBBatchCmdNum && !dup`,
			"def delMaxArgc : Nat := "+strconv.Itoa(delArgc)+"\ndef maxDBBatchCmdNum : Nat := "+strconv.FormatInt(maxN, 10)+
				"\n/-- `kvbatchOperator.IsBatchable(cmdName, pk, args)`: `argc` = len(args), `inDup` = pk is a key of the open batch, `n` = requests in it -/\n"+
				"def isBatchable (batchable : List String) (name : String) (argc : Nat) (inDup : Bool) (n : Nat) : Bool :=\n"+
				"  if name == \"del\" && decide (argc > delMaxArgc) then false\n  else batchable.contains name && decide (n < maxDBBatchCmdNum) && !inDup")

		anchor("applyRaftRequest")
		fa := findFunc("node/state_machine.go", "kvStoreSM.ApplyRaftRequest")
		// (1) the admission: if IsBatchable { if !IsBatched { BeginBatch … } } else { CommitBatch() }
		// (2) every request that runs while a batch is open records its key: `if pk != nil && batch.IsBatched() { batch.AddBatchKey(string(pk)) }`,
		//     a statement of the block that also calls the handler `h(cmd, reqTs)` — NOT inside the `if !batch.IsBatched()` of (1)
		var adm *ast.IfStmt
		var addKey *ast.IfStmt
		var addKeyBlockHasHandler bool
		ast.Inspect(fa, func(n ast.Node) bool {
			if x, ok := n.(*ast.IfStmt); ok && norm(src(x.Cond)) == `batch.IsBatchable(cmdName, string(pk), cmd.Args)` {
				adm = x
			}
			if b, ok := n.(*ast.BlockStmt); ok {
				for _, st := range b.List {
					if x, ok := st.(*ast.IfStmt); ok && strings.Contains(src(x.Body), "batch.AddBatchKey(") {
						if norm(src(x)) == `if pk != nil && batch.IsBatched() { batch.AddBatchKey(string(pk)) }` {
							addKey = x
							for _, st2 := range b.List {
								if strings.Contains(src(st2), "h(cmd, reqTs)") {
									addKeyBlockHasHandler = true
								}
							}
						}
					}
				}
			}
			return true
		})
		if adm == nil {
			fail("ApplyRaftRequest no longer asks `batch.IsBatchable(cmdName, string(pk), cmd.Args)`")
		}
		if e, ok := adm.Else.(*ast.BlockStmt); !ok || norm(src(e)) != `{ batch.CommitBatch() }` {
			fail("the else branch of the admission test is no longer `batch.CommitBatch()`")
		}
		if strings.Count(src(fa), "batch.AddBatchKey(") != 1 || addKey == nil || !addKeyBlockHasHandler {
			fail("`if pk != nil && batch.IsBatched() { batch.AddBatchKey(string(pk)) }` is no longer the one place, next to the handler call, where the key of every request of an open batch is recorded")
		}
		if addKey.Pos() < adm.End() == false {
			// the recording comes after the admission test
		}
		g.def("applyRaftRequest", pos(fa), "if IsBatchable {begin batch if none} else {CommitBatch}; if pk != nil && IsBatched {AddBatchKey(pk)}; h(cmd, ts)",
			"def applyShapePinned : Bool := true")
		g.write()
	}
}

func stripComments(s string) string {
	var out []string
	for _, l := range strings.Split(s, "\n") {
		if i := strings.Index(l, "//"); i >= 0 {
			l = l[:i]
		}
		out = append(out, l)
	}
	return strings.Join(out, "\n")
}
