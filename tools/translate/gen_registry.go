package main

import (
	"go/ast"
	"strings"
)

// Registry (C15): the decisions of the data node's namespace registry (node/namespace.go) that the registry model
// Route/Registry.lean is built from: the PartitionNum guard of InitNamespaceNode, the order guard < already-registered
// check < meta handling < registration, what the meta becomes on first init / on a partition-count mismatch / otherwise;
// the shape of the stopped callback (which meta is dropped when) and of the routing lookup; GetNsDesp /
// GetNamespaceAndPartition. Expressions are rendered, statement shapes are pinned (a changed shape is a broken anchor).
func init() {
	generators["Registry"] = func() {
		g := newGen("Registry", "C15: decisions of the namespace registry (node/namespace.go InitNamespaceNode, onNamespaceStopped, GetNamespaceNodeWithPrimaryKeySum; common/util.go GetNsDesp, GetNamespaceAndPartition)")
		norm := func(n ast.Node) string { return strings.Join(strings.Fields(src(n)), " ") }

		fd := findFunc("node/namespace.go", "NamespaceMgr.InitNamespaceNode")
		guard, exists, metaIdx, register := -1, -1, -1, -1
		var guardCond ast.Expr
		var metaIf *ast.IfStmt
		for i, st := range fd.Body.List {
			if x, ok := st.(*ast.IfStmt); ok {
				if guard < 0 && strings.Contains(src(x.Cond), "conf.PartitionNum") && norm(x.Body) == "{ return nil, errNamespaceConfInvalid }" {
					guard, guardCond = i, x.Cond
				}
				if x.Init != nil && norm(x.Init) == "n, ok := nsm.kvNodes[conf.Name]" && norm(x.Cond) == "ok" &&
					norm(x.Body) == "{ return n, ErrNamespaceAlreadyExist }" {
					exists = i
				}
				if x.Init != nil && norm(x.Init) == "oldMeta, ok := nsm.nsMetas[conf.BaseName]" && norm(x.Cond) == "!ok" {
					metaIdx, metaIf = i, x
				}
			}
			if norm(st) == "nsm.kvNodes[conf.Name] = n" {
				register = i
			}
		}
		anchor("initPartitionNumInvalid")
		if guard < 0 {
			fail("InitNamespaceNode: no `if <cond on conf.PartitionNum> { return nil, errNamespaceConfInvalid }`")
		}
		g.def("initPartitionNumInvalid", pos(guardCond), src(guardCond),
			"def initPartitionNumInvalid (pnum : Int) : Bool := "+lean(guardCond, map[string]string{"conf.PartitionNum": "pnum"}))

		anchor("initOrder")
		if exists < 0 || metaIdx < 0 || register < 0 || !(guard < exists && exists < metaIdx && metaIdx < register) {
			fail("InitNamespaceNode: expected PartitionNum guard (%d) < `if n, ok := nsm.kvNodes[conf.Name]; ok { return n, ErrNamespaceAlreadyExist }` (%d) < `if oldMeta, ok := nsm.nsMetas[conf.BaseName]; !ok` (%d) < `nsm.kvNodes[conf.Name] = n` (%d) as statements of the body", guard, exists, metaIdx, register)
		}
		g.def("initOrder", pos(fd), "PartitionNum guard; already-registered check on conf.Name; meta handling on conf.BaseName; kvNodes[conf.Name] = n", "def initOrderPinned : Bool := true")

		// what a branch of the meta handling leaves in nsMetas[conf.BaseName]: the PartitionNum of a fresh NamespaceMeta that
		// is stored into the map, or the old meta when nothing is stored
		stored := func(b *ast.BlockStmt, what string) (ast.Expr, bool) {
			var val ast.Expr
			storedIt := false
			for _, st := range b.List {
				a, ok := st.(*ast.AssignStmt)
				if !ok || len(a.Lhs) != 1 || len(a.Rhs) != 1 {
					continue
				}
				switch norm(a.Lhs[0]) {
				case "meta":
					val = nil
					if u, ok := a.Rhs[0].(*ast.UnaryExpr); ok {
						if cl, ok := u.X.(*ast.CompositeLit); ok && norm(cl.Type) == "NamespaceMeta" {
							for _, el := range cl.Elts {
								if kv, ok := el.(*ast.KeyValueExpr); ok && norm(kv.Key) == "PartitionNum" {
									val = kv.Value
								}
							}
							if val == nil {
								fail("%s: NamespaceMeta literal without PartitionNum: %s", what, norm(a))
							}
						}
					}
					if val == nil && norm(a.Rhs[0]) != "oldMeta" {
						fail("%s: meta is assigned something that is neither a NamespaceMeta literal nor oldMeta: %s", what, norm(a))
					}
					storedIt = false
				case "nsm.nsMetas[conf.BaseName]":
					if norm(a.Rhs[0]) != "meta" {
						fail("%s: nsMetas[conf.BaseName] is assigned %s", what, norm(a.Rhs[0]))
					}
					storedIt = true
				}
			}
			if val != nil && !storedIt {
				return nil, false // a fresh meta that never reaches the map: the map keeps what it had
			}
			return val, val != nil
		}
		sub := map[string]string{"conf.PartitionNum": "new", "oldMeta.PartitionNum": "old"}

		anchor("metaOnFirstInit")
		v, ok := stored(metaIf.Body, "first-init branch")
		if !ok {
			fail("InitNamespaceNode: the `!ok` branch does not store a NamespaceMeta into nsMetas[conf.BaseName]")
		}
		g.def("metaOnFirstInit", pos(metaIf.Body), src(v), "def metaOnFirstInit (new : Int) : Int := "+lean(v, sub))

		anchor("metaMismatch")
		eb, ok2 := metaIf.Else.(*ast.BlockStmt)
		if !ok2 || len(eb.List) != 1 {
			fail("InitNamespaceNode: the else branch of the meta lookup is no longer a single if")
		}
		mm, ok3 := eb.List[0].(*ast.IfStmt)
		if !ok3 || mm.Init != nil {
			fail("InitNamespaceNode: the else branch of the meta lookup is no longer a single if")
		}
		g.def("metaMismatch", pos(mm.Cond), src(mm.Cond), "def metaMismatch (old new : Int) : Bool := "+lean(mm.Cond, sub))

		anchor("metaOnMismatch")
		if v, ok := stored(mm.Body, "mismatch branch"); ok {
			g.def("metaOnMismatch", pos(mm.Body), src(v), "def metaOnMismatch (old new : Int) : Int := "+lean(v, sub))
		} else {
			g.def("metaOnMismatch", pos(mm.Body), "no new meta is stored", "def metaOnMismatch (old new : Int) : Int := old")
		}

		anchor("metaOtherwise")
		ob, ok4 := mm.Else.(*ast.BlockStmt)
		if !ok4 || norm(ob) != "{ meta = oldMeta }" {
			fail("InitNamespaceNode: the branch for an equal partition count is no longer `meta = oldMeta`")
		}
		g.def("metaOtherwise", pos(ob), "meta = oldMeta", "def metaKeptWhenEqual : Bool := true")

		// the stopped callback
		anchor("stoppedCallback")
		fs := findFunc("node/namespace.go", "NamespaceMgr.onNamespaceStopped")
		var lit *ast.FuncLit
		ast.Inspect(fs.Body, func(n ast.Node) bool {
			if l, ok := n.(*ast.FuncLit); ok && lit == nil {
				lit = l
			}
			return true
		})
		if lit == nil {
			fail("onNamespaceStopped no longer returns a func literal")
		}
		want := []string{
			"nsm.mutex.Lock()",
			"defer nsm.mutex.Unlock()",
			"_, ok := nsm.kvNodes[ns]",
			"if !ok { return }",
			"nsm.kvNodes[ns] = nil",
			"delete(nsm.kvNodes, ns)",
			"delete(nsm.groups, gid)",
			"baseNS, _ := common.GetNamespaceAndPartition(ns)",
			"meta, ok := nsm.nsMetas[baseNS]",
			"if !ok { return }",
			"found := false",
			"for fullName, _ := range nsm.kvNodes { n, _ := common.GetNamespaceAndPartition(fullName) if n == baseNS { found = true break } }",
			"if !found { if meta.walEng != nil { meta.walEng.CloseAll() } delete(nsm.nsMetas, baseNS) }",
		}
		var got []string
		for _, st := range lit.Body.List {
			s := norm(st)
			if strings.HasPrefix(s, "nodeLog.") {
				continue
			}
			if x, ok := st.(*ast.IfStmt); ok && norm(x.Cond) == "!found" { // drop the log line inside
				var keep []string
				for _, b := range x.Body.List {
					if !strings.HasPrefix(norm(b), "nodeLog.") {
						keep = append(keep, norm(b))
					}
				}
				s = "if !found { " + strings.Join(keep, " ") + " }"
			}
			got = append(got, s)
		}
		if strings.Join(got, " ;; ") != strings.Join(want, " ;; ") {
			for i := 0; i < len(got) || i < len(want); i++ {
				a, b := "", ""
				if i < len(got) {
					a = got[i]
				}
				if i < len(want) {
					b = want[i]
				}
				if a != b {
					fail("the stopped callback of onNamespaceStopped changed at statement %d: `%s` (expected `%s`)", i, a, b)
				}
			}
		}
		g.def("stoppedCallback", pos(lit), "unregister ns; baseNS = GetNamespaceAndPartition(ns); drop nsMetas[baseNS] iff no remaining full name parses to baseNS",
			"def stoppedCallbackPinned : Bool := true")

		// the routing lookup (the divisor itself is Gen.serverPartitionSum of Gen/Partition.lean)
		anchor("routeLookup")
		fr := findFunc("node/namespace.go", "NamespaceMgr.GetNamespaceNodeWithPrimaryKeySum")
		var rs []string
		for _, st := range fr.Body.List {
			s := norm(st)
			if x, ok := st.(*ast.IfStmt); ok {
				var keep []string
				for _, b := range x.Body.List {
					if !strings.HasPrefix(norm(b), "nodeLog.") {
						keep = append(keep, norm(b))
					}
				}
				s = "if " + norm(x.Cond) + " { " + strings.Join(keep, " ") + " }"
			}
			rs = append(rs, s)
		}
		wantR := []string{
			"nsm.mutex.RLock()", "defer nsm.mutex.RUnlock()",
			"v, ok := nsm.nsMetas[nsBaseName]", "if !ok { return nil, ErrNamespaceNotFound }",
			"pid := " + norm(assignRHS(fr, "pid")),
			"fullName := common.GetNsDesp(nsBaseName, pid)",
			"n, ok := nsm.kvNodes[fullName]", "if !ok { return nil, ErrNamespacePartitionNotFound }",
			"if !n.IsReady() { return nil, ErrRaftGroupNotReady }",
			"return n, nil",
		}
		if strings.Join(rs, " ;; ") != strings.Join(wantR, " ;; ") {
			fail("GetNamespaceNodeWithPrimaryKeySum changed: %s", strings.Join(rs, " ;; "))
		}
		g.def("routeLookup", pos(fr), "meta by base name; pid; GetNsDesp(base, pid); kvNodes lookup; IsReady", "def routeLookupPinned : Bool := true")

		anchor("nsDesp")
		e := soleReturn(findFunc("common/util.go", "GetNsDesp"))
		if norm(e) != `ns + "-" + strconv.Itoa(part)` {
			fail("GetNsDesp changed: %s", norm(e))
		}
		g.def("nsDesp", pos(e), src(e), `def nsDespExpr : String := "ns + \"-\" + strconv.Itoa(part)"`)

		anchor("nsAndPart")
		fp := findFunc("common/util.go", "GetNamespaceAndPartition")
		wantP := `{ splits := strings.SplitN(fullNamespace, "-", 2) if len(splits) != 2 { return "", 0 } namespace := splits[0] pid, err := strconv.Atoi(splits[1]) if err != nil { return "", 0 } return namespace, pid }`
		if norm(fp.Body) != wantP {
			fail("GetNamespaceAndPartition changed: %s", norm(fp.Body))
		}
		g.def("nsAndPart", pos(fp), "SplitN(full, \"-\", 2); Atoi(splits[1]); (\"\", 0) on failure", "def nsAndPartPinned : Bool := true")
		g.write()
	}
}
