package main

import (
	"fmt"
	"go/ast"
	"go/token"
	"os"
	"path/filepath"
	"sort"
	"strconv"
	"strings"
)

// C11: for every write command, the leader-side argument-count validator (as a rejection predicate over
// argc) and the highest argument index its apply-time handler touches without a guard of its own.

type cmdEntry struct {
	name     string
	reject   string // Lean Bool expression over n : Int, "" = could not be summarised
	required int    // the apply handler reads cmd.Args[i] for some i = required-1 without its own length guard
	where    string
	why      string
}

func nodeFiles() []string {
	fs, _ := filepath.Glob(filepath.Join(repo, "node", "*.go"))
	var out []string
	for _, f := range fs {
		if !strings.HasSuffix(f, "_test.go") {
			out = append(out, f)
		}
	}
	sort.Strings(out)
	return out
}

func findMethodAnywhere(recv, name string) *ast.FuncDecl {
	for _, p := range nodeFiles() {
		f := parse(p)
		for _, d := range f.Decls {
			if fd, ok := d.(*ast.FuncDecl); ok && fd.Name.Name == name && recvName(fd) == recv && fd.Body != nil {
				return fd
			}
		}
	}
	return nil
}

func findFuncAnywhere(name string) *ast.FuncDecl { return findMethodAnywhere("", name) }

func mentionsArgc(e ast.Expr) bool { return strings.Contains(src(e), "len(cmd.Args") }

// endsInErrorReturn: the block's last statement returns with a non-nil last result
func endsInErrorReturn(b *ast.BlockStmt) bool {
	if len(b.List) == 0 {
		return false
	}
	r, ok := b.List[len(b.List)-1].(*ast.ReturnStmt)
	if !ok || len(r.Results) == 0 {
		return false
	}
	last := src(r.Results[len(r.Results)-1])
	return last != "nil"
}

// rejection predicate of a validator body: OR over the top-level if/else-if chains of the conditions under
// which it returns an error because of the argument count
func rejectOf(stmts []ast.Stmt, subst map[string]string) (string, bool) {
	var parts []string
	okAll := true
	for _, st := range stmts {
		is, ok := st.(*ast.IfStmt)
		if !ok || !mentionsArgc(is.Cond) || is.Init != nil {
			continue
		}
		neg := "true"
		cur := is
		for cur != nil {
			if !mentionsArgc(cur.Cond) {
				break
			}
			c, ok := tryLean(cur.Cond, subst)
			if !ok {
				okAll = false
				break
			}
			if endsInErrorReturn(cur.Body) {
				parts = append(parts, "("+neg+" && "+c+")")
			}
			neg = "(" + neg + " && !" + c + ")"
			switch e := cur.Else.(type) {
			case *ast.IfStmt:
				cur = e
			case *ast.BlockStmt:
				if endsInErrorReturn(e) {
					parts = append(parts, neg)
				}
				cur = nil
			default:
				cur = nil
			}
		}
	}
	if !okAll {
		return "", false
	}
	if len(parts) == 0 {
		return "false", true
	}
	return strings.Join(parts, " || "), true
}

func tryLean(e ast.Expr, subst map[string]string) (s string, ok bool) {
	defer func() {
		if r := recover(); r != nil {
			if _, isB := r.(broken); isB {
				s, ok = "", false
				return
			}
			panic(r)
		}
	}()
	return lean(e, subst), true
}

// lower bound on len(cmd.Args) implied by a condition (0 = none)
func lenLowerBound(c ast.Expr) int {
	b, ok := c.(*ast.BinaryExpr)
	if !ok {
		return 0
	}
	if b.Op == token.LAND {
		l, r := lenLowerBound(b.X), lenLowerBound(b.Y)
		if l > r {
			return l
		}
		return r
	}
	if src(b.X) != "len(cmd.Args)" {
		return 0
	}
	lit, ok := b.Y.(*ast.BasicLit)
	if !ok || lit.Kind != token.INT {
		return 0
	}
	n, _ := strconv.Atoi(lit.Value)
	switch b.Op {
	case token.EQL, token.GEQ:
		return n
	case token.GTR:
		return n + 1
	}
	return 0
}

// requiredArgc: max over unguarded accesses cmd.Args[i] (needs i+1) and cmd.Args[i:] (needs i)
func requiredArgc(body *ast.BlockStmt) int {
	req := 0
	var walk func(n ast.Node, bound int)
	need := func(k, bound int) {
		if k > bound && k > req {
			req = k
		}
	}
	walk = func(n ast.Node, bound int) {
		if n == nil {
			return
		}
		switch x := n.(type) {
		case *ast.IfStmt:
			walk(x.Init, bound)
			walk(x.Cond, bound)
			nb := bound
			if lb := lenLowerBound(x.Cond); lb > nb {
				nb = lb
			}
			walk(x.Body, nb)
			// a guard `if len(cmd.Args) < N { return … }` / `!= N` protects what FOLLOWS; handled by the caller (selfGuard)
			if x.Else != nil {
				walk(x.Else, bound)
			}
			return
		case *ast.IndexExpr:
			if src(x.X) == "cmd.Args" {
				if lit, ok := x.Index.(*ast.BasicLit); ok && lit.Kind == token.INT {
					k, _ := strconv.Atoi(lit.Value)
					need(k+1, bound)
				}
			}
		case *ast.SliceExpr:
			if src(x.X) == "cmd.Args" && x.Low != nil {
				if lit, ok := x.Low.(*ast.BasicLit); ok && lit.Kind == token.INT {
					k, _ := strconv.Atoi(lit.Value)
					need(k, bound)
				}
			}
		case *ast.FuncLit:
			return
		}
		ast.Inspect(n, func(c ast.Node) bool {
			if c == n || c == nil {
				return true
			}
			walk(c, bound)
			return false
		})
	}
	// statements after a top-level guard that returns on a short argc are protected by it
	bound := 0
	for _, st := range body.List {
		if is, ok := st.(*ast.IfStmt); ok && is.Init == nil && endsInErrorReturn(is.Body) && is.Else == nil {
			if b, ok := is.Cond.(*ast.BinaryExpr); ok && src(b.X) == "len(cmd.Args)" {
				if lit, ok := b.Y.(*ast.BasicLit); ok && lit.Kind == token.INT {
					n, _ := strconv.Atoi(lit.Value)
					switch b.Op {
					case token.LSS, token.NEQ:
						if n > bound {
							bound = n
						}
						continue
					}
				}
			}
		}
		walk(st, bound)
	}
	return req
}

func init() {
	generators["CmdTable"] = func() {
		g := newGen("CmdTable", "C11: leader-side argc validators vs argument indexes touched by the apply handlers")
		reg := parse("node/node_cmd_reg.go")
		maxBatch := constInt("common/type.go", "MAX_BATCH_NUM")
		writes := map[string]ast.Expr{}
		internals := map[string]string{}
		ast.Inspect(reg, func(n ast.Node) bool {
			c, ok := n.(*ast.CallExpr)
			if !ok || len(c.Args) != 2 {
				return true
			}
			lit, ok := c.Args[0].(*ast.BasicLit)
			if !ok || lit.Kind != token.STRING {
				return true
			}
			name, _ := strconv.Unquote(lit.Value)
			switch src(c.Fun) {
			case "nd.router.RegisterWrite":
				writes[name] = c.Args[1]
			case "kvsm.router.RegisterInternal":
				internals[name] = strings.TrimPrefix(src(c.Args[1]), "kvsm.")
			}
			return true
		})
		anchor("registrations")
		if len(writes) < 30 || len(internals) < 30 {
			fail("found only %d RegisterWrite and %d RegisterInternal calls", len(writes), len(internals))
		}
		var names []string
		for n := range writes {
			names = append(names, n)
		}
		sort.Strings(names)
		var entries []cmdEntry
		var unsum []string
		for _, name := range names {
			anchor("cmd:" + name)
			e := cmdEntry{name: name}
			h, ok := internals[name]
			if !ok {
				continue // write command without an apply handler of that name (merge / custom): not in this table
			}
			if strings.Contains(h, ".") { // not a kvStoreSM method (test-only slow-write handlers of the slow limiter)
				continue
			}
			hd := findMethodAnywhere("kvStoreSM", h)
			if hd == nil {
				fail("apply handler %s not found", h)
			}
			e.required = requiredArgc(hd.Body)
			e.where = pos(hd)
			v := writes[name]
			base := map[string]string{"len(cmd.Args)": "n", "len(cmd.Args[2:])": "(n - 2)", "len(cmd.Args[1:])": "(n - 1)",
				"common.MAX_BATCH_NUM": fmt.Sprintf("(%d : Int)", maxBatch), "rockredis.MAX_BATCH_NUM": fmt.Sprintf("(%d : Int)", maxBatch)}
			switch x := v.(type) {
			case *ast.CallExpr: // wrapXxx(nd, …consts)
				wd := findFuncAnywhere(src(x.Fun))
				if wd == nil {
					e.why = "wrapper " + src(x.Fun) + " not found"
					break
				}
				// bind int parameters to the call-site constants
				i := 0
				for _, p := range wd.Type.Params.List {
					for _, pn := range p.Names {
						if i < len(x.Args) && src(p.Type) == "int" {
							if lit, ok := x.Args[i].(*ast.BasicLit); ok {
								base[pn.Name] = "(" + lit.Value + " : Int)"
							}
						}
						i++
					}
				}
				body := wd.Body
				// a wrapper that only forwards to another wrapper
				for len(body.List) == 1 {
					r, ok := body.List[0].(*ast.ReturnStmt)
					if !ok || len(r.Results) != 1 {
						break
					}
					if fl, ok := r.Results[0].(*ast.FuncLit); ok {
						body = fl.Body
						break
					}
					if c2, ok := r.Results[0].(*ast.CallExpr); ok {
						w2 := findFuncAnywhere(src(c2.Fun))
						if w2 == nil {
							break
						}
						body = w2.Body
						continue
					}
					break
				}
				if rj, ok := rejectOf(body.List, base); ok {
					e.reject = rj
				} else {
					e.why = "argc conditions of " + src(x.Fun) + " not renderable"
				}
			case *ast.SelectorExpr: // nd.xxxCommand
				md := findMethodAnywhere("KVNode", x.Sel.Name)
				if md == nil {
					e.why = "validator " + src(v) + " not found"
					break
				}
				if rj, ok := rejectOf(md.Body.List, base); ok {
					e.reject = rj
				} else {
					e.why = "argc conditions of " + src(v) + " not renderable"
				}
			default:
				e.why = "unknown validator form " + src(v)
			}
			if e.reject == "" {
				unsum = append(unsum, name+": "+e.why)
				continue
			}
			entries = append(entries, e)
		}
		anchor("table")
		if len(entries) < 25 {
			fail("only %d commands could be summarised (%v)", len(entries), unsum)
		}
		var b strings.Builder
		b.WriteString("structure CmdEntry where\n  name : String\n  reject : Int → Bool   -- the leader-side validator refuses this argument count\n  required : Nat        -- the apply handler touches cmd.Args[required-1] without a length guard of its own\n\n")
		b.WriteString("def cmdTable : List CmdEntry := [\n")
		for i, e := range entries {
			sep := ","
			if i == len(entries)-1 {
				sep = ""
			}
			fmt.Fprintf(&b, "  { name := %q, reject := fun n => %s, required := %d }%s\n", e.name, e.reject, e.required, sep)
			facts["CmdTable.cmd:"+e.name] = map[string]string{"reject": e.reject, "required": fmt.Sprint(e.required), "handler": e.where}
		}
		b.WriteString("]\n\n")
		var q []string
		for _, u := range unsum {
			q = append(q, strconv.Quote(u))
		}
		fmt.Fprintf(&b, "/-- write commands whose validator the extractor could not summarise (covered by the fuzz only) -/\ndef unsummarised : List String := [%s]\n", strings.Join(q, ", "))
		g.buf.WriteString(b.String() + "\n")
		g.write()
		_ = os.Stdout
	}
}
