package main

import (
	"strings"
)

// Abort (C11/C07): the error path of the apply loop — a write command that answers an error must leave nothing of itself in
// the SHARED write batch of the store (rockredis write paths stage their puts in db.wb while they run and rely on the caller
// to clear it when they fail): node/state_machine.go ApplyRaftRequest calls batch.AbortBatchForError(err) whenever
// rockredis.IsNeedAbortError(err), which is false for errTooMuchBatchSize only (raised before anything is staged), and
// AbortBatchForError clears the store's batch FIRST, whether or not a batch of several commands is open.
func init() {
	generators["Abort"] = func() {
		g := newGen("Abort", "C11/C07: a failed write leaves nothing in the shared write batch (error path of the apply loop)")
		norm := func(s string) string { return strings.Join(strings.Fields(s), " ") }
		anchor("IsNeedAbortError")
		nb := norm(src(findFunc("rockredis/rockredis.go", "IsNeedAbortError").Body))
		if nb != "{ if err == errTooMuchBatchSize { return false } return true }" {
			fail("IsNeedAbortError is no longer `false for errTooMuchBatchSize only`: %s", nb)
		}
		g.def("IsNeedAbortError", "rockredis/rockredis.go", "err == errTooMuchBatchSize => false; otherwise true",
			"def needAbort (isTooMuchBatchSize : Bool) : Bool := !isTooMuchBatchSize")
		anchor("AbortBatchForError")
		fa := findFunc("node/state_machine.go", "kvbatchOperator.AbortBatchForError")
		if len(fa.Body.List) < 2 || norm(src(fa.Body.List[0])) != "bo.kvsm.store.AbortBatch()" ||
			norm(src(fa.Body.List[1])) != "if !bo.IsBatched() { return }" {
			fail("AbortBatchForError no longer clears the store's write batch FIRST, before the `if !bo.IsBatched() { return }` guard")
		}
		g.def("AbortBatchForError", pos(fa), "bo.kvsm.store.AbortBatch() is the first statement, in front of the IsBatched guard",
			"def abortClearsUnconditionally : Bool := true")
		anchor("applyErrorPath")
		ap := norm(src(findFunc("node/state_machine.go", "kvStoreSM.ApplyRaftRequest").Body))
		want := "v, err := h(cmd, reqTs) if err != nil {"
		i := strings.Index(ap, want)
		if i < 0 {
			fail("the handler call `v, err := h(cmd, reqTs)` with its error branch was not found in ApplyRaftRequest")
		}
		rest := ap[i:]
		j := strings.Index(rest, "} else {")
		if j < 0 || !strings.Contains(rest[:j], "if rockredis.IsNeedAbortError(err) { batch.AbortBatchForError(err) }") ||
			strings.Count(ap, "batch.AbortBatchForError(") != 1 {
			fail("the error branch of the handler call no longer runs `if rockredis.IsNeedAbortError(err) { batch.AbortBatchForError(err) }`")
		}
		g.def("applyErrorPath", "node/state_machine.go", "err != nil: Trigger(reqID, err); panic if unrecoverable; if IsNeedAbortError(err) { AbortBatchForError(err) }",
			"def errorPathAborts : Bool := true")
		g.write()
	}
}
