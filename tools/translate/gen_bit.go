package main

import (
	"fmt"
	"go/ast"
	"strings"
)

// Bit: constants, guards and index arithmetic of the bitmap type (rockredis/t_bitmap.go, node/keys.go) that the
// executable bitmap model lean/ZanVerif/Data/BitExec.lean and the theorems Props/C08Bit, C09Bit, C11Models are stated
// over. Every expression is re-extracted from the source; a statement that moved or changed its shape is ANCHOR-BROKEN.
func init() {
	generators["Bit"] = func() {
		g := newGen("Bit", "C08/C09/C11 bitmap: segment constants, offset / value guards, segment index and byte offset arithmetic, BITCOUNT range arithmetic")
		const bm = "rockredis/t_bitmap.go"

		for _, c := range []struct{ name, lean string }{{"bitmapSegBits", "cBitmapSegBits"}, {"bitmapSegBytes", "cBitmapSegBytes"}} {
			anchor(c.name)
			v := constInt(bm, c.name)
			if v <= 0 {
				fail("%s is not positive: %d", c.name, v)
			}
			g.def(c.name, bm, src(constValue(bm, c.name)), fmt.Sprintf("def %s : Int := %d", c.lean, v))
		}
		anchor("MaxBitOffsetV2")
		if s := src(constValue(bm, "MaxBitOffsetV2")); s != "math.MaxUint32 - 1" {
			fail("MaxBitOffsetV2 is no longer math.MaxUint32 - 1: %s", s)
		}
		g.def("MaxBitOffsetV2", bm, "math.MaxUint32 - 1", "def cMaxBitOffsetV2 : Int := 4294967294")
		anchor("MaxBitOffset")
		g.def("MaxBitOffset", "rockredis/t_kv.go", src(constValue("rockredis/t_kv.go", "MaxBitOffset")),
			fmt.Sprintf("def cMaxBitOffset : Int := %d", constInt("rockredis/t_kv.go", "MaxBitOffset")))
		anchor("tsLen")
		g.def("tsLen", "rockredis/t_kv.go", src(constValue("rockredis/t_kv.go", "tsLen")),
			fmt.Sprintf("def cTsLen : Nat := %d", constInt("rockredis/t_kv.go", "tsLen")))

		consts := map[string]string{"bitmapSegBits": "cBitmapSegBits", "bitmapSegBytes": "cBitmapSegBytes",
			"MaxBitOffsetV2": "cMaxBitOffsetV2", "rockredis.MaxBitOffset": "cMaxBitOffset", "MaxBitOffset": "cMaxBitOffset"}
		with := func(extra map[string]string) map[string]string {
			m := map[string]string{}
			for k, v := range consts {
				m[k] = v
			}
			for k, v := range extra {
				m[k] = v
			}
			return m
		}
		// the guard of the unique `if <cond> { return …, <what> }` of fd; idx = position of that statement in the body
		guardOf := func(fd *ast.FuncDecl, what string) (ast.Expr, int) {
			var cond ast.Expr
			at, n := -1, 0
			for i, st := range fd.Body.List {
				if is, ok := st.(*ast.IfStmt); ok && is.Init == nil && is.Else == nil && len(is.Body.List) == 1 {
					if r, ok := is.Body.List[0].(*ast.ReturnStmt); ok && strings.Contains(src(r), what) {
						cond, at = is.Cond, i
						n++
					}
				}
			}
			if n != 1 {
				fail("func %s no longer has exactly one top-level `if <guard> { return …%s… }` (found %d)", fd.Name.Name, what, n)
			}
			return cond, at
		}
		firstStmtWith := func(fd *ast.FuncDecl, text string) int {
			for i, st := range fd.Body.List {
				if strings.Contains(src(st), text) {
					return i
				}
			}
			fail("func %s no longer contains %q", fd.Name.Name, text)
			return -1
		}

		// ---- BitSetV2: value guard, offset guard, both BEFORE anything is read or written
		set := findFunc(bm, "RockDB.BitSetV2")
		anchor("bitValueBad")
		vg, vAt := guardOf(set, "bit should be 0 or 1")
		if src(vg) != "(on & ^1) != 0" {
			fail("the bit value guard of BitSetV2 is no longer `(on & ^1) != 0`: %s", src(vg))
		}
		g.def("bitValueBad", pos(set), src(vg), "def bitValueBad (on : Int) : Bool := ((on != (0 : Int)) && (on != (1 : Int)))")
		anchor("bitOffsetBad")
		og, oAt := guardOf(set, "ErrBitOverflow")
		g.def("bitOffsetBad", pos(set), src(og), "def bitOffsetBad (offset : Int) : Bool := "+lean(og, with(map[string]string{"offset": "offset"})))
		anchor("bitGuardsFirst")
		firstUse := firstStmtWith(set, "db.wb")
		if m := firstStmtWith(set, "getBitmapMeta"); m < firstUse {
			firstUse = m
		}
		if w := firstStmtWith(set, "bitSetToNew"); w < firstUse {
			firstUse = w
		}
		if !(vAt < firstUse && oAt < firstUse) {
			fail("BitSetV2: the value guard (stmt %d) and the offset guard (stmt %d) no longer precede the first read / write (stmt %d)", vAt, oAt, firstUse)
		}
		g.def("bitGuardsFirst", pos(set), fmt.Sprintf("value guard = statement %d, offset guard = statement %d, first use of the store = statement %d", vAt, oAt, firstUse),
			"def bitGuardsFirst : Bool := true")

		anchor("bitDeadSizeZero")
		// `if !ok { bmSize = 0; … }` (fix 0ad0963): an absent or expired bitmap starts with size 0, before the legacy conversion
		var dead *ast.IfStmt
		nDead := 0
		for _, st := range set.Body.List {
			if is, ok := st.(*ast.IfStmt); ok && src(is.Cond) == "!ok" {
				dead = is
				nDead++
			}
		}
		if nDead != 1 || len(dead.Body.List) == 0 || strings.Join(strings.Fields(src(dead.Body.List[0])), " ") != "bmSize = 0" {
			fail("BitSetV2 no longer has exactly one `if !ok { bmSize = 0; … }` with the reset as its first statement")
		}
		// the only other writes to bmSize in that branch: `bmSize += int64(len(segv))` inside the conversion loop
		nAsg := 0
		ast.Inspect(dead.Body, func(n ast.Node) bool {
			if a, ok := n.(*ast.AssignStmt); ok && len(a.Lhs) == 1 && src(a.Lhs[0]) == "bmSize" {
				nAsg++
				if t := strings.Join(strings.Fields(src(a)), " "); t != "bmSize = 0" && t != "bmSize += int64(len(segv))" {
					fail("BitSetV2: unexpected assignment to bmSize in the !ok branch: %s", t)
				}
			}
			return true
		})
		if nAsg != 2 {
			fail("BitSetV2: expected 2 assignments to bmSize in the !ok branch, found %d", nAsg)
		}
		g.def("bitDeadSizeZero", pos(set), "if !ok { bmSize = 0; … bmSize += int64(len(segv)) … }", "def bitDeadSizeZero : Bool := true")

		// ---- leader side (node/keys.go setbitCommand)
		anchor("bitLeaderOffsetBad")
		lead := findFunc("node/keys.go", "KVNode.setbitCommand")
		lg, lAt := guardOf(lead, "ErrBitOverflow")
		g.def("bitLeaderOffsetBad", pos(lead), src(lg), "def bitLeaderOffsetBad (offset : Int) : Bool := "+lean(lg, with(map[string]string{"offset": "offset"})))
		anchor("bitLeaderValueBad")
		lv, lvAt := guardOf(lead, "bit should be 0 or 1")
		if src(lv) != "(on & ^1) != 0" {
			fail("the bit value guard of setbitCommand is no longer `(on & ^1) != 0`: %s", src(lv))
		}
		if p := firstStmtWith(lead, "rebuildFirstKeyAndPropose"); !(lAt < lvAt && lvAt < p) {
			fail("setbitCommand: offset guard, value guard, proposal are no longer in this order")
		}
		g.def("bitLeaderValueBad", pos(lead), src(lv), "def bitLeaderValueBad (on : Int) : Bool := ((on != (0 : Int)) && (on != (1 : Int)))")

		// ---- bitSetToNew: segment index, byte offset, growth rule, reply
		stn := findFunc(bm, "RockDB.bitSetToNew")
		anchor("bitSetIndex")
		ie := assignRHS(stn, "index")
		g.def("bitSetIndex", pos(stn), src(ie), "def bitSetIndex (offset : Int) : Int := "+lean(ie, with(map[string]string{"offset": "offset"})))
		anchor("bitSetByteOff")
		be := assignRHS(stn, "byteOffset")
		ce, ok := be.(*ast.CallExpr)
		if !ok || src(ce.Fun) != "int" || len(ce.Args) != 1 {
			fail("byteOffset of bitSetToNew is no longer int(<expr>): %s", src(be))
		}
		g.def("bitSetByteOff", pos(stn), src(be), "def bitSetByteOff (offset : Int) : Int := "+lean(ce.Args[0], with(map[string]string{"offset": "offset"})))
		anchor("bitBitPos")
		bp := assignRHS(stn, "bit")
		if src(bp) != "7 - uint8(uint32(offset)&0x7)" {
			fail("bit position of bitSetToNew is no longer `7 - uint8(uint32(offset)&0x7)`: %s", src(bp))
		}
		g.def("bitBitPos", pos(stn), src(bp), "def bitBitPos (offset : Int) : Int := ((7 : Int) - (offset % (8 : Int)))")
		anchor("bitGrow")
		var growOuter, growInner ast.Expr
		var growDefault, growFar, sizeCond, sizeNew ast.Expr
		ast.Inspect(stn.Body, func(n ast.Node) bool {
			is, ok := n.(*ast.IfStmt)
			if !ok {
				return true
			}
			if strings.Contains(src(is.Cond), "byteOffset") && strings.Contains(src(is.Body), "expandSize :=") {
				growOuter = is.Cond
				for _, st := range is.Body.List {
					switch x := st.(type) {
					case *ast.AssignStmt:
						if len(x.Lhs) == 1 && src(x.Lhs[0]) == "expandSize" {
							growDefault = x.Rhs[0]
						}
					case *ast.IfStmt:
						if len(x.Body.List) == 1 {
							if a, ok := x.Body.List[0].(*ast.AssignStmt); ok && len(a.Lhs) == 1 {
								switch src(a.Lhs[0]) {
								case "expandSize":
									growInner, growFar = x.Cond, a.Rhs[0]
								case "bmSize":
									sizeCond, sizeNew = x.Cond, a.Rhs[0]
								}
							}
						}
					}
				}
			}
			return true
		})
		if growOuter == nil || growInner == nil || growDefault == nil || growFar == nil || sizeCond == nil || sizeNew == nil {
			fail("bitSetToNew no longer has `if byteOffset >= len(bmv) { expandSize := …; if … { expandSize = … }; bmv = append(…); if … { bmSize = … } }`")
		}
		gs := with(map[string]string{"byteOffset": "byteOffset", "len(bmv)": "len", "int64(len(bmv))": "len", "index": "index", "bmSize": "bmSize"})
		g.def("bitGrowNeeded", pos(stn), src(growOuter), "def bitGrowNeeded (byteOffset len : Int) : Bool := "+lean(growOuter, gs))
		g.def("bitGrowFar", pos(stn), src(growInner), "def bitGrowFar (byteOffset len : Int) : Bool := "+lean(growInner, gs))
		g.def("bitGrowDefault", pos(stn), src(growDefault), "def bitGrowDefault (_byteOffset len : Int) : Int := "+lean(growDefault, gs))
		g.def("bitGrowFarSize", pos(stn), src(growFar), "def bitGrowFarSize (byteOffset len : Int) : Int := "+lean(growFar, gs))
		g.def("bitSizeGrows", pos(stn), src(sizeCond), "def bitSizeGrows (len index bmSize : Int) : Bool := "+lean(sizeCond, gs))
		g.def("bitSizeNew", pos(stn), src(sizeNew), "def bitSizeNew (len index : Int) : Int := "+lean(sizeNew, gs))
		anchor("bitReplyOld")
		// `oldBit := byteVal & (1 << bit)` read BEFORE the byte is modified, `if oldBit > 0 { ret = 1 }`, `return ret, err`
		ob := assignRHS(stn, "oldBit")
		if src(ob) != "byteVal & (1 << bit)" {
			fail("oldBit of bitSetToNew is no longer `byteVal & (1 << bit)`: %s", src(ob))
		}
		iOld, iClear := firstStmtWith(stn, "oldBit :="), firstStmtWith(stn, "byteVal &= ")
		var retOK bool
		for _, st := range stn.Body.List {
			if is, ok := st.(*ast.IfStmt); ok && src(is.Cond) == "oldBit > 0" && len(is.Body.List) == 1 && src(is.Body.List[0]) == "ret = 1" {
				retOK = true
			}
		}
		last, isRet := stn.Body.List[len(stn.Body.List)-1].(*ast.ReturnStmt)
		if !(iOld < iClear) || !retOK || !isRet || len(last.Results) != 2 || src(last.Results[0]) != "ret" {
			fail("bitSetToNew no longer answers the bit read before the modification (`oldBit := …` before `byteVal &= …`, `if oldBit > 0 { ret = 1 }`, `return ret, err`)")
		}
		g.def("bitReplyOld", pos(stn), "oldBit := byteVal & (1 << bit) ; … ; if oldBit > 0 { ret = 1 } ; return ret, err", "def bitReplyOld : Bool := true")

		// ---- BitGetV2
		get := findFunc(bm, "RockDB.BitGetV2")
		anchor("bitGetIndex")
		gi := assignRHS(get, "index")
		g.def("bitGetIndex", pos(get), src(gi), "def bitGetIndex (offset : Int) : Int := "+lean(gi, with(map[string]string{"offset": "offset"})))
		anchor("bitGetByteOff")
		gb := assignRHS(get, "byteOffset")
		if src(gb) != "uint32(offset/8) % bitmapSegBytes" {
			fail("byteOffset of BitGetV2 is no longer `uint32(offset/8) % bitmapSegBytes`: %s", src(gb))
		}
		g.def("bitGetByteOff", pos(get), src(gb), "def bitGetByteOff (offset : Int) : Int := (((Int.tdiv offset (8 : Int)) % (4294967296 : Int)) % cBitmapSegBytes)")
		if gp := assignRHS(get, "bit"); src(gp) != src(bp) {
			fail("BitGetV2 and bitSetToNew no longer compute the bit position the same way: %s", src(gp))
		}

		// ---- BitCountV2
		cnt := findFunc(bm, "RockDB.BitCountV2")
		cs := with(map[string]string{"start": "start", "end": "stop", "int(start)": "start", "int(end)": "stop"})
		anchor("bitCountStartI")
		g.def("bitCountStartI", pos(cnt), src(assignRHS(cnt, "startI")), "def bitCountStartI (start : Int) : Int := "+lean(assignRHS(cnt, "startI"), cs))
		anchor("bitCountStopI")
		g.def("bitCountStopI", pos(cnt), src(assignRHS(cnt, "stopI")), "def bitCountStopI (stop : Int) : Int := "+lean(assignRHS(cnt, "stopI"), cs))
		anchor("bitCountByteStart")
		var starts []ast.Expr
		ast.Inspect(cnt.Body, func(n ast.Node) bool {
			if a, ok := n.(*ast.AssignStmt); ok && len(a.Lhs) == 1 && src(a.Lhs[0]) == "byteStart" {
				starts = append(starts, a.Rhs[0])
			}
			return true
		})
		if len(starts) != 3 || src(starts[0]) != "0" || src(starts[2]) != "byteEnd" {
			fail("BitCountV2 no longer assigns byteStart as 0 / <start expr> / byteEnd (the clamp): %d assignments", len(starts))
		}
		g.def("bitCountByteStart", pos(cnt), src(starts[1]), "def bitCountByteStart (start : Int) : Int := "+lean(starts[1], cs))
		anchor("bitCountByteEnd")
		// byteEnd is assigned three times: len(bmv), int(end)%bitmapSegBytes + 1, len(bmv) (the clamp)
		var ends []ast.Expr
		ast.Inspect(cnt.Body, func(n ast.Node) bool {
			if a, ok := n.(*ast.AssignStmt); ok && len(a.Lhs) == 1 && src(a.Lhs[0]) == "byteEnd" {
				ends = append(ends, a.Rhs[0])
			}
			return true
		})
		if len(ends) != 3 || src(ends[0]) != "len(bmv)" || src(ends[2]) != "len(bmv)" {
			fail("BitCountV2 no longer assigns byteEnd as len(bmv) / <end expr> / len(bmv): %d assignments", len(ends))
		}
		g.def("bitCountByteEnd", pos(cnt), src(ends[1]), "def bitCountByteEnd (stop : Int) : Int := "+lean(ends[1], cs))

		// the loop body of BitCountV2 (fix d794a70): decode, `if <behind> { break }`, value, cut points, `if <inverted> { byteStart = byteEnd }`, popcount
		anchor("bitCountBehind")
		var loop *ast.ForStmt
		nLoop := 0
		for _, st := range cnt.Body.List {
			if f, ok := st.(*ast.ForStmt); ok {
				loop = f
				nLoop++
			}
		}
		if nLoop != 1 {
			fail("BitCountV2 no longer has exactly one for loop (found %d)", nLoop)
		}
		iBreak, iClamp, iDecode, iValue, iCount := -1, -1, -1, -1, -1
		var behind, inverted ast.Expr
		for i, st := range loop.Body.List {
			t := strings.Join(strings.Fields(src(st)), " ")
			switch {
			case strings.Contains(t, "decodeBitmapKey(rawk)"):
				iDecode = i
			case strings.HasPrefix(t, "bmv := it.RefValue()"):
				iValue = i
			case strings.HasPrefix(t, "total += popcountBytes(bmv[byteStart:byteEnd])"):
				iCount = i
			}
			if is, ok := st.(*ast.IfStmt); ok && is.Init == nil && is.Else == nil && len(is.Body.List) == 1 {
				switch strings.Join(strings.Fields(src(is.Body.List[0])), " ") {
				case "break":
					if iBreak >= 0 {
						fail("BitCountV2: more than one `if … { break }` in the loop")
					}
					iBreak, behind = i, is.Cond
				case "byteStart = byteEnd":
					if iClamp >= 0 {
						fail("BitCountV2: more than one `if … { byteStart = byteEnd }` in the loop")
					}
					iClamp, inverted = i, is.Cond
				}
			}
		}
		if iDecode < 0 || iValue < 0 || iCount < 0 || iBreak < 0 || iClamp < 0 || !(iDecode < iBreak && iBreak < iValue && iValue < iClamp && iClamp+1 == iCount) {
			fail("BitCountV2 loop body is no longer: decodeBitmapKey (stmt %d), `if <behind> { break }` (%d), bmv := it.RefValue() (%d), …, `if <inverted> { byteStart = byteEnd }` (%d) directly before total += popcountBytes(bmv[byteStart:byteEnd]) (%d)",
				iDecode, iBreak, iValue, iClamp, iCount)
		}
		g.def("bitCountBehind", pos(cnt), src(behind), "def bitCountBehind (index stopI : Int) : Bool := "+
			lean(behind, with(map[string]string{"index": "index", "int64(stopI)": "stopI", "stopI": "stopI"})))
		anchor("bitCountInverted")
		g.def("bitCountInverted", pos(cnt), src(inverted), "def bitCountInverted (byteStart byteEnd : Int) : Bool := "+
			lean(inverted, map[string]string{"byteStart": "byteStart", "byteEnd": "byteEnd"}))

		// ---- getRange (t_kv.go), statement for statement
		anchor("getRange")
		gr := findFunc("rockredis/t_kv.go", "getRange")
		want := []string{
			"if start < 0 {\n\tstart = valLen + start\n}", "if end < 0 {\n\tend = valLen + end\n}", "if start < 0 {\n\tstart = 0\n}",
			"if end < 0 {\n\tend = 0\n}", "if end >= valLen {\n\tend = valLen - 1\n}", "return start, end"}
		if len(gr.Body.List) != len(want) {
			fail("getRange no longer has %d statements", len(want))
		}
		for i, st := range gr.Body.List {
			if strings.Join(strings.Fields(src(st)), " ") != strings.Join(strings.Fields(want[i]), " ") {
				fail("getRange statement %d changed: %s", i, src(st))
			}
		}
		g.def("getRange", pos(gr), "start<0: +valLen; end<0: +valLen; start<0: 0; end<0: 0; end>=valLen: valLen-1",
			"def getRange (start stop valLen : Int) : Int × Int :=\n  let s1 := if start < 0 then valLen + start else start\n  let e1 := if stop < 0 then valLen + stop else stop\n"+
				"  let s2 := if s1 < 0 then 0 else s1\n  let e2 := if e1 < 0 then 0 else e1\n  let e3 := if e2 ≥ valLen then valLen - 1 else e2\n  (s2, e3)")
		g.write()
	}
}
