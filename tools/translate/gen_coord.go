package main

import (
	"go/ast"
	"go/token"
	"strings"
)

// Gen/Coord.lean — C18: the guard expressions of the placement driver's decision methods
// (cluster/register.go IsISRQuorum; cluster/pdnode_coord/pd_coordinator.go handleNamespaceMigrate,
// addNamespaceToNode, removeNamespaceFromNode, removeNamespaceFromRemovings; place_driver.go rebalanceNamespace).

const coordFile = "cluster/pdnode_coord/pd_coordinator.go"

// all `if` conditions inside fd (pre-order)
func cdIfConds(fd *ast.FuncDecl) []*ast.IfStmt {
	var r []*ast.IfStmt
	ast.Inspect(fd.Body, func(n ast.Node) bool {
		if is, ok := n.(*ast.IfStmt); ok {
			r = append(r, is)
		}
		return true
	})
	return r
}

// the unique if of fd whose condition text is exactly want
func cdIfExact(fd *ast.FuncDecl, want string) *ast.IfStmt {
	var found []*ast.IfStmt
	for _, is := range cdIfConds(fd) {
		if src(is.Cond) == want {
			found = append(found, is)
		}
	}
	if len(found) != 1 {
		fail("func %s: expected exactly one `if %s`, found %d", fd.Name.Name, want, len(found))
	}
	return found[0]
}

// the unique if of fd whose body's first statement is `return <ret>`; returns its condition
func cdIfReturning(fd *ast.FuncDecl, ret string, nth, of int) ast.Expr {
	var found []ast.Expr
	for _, is := range cdIfConds(fd) {
		if len(is.Body.List) == 0 {
			continue
		}
		last := is.Body.List[len(is.Body.List)-1]
		if r, ok := last.(*ast.ReturnStmt); ok && len(r.Results) == 1 && src(r.Results[0]) == ret {
			found = append(found, is.Cond)
		}
	}
	if len(found) != of {
		fail("func %s: expected %d `if … { …; return %s }`, found %d", fd.Name.Name, of, ret, len(found))
	}
	return found[nth]
}

// number of `<x>++` statements in fd
func cdCountInc(n ast.Node, x string) int {
	k := 0
	ast.Inspect(n, func(n ast.Node) bool {
		if id, ok := n.(*ast.IncDecStmt); ok && src(id.X) == x && id.Tok == token.INC {
			k++
		}
		return true
	})
	return k
}

func cdHasStmt(n ast.Node, text string) bool {
	found := false
	ast.Inspect(n, func(n ast.Node) bool {
		if s, ok := n.(ast.Stmt); ok && src(s) == text {
			found = true
		}
		return true
	})
	return found
}

func init() {
	generators["Coord"] = func() {
		g := newGen("Coord", "C18: guard expressions of the migration / balance decisions")

		anchor("isISRQuorum")
		q := soleReturn(findFunc("cluster/register.go", "PartitionMetaInfo.IsISRQuorum"))
		g.def("isISRQuorum", pos(q), src(q), "def isISRQuorum (isrLen replica : Int) : Bool := "+
			lean(q, map[string]string{"len(self.GetISR())": "isrLen", "self.Replica": "replica"}))

		// GetISR = RaftNodes without the keys of Removings: the shape is asserted, not translated
		anchor("getISR")
		gi := findFunc("cluster/register.go", "PartitionReplicaInfo.GetISR")
		if !cdHasStmt(gi, "if _, ok := self.Removings[v]; ok {\n\tcontinue\n}") || !cdHasStmt(gi, "isr = append(isr, v)") {
			fail("GetISR is no longer `RaftNodes minus the keys of Removings`")
		}
		g.def("getISR", pos(gi), "for _, v := range RaftNodes { if _, ok := Removings[v]; ok { continue }; isr = append(isr, v) }",
			"def getISR : String := \"RaftNodes minus Removings\"")

		fm := findFunc(coordFile, "PDCoordinator.handleNamespaceMigrate")
		anchor("migrateBusy")
		c0 := cdIfReturning(fm, "ErrNamespaceMigrateWaiting", 0, 3)
		g.def("migrateBusy", pos(c0), src(c0), "def migrateBusy (removings : Int) : Bool := "+
			lean(c0, map[string]string{"len(origNSInfo.Removings)": "removings"}))

		anchor("canMark")
		var mark *ast.IfStmt
		for _, is := range cdIfConds(fm) {
			if strings.Contains(src(is.Cond), "len(nsInfo.GetISR())") {
				mark = is
			}
		}
		if mark == nil {
			fail("the marking guard (… len(nsInfo.GetISR()) …) was not found")
		}
		if !cdHasStmt(mark.Body, "isrChanged = true") || !strings.Contains(src(mark.Body), "nsInfo.Removings[replica] = cluster.RemovingInfo{") {
			fail("the marking guard no longer guards `nsInfo.Removings[replica] = …; isrChanged = true`")
		}
		g.def("canMark", pos(mark.Cond), src(mark.Cond), "def canMark (removings isrLen replica : Int) : Bool := "+
			lean(mark.Cond, map[string]string{"len(nsInfo.Removings)": "removings", "len(nsInfo.GetISR())": "isrLen", "nsInfo.Replica": "replica"}))

		anchor("unsyncedAborts")
		c1 := cdIfReturning(fm, "ErrNamespaceMigrateWaiting", 1, 3)
		if src(c1) != "err != nil || !synced" {
			fail("the early abort on an unsynced live replica changed: %s", src(c1))
		}
		g.def("unsyncedAborts", pos(c1), src(c1), "def unsyncedAborts (synced : Bool) : Bool := (!synced)")

		anchor("aliveTooFew")
		c2 := cdIfReturning(fm, "ErrNamespaceMigrateWaiting", 2, 3)
		g.def("aliveTooFew", pos(c2), src(c2), "def aliveTooFew (removings aliveReplicas replica : Int) : Bool := "+
			lean(c2, map[string]string{"len(nsInfo.Removings)": "removings", "aliveReplicas": "aliveReplicas", "nsInfo.Replica": "replica"}))

		anchor("clusterTooSmall")
		c3 := cdIfReturning(fm, "ErrNodeUnavailable", 0, 1)
		g.def("clusterTooSmall", pos(c3), src(c3), "def clusterTooSmall (currentNodes replica removings : Int) : Bool := "+
			lean(c3, map[string]string{"len(currentNodes)": "currentNodes", "nsInfo.Replica": "replica", "len(nsInfo.Removings)": "removings"}))

		anchor("addGate")
		gate := cdIfExact(fm, "len(nsInfo.Removings) == 0")
		if len(gate.Body.List) != 2 || src(gate.Body.List[0]) != "ok, err := IsAllISRFullReady(nsInfo)" {
			fail("the add block no longer starts with ok, err := IsAllISRFullReady(nsInfo)")
		}
		inner, ok := gate.Body.List[1].(*ast.IfStmt)
		if !ok || src(inner.Cond) != "err != nil || !ok" || inner.Else == nil {
			fail("the readiness gate `if err != nil || !ok { … } else { add }` changed")
		}
		var loop *ast.ForStmt
		ast.Inspect(inner.Else, func(n ast.Node) bool {
			if fs, ok := n.(*ast.ForStmt); ok && loop == nil {
				loop = fs
			}
			return true
		})
		if loop == nil || src(loop.Init) != "i := aliveReplicas" || src(loop.Post) != "i++" {
			fail("the add loop `for i := aliveReplicas; …; i++` changed")
		}
		if _, ok := loop.Body.List[len(loop.Body.List)-1].(*ast.BranchStmt); !ok {
			fail("the add loop no longer ends with `break` (one node at a time)")
		}
		g.def("addGate", pos(gate.Cond), src(gate.Cond)+" && IsAllISRFullReady ok", "def addGate (removings : Int) (allReady : Bool) : Bool := "+
			lean(gate.Cond, map[string]string{"len(nsInfo.Removings)": "removings"})+" && allReady")
		g.def("needAdd", pos(loop.Cond), "i := aliveReplicas; "+src(loop.Cond)+"; break", "def needAdd (aliveReplicas replica : Int) : Bool := "+
			lean(loop.Cond, map[string]string{"i": "aliveReplicas", "nsInfo.Replica": "replica"}))

		anchor("raftIdStepMigrate")
		if cdCountInc(loop, "nsInfo.MaxRaftID") != 1 || !cdHasStmt(loop, "nsInfo.RaftIDs[n.GetID()] = uint64(nsInfo.MaxRaftID)") ||
			!cdHasStmt(loop, "nsInfo.RaftNodes = append(nsInfo.RaftNodes, n.GetID())") {
			fail("handleNamespaceMigrate: MaxRaftID++ ; RaftIDs[n] = MaxRaftID ; RaftNodes = append(…) changed")
		}
		g.def("raftIdStepMigrate", pos(loop), "nsInfo.MaxRaftID++; nsInfo.RaftIDs[n.GetID()] = uint64(nsInfo.MaxRaftID)", "def raftIdStepMigrate : Int := 1")

		anchor("migrateWrites")
		fin := cdIfExact(fm, "isrChanged && nsInfo.IsISRQuorum()")
		two := cdIfReturning(fm, "cluster.ErrNamespaceConfInvalid", 0, 1)
		g.def("migrateWrites", pos(fin.Cond), src(fin.Cond), "def migrateWrites (isrChanged quorum : Bool) : Bool := (isrChanged && quorum)")
		g.def("twoRemovings", pos(two), src(two), "def twoRemovings (removings : Int) : Bool := "+
			lean(two, map[string]string{"len(nsInfo.Removings)": "removings"}))

		fa := findFunc(coordFile, "PDCoordinator.addNamespaceToNode")
		anchor("addBusy")
		a0 := cdIfReturning(fa, "cluster.ErrNamespaceWaitingSync", 0, 1)
		g.def("addBusy", pos(a0), src(a0), "def addBusy (removings : Int) : Bool := "+
			lean(a0, map[string]string{"len(origNSInfo.Removings)": "removings"}))
		anchor("raftIdStepAdd")
		if cdCountInc(fa, "nsInfo.MaxRaftID") != 1 || !cdHasStmt(fa, "nsInfo.RaftIDs[nid] = uint64(nsInfo.MaxRaftID)") {
			fail("addNamespaceToNode: MaxRaftID++ ; RaftIDs[nid] = MaxRaftID changed")
		}
		cdIfReturning(fa, "ErrNamespaceNodeConflict", 0, 1)
		g.def("raftIdStepAdd", pos(fa), "nsInfo.MaxRaftID++; nsInfo.RaftIDs[nid] = uint64(nsInfo.MaxRaftID)", "def raftIdStepAdd : Int := 1")

		fr := findFunc(coordFile, "PDCoordinator.removeNamespaceFromNode")
		anchor("removePre")
		r0 := cdIfReturning(fr, "ErrNamespaceReplicaNotEnough", 0, 2)
		if src(r0) != "!origNSInfo.IsISRQuorum()" {
			fail("removeNamespaceFromNode: first quorum guard changed: %s", src(r0))
		}
		g.def("removePre", pos(r0), src(r0), "def removePre (quorum : Bool) : Bool := (!quorum)")
		r1 := cdIfReturning(fr, "ErrNamespaceMigrateWaiting", 0, 1)
		g.def("removeBusy", pos(r1), src(r1), "def removeBusy (removings : Int) : Bool := "+
			lean(r1, map[string]string{"len(origNSInfo.Removings)": "removings"}))
		r2 := cdIfReturning(fr, "ErrNamespaceReplicaNotEnough", 1, 2)
		g.def("removePost", pos(r2), src(r2), "def removePost (quorumAfter : Bool) (removingsAfter : Int) : Bool := "+
			lean(r2, map[string]string{"nsInfo.IsISRQuorum()": "quorumAfter", "len(nsInfo.Removings)": "removingsAfter"}))

		ff := findFunc(coordFile, "PDCoordinator.removeNamespaceFromRemovings")
		anchor("finishGuards")
		f0 := cdIfExact(ff, "len(nodes) < 1")
		g.def("finishTooFew", pos(f0.Cond), src(f0.Cond), "def finishTooFew (nodesLeft : Int) : Bool := "+
			lean(f0.Cond, map[string]string{"len(nodes)": "nodesLeft"}))
		f1 := cdIfExact(ff, "changed && nsInfo.IsISRQuorum()")
		g.def("finishWrites", pos(f1.Cond), src(f1.Cond), "def finishWrites (changed quorum : Bool) : Bool := (changed && quorum)")
		f2 := cdIfExact(ff, "inRaft || err != nil")
		g.def("finishStillJoined", pos(f2.Cond), src(f2.Cond), "def finishStillJoined (inRaft failed : Bool) : Bool := (inRaft || failed)")

		fb := findFunc(placeFile, "DataPlacement.rebalanceNamespace")
		anchor("balanceAddFirst")
		b0 := cdIfExact(fb, "len(namespaceInfo.GetISR()) <= namespaceInfo.Replica")
		g.def("balanceAddFirst", pos(b0.Cond), src(b0.Cond), "def balanceAddFirst (isrLen replica : Int) : Bool := "+
			lean(b0.Cond, map[string]string{"len(namespaceInfo.GetISR())": "isrLen", "namespaceInfo.Replica": "replica"}))
		anchor("balanceReadyGate")
		gated := false
		for _, is := range cdIfConds(fb) {
			if is.Init != nil && src(is.Init) == "ok, err := IsAllISRFullReady(&namespaceInfo)" && src(is.Cond) == "err != nil || !ok" {
				if _, ok := is.Body.List[len(is.Body.List)-1].(*ast.BranchStmt); ok {
					gated = true
				}
			}
		}
		if !gated {
			fail("rebalanceNamespace no longer skips a partition whose ISR is not full ready")
		}
		g.def("balanceReadyGate", pos(fb), "if ok, err := IsAllISRFullReady(&namespaceInfo); err != nil || !ok { …; continue }", "def balanceReadyGate : Bool := true")
		g.write()
	}
}
