module translate

go 1.21
