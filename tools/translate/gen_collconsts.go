package main

import "fmt"

// CollConsts: limits and list sequence constants used by the storage-level set / list models (C08/C09).
func init() {
	generators["CollConsts"] = func() {
		g := newGen("CollConsts", "C08/C09: batch limits of rockredis and the sequence-number window of a list")
		for _, c := range []struct{ file, name, lean string }{
			{"rockredis/const.go", "MAX_BATCH_NUM", "cMaxBatchNum"},
			{"rockredis/const.go", "RangeDeleteNum", "cRangeDeleteNum"},
		} {
			anchor(c.name)
			v := constInt(c.file, c.name)
			if v < 0 {
				fail("%s is negative: %d", c.name, v)
			}
			g.def(c.name, c.file, fmt.Sprint(v), fmt.Sprintf("def %s : Nat := %d", c.lean, v))
		}
		for _, c := range []struct{ name, lean string }{
			{"listMinSeq", "cListMinSeq"}, {"listMaxSeq", "cListMaxSeq"}, {"listInitialSeq", "cListInitialSeq"},
		} {
			anchor(c.name)
			v := constInt("rockredis/t_list.go", c.name)
			g.def(c.name, "rockredis/t_list.go", src(constValue("rockredis/t_list.go", c.name)), fmt.Sprintf("def %s : Int := %d", c.lean, v))
		}
		g.write()
	}
}
