#!/usr/bin/env python3
"""hex ops -> human readable"""
import sys
def dec(h):
    if h == '-': return '""'
    b = bytes.fromhex(h)
    if len(b) > 60: return '<%d bytes %r…>' % (len(b), b[:12])
    return repr(b)[2:-1] if all(0x21 <= c < 0x7f for c in b) else repr(b)[1:]
for l in sys.stdin:
    f = l.rstrip('\n').split(' ')
    if f[0] == 'w': print(' '.join(f[:3] + [dec(x) for x in f[3:]]))
    elif f[0] == 'r': print(' '.join(f[:1] + [dec(x) for x in f[1:]]))
    else: print(l.rstrip('\n'))
