#!/usr/bin/env python3
"""human ops -> hex ops.  `w <ts> <b> word word…`, `r word…`; words: python-style escapes (\\x00), "" for empty, @N = N times 'x'"""
import sys, codecs
def enc(w):
    if w == '""': return '-'
    if w.startswith('@'): return ('78'*int(w[1:]))
    if w.startswith('K@'):
        return (b'default:t:' + b'k'*int(w[2:])).hex()
    b = codecs.escape_decode(w.encode())[0]
    return b.hex() if b else '-'
for l in sys.stdin:
    l = l.rstrip('\n')
    if not l or l.startswith('#'): continue
    f = l.split(' ')
    if f[0] == 'w':
        print(' '.join(f[:3] + [enc(x) for x in f[3:]]))
    elif f[0] == 'r':
        print(' '.join(f[:1] + [enc(x) for x in f[1:]]))
    else:
        print(l)
