#!/usr/bin/env python3
"""shrink.py OPS LINE CLASSPREFIX [OUT]  -- delta-debug the session containing op line LINE keeping a violation whose class starts with CLASSPREFIX"""
import sys, subprocess, json, os, tempfile
ops = [l.rstrip('\n') for l in open(sys.argv[1]) if l.strip()]
line = int(sys.argv[2]); pref = sys.argv[3]
out = sys.argv[4] if len(sys.argv) > 4 else 'shrunk.ops'
i = line - 1
while not ops[i].startswith('open'): i -= 1
j = line - 1
while j < len(ops) and ops[j] != 'end': j += 1
head, body = ops[i], ops[i+1:j]
ZVH = os.environ.get('ZVH', os.path.join(os.environ.get('VERIF_ROOT', '/verif'), 'build', 'zvh'))
d = tempfile.mkdtemp(prefix='zvh-shr')
def test(b):
    f = os.path.join(d, 'o.ops')
    open(f, 'w').write('\n'.join([head] + b + ['end']) + '\n')
    try:
        subprocess.run([ZVH, 'replay', 'data', '-ops', f, '-out', d], stdout=subprocess.DEVNULL, stderr=subprocess.DEVNULL, timeout=120)
    except subprocess.TimeoutExpired:
        return False
    try:
        m = json.load(open(os.path.join(d, 'meta.json')))
    except Exception:
        return False
    return any(v['class'].startswith(pref) for v in m['violations'])
# cut after the violation line first
body = body[:line - 1 - i]
assert test(body), 'not reproducible in isolation'
n = 2
while len(body) >= 2:
    chunk = max(1, len(body) // n)
    reduced = False
    for s in range(0, len(body), chunk):
        cand = body[:s] + body[s+chunk:]
        if cand and test(cand):
            body = cand; n = max(n - 1, 2); reduced = True; break
    if not reduced:
        if chunk == 1: break
        n = min(len(body), n * 2)
open(out, 'w').write('\n'.join([head] + body + ['end']) + '\n')
test(body)
m = json.load(open(os.path.join(d, 'meta.json')))
print(len(body), 'ops kept ->', out)
for v in m['violations']:
    print(v['class'], '::', v['what'][:500])
subprocess.run('python3 %s < %s' % (os.path.join(os.path.dirname(os.path.abspath(__file__)), 'unops.py'), out), shell=True)
