// instrument: produces instrumented copies of the CURRENT /repo files for the harness build only.
//
//	instrument -repo /repo -out $VERIF_ROOT/build/overlay-gen
//
// For every entry of `points` it parses the current file, finds the function by (receiver type, name) and the
// k-th call whose callee prints as `callee` inside it, and inserts ONE statement on the same source line (so
// line numbers of the original are preserved) before or after the statement of the innermost statement list
// that contains the call:
//
//	crash points   verifCrash("<name>")                         no-op unless VERIF_CRASH=<name>:<k>[:<delay ms>[:slow]]
//	apply trace    verifApplyTrace(<recv>, <arg2>, <arg3>, <arg4>)   arguments copied from the anchor call itself
//	entry hooks    verifRestoreTrace(<recv>, "<kind>", <expr>)  first statement of a function
//	fdatasync      verifFdatasynced(<file>)                     after the real fdatasync of the WAL tail (C05)
//	trigger gap    verifTriggerGap(id, rd != nil)               before the `if rd != nil` of wait.Trigger: between its delete and its store + signal (C04, protocol waittable)
//
// Output: <out>/<pkg>/<file>.go for every file with at least one insertion, <out>/<pkg>/verif_crash_gen.go
// (the per-package verifCrash), <out>/node/verif_points_gen.go (found / missing lists, read by the harness) and
// <out>/instrument.json. An anchor that is not found is listed as missing — never an error; a file that
// cannot be parsed puts all of its points into the missing list.
package main

import (
	"bytes"
	"encoding/json"
	"flag"
	"fmt"
	"go/ast"
	"go/format"
	"go/parser"
	"go/printer"
	"go/token"
	"os"
	"path/filepath"
	"sort"
	"strings"
)

type point struct {
	File   string // path relative to the repository root
	Fn     string // "Recv.name" or "name"
	Callee string // printed callee of the anchor call, e.g. "rc.persistRaftState"
	Occ    int    // 1-based occurrence inside Fn (source order)
	Where  string // "before" | "after" | "entry"
	Name   string // crash point name, or "trace:<what>" for the two trace hooks
}

// Crash points: the sub-steps of DESIGN.md §7 C06 (persist / apply / snapshot / purge paths).
var points = []point{
	// raft loop: one Ready
	{"node/raft.go", "raftNode.processReady", "rc.publishEntries", 1, "before", "ready.publish.before"},
	{"node/raft.go", "raftNode.processReady", "rc.publishEntries", 1, "after", "ready.publish.after"},
	{"node/raft.go", "raftNode.processReady", "rc.persistRaftState", 1, "before", "ready.persist.before"},
	{"node/raft.go", "raftNode.processReady", "rc.persistRaftState", 1, "after", "ready.persist.after"},
	{"node/raft.go", "raftNode.processReady", "rc.persistStorage.Sync", 1, "after", "ready.snapsync.after"},
	{"node/raft.go", "raftNode.processReady", "rc.raftStorage.ApplySnapshot", 1, "before", "ready.applysnap.before"},
	{"node/raft.go", "raftNode.processReady", "rc.raftStorage.ApplySnapshot", 1, "after", "ready.applysnap.after"},
	{"node/raft.go", "raftNode.processReady", "rc.persistStorage.Release", 1, "after", "ready.release.after"},
	{"node/raft.go", "raftNode.processReady", "rc.raftStorage.Append", 1, "before", "ready.append.before"},
	{"node/raft.go", "raftNode.processReady", "rc.raftStorage.Append", 1, "after", "ready.append.after"},
	{"node/raft.go", "raftNode.processReady", "rc.node.Advance", 1, "before", "ready.advance.before"},
	{"node/raft.go", "raftNode.processReady", "rc.node.Advance", 1, "after", "ready.advance.after"},
	{"node/raft.go", "raftNode.persistRaftState", "rc.persistStorage.SaveSnap", 1, "before", "persist.savesnap.before"},
	{"node/raft.go", "raftNode.persistRaftState", "rc.persistStorage.SaveSnap", 1, "after", "persist.savesnap.after"},
	{"node/raft.go", "raftNode.persistRaftState", "rc.persistStorage.Save", 1, "before", "persist.walsave.before"},
	{"node/raft.go", "raftNode.persistRaftState", "rc.persistStorage.Save", 1, "after", "persist.walsave.after"},
	// snapshot taking (apply loop starts it, a goroutine finishes it)
	{"node/raft.go", "raftNode.beginSnapshot", "rc.ds.GetSnapshot", 1, "before", "snap.begin.before"},
	{"node/raft.go", "raftNode.beginSnapshot", "rc.ds.GetSnapshot", 1, "after", "snap.checkpoint.started"},
	{"node/raft.go", "raftNode.beginSnapshot", "sn.GetData", 1, "after", "snap.checkpoint.done"},
	{"node/raft.go", "raftNode.beginSnapshot", "rc.raftStorage.CreateSnapshot", 1, "after", "snap.create.after"},
	{"node/raft.go", "raftNode.beginSnapshot", "rc.persistStorage.SaveSnap", 1, "after", "snap.savesnap.after"},
	{"node/raft.go", "raftNode.beginSnapshot", "rc.persistStorage.Sync", 1, "after", "snap.sync.after"},
	{"node/raft.go", "raftNode.beginSnapshot", "rc.persistStorage.Release", 1, "after", "snap.release.after"},
	{"node/raft.go", "raftNode.beginSnapshot", "rc.ds.UpdateSnapshotState", 1, "after", "snap.updatestate.after"},
	{"node/raft.go", "raftNode.beginSnapshot", "rc.raftStorage.Compact", 1, "before", "snap.compact.before"},
	{"node/raft.go", "raftNode.beginSnapshot", "rc.raftStorage.Compact", 1, "after", "snap.compact.after"},
	// snap file, then WAL marker
	{"node/raft_storage.go", "raftPersistStorage.SaveSnap", "st.Snapshotter.SaveSnap", 1, "before", "savesnap.file.before"},
	{"node/raft_storage.go", "raftPersistStorage.SaveSnap", "st.Snapshotter.SaveSnap", 1, "after", "savesnap.file.after"},
	// restart path (a crash during recovery)
	{"node/raft.go", "raftNode.startRaft", "rc.ds.RestoreFromSnapshot", 1, "before", "start.restore.before"},
	{"node/raft.go", "raftNode.startRaft", "rc.ds.RestoreFromSnapshot", 1, "after", "start.restore.after"},
	{"node/raft.go", "raftNode.replayWAL", "rc.raftStorage.Append", 1, "after", "start.replaywal.after"},
	// apply loop
	{"node/node.go", "KVNode.applyEntries", "nd.applyEntry", 1, "before", "apply.entry.before"},
	{"node/node.go", "KVNode.applyEntries", "nd.applyEntry", 1, "after", "apply.entry.after"},
	{"node/node.go", "KVNode.applyEntries", "batch.CommitBatch", 2, "before", "apply.commitbatch.before"},
	{"node/node.go", "KVNode.applyEntries", "batch.CommitBatch", 2, "after", "apply.commitbatch.after"},
	{"node/node.go", "KVNode.applyCommits", "nd.applyAll", 1, "after", "apply.all.after"},
	{"node/node.go", "KVNode.applyCommits", "nd.maybeTriggerSnapshot", 1, "before", "apply.trigger.before"},
	{"node/node.go", "KVNode.applyCommits", "nd.maybeTriggerSnapshot", 1, "after", "apply.trigger.after"},
	{"node/node.go", "KVNode.maybeTriggerSnapshot", "nd.rn.beginSnapshot", 1, "after", "apply.beginsnap.after"},
	{"node/node.go", "KVNode.applySnapshot", "nd.PrepareSnapshot", 1, "after", "applysnap.prepare.after"},
	{"node/node.go", "KVNode.applySnapshot", "nd.RestoreFromSnapshot", 1, "before", "applysnap.restore.before"},
	{"node/node.go", "KVNode.applySnapshot", "nd.RestoreFromSnapshot", 1, "after", "applysnap.restore.after"},
	// engine checkpoint and its purge
	{"rockredis/rockredis.go", "RockDB.backupLoop", "ck.Save", 1, "before", "ckpt.save.before"},
	{"rockredis/rockredis.go", "RockDB.backupLoop", "ck.Save", 1, "after", "ckpt.save.after"},
	{"rockredis/rockredis.go", "RockDB.backupLoop", "purgeOldCheckpoint", 1, "after", "ckpt.purge.after"},
	{"rockredis/rockredis.go", "purgeOldCheckpoint", "os.RemoveAll", 1, "before", "ckpt.remove.before"},
	{"rockredis/rockredis.go", "purgeOldCheckpoint", "os.RemoveAll", 1, "after", "ckpt.remove.after"},
	{"rockredis/rockredis.go", "RockDB.restoreFromPath", "r.closeEng", 1, "after", "restore.closed"},
	{"rockredis/rockredis.go", "RockDB.restoreFromPath", "r.reOpenEng", 1, "before", "restore.copied"},
	// the engine-level capture of a checkpoint (the apply loop is released by a 20 ms timer started just before it)
	{"engine/pebble_eng.go", "pebbleEngCheckpoint.Save", "pck.pe.eng.Checkpoint", 1, "before", "ckpt.capture.pebble.before"},
	{"engine/rockeng.go", "rockEngCheckpoint.Save", "rck.ck.Save", 1, "before", "ckpt.capture.rocksdb.before"},
	// WAL / snap file purge
	{"pkg/fileutil/purge.go", "purgeFile", "os.Remove", 1, "before", "purge.remove.before"},
	{"pkg/fileutil/purge.go", "purgeFile", "os.Remove", 1, "after", "purge.remove.after"},
	// WAL record writing and segment cut
	{"wal/wal.go", "WAL.Save", "w.saveEntry", 1, "after", "wal.entry.after"},
	{"wal/wal.go", "WAL.Save", "w.saveState", 1, "after", "wal.state.after"},
	{"wal/wal.go", "WAL.Save", "w.cut", 1, "before", "wal.cut.before"},
	{"wal/wal.go", "WAL.cut", "w.fp.Open", 1, "after", "wal.cut.opened"},
	{"wal/wal.go", "WAL.cut", "w.saveCrc", 1, "after", "wal.cut.crc"},
	{"wal/wal.go", "WAL.cut", "os.Rename", 1, "before", "wal.cut.rename.before"},
	{"wal/wal.go", "WAL.cut", "os.Rename", 1, "after", "wal.cut.rename.after"},
	// the Ready path without overlap of committed and unstable entries persists after publishing (second call)
	{"node/raft.go", "raftNode.processReady", "rc.persistRaftState", 2, "before", "ready.persist2.before"},
	{"node/raft.go", "raftNode.processReady", "rc.persistRaftState", 2, "after", "ready.persist2.after"},
	// C05: the offset up to which the tail segment has really been fdatasync'ed (hook in harness/overlay/wal)
	{"wal/wal.go", "WAL.sync", "fileutil.Fdatasync", 1, "after", "trace:fdatasync"},
	// trace hooks of protocol lin (C04)
	{"node/node.go", "KVNode.applyEntry", "nd.sm.ApplyRaftRequest", 1, "before", "trace:apply"},
	{"node/node.go", "KVNode.RestoreFromSnapshot", "", 0, "entry", "trace:restore"},
	{"node/node.go", "KVNode.CleanData", "", 0, "entry", "trace:clean"},
	// protocol waittable (C04): the point of wait.Trigger between its two parts (registration deleted, result not stored /
	// channel not signalled yet), i.e. right before its top-level `if rd != nil`. Since fix 184e1b3 the lock is HELD there
	// (defer w.l.Unlock()); before the fix it had been dropped. The protocol stops a Trigger there and probes the lock.
	// Hook in harness/overlay/pkg/wait
	{"pkg/wait/wait.go", "multList.Trigger", "", 0, "before", "trace:triggergap"},
}

func exprString(fset *token.FileSet, e ast.Node) string {
	var b bytes.Buffer
	printer.Fprint(&b, fset, e)
	return b.String()
}

func recvInfo(fd *ast.FuncDecl) (typ, name string) {
	if fd.Recv == nil || len(fd.Recv.List) == 0 {
		return "", ""
	}
	f := fd.Recv.List[0]
	t := f.Type
	if s, ok := t.(*ast.StarExpr); ok {
		t = s.X
	}
	if id, ok := t.(*ast.Ident); ok {
		typ = id.Name
	}
	if len(f.Names) > 0 {
		name = f.Names[0].Name
	}
	return
}

type found struct {
	stmt ast.Stmt
	call *ast.CallExpr
}

// calls lists, in source order, every call with the given callee together with the statement of the innermost
// statement list containing it.
func calls(fset *token.FileSet, body *ast.BlockStmt, callee string) []found {
	var res []found
	var walkList func(list []ast.Stmt)
	var walkStmt func(s ast.Stmt)
	inspectExprs := func(owner ast.Stmt, n ast.Node) {
		if n == nil {
			return
		}
		ast.Inspect(n, func(x ast.Node) bool {
			switch v := x.(type) {
			case *ast.FuncLit:
				walkList(v.Body.List) // statements of a closure are their own owners
				return false
			case *ast.CallExpr:
				if exprString(fset, v.Fun) == callee {
					res = append(res, found{owner, v})
				}
			}
			return true
		})
	}
	walkStmt = func(s ast.Stmt) {
		switch v := s.(type) {
		case *ast.BlockStmt:
			walkList(v.List)
		case *ast.IfStmt:
			inspectExprs(s, v.Init)
			inspectExprs(s, v.Cond)
			walkList(v.Body.List)
			if v.Else != nil {
				walkStmt(v.Else)
			}
		case *ast.ForStmt:
			inspectExprs(s, v.Init)
			inspectExprs(s, v.Cond)
			inspectExprs(s, v.Post)
			walkList(v.Body.List)
		case *ast.RangeStmt:
			inspectExprs(s, v.X)
			walkList(v.Body.List)
		case *ast.SwitchStmt:
			inspectExprs(s, v.Init)
			inspectExprs(s, v.Tag)
			for _, c := range v.Body.List {
				walkList(c.(*ast.CaseClause).Body)
			}
		case *ast.TypeSwitchStmt:
			for _, c := range v.Body.List {
				walkList(c.(*ast.CaseClause).Body)
			}
		case *ast.SelectStmt:
			for _, c := range v.Body.List {
				walkList(c.(*ast.CommClause).Body)
			}
		case *ast.LabeledStmt:
			walkStmt(v.Stmt)
		default:
			inspectExprs(s, s)
		}
	}
	walkList = func(list []ast.Stmt) {
		for _, s := range list {
			walkStmt(s)
		}
	}
	walkList(body.List)
	sort.SliceStable(res, func(i, j int) bool { return res[i].call.Pos() < res[j].call.Pos() })
	return res
}

type insertion struct {
	off  int
	text string
}

const crashGen = `// +build verif

// Code generated by tools/instrument; DO NOT EDIT.
package %s

import (
	"os"
	"strconv"
	"strings"
	"sync/atomic"
	"time"
)

// VERIF_CRASH=<name>:<k>[:<delay ms>[:slow]]
var verifCrashName, verifCrashK, verifCrashDelay, verifCrashSlow = func() (string, int64, time.Duration, bool) {
	f := strings.Split(os.Getenv("VERIF_CRASH"), ":")
	if len(f) < 2 || f[0] == "" {
		return "", 0, 0, false
	}
	k, _ := strconv.ParseInt(f[1], 10, 64)
	var d int64
	if len(f) > 2 {
		d, _ = strconv.ParseInt(f[2], 10, 64)
	}
	return f[0], k, time.Duration(d) * time.Millisecond, len(f) > 3 && f[3] == "slow"
}()
var verifCrashHits int64

// VERIF_CRASH_ARM=<path>: hits are counted only once this file exists (the harness arms the point in the middle of a run)
var verifCrashArm = os.Getenv("VERIF_CRASH_ARM")

// verifCrash kills the process (exit status 137, nothing flushed) at the k-th hit of the named point; with a
// delay the goroutine first sleeps (a slow step) while the others keep running; with "slow" it only sleeps
// (the step is slow, the process is killed from outside later).
func verifCrash(name string) {
	if verifCrashName == "" || name != verifCrashName {
		return
	}
	if verifCrashArm != "" {
		if _, err := os.Stat(verifCrashArm); err != nil {
			return
		}
	}
	if atomic.AddInt64(&verifCrashHits, 1) == verifCrashK {
		if verifCrashDelay > 0 {
			time.Sleep(verifCrashDelay)
		}
		if !verifCrashSlow {
			os.Exit(137)
		}
	}
}
`

func main() {
	repo := flag.String("repo", "/repo", "")
	out := flag.String("out", "", "")
	flag.Parse()
	if *out == "" {
		fmt.Fprintln(os.Stderr, "usage: instrument -repo DIR -out DIR")
		os.Exit(2)
	}
	os.MkdirAll(*out, 0755)
	// remove only what a previous run of this tool wrote (other generators may share the directory)
	if b, err := os.ReadFile(filepath.Join(*out, "instrument.json")); err == nil {
		var prev struct {
			Files []string `json:"files"`
		}
		if json.Unmarshal(b, &prev) == nil {
			for _, f := range prev.Files {
				os.Remove(filepath.Join(*out, f))
			}
		}
	}
	var written []string

	byFile := map[string][]point{}
	var order []string
	for _, p := range points {
		if _, ok := byFile[p.File]; !ok {
			order = append(order, p.File)
		}
		byFile[p.File] = append(byFile[p.File], p)
	}
	foundNames, missing := []string{}, []string{}
	why := map[string]string{}
	pkgs := map[string]string{} // dir -> package name (packages that need verifCrash)
	miss := func(p point, reason string) {
		missing = append(missing, p.Name)
		why[p.Name] = reason
	}
	for _, file := range order {
		ps := byFile[file]
		src, err := os.ReadFile(filepath.Join(*repo, file))
		if err != nil {
			for _, p := range ps {
				miss(p, "file missing")
			}
			continue
		}
		fset := token.NewFileSet()
		f, err := parser.ParseFile(fset, file, src, parser.ParseComments)
		if err != nil {
			for _, p := range ps {
				miss(p, "file does not parse")
			}
			continue
		}
		funcs := map[string]*ast.FuncDecl{}
		for _, d := range f.Decls {
			if fd, ok := d.(*ast.FuncDecl); ok && fd.Body != nil {
				t, _ := recvInfo(fd)
				k := fd.Name.Name
				if t != "" {
					k = t + "." + k
				}
				funcs[k] = fd
			}
		}
		var ins []insertion
		needCrash := false
		for _, p := range ps {
			fd := funcs[p.Fn]
			if fd == nil {
				miss(p, "function "+p.Fn+" not found")
				continue
			}
			_, recv := recvInfo(fd)
			var text string
			var at ast.Stmt
			switch {
			case p.Where == "entry":
				if recv == "" || recv == "_" {
					miss(p, "receiver has no name")
					continue
				}
				arg := "0"
				if p.Name == "trace:restore" {
					if fd.Type.Params == nil || len(fd.Type.Params.List) == 0 || len(fd.Type.Params.List[0].Names) == 0 {
						miss(p, "no parameter")
						continue
					}
					arg = fd.Type.Params.List[0].Names[0].Name + ".Metadata.Index"
				}
				text = fmt.Sprintf("verifRestoreTrace(%s, %q, %s)", recv, strings.TrimPrefix(p.Name, "trace:"), arg)
				ins = append(ins, insertion{fset.Position(fd.Body.Lbrace).Offset + 1, " " + text + ";"})
				foundNames = append(foundNames, p.Name)
				continue
			case p.Name == "trace:triggergap":
				for _, st := range fd.Body.List {
					if x, ok := st.(*ast.IfStmt); ok && exprString(fset, x.Cond) == "rd != nil" {
						at = st
					}
				}
				if at == nil {
					miss(p, "no top-level `if rd != nil` in "+p.Fn)
					continue
				}
				text = "verifTriggerGap(id, rd != nil)"
			default:
				cs := calls(fset, fd.Body, p.Callee)
				if len(cs) < p.Occ {
					miss(p, fmt.Sprintf("call %s #%d not found in %s", p.Callee, p.Occ, p.Fn))
					continue
				}
				c := cs[p.Occ-1]
				at = c.stmt
				if p.Name == "trace:apply" {
					if len(c.call.Args) < 5 || recv == "" {
						miss(p, "anchor call has fewer than 5 arguments")
						continue
					}
					text = fmt.Sprintf("verifApplyTrace(%s, %s, %s, %s)", recv, exprString(fset, c.call.Args[2]),
						exprString(fset, c.call.Args[3]), exprString(fset, c.call.Args[4]))
				} else if p.Name == "trace:fdatasync" {
					if len(c.call.Args) != 1 {
						miss(p, "anchor call does not have one argument")
						continue
					}
					text = fmt.Sprintf("verifFdatasynced(%s)", exprString(fset, c.call.Args[0]))
				} else {
					text = fmt.Sprintf("verifCrash(%q)", p.Name)
					needCrash = true
				}
			}
			if _, isRet := at.(*ast.ReturnStmt); isRet && p.Where == "after" {
				miss(p, "anchor is a return statement")
				continue
			}
			if p.Where == "before" {
				ins = append(ins, insertion{fset.Position(at.Pos()).Offset, text + "; "})
			} else {
				ins = append(ins, insertion{fset.Position(at.End()).Offset, "; " + text})
			}
			foundNames = append(foundNames, p.Name)
		}
		if len(ins) == 0 {
			continue
		}
		sort.SliceStable(ins, func(i, j int) bool { return ins[i].off < ins[j].off })
		var b bytes.Buffer
		last := 0
		for _, in := range ins {
			b.Write(src[last:in.off])
			b.WriteString(in.text)
			last = in.off
		}
		b.Write(src[last:])
		res := b.Bytes()
		// the copy must still parse; otherwise drop the whole file (all of its points become missing)
		if _, err := parser.ParseFile(token.NewFileSet(), file, res, 0); err != nil {
			for _, p := range ps {
				for i, n := range foundNames {
					if n == p.Name {
						foundNames = append(foundNames[:i], foundNames[i+1:]...)
						break
					}
				}
				miss(p, "instrumented copy does not parse: "+err.Error())
			}
			continue
		}
		dst := filepath.Join(*out, file)
		os.MkdirAll(filepath.Dir(dst), 0755)
		if err := os.WriteFile(dst, res, 0644); err != nil {
			fmt.Fprintln(os.Stderr, err)
			os.Exit(1)
		}
		written = append(written, file)
		if needCrash {
			pkgs[filepath.Dir(file)] = f.Name.Name
		}
	}
	for dir, name := range pkgs {
		src, _ := format.Source([]byte(fmt.Sprintf(crashGen, name)))
		os.WriteFile(filepath.Join(*out, dir, "verif_crash_gen.go"), src, 0644)
		written = append(written, filepath.Join(dir, "verif_crash_gen.go"))
	}
	sort.Strings(foundNames)
	sort.Strings(missing)
	// the lists, compiled into package node (the harness reads them through node.VerifPoints)
	var g bytes.Buffer
	g.WriteString("// +build verif\n\n// Code generated by tools/instrument; DO NOT EDIT.\npackage node\n\nfunc init() {\n")
	fmt.Fprintf(&g, "\tverifPointsFound = %#v\n\tverifPointsMissing = %#v\n}\n", foundNames, missing)
	os.MkdirAll(filepath.Join(*out, "node"), 0755)
	os.WriteFile(filepath.Join(*out, "node", "verif_points_gen.go"), g.Bytes(), 0644)
	written = append(written, filepath.Join("node", "verif_points_gen.go"))
	sort.Strings(written)
	js, _ := json.MarshalIndent(map[string]interface{}{"found": foundNames, "crash_points_missing": missing, "why": why, "files": written}, "", " ")
	os.WriteFile(filepath.Join(*out, "instrument.json"), js, 0644)
	fmt.Printf("instrument: %d points inserted, %d missing %v\n", len(foundNames), len(missing), missing)
}
