module instrument

go 1.21
