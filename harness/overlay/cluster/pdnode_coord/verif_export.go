// +build verif

package pdnode_coord

import (
	"sync/atomic"
	"time"

	"github.com/youzan/ZanRedisDB/cluster"
)

// Hook file of the verification framework (/verif): compiled into this package only with
// `-tags verif -overlay …`. It exports unexported functions; it adds no behaviour.

// ---- C17: the layout functions of place_driver.go

// VerifPlaceFromMap is getRebalancedNamespacePartitions (the entry point all callers use: map of live
// nodes → refusal guard → getNodeNameList → getRebalancedPartitionsFromNameList).
func VerifPlaceFromMap(ns string, partitionNum int, replica int, old [][]string,
	currentNodes map[string]cluster.NodeInfo, balanceVer string) ([][]string, *cluster.CoordErr) {
	return getRebalancedNamespacePartitions(ns, partitionNum, replica, old, currentNodes, balanceVer)
}

// VerifNodeNameList is getNodeNameList.
func VerifNodeNameList(currentNodes map[string]cluster.NodeInfo) [][]string {
	l := getNodeNameList(currentNodes)
	r := make([][]string, len(l))
	for i, x := range l {
		r[i] = []string(x)
	}
	return r
}

// VerifPlaceFromNameList is getRebalancedPartitionsFromNameList.
func VerifPlaceFromNameList(ns string, partitionNum int, replica int, old [][]string,
	nameList [][]string, balanceVer string) ([][]string, *cluster.CoordErr) {
	l := make([]SortableStrings, len(nameList))
	for i, x := range nameList {
		l[i] = SortableStrings(append([]string(nil), x...))
	}
	return getRebalancedPartitionsFromNameList(ns, partitionNum, replica, old, l, balanceVer)
}

// VerifErrNodeUnavailable lets the harness classify the refusal without comparing messages.
func VerifErrNodeUnavailable() *cluster.CoordErr { return ErrNodeUnavailable }

// ---- C18: the decision methods of pd_coordinator.go / place_driver.go

// VerifNewCoord builds a coordinator the way pdserver does (NewPDCoordinator with options), hands it the
// given register and makes it the PD leader; nothing is started (no goroutines, no etcd).
func VerifNewCoord(reg cluster.PDRegister, balanceVer string) *PDCoordinator {
	n := &cluster.NodeInfo{NodeIP: "127.0.0.1", HttpPort: "0", RedisPort: "0"}
	c := NewPDCoordinator("verif", n, &cluster.Options{AutoBalanceAndMigrate: true, BalanceVer: balanceVer,
		BalanceStart: 0, BalanceEnd: 24})
	c.SetRegister(reg)
	c.leaderNode = c.myNode
	return c
}

// VerifSetDataNodes: what handleDataNodes does when the register reports the data nodes.
func (pdCoord *PDCoordinator) VerifSetDataNodes(m map[string]cluster.NodeInfo) {
	pdCoord.nodesMutex.Lock()
	pdCoord.dataNodes = m
	pdCoord.nodesMutex.Unlock()
}

func (pdCoord *PDCoordinator) VerifNodesEpoch() int64 { return pdCoord.nodesEpoch }

func (pdCoord *PDCoordinator) VerifHandleNamespaceMigrate(ns *cluster.PartitionMetaInfo,
	currentNodes map[string]cluster.NodeInfo, epoch int64) *cluster.CoordErr {
	return pdCoord.handleNamespaceMigrate(ns, currentNodes, epoch)
}

func (pdCoord *PDCoordinator) VerifAddNamespaceToNode(ns *cluster.PartitionMetaInfo, nid string) *cluster.CoordErr {
	return pdCoord.addNamespaceToNode(ns, nid)
}

func (pdCoord *PDCoordinator) VerifRemoveNamespaceFromNode(ns *cluster.PartitionMetaInfo, nid string) *cluster.CoordErr {
	return pdCoord.removeNamespaceFromNode(ns, nid)
}

func (pdCoord *PDCoordinator) VerifRemoveNamespaceFromRemovings(ns *cluster.PartitionMetaInfo) {
	pdCoord.removeNamespaceFromRemovings(ns)
}

func (pdCoord *PDCoordinator) VerifRebalanceNamespace(monitorChan chan struct{}) (bool, bool) {
	return pdCoord.dpm.rebalanceNamespace(monitorChan)
}

// VerifSetWaitRemoveInterval sets waitRemoveRemovingNodeInterval (ChangeIntervalForTest does the same with a
// fixed value): the "enough time has passed since the node was marked" input of removeNamespaceFromRemovings.
func VerifSetWaitRemoveInterval(d time.Duration) { waitRemoveRemovingNodeInterval = d }

// VerifCoordErrClass names the error values the decision methods return.
func VerifCoordErrClass(e *cluster.CoordErr) string {
	switch e {
	case nil:
		return "ok"
	case ErrNamespaceMigrateWaiting:
		return "err:migrate-waiting"
	case ErrNodeUnavailable:
		return "err:node-unavailable"
	case cluster.ErrClusterChanged:
		return "err:cluster-changed"
	case cluster.ErrNamespaceConfInvalid:
		return "err:conf-invalid"
	case cluster.ErrRegisterServiceUnstable:
		return "err:register-unstable"
	case cluster.ErrNamespaceWaitingSync:
		return "err:waiting-sync"
	case ErrNamespaceNodeConflict:
		return "err:node-conflict"
	case ErrNamespaceRaftIDNotFound:
		return "err:raftid-not-found"
	case ErrNamespaceReplicaNotEnough:
		return "err:replica-not-enough"
	}
	if e.ErrType == cluster.CoordRegisterErr {
		return "err:register-err"
	}
	return "err:other"
}

// ---- C18: one pass of the coordinator's own check loop (doCheckNamespaces), with its waiting table kept by the caller

// VerifDoCheckNamespaces runs ONE full pass of doCheckNamespaces, exactly what checkNamespaces does on every tick.
func (pdCoord *PDCoordinator) VerifDoCheckNamespaces(waiting map[string]map[int]time.Time) {
	pdCoord.doCheckNamespaces(make(chan struct{}), nil, waiting, true)
}

// VerifSetWaitMigrateInterval: the grace time between "replica lost" and the migration decision (a package variable).
func VerifSetWaitMigrateInterval(d time.Duration) { waitMigrateInterval = d }

// VerifSetStableNodeNum: what handleDataNodes maintains (the largest number of data nodes seen).
func (pdCoord *PDCoordinator) VerifSetStableNodeNum(n int32) { atomic.StoreInt32(&pdCoord.stableNodeNum, n) }
