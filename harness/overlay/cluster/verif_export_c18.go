// +build verif

package cluster

// Hook file of the verification framework (/verif): compiled into this package only with
// `-tags verif -overlay …`. It exports unexported fields; it adds no behaviour.

// VerifSetReplicaEpoch lets an in-memory PDRegister (harness type) do what the etcd register does after a
// successful create / compare-and-swap: `replicaInfo.epoch = EpochType(rsp.Node.ModifiedIndex)`.
func VerifSetReplicaEpoch(r *PartitionReplicaInfo, e EpochType) { r.epoch = e }
