// +build verif

package raft

// Read-only accessors (and the two determinism knobs) for the verification harness. Compiled into
// package raft only with `-tags verif -overlay ...`; nothing here is called by the package itself.

import (
	"math/rand"
	"sort"

	pb "github.com/youzan/ZanRedisDB/raft/raftpb"
)

// VerifView is a copy of the unexported state of the *raft behind a Node.
type VerifView struct {
	ID             uint64
	Term           uint64
	Vote           uint64
	Lead           uint64
	State          StateType
	IsLearner      bool
	Committed      uint64
	Applied        uint64
	FirstIndex     uint64 // raftLog.firstIndex(): entries exist for FirstIndex..LastIndex
	LastIndex      uint64
	LastTerm       uint64
	PendingSnap    uint64 // index of raftLog.unstable.snapshot, 0 if none
	Voters         []uint64
	Learners       []uint64
	Match          map[uint64]uint64 // prs[*].Match and learnerPrs[*].Match
	Votes          map[uint64]bool   // copy of r.votes
	LeadTransferee uint64
	Elapsed        int
	RandTimeout    int
	NeedAdvance    bool
}

func verifRaft(n Node) *raft { return n.(*node).r }

// VerifState returns the current volatile state of the raft state machine behind n.
func VerifState(n Node) VerifView {
	r := verifRaft(n)
	v := VerifView{ID: r.id, Term: r.Term, Vote: r.Vote, Lead: r.lead, State: r.state, IsLearner: r.isLearner,
		Committed: r.raftLog.committed, Applied: r.raftLog.applied, FirstIndex: r.raftLog.firstIndex(),
		LastIndex: r.raftLog.lastIndex(), LeadTransferee: r.leadTransferee, Elapsed: r.electionElapsed,
		RandTimeout: r.randomizedElectionTimeout, NeedAdvance: n.(*node).needAdvance,
		Match: map[uint64]uint64{}, Votes: map[uint64]bool{}}
	v.LastTerm = r.raftLog.zeroTermOnErrCompacted(r.raftLog.term(v.LastIndex))
	if r.raftLog.unstable.snapshot != nil {
		v.PendingSnap = r.raftLog.unstable.snapshot.Metadata.Index
	}
	for id, pr := range r.prs {
		v.Voters = append(v.Voters, id)
		v.Match[id] = pr.Match
	}
	for id, pr := range r.learnerPrs {
		v.Learners = append(v.Learners, id)
		v.Match[id] = pr.Match
	}
	sort.Slice(v.Voters, func(i, j int) bool { return v.Voters[i] < v.Voters[j] })
	sort.Slice(v.Learners, func(i, j int) bool { return v.Learners[i] < v.Learners[j] })
	for id, g := range r.votes {
		v.Votes[id] = g
	}
	return v
}

// VerifLogEntries returns copies of all entries FirstIndex..LastIndex of the node's raftLog (stable + unstable).
func VerifLogEntries(n Node) []pb.Entry {
	l := verifRaft(n).raftLog
	fi, li := l.firstIndex(), l.lastIndex()
	if li < fi {
		return nil
	}
	ents, err := l.slice(fi, li+1, noLimit)
	if err != nil {
		panic("verif: raftLog.slice: " + err.Error())
	}
	out := make([]pb.Entry, len(ents))
	copy(out, ents)
	return out
}

// VerifSeedRand makes the election-timeout randomisation reproducible.
func VerifSeedRand(seed int64) {
	globalRand.mu.Lock()
	globalRand.rand = rand.New(rand.NewSource(seed))
	globalRand.mu.Unlock()
}

// VerifSetRandomizedElectionTimeout overrides the node's current randomized election timeout.
func VerifSetRandomizedElectionTimeout(n Node, ticks int) {
	verifRaft(n).randomizedElectionTimeout = ticks
}

// VerifQuorum is r.quorum() of the node.
func VerifQuorum(n Node) int { return verifRaft(n).quorum() }
