//go:build verif
// +build verif

package raft

// Read-only accessors (and the two determinism knobs) for the verification harness. Compiled into
// package raft only with `-tags verif -overlay ...`; nothing here is called by the package itself.

import (
	"math/rand"
	"sort"

	pb "github.com/youzan/ZanRedisDB/raft/raftpb"
)

// VerifView is a copy of the unexported state of the *raft behind a Node.
type VerifView struct {
	ID             uint64
	Term           uint64
	Vote           uint64
	Lead           uint64
	State          StateType
	IsLearner      bool
	Committed      uint64
	Applied        uint64
	FirstIndex     uint64 // raftLog.firstIndex(): entries exist for FirstIndex..LastIndex
	LastIndex      uint64
	LastTerm       uint64
	PendingSnap    uint64 // index of raftLog.unstable.snapshot, 0 if none
	Voters         []uint64
	Learners       []uint64
	Match          map[uint64]uint64 // prs[*].Match and learnerPrs[*].Match
	Votes          map[uint64]bool   // copy of r.votes
	LeadTransferee uint64
	Elapsed        int
	RandTimeout    int
	NeedAdvance    bool
}

func verifRaft(n Node) *raft { return n.(*node).r }

// VerifState returns the current volatile state of the raft state machine behind n.
func VerifState(n Node) VerifView {
	r := verifRaft(n)
	v := VerifView{ID: r.id, Term: r.Term, Vote: r.Vote, Lead: r.lead, State: r.state, IsLearner: r.isLearner,
		Committed: r.raftLog.committed, Applied: r.raftLog.applied, FirstIndex: r.raftLog.firstIndex(),
		LastIndex: r.raftLog.lastIndex(), LeadTransferee: r.leadTransferee, Elapsed: r.electionElapsed,
		RandTimeout: r.randomizedElectionTimeout, NeedAdvance: n.(*node).needAdvance,
		Match: map[uint64]uint64{}, Votes: map[uint64]bool{}}
	v.LastTerm = r.raftLog.zeroTermOnErrCompacted(r.raftLog.term(v.LastIndex))
	if r.raftLog.unstable.snapshot != nil {
		v.PendingSnap = r.raftLog.unstable.snapshot.Metadata.Index
	}
	for id, pr := range r.prs {
		v.Voters = append(v.Voters, id)
		v.Match[id] = pr.Match
	}
	for id, pr := range r.learnerPrs {
		v.Learners = append(v.Learners, id)
		v.Match[id] = pr.Match
	}
	sort.Slice(v.Voters, func(i, j int) bool { return v.Voters[i] < v.Voters[j] })
	sort.Slice(v.Learners, func(i, j int) bool { return v.Learners[i] < v.Learners[j] })
	for id, g := range r.votes {
		v.Votes[id] = g
	}
	return v
}

// VerifLogEntries returns copies of all entries FirstIndex..LastIndex of the node's raftLog (stable + unstable).
func VerifLogEntries(n Node) []pb.Entry {
	l := verifRaft(n).raftLog
	fi, li := l.firstIndex(), l.lastIndex()
	if li < fi {
		return nil
	}
	ents, err := l.slice(fi, li+1, noLimit)
	if err != nil {
		panic("verif: raftLog.slice: " + err.Error())
	}
	out := make([]pb.Entry, len(ents))
	copy(out, ents)
	return out
}

// VerifSeedRand makes the election-timeout randomisation reproducible.
func VerifSeedRand(seed int64) {
	globalRand.mu.Lock()
	globalRand.rand = rand.New(rand.NewSource(seed))
	globalRand.mu.Unlock()
}

// VerifSetRandomizedElectionTimeout overrides the node's current randomized election timeout.
func VerifSetRandomizedElectionTimeout(n Node, ticks int) {
	verifRaft(n).randomizedElectionTimeout = ticks
}

// VerifQuorum is r.quorum() of the node.
func VerifQuorum(n Node) int { return verifRaft(n).quorum() }

// ---------------------------------------------------------------------------------------------
// raft LOG layer (protocol `raftlog`): the unexported raftLog on a *MemoryStorage, method by method.

// VerifLog is an unexported *raftLog together with the *MemoryStorage it reads.
type VerifLog struct {
	l  *raftLog
	ms *MemoryStorage
}

// VerifNewLog is newLogWithSize(ms, logger, maxNextEntsSize).
func VerifNewLog(ms *MemoryStorage, logger Logger, maxNextEntsSize uint64) *VerifLog {
	return &VerifLog{l: newLogWithSize(ms, logger, maxNextEntsSize), ms: ms}
}

// VerifLogOf is the raftLog of a Node whose Storage is ms.
func VerifLogOf(n Node, ms *MemoryStorage) *VerifLog {
	return &VerifLog{l: verifRaft(n).raftLog, ms: ms}
}

func (v *VerifLog) FirstIndex() uint64          { return v.l.firstIndex() }
func (v *VerifLog) LastIndex() uint64           { return v.l.lastIndex() }
func (v *VerifLog) Committed() uint64           { return v.l.committed }
func (v *VerifLog) Applied() uint64             { return v.l.applied }
func (v *VerifLog) UnstableOffset() uint64      { return v.l.unstable.offset }
func (v *VerifLog) UnstableRaw() []pb.Entry     { return append([]pb.Entry{}, v.l.unstable.entries...) }
func (v *VerifLog) UnstableEntries() []pb.Entry { return v.l.unstableEntries() }
func (v *VerifLog) UnstableSnap() (uint64, uint64, bool) {
	if s := v.l.unstable.snapshot; s != nil {
		return s.Metadata.Index, s.Metadata.Term, true
	}
	return 0, 0, false
}
func (v *VerifLog) Term(i uint64) (uint64, error)    { return v.l.term(i) }
func (v *VerifLog) LastTerm() uint64                 { return v.l.lastTerm() }
func (v *VerifLog) MatchTerm(i, t uint64) bool       { return v.l.matchTerm(i, t) }
func (v *VerifLog) FindConflict(e []pb.Entry) uint64 { return v.l.findConflict(e) }
func (v *VerifLog) MaybeAppend(index, logTerm, committed uint64, ents []pb.Entry) (uint64, bool) {
	return v.l.maybeAppend(index, logTerm, committed, ents...)
}
func (v *VerifLog) Append(ents []pb.Entry) uint64 { return v.l.append(ents...) }
func (v *VerifLog) CommitTo(i uint64)             { v.l.commitTo(i) }
func (v *VerifLog) AppliedTo(i uint64)            { v.l.appliedTo(i) }
func (v *VerifLog) StableTo(i, t uint64)          { v.l.stableTo(i, t) }
func (v *VerifLog) StableSnapTo(i uint64)         { v.l.stableSnapTo(i) }
func (v *VerifLog) Restore(index, term uint64) {
	v.l.restore(pb.Snapshot{Metadata: pb.SnapshotMetadata{Index: index, Term: term}})
}
func (v *VerifLog) Slice(lo, hi, maxSize uint64) ([]pb.Entry, error) {
	return v.l.slice(lo, hi, maxSize)
}
func (v *VerifLog) Entries(i, maxSize uint64) ([]pb.Entry, error) { return v.l.entries(i, maxSize) }
func (v *VerifLog) NextEnts() []pb.Entry                          { return v.l.nextEnts() }
func (v *VerifLog) HasNextEnts() bool                             { return v.l.hasNextEnts() }
func (v *VerifLog) HasMoreNextEnts(a uint64) bool                 { return v.l.hasMoreNextEnts(a) }
func (v *VerifLog) HasPendingSnapshot() bool                      { return v.l.hasPendingSnapshot() }
func (v *VerifLog) IsUpToDate(lasti, term uint64) bool            { return v.l.isUpToDate(lasti, term) }
func (v *VerifLog) MaybeCommit(maxIndex, term uint64) bool        { return v.l.maybeCommit(maxIndex, term) }
func (v *VerifLog) Snapshot() (uint64, uint64) {
	s, err := v.l.snapshot()
	if err != nil {
		panic("verif: raftLog.snapshot: " + err.Error())
	}
	return s.Metadata.Index, s.Metadata.Term
}

// VerifMemEnts is a copy of ms.ents (the dummy entry first); VerifMemSnap the snapshot's (Index, Term).
func VerifMemEnts(ms *MemoryStorage) []pb.Entry { return append([]pb.Entry{}, ms.ents...) }
func VerifMemSnap(ms *MemoryStorage) (uint64, uint64) {
	return ms.snapshot.Metadata.Index, ms.snapshot.Metadata.Term
}

// VerifLogSaved is a deep copy of everything the log layer can change (used by the harness to roll
// back after a panic, which in production ends the process).
type VerifLogSaved struct {
	ents      []pb.Entry
	snap      pb.Snapshot
	uents     []pb.Entry
	usnap     *pb.Snapshot
	off       uint64
	committed uint64
	applied   uint64
}

func (v *VerifLog) Save() *VerifLogSaved {
	s := &VerifLogSaved{ents: append([]pb.Entry{}, v.ms.ents...), snap: v.ms.snapshot,
		off: v.l.unstable.offset, committed: v.l.committed, applied: v.l.applied}
	if v.l.unstable.entries != nil {
		s.uents = append([]pb.Entry{}, v.l.unstable.entries...)
	}
	if v.l.unstable.snapshot != nil {
		c := *v.l.unstable.snapshot
		s.usnap = &c
	}
	return s
}

func (v *VerifLog) Load(s *VerifLogSaved) {
	v.ms.ents = append([]pb.Entry{}, s.ents...)
	v.ms.snapshot = s.snap
	v.l.unstable.offset, v.l.committed, v.l.applied = s.off, s.committed, s.applied
	v.l.unstable.entries = nil
	if s.uents != nil {
		v.l.unstable.entries = append([]pb.Entry{}, s.uents...)
	}
	v.l.unstable.snapshot = nil
	if s.usnap != nil {
		c := *s.usnap
		v.l.unstable.snapshot = &c
	}
}

// node-driver bookkeeping of the fork (StepNode / Advance)
type VerifNodeView struct {
	NeedAdvance           bool
	LastSteppedIndex      uint64
	HavePrevLastUnstablei bool
	PrevLastUnstablei     uint64
	PrevLastUnstablet     uint64
	PrevSnapi             uint64
	PrevHardCommit        uint64
	PrevHardEmpty         bool
}

func VerifNodeView_(n Node) VerifNodeView {
	nn := n.(*node)
	return VerifNodeView{NeedAdvance: nn.needAdvance, LastSteppedIndex: nn.lastSteppedIndex,
		HavePrevLastUnstablei: nn.prevS.havePrevLastUnstablei, PrevLastUnstablei: nn.prevS.prevLastUnstablei,
		PrevLastUnstablet: nn.prevS.prevLastUnstablet, PrevSnapi: nn.prevS.prevSnapi,
		PrevHardCommit: nn.prevS.prevHardSt.Commit, PrevHardEmpty: IsEmptyHardState(nn.prevS.prevHardSt)}
}

// VerifRestartNode is RestartNode over ms with a hard state {Term: 1, Commit: commit} and no peers: no
// message, tick or proposal is ever enqueued by the harness, so Term/Vote/SoftState stay constant and
// StepNode / Advance exercise exactly the log-related bookkeeping. Returns the node and its raftLog.
func VerifRestartNode(ms *MemoryStorage, logger Logger, maxNext uint64, commit uint64) (Node, *VerifLog) {
	ms.SetHardState(pb.HardState{Term: 1, Commit: commit})
	c := &Config{ID: 1, Group: pb.Group{NodeId: 1, GroupId: 1, RaftReplicaId: 1, Name: "g"}, ElectionTick: 10,
		HeartbeatTick: 1, Storage: ms, MaxSizePerMsg: maxNext, MaxCommittedSizePerReady: maxNext,
		MaxInflightMsgs: 16, Logger: logger}
	n := RestartNode(c)
	return n, &VerifLog{l: verifRaft(n).raftLog, ms: ms}
}

// ---------------------------------------------------------------------------------------------
// RocksStorage index bookkeeping (protocol `raftlog`, ops rs.*)

// VerifRocksReset empties the storage: no snapshot, no hard state, only the dummy entry, caches cleared.
func VerifRocksReset(rs *RocksStorage) {
	rs.Lock()
	rs.snapshot = pb.Snapshot{}
	rs.hardState = pb.HardState{}
	rs.Unlock()
	if err := rs.reset(make([]pb.Entry, 1)); err != nil {
		panic("verif: RocksStorage.reset: " + err.Error())
	}
}

// VerifRocksRaw is the raw state of a RocksStorage: the two caches, the snapshot meta and every entry in the DB.
type VerifRocksRaw struct {
	CFirst, CLast, SnapIndex, SnapTerm uint64
	Ents                               []pb.Entry
}

func VerifRocksDump(rs *RocksStorage) VerifRocksRaw {
	rs.Lock()
	r := VerifRocksRaw{CFirst: rs.firstIndex, SnapIndex: rs.snapshot.Metadata.Index, SnapTerm: rs.snapshot.Metadata.Term}
	rs.Unlock()
	r.CLast = rs.lastIndexCached()
	es, err := rs.allEntries(0, ^uint64(0), ^uint64(0))
	if err != nil {
		panic("verif: RocksStorage.allEntries: " + err.Error())
	}
	r.Ents = es
	return r
}

// VerifIsNotFound tells errNotFound from other errors.
func VerifIsNotFound(err error) bool { return err == errNotFound }

// ---------------------------------------------------------------------------------------------
// protocol `rocksvote`: a follower node over an arbitrary IExtRaftStorage in a fixed cluster

// VerifGroups is the peer list 1..n of group 1 as the fork's Group records.
func VerifGroups(n int) []*pb.Group {
	var gs []*pb.Group
	for i := 1; i <= n; i++ {
		gs = append(gs, &pb.Group{NodeId: uint64(i), GroupId: 1, RaftReplicaId: uint64(i), Name: "g"})
	}
	return gs
}

// VerifRestartNodeOn is RestartNode of replica 1 of the voters 1..nPeers over st (which must not hold a
// ConfState yet: the peers are passed the way raft's own tests pass them).
func VerifRestartNodeOn(st IExtRaftStorage, logger Logger, nPeers int, preVote bool) Node {
	c := &Config{ID: 1, Group: pb.Group{NodeId: 1, GroupId: 1, RaftReplicaId: 1, Name: "g"}, ElectionTick: 10,
		HeartbeatTick: 1, Storage: st, MaxSizePerMsg: ^uint64(0), MaxCommittedSizePerReady: ^uint64(0),
		MaxInflightMsgs: 16, Logger: logger, PreVote: preVote}
	for _, g := range VerifGroups(nPeers) {
		c.peers = append(c.peers, *g)
	}
	return RestartNode(c)
}

// VerifNodeLast is (lastIndex, lastTerm, committed, term, vote) of the node's raft.
func VerifNodeLast(n Node) (li, lt, committed, term, vote uint64) {
	r := verifRaft(n)
	return r.raftLog.lastIndex(), r.raftLog.lastTerm(), r.raftLog.committed, r.Term, r.Vote
}
