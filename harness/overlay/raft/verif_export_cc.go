//go:build verif
// +build verif

package raft

import pb "github.com/youzan/ZanRedisDB/raft/raftpb"

// Accessors for protocol `raftcc` (membership changes). Read-only; compiled in only with -tags verif.

// VerifConfChangeQueued is the number of configuration changes handed to ApplyConfChange that the node has
// not consumed yet (the channel has capacity 1). The harness uses it as a synchronisation point: a conf
// change applied "asynchronously" (the way the apply loop of node/node.go does after the Ready in which the
// node became leader) is consumed by a later StepNode.
func VerifConfChangeQueued(n Node) int { return len(n.(*node).confc) }

// VerifPendingConf is the leader's "a configuration change is in flight" flag.
func VerifPendingConf(n Node) bool { return verifRaft(n).pendingConf }

// VerifEntryAt is the entry at index i of the node's raftLog (stable + unstable part); ok=false when the index is
// compacted or beyond the log.
func VerifEntryAt(n Node, i uint64) (pb.Entry, bool) {
	l := verifRaft(n).raftLog
	if i < l.firstIndex() || i > l.lastIndex() {
		return pb.Entry{}, false
	}
	ents, err := l.slice(i, i+1, noLimit)
	if err != nil || len(ents) != 1 {
		return pb.Entry{}, false
	}
	e := ents[0]
	e.Data = append([]byte(nil), e.Data...)
	return e, true
}

// VerifTermAt is raftLog.term(i) of the node (stable + unstable part); ok=false when the index is compacted or
// beyond the log.
func VerifTermAt(n Node, i uint64) (uint64, bool) {
	t, err := verifRaft(n).raftLog.term(i)
	if err != nil {
		return 0, false
	}
	l := verifRaft(n).raftLog
	if i > l.lastIndex() || i+1 < l.firstIndex() {
		return 0, false
	}
	return t, true
}
