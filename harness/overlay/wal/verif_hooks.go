// +build verif

package wal

import (
	"io"
	"os"
	"path/filepath"
)

// Hooks for the C05 harness (compiled into package wal by `go build -tags verif -overlay`).

// VerifOnFdatasync is called right after every real fdatasync of a segment file (the call is
// inserted into WAL.sync by tools/instrument) with the file and its current write offset.
var VerifOnFdatasync func(f *os.File, off int64)

func verifFdatasynced(f *os.File) {
	if VerifOnFdatasync == nil {
		return
	}
	off, err := f.Seek(0, io.SeekCurrent)
	if err != nil {
		off = -1
	}
	VerifOnFdatasync(f, off)
}

// VerifTail returns the tail segment's file, its base name and the offset up to which bytes have
// been handed to the OS (the PageWriter's buffered bytes are not included).
func (w *WAL) VerifTail() (f *os.File, name string, off int64) {
	w.mu.Lock()
	defer w.mu.Unlock()
	t := w.tail()
	if t == nil {
		return nil, "", -1
	}
	off, err := t.Seek(0, io.SeekCurrent)
	if err != nil {
		off = -1
	}
	return t.File, filepath.Base(t.Name()), off
}

// VerifEncodeFrameSize / VerifDecodeFrameSize export the frame-size arithmetic.
func VerifEncodeFrameSize(dataBytes int) (uint64, int) { return encodeFrameSize(dataBytes) }
func VerifDecodeFrameSize(lenField int64) (int64, int64) { return decodeFrameSize(lenField) }

// VerifConsts exports the constants the model takes from Gen/WalFrame.lean.
func VerifConsts() map[string]int64 {
	return map[string]int64{
		"minSectorSize": minSectorSize, "frameSizeBytes": frameSizeBytes, "walPageBytes": walPageBytes,
		"metadataType": metadataType, "entryType": entryType, "stateType": stateType, "crcType": crcType,
		"snapshotType": snapshotType, "maxWALEntrySizeLimit": maxWALEntrySizeLimit,
	}
}

// VerifQuiet silences the package logger (it writes one line per repair / ignored file to stdout).
func VerifQuiet() { plog.Logger = nil }
