// +build verif

package node

import (
	"context"
	"errors"
	"math"
	"sync"
	"time"

	"github.com/youzan/ZanRedisDB/common"
	"github.com/youzan/ZanRedisDB/pkg/idutil"
	"github.com/youzan/ZanRedisDB/pkg/wait"
	"github.com/youzan/ZanRedisDB/raft"
	"github.com/youzan/ZanRedisDB/raft/raftpb"
)

// verifFakeRaft stands in for raft.Node behind a KVNode: it records what the leader-side handlers propose instead of
// replicating it. Only the propose methods are ever reached by the code paths the data-mapping harness drives
// (the embedded interface is nil: anything else would panic and be reported).
type verifFakeRaft struct {
	raft.Node
	mu   sync.Mutex
	ents []raftpb.Entry
	ch   chan struct{}
}

func (f *verifFakeRaft) add(e raftpb.Entry) {
	f.mu.Lock()
	f.ents = append(f.ents, e)
	f.mu.Unlock()
	select {
	case f.ch <- struct{}{}:
	default:
	}
}

func (f *verifFakeRaft) ProposeEntryWithDrop(ctx context.Context, e raftpb.Entry, cancel context.CancelFunc) error {
	f.add(e)
	return nil
}

func (f *verifFakeRaft) ProposeWithDrop(ctx context.Context, data []byte, cancel context.CancelFunc) error {
	f.add(raftpb.Entry{Data: data})
	return nil
}

func (f *verifFakeRaft) Propose(ctx context.Context, data []byte) error {
	f.add(raftpb.Entry{Data: data})
	return nil
}

func (f *verifFakeRaft) NotifyEventCh() {}

// VerifNode is a real KVNode (real command router with the registered leader-side handlers, real kv state machine on
// a real store, the real wait registry) whose raft node is the recorder above. Construction mirrors NewKVNode up to
// newRaftNode.
type VerifNode struct {
	nd      *KVNode
	fake    *verifFakeRaft
	np      nodeProgress
	lastIdx uint64
}

func NewVerifNode(kvopts *KVOptions, ns string) (*VerifNode, error) {
	mconf := &MachineConfig{}
	rconf := &RaftConfig{GroupID: 1, GroupName: ns, ID: 1, Replicator: 1, nodeConfig: mconf, DataDir: kvopts.DataDir}
	w := wait.New()
	sl := NewSlowLimiter(ns)
	sm, err := NewStateMachine(kvopts, *mconf, rconf.ID, ns, nil, w, sl)
	if err != nil {
		return nil, err
	}
	s := &KVNode{
		readyC:             make(chan struct{}, 1),
		stopChan:           make(chan struct{}),
		stopDone:           make(chan struct{}),
		sm:                 sm,
		w:                  w,
		router:             common.NewCmdRouter(),
		ns:                 ns,
		machineConfig:      mconf,
		expirationPolicy:   kvopts.ExpirationPolicy,
		remoteSyncedStates: newRemoteSyncedStateMgr(),
		applyWait:          wait.NewTimeList(),
		readWaitC:          make(chan struct{}, 1),
		readNotifier:       newNotifier(),
		wrPools:            newWaitReqPoolArray(),
		slowLimiter:        sl,
	}
	if kvsm, ok := sm.(*kvStoreSM); ok {
		s.store = kvsm.store
	}
	s.registerHandler()
	fake := &verifFakeRaft{ch: make(chan struct{}, 1)}
	s.rn = &raftNode{
		config:      rconf,
		node:        fake,
		reqIDGen:    idutil.NewGenerator(uint16(rconf.ID), time.Now()),
		memberCnt:   1,
		lead:        1,
		description: ns + "(verif)",
		slowLimiter: sl,
	}
	return &VerifNode{nd: s, fake: fake}, nil
}

func (vn *VerifNode) Node() *KVNode   { return vn.nd }
func (vn *VerifNode) Store() *KVStore { return vn.nd.store }
func (vn *VerifNode) Close()          { vn.nd.sm.Close() }

// ProposedCh is signalled whenever a handler hands an entry to raft.
func (vn *VerifNode) ProposedCh() <-chan struct{} { return vn.fake.ch }

// TakeProposed returns and forgets the entries proposed since the last call.
func (vn *VerifNode) TakeProposed() []raftpb.Entry {
	vn.fake.mu.Lock()
	defer vn.fake.mu.Unlock()
	e := vn.fake.ents
	vn.fake.ents = nil
	select {
	case <-vn.fake.ch:
	default:
	}
	return e
}

// ApplyEvent delivers the entries as ONE apply event through the real KVNode.applyEntries (one shared batch operator,
// one ApplyRaftRequest per entry, CommitBatch at the end of the event), exactly what applyCommits/applyAll do with an
// applyInfo taken from commitC. replaying selects isReplaying for every entry (rn.lastIndex above / below them).
func (vn *VerifNode) ApplyEvent(ents []raftpb.Entry, replaying bool) {
	if len(ents) == 0 {
		return
	}
	for i := range ents {
		vn.lastIdx++
		ents[i].Index = vn.lastIdx
		ents[i].Term = 1
		ents[i].Type = raftpb.EntryNormal
	}
	if replaying {
		vn.nd.rn.lastIndex = math.MaxUint64
	} else {
		vn.nd.rn.lastIndex = 0
	}
	ev := applyInfo{ents: ents}
	vn.nd.applyEntries(&vn.np, &ev)
}

// Register / Trigger / IsRegistered expose the node's wait registry (shadow runs register the request ids
// themselves; the main run is registered by ProposeInternal).
func (vn *VerifNode) Register(id uint64) wait.WaitResult { return vn.nd.w.Register(id) }
func (vn *VerifNode) Trigger(id uint64, v interface{})   { vn.nd.w.Trigger(id, v) }
func (vn *VerifNode) IsRegistered(id uint64) bool        { return vn.nd.w.IsRegistered(id) }

var ErrVerifDropped = errors.New("verif: proposal dropped by the harness")

// VerifFinish turns the raw apply result of a request into what FutureRsp.WaitRsp would return for it
// (error results short-circuit, otherwise the handler's response rewriter runs).
func VerifFinish(fr *FutureRsp, raw interface{}) (interface{}, error) {
	if err, ok := raw.(error); ok {
		return nil, err
	}
	if fr != nil && fr.rspHandle != nil {
		return fr.rspHandle(raw)
	}
	return raw, nil
}

// VerifEntryReqs decodes the requests carried by a proposed entry the way KVNode.applyEntry does.
func VerifEntryReqs(e raftpb.Entry) (BatchInternalRaftRequest, error) {
	var rl BatchInternalRaftRequest
	if e.DataType == int32(RedisV2Req) {
		var r InternalRaftRequest
		r.Header.ID = e.ID
		r.Header.Timestamp = e.Timestamp
		r.Header.DataType = e.DataType
		r.Data = e.Data
		rl.ReqNum = 1
		rl.Reqs = append(rl.Reqs, r)
		rl.Timestamp = e.Timestamp
		return rl, nil
	}
	err := rl.Unmarshal(e.Data)
	return rl, err
}

// VerifSetEntryTimestamp replaces the proposal time (time.Now() taken in queueRequest) by the given log timestamp,
// in the entry header (redis v2) or in the marshalled request list and each request header (redis v1).
func VerifSetEntryTimestamp(e *raftpb.Entry, ts int64) error {
	if e.DataType == int32(RedisV2Req) {
		e.Timestamp = ts
		return nil
	}
	var rl BatchInternalRaftRequest
	if err := rl.Unmarshal(e.Data); err != nil {
		return err
	}
	rl.Timestamp = ts
	for i := range rl.Reqs {
		rl.Reqs[i].Header.Timestamp = ts
	}
	d, err := rl.Marshal()
	if err != nil {
		return err
	}
	e.Data = d
	return nil
}

// VerifPackEntries puts the requests of several entries into ONE entry holding a BatchInternalRaftRequest with list
// timestamp 0, so that ApplyRaftRequest uses each request's own Header.Timestamp (the shape cluster-syncer batches have).
func VerifPackEntries(ents []raftpb.Entry) (raftpb.Entry, error) {
	var out BatchInternalRaftRequest
	for _, e := range ents {
		rl, err := VerifEntryReqs(e)
		if err != nil {
			return raftpb.Entry{}, err
		}
		for _, r := range rl.Reqs {
			if r.Header.Timestamp == 0 {
				r.Header.Timestamp = rl.Timestamp
			}
			out.Reqs = append(out.Reqs, r)
		}
	}
	out.ReqNum = int32(len(out.Reqs))
	d, err := out.Marshal()
	if err != nil {
		return raftpb.Entry{}, err
	}
	return raftpb.Entry{Data: d}, nil
}
