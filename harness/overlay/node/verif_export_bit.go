// +build verif

package node

import "github.com/absolute8511/redcon"

// VerifProposeUnchecked proposes a single-key write command the way every leader-side write handler does after its own
// argument checks (rebuildFirstKeyAndPropose: namespace cut, request marshalling, wait registration) — WITHOUT those
// checks. Used to put into the log what an apply path must be able to stand on its own: entries written by a leader of
// another version, or by a handler whose checks are looser than the ones of the apply path (SETBIT: the leader admits
// offsets up to MaxBitOffset, BitSetV2 up to MaxBitOffsetV2).
func (vn *VerifNode) VerifProposeUnchecked(cmd redcon.Command) (interface{}, error) {
	return rebuildFirstKeyAndPropose(vn.nd, cmd, nil)
}
