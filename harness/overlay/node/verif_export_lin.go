// +build verif

package node

import (
	"sync/atomic"

	"github.com/youzan/ZanRedisDB/pkg/wait"
)

// Hooks of the verification harness (compiled in only with -tags verif through go build -overlay).
//
// The calls of verifApplyTrace / verifRestoreTrace / verifCrash are inserted into copies of the current
// node.go / raft.go by tools/instrument at check time; this file only holds what they call.

// VerifApplyTrace is invoked from KVNode.applyEntry just before StateMachine.ApplyRaftRequest, once per raft
// entry, with the ids of the requests the entry carries (one for client proposals).
var VerifApplyTrace func(ns string, replica uint64, index uint64, term uint64, reqIDs []uint64)

// VerifRestoreTrace is invoked at the entry of KVNode.RestoreFromSnapshot (kind "restore", the snapshot index)
// and KVNode.CleanData (kind "clean", 0): the state machine is about to be reset to that index.
var VerifRestoreTrace func(ns string, replica uint64, kind string, index uint64)

var verifApplyHookCalls int64

func verifApplyTrace(nd *KVNode, reqList BatchInternalRaftRequest, term uint64, index uint64) {
	atomic.AddInt64(&verifApplyHookCalls, 1)
	f := VerifApplyTrace
	if f == nil {
		return
	}
	ids := make([]uint64, 0, len(reqList.Reqs))
	for _, r := range reqList.Reqs {
		id := r.Header.ID
		if id == 0 {
			id = reqList.ReqId
		}
		ids = append(ids, id)
	}
	f(nd.ns, verifReplicaID(nd), index, term, ids)
}

func verifReplicaID(nd *KVNode) uint64 {
	if nd.rn == nil || nd.rn.config == nil { // bare nodes built by other harness hooks
		return 0
	}
	return nd.rn.config.ID
}

func verifRestoreTrace(nd *KVNode, kind string, index uint64) {
	if f := VerifRestoreTrace; f != nil {
		f(nd.ns, verifReplicaID(nd), kind, index)
	}
}

// VerifApplyHookCalls tells the harness whether the instrumented apply path is really in the binary.
func VerifApplyHookCalls() int64 { return atomic.LoadInt64(&verifApplyHookCalls) }

var verifPointsFound, verifPointsMissing []string

// VerifPoints lists the instrumentation points tools/instrument inserted / could not anchor in this build.
func VerifPoints() (found []string, missing []string) { return verifPointsFound, verifPointsMissing }

type verifWait struct {
	wait.Wait
	onRegister func(id uint64)
}

func (w verifWait) Register(id uint64) wait.WaitResult {
	w.onRegister(id)
	return w.Wait.Register(id)
}

func (w verifWait) RegisterWithC(id uint64, done chan struct{}) wait.WaitResult {
	w.onRegister(id)
	return w.Wait.RegisterWithC(id, done)
}

// VerifOnRegister makes the node report every request id it registers a waiter for (on the proposing
// goroutine, before the proposal is handed to raft). Call before the node is started.
func (nd *KVNode) VerifOnRegister(f func(id uint64)) {
	nd.w = verifWait{Wait: nd.w, onRegister: f}
}

// VerifReplicaID is the raft replica id of this node.
func (nd *KVNode) VerifReplicaID() uint64 { return verifReplicaID(nd) }
