// +build verif

package node

import (
	"github.com/youzan/ZanRedisDB/pkg/wait"
	"github.com/youzan/ZanRedisDB/raft/raftpb"
)

// Hooks compiled into package node only with -tags verif (injected by `go build -overlay`).

// VerifNewBareNode builds a KVNode that has just what applyEntry needs: a state machine, the waiter
// registry and the remote synced-state manager. No raft, no storage.
func VerifNewBareNode(sm StateMachine) *KVNode {
	return &KVNode{
		rn:                 &raftNode{description: "verif"},
		sm:                 sm,
		w:                  wait.New(),
		remoteSyncedStates: newRemoteSyncedStateMgr(),
		stopChan:           make(chan struct{}),
	}
}

// VerifApplyEntry runs the real apply path of one committed raft entry.
func (nd *KVNode) VerifApplyEntry(e raftpb.Entry, isReplaying bool) bool {
	return nd.applyEntry(e, isReplaying, nil)
}

func (nd *KVNode) VerifSyncedClone() map[string]SyncedState { return nd.remoteSyncedStates.Clone() }

func VerifErrIgnoredRemoteApply() error { return errIgnoredRemoteApply }

// VerifStore returns the KVStore behind a kv state machine (nil for others).
func VerifStore(sm StateMachine) *KVStore {
	if k, ok := sm.(*kvStoreSM); ok {
		return k.store
	}
	return nil
}
