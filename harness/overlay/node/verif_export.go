// +build verif

package node

import (
	"encoding/json"

	"github.com/youzan/ZanRedisDB/common"
	"github.com/youzan/ZanRedisDB/pkg/wait"
	"github.com/youzan/ZanRedisDB/raft/raftpb"
)

// Hooks compiled into package node only with -tags verif (injected by `go build -overlay`).

// VerifNewBareNode builds a KVNode that has just what applyEntry needs: a state machine, the waiter
// registry and the remote synced-state manager. No raft, no storage.
func VerifNewBareNode(sm StateMachine) *KVNode {
	return &KVNode{
		rn:                 &raftNode{description: "verif"},
		sm:                 sm,
		w:                  wait.New(),
		remoteSyncedStates: newRemoteSyncedStateMgr(),
		stopChan:           make(chan struct{}),
	}
}

// VerifApplyEntry runs the real apply path of one committed raft entry.
func (nd *KVNode) VerifApplyEntry(e raftpb.Entry, isReplaying bool) bool {
	return nd.applyEntry(e, isReplaying, nil)
}

func (nd *KVNode) VerifSyncedClone() map[string]SyncedState { return nd.remoteSyncedStates.Clone() }

func VerifErrIgnoredRemoteApply() error { return errIgnoredRemoteApply }

// VerifStore returns the KVStore behind a kv state machine (nil for others).
func VerifStore(sm StateMachine) *KVStore {
	if k, ok := sm.(*kvStoreSM); ok {
		return k.store
	}
	return nil
}

// ---- log syncer learner (the SENDER side of cross-cluster replay)

// VerifNewLogSyncer builds the real learner state machine that forwards its raft log to a remote cluster.
func VerifNewLogSyncer(remote string, fullNS string, ci interface {
	GetClusterName() string
}) (StateMachine, error) {
	mc := MachineConfig{RemoteSyncCluster: remote, LearnerRole: "role_log_syncer"}
	sm, err := NewLogSyncerSM(&KVOptions{}, mc, 1, fullNS, verifCI{ci.GetClusterName()})
	if err != nil {
		return nil, err
	}
	sm.w = wait.New()
	return sm, nil
}

type verifCI struct{ name string }

func (c verifCI) GetClusterName() string { return c.name }
func (c verifCI) GetSnapshotSyncInfo(fullNS string) ([]common.SnapshotSyncInfo, error) {
	return nil, nil
}
func (c verifCI) UpdateMeForNamespaceLeader(fullNS string) (bool, error) { return false, nil }

// VerifLogSyncerSynced: the position the learner claims to have synced to the remote cluster.
func VerifLogSyncerSynced(sm StateMachine) (uint64, uint64) {
	t, i, _ := sm.(*logSyncerSM).getSyncedState()
	return t, i
}

// VerifApplyRemoteSnapEntry: the raft entry a syncer proposes to make the receiver restore the transferred
// remote snapshot (term, index) of a source cluster.
func VerifApplyRemoteSnapEntry(cluster string, term, index uint64, raftIndex uint64) raftpb.Entry {
	p := &customProposeData{ProposeOp: ProposeOp_ApplyRemoteSnap, NeedBackup: true, RemoteTerm: term, RemoteIndex: index}
	d, _ := json.Marshal(p)
	rl := BatchInternalRaftRequest{ReqNum: 1, Type: FromClusterSyncer, OrigCluster: cluster, OrigTerm: term, OrigIndex: index, Timestamp: 1,
		Reqs: []InternalRaftRequest{{Header: RequestHeader{ID: 0, DataType: int32(CustomReq)}, Data: d}}}
	data, _ := rl.Marshal()
	return raftpb.Entry{Term: 1, Index: raftIndex, Type: raftpb.EntryNormal, Data: data}
}
