// +build verif

package node

import (
	"sync/atomic"
	"time"
)

// Read-only views of the namespace registry for protocol nsreg (C15), plus a stop without the 1 s polling sleep of
// Stop() (the protocol opens a fresh NamespaceMgr per session).

// VerifNsMeta returns nsMetas[base].PartitionNum.
func (nsm *NamespaceMgr) VerifNsMeta(base string) (int, bool) {
	nsm.mutex.RLock()
	defer nsm.mutex.RUnlock()
	m, ok := nsm.nsMetas[base]
	if !ok || m == nil {
		return 0, ok
	}
	return m.PartitionNum, true
}

// VerifRegistered returns kvNodes as full name -> the PartitionNum of the config the partition was created with.
func (nsm *NamespaceMgr) VerifRegistered() map[string]int {
	nsm.mutex.RLock()
	defer nsm.mutex.RUnlock()
	r := make(map[string]int, len(nsm.kvNodes))
	for k, n := range nsm.kvNodes {
		if n == nil || n.conf == nil {
			r[k] = -1
			continue
		}
		r[k] = n.conf.PartitionNum
	}
	return r
}

// VerifStopFast is Stop() with a 5 ms poll for the stopped callbacks.
func (nsm *NamespaceMgr) VerifStopFast() {
	if !atomic.CompareAndSwapInt32(&nsm.stopping, 0, 1) {
		return
	}
	close(nsm.stopC)
	for _, n := range nsm.GetNamespaces() {
		n.Close()
	}
	nsm.wg.Wait()
	for i := 0; i < 2000 && len(nsm.GetNamespaces()) > 0; i++ {
		time.Sleep(5 * time.Millisecond)
	}
	nsm.mutex.RLock()
	defer nsm.mutex.RUnlock()
	for _, meta := range nsm.nsMetas {
		if meta.walEng != nil {
			meta.walEng.CloseAll()
		}
	}
}
