// +build verif

package node

import (
	"context"
	"errors"
	"sync"
	"time"

	"github.com/youzan/ZanRedisDB/common"
	"github.com/youzan/ZanRedisDB/pkg/idutil"
	"github.com/youzan/ZanRedisDB/pkg/wait"
	"github.com/youzan/ZanRedisDB/raft"
	"github.com/youzan/ZanRedisDB/raft/raftpb"
)

// VerifWaitNode (protocol waittable, C04): a KVNode that has exactly what KVNode.queueRequest / ProposeInternal and the
// wait function they return touch — the REAL wait registry (pkg/wait multList), the REAL pool of request headers
// (newWaitReqPoolArray), the id generator — behind a raft stand-in that accepts (or refuses) the proposal and keeps the
// drop callback (the `cancel` of the request's context), so that the harness can make a waiter give up.
type VerifWaitNode struct {
	nd   *KVNode
	fake *verifWaitRaft
	rec  *verifRecWait
}

// verifRecWait is KVNode.w: the real registry; it only remembers which channel a request id was registered with.
type verifRecWait struct {
	wait.Wait
	mu     sync.Mutex
	lastID uint64
	lastC  chan struct{}
}

func (r *verifRecWait) RegisterWithC(id uint64, done chan struct{}) wait.WaitResult {
	r.mu.Lock()
	r.lastID, r.lastC = id, done
	r.mu.Unlock()
	return r.Wait.RegisterWithC(id, done)
}

type verifWaitRaft struct {
	raft.Node
	rec      *verifRecWait
	failNext bool
	cancels  map[uint64]context.CancelFunc
}

var errVerifProposeRefused = errors.New("verif: proposal refused by the harness")

func (f *verifWaitRaft) ProposeEntryWithDrop(ctx context.Context, e raftpb.Entry, cancel context.CancelFunc) error {
	if f.failNext {
		f.failNext = false
		return errVerifProposeRefused
	}
	f.cancels[e.ID] = cancel // a RedisV2Req entry carries the request id (ProposeInternal: e.ID = irr.Header.ID)
	return nil
}

func NewVerifWaitNode() *VerifWaitNode {
	ns := "verifwait-0"
	mconf := &MachineConfig{}
	rconf := &RaftConfig{GroupID: 1, GroupName: ns, ID: 1, Replicator: 1, nodeConfig: mconf}
	rec := &verifRecWait{Wait: wait.New()}
	fake := &verifWaitRaft{rec: rec, cancels: map[uint64]context.CancelFunc{}}
	nd := &KVNode{
		w:       rec,
		router:  common.NewCmdRouter(),
		ns:      ns,
		wrPools: newWaitReqPoolArray(),
	}
	nd.rn = &raftNode{
		config:      rconf,
		node:        fake,
		reqIDGen:    idutil.NewGenerator(uint16(rconf.ID), time.Now()),
		memberCnt:   1,
		lead:        1,
		description: ns + "(verif)",
	}
	return &VerifWaitNode{nd: nd, fake: fake, rec: rec}
}

// Propose runs the real KVNode.queueRequest for a new request (a fresh id of the node's generator; data type RedisV2Req,
// the main write path: the entry itself carries the request id). refuse makes the
// raft stand-in return an error from the propose call (ProposeInternal's failed-propose branch). It returns the id and
// the channel the id was registered with (as seen by RegisterWithC), and the future whose WaitRsp is the real wait function.
func (vn *VerifWaitNode) Propose(refuse bool) (uint64, chan struct{}, *FutureRsp, error) {
	vn.fake.failNext = refuse
	req := InternalRaftRequest{
		Header: RequestHeader{ID: vn.nd.rn.reqIDGen.Next(), DataType: int32(RedisV2Req)},
		Data:   []byte("verif"),
	}
	fr, err := vn.nd.queueRequest(time.Now(), req)
	vn.rec.mu.Lock()
	id, ch := vn.rec.lastID, vn.rec.lastC
	vn.rec.mu.Unlock()
	if id != req.Header.ID {
		return req.Header.ID, nil, fr, errors.New("verif: the request id was not registered by ProposeInternal")
	}
	return id, ch, fr, err
}

// GiveUp makes the context of request id report Done (the drop callback raft would call; the wait function then sees
// context.Canceled exactly as after a dropped proposal; a deadline behaves the same apart from the error text).
func (vn *VerifWaitNode) GiveUp(id uint64) bool {
	c := vn.fake.cancels[id]
	if c == nil {
		return false
	}
	delete(vn.fake.cancels, id)
	c()
	return true
}

// Trigger is what the apply path does with the result of an applied entry.
func (vn *VerifWaitNode) Trigger(id uint64, v interface{}) { vn.nd.w.Trigger(id, v) }
func (vn *VerifWaitNode) IsRegistered(id uint64) bool      { return vn.nd.w.IsRegistered(id) }

// ShardLocked: is the registry lock that guards id held right now (by a Trigger the harness stopped between its parts)?
func (vn *VerifWaitNode) ShardLocked(id uint64) bool { return wait.VerifShardLocked(vn.rec.Wait, id) }
func VerifIsProposalCanceled(err error) bool               { return err == ErrProposalCanceled }
