// +build verif

package rafthttp

import (
	"io"

	"github.com/youzan/ZanRedisDB/pkg/types"
	"github.com/youzan/ZanRedisDB/raft/raftpb"
	"github.com/youzan/ZanRedisDB/stats"
)

// Constructors of the unexported stream codecs (compiled in only with -tags verif via -overlay).

func VerifNewMsgAppV2Encoder(w io.Writer) func(m *raftpb.Message) error {
	enc := newMsgAppV2Encoder(w, &stats.PeerStats{})
	return enc.encode
}

func VerifNewMsgAppV2Decoder(r io.Reader, local, remote uint64) func() (raftpb.Message, error) {
	dec := newMsgAppV2Decoder(r, types.ID(local), types.ID(remote))
	return dec.decode
}

func VerifNewMessageEncoder(w io.Writer) func(m *raftpb.Message) error {
	enc := &messageEncoder{w: w}
	return enc.encode
}

func VerifNewMessageDecoder(r io.Reader) func() (raftpb.Message, error) {
	dec := newMessageDecoder(r)
	return dec.decode
}

func VerifIsLinkHeartbeat(m *raftpb.Message) bool { return isLinkHeartbeatMessage(m) }
