// +build verif

package rafthttp

import (
	"bytes"
	"context"
	"fmt"
	"io"
	"sync"
	"time"

	"github.com/youzan/ZanRedisDB/pkg/types"
	"github.com/youzan/ZanRedisDB/raft"
	"github.com/youzan/ZanRedisDB/raft/raftpb"
	"github.com/youzan/ZanRedisDB/stats"
)

// The real streamWriter goroutine (batching, forced flush every streamBufSize/2 messages, heartbeats) between a queue
// of messages and the real decoder of the stream type. Compiled in only with -tags verif via -overlay; adds no behaviour.

type verifNopRaft struct{}

func (verifNopRaft) Process(ctx context.Context, m raftpb.Message) error { return nil }
func (verifNopRaft) IsPeerRemoved(id uint64) bool                          { return false }
func (verifNopRaft) ReportUnreachable(id uint64, group raftpb.Group)       {}
func (verifNopRaft) ReportSnapshot(id uint64, group raftpb.Group, status raft.SnapshotStatus) {
}

type verifConn struct {
	mu      sync.Mutex
	buf     bytes.Buffer
	flushes int
}

func (c *verifConn) Write(p []byte) (int, error) {
	c.mu.Lock()
	defer c.mu.Unlock()
	return c.buf.Write(p)
}
func (c *verifConn) Flush() {
	c.mu.Lock()
	c.flushes++
	c.mu.Unlock()
}
func (c *verifConn) Close() error { return nil }

// VerifStreamBufSize is the capacity of the writer's channel.
func VerifStreamBufSize() int { return streamBufSize }

// VerifWriterRoundTrip queues the first `pre` messages in the channel of a real streamWriter BEFORE the peer connection
// is attached (a backlog), attaches an in-memory connection of the given stream type, feeds the rest while the writer
// goroutine is draining, stops the writer and decodes everything it wrote with the real decoder of that stream type
// (link heartbeats dropped). local/remote are the ids the msgappv2 decoder fills in.
func VerifWriterRoundTrip(msgs []raftpb.Message, v2 bool, pre int, local, remote uint64) (got []raftpb.Message, flushes int, err error) {
	sw := startStreamWriter(types.ID(local), newPeerStatus(types.ID(local)), &stats.PeerStats{}, verifNopRaft{})
	if pre > len(msgs) {
		pre = len(msgs)
	}
	if pre > streamBufSize {
		pre = streamBufSize
	}
	for _, m := range msgs[:pre] {
		sw.msgc <- m
	}
	conn := &verifConn{}
	st := streamTypeMessage
	if v2 {
		st = streamTypeMsgAppV2
	}
	if !sw.attach(&outgoingConn{t: st, Writer: conn, Flusher: conn, Closer: conn}) {
		return nil, 0, fmt.Errorf("attach failed")
	}
	for _, m := range msgs[pre:] {
		select {
		case sw.msgc <- m:
		case <-time.After(30 * time.Second):
			sw.stop()
			return nil, 0, fmt.Errorf("writer channel stayed full for 30 s")
		}
	}
	deadline := time.Now().Add(60 * time.Second)
	for len(sw.msgc) > 0 {
		if time.Now().After(deadline) {
			sw.stop()
			return nil, 0, fmt.Errorf("backlog not drained: %d left", len(sw.msgc))
		}
		time.Sleep(2 * time.Millisecond)
	}
	sw.stop() // returns after the writer goroutine finished the batch it was working on
	conn.mu.Lock()
	r := bytes.NewReader(append([]byte(nil), conn.buf.Bytes()...))
	flushes = conn.flushes
	conn.mu.Unlock()
	var dec decoder
	if v2 {
		dec = newMsgAppV2Decoder(r, types.ID(local), types.ID(remote))
	} else {
		dec = newMessageDecoder(r)
	}
	for {
		m, e := dec.decode()
		if e == io.EOF {
			break
		}
		if e != nil {
			return got, flushes, fmt.Errorf("decode #%d: %v", len(got), e)
		}
		if isLinkHeartbeatMessage(&m) {
			continue
		}
		got = append(got, m)
	}
	return got, flushes, nil
}
