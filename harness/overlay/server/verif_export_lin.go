// +build verif

package server

import "github.com/absolute8511/redcon"

// VerifServeRedis runs one client command through the server's redis entry point (routing, leader check for
// reads, write path, reply encoding) on the caller's goroutine, writing the reply to conn.
func (s *Server) VerifServeRedis(conn redcon.Conn, cmd redcon.Command) { s.serverRedis(conn, cmd) }
