// +build verif

package server

// VerifStopFast stops a server started with Start() without the backup + 3 s sleep of Stop(): the namespaces are
// closed, the listeners (redis, http, grpc, raft) are shut down and the server's goroutines are awaited. Used by the
// harness protocols that start many short-lived in-process servers.
func (s *Server) VerifStopFast() {
	s.nsMgr.Stop()
	select {
	case <-s.stopC:
		return
	default:
	}
	close(s.stopC)
	s.raftTransport.Stop()
	s.wg.Wait()
}
