// +build verif

package rockredis

import "sync/atomic"

// VerifCompactFilter runs the REAL compaction filter (rockCompactFilter.Filter) on one raw engine entry with the
// filter's cached clock set to tsSec (seconds) and its check counter reset, so that neither the sub-key branch nor
// lazyExpireCheck re-reads the wall clock (tsSec must be > 0: a cached clock <= 0 makes lazyExpireCheck call
// time.Now()). Returns the filter's verdict: true = remove the entry.
func (r *RockDB) VerifCompactFilter(tsSec int64, key, value []byte) bool {
	if r.compactFilter == nil {
		r.compactFilter = &rockCompactFilter{rdb: r}
	}
	cf := r.compactFilter
	atomic.StoreInt64(&cf.cachedTimeSec, tsSec)
	atomic.StoreInt64(&cf.checkedCnt, 0)
	drop, _ := cf.Filter(0, key, value)
	return drop
}

// VerifCompactFilterClock is the filter's cached clock as it is now (to notice a refresh from the wall clock).
func (r *RockDB) VerifCompactFilterClock() int64 {
	if r.compactFilter == nil {
		return 0
	}
	return atomic.LoadInt64(&r.compactFilter.cachedTimeSec)
}

// the two helpers the sub-key branch of the filter uses, and the read it does
func VerifConvertCollDBKeyToRawKey(dbk []byte) (byte, []byte, int64, error) {
	return convertCollDBKeyToRawKey(dbk)
}
func VerifEncodeMetaKey(dt byte, key []byte) ([]byte, error) { return encodeMetaKey(dt, key) }
func (r *RockDB) VerifGetBytesNoLock(key []byte) ([]byte, error) {
	return r.GetBytesNoLock(key)
}

// VerifRawDelete removes raw engine entries (what a compaction does with the entries its filter rejects).
func (r *RockDB) VerifRawDelete(keys [][]byte) error {
	wb := r.rockEng.NewWriteBatch()
	defer wb.Destroy()
	for _, k := range keys {
		wb.Delete(k)
	}
	return r.rockEng.Write(wb)
}

// VerifDecodeBitmapKey: the bitmap segment key decoder the bitmap read path uses: (table, key, index).
func VerifDecodeBitmapKey(b []byte) ([]byte, []byte, int64, error) { return decodeBitmapKey(b) }
