// +build verif

package rockredis

// Exported wrappers of the unexported key codec, compiled into package rockredis only with -tags verif
// (injected by `go build -overlay`; nothing is committed to the repository).

func VerifEncodeCollSubKey(dt byte, table, key, sub []byte) []byte { return encodeCollSubKey(dt, table, key, sub) }
func VerifDecodeCollSubKey(b []byte) (byte, []byte, []byte, []byte, error) { return decodeCollSubKey(b) }
func VerifEncodeKVKey(key []byte) []byte                            { return encodeKVKey(key) }
func VerifDecodeKVKey(b []byte) ([]byte, error)                     { return decodeKVKey(b) }
func VerifEncodeTableMetaKey(t []byte) []byte                       { return encodeTableMetaKey(t) }
func VerifEncodeDataTableStart(dt byte, t []byte) []byte            { return encodeDataTableStart(dt, t) }
func VerifEncodeDataTableEnd(dt byte, t []byte) []byte              { return encodeDataTableEnd(dt, t) }
func VerifLEncodeListKey(t, k []byte, seq int64) []byte             { return lEncodeListKey(t, k, seq) }
func VerifLDecodeListKey(b []byte) ([]byte, []byte, int64, error)   { return lDecodeListKey(b) }
func VerifEncodeVerKey(key []byte, ver int64) []byte {
	return encodeVerKey(&headerMetaValue{ValueVersion: ver}, key)
}
func VerifDecodeVerKey(b []byte) ([]byte, int64, error) { return decodeVerKey(b) }
func VerifZEncodeScoreKey(t, k, m []byte, score float64) []byte {
	return zEncodeScoreKey(false, false, t, k, m, score)
}
func VerifZDecodeScoreKey(b []byte) ([]byte, []byte, []byte, float64, error) { return zDecodeScoreKey(b) }
func VerifZEncodeStartKey(t, k []byte) []byte                                 { return zEncodeStartKey(t, k) }
func VerifZEncodeStopKey(t, k []byte) []byte                                  { return zEncodeStopKey(t, k) }

// VerifMetaKey: the per-type size/meta key encoders
func VerifMetaKey(t byte, key []byte) []byte {
	switch t {
	case HSizeType:
		return hEncodeSizeKey(key)
	case SSizeType:
		return sEncodeSizeKey(key)
	case ZSizeType:
		return zEncodeSizeKey(key)
	case LMetaType:
		return lEncodeMetaKey(key)
	}
	return nil
}

// VerifCollRange: start/stop keys used by clear / scan / hgetall of one collection
func VerifCollRange(dt byte, t, k []byte) ([]byte, []byte) {
	switch dt {
	case HashType:
		return hEncodeStartKey(t, k), hEncodeStopKey(t, k)
	case SetType:
		return sEncodeStartKey(t, k), sEncodeStopKey(t, k)
	case ZSetType:
		return zEncodeStartSetKey(t, k), zEncodeStopSetKey(t, k)
	}
	return nil, nil
}

func VerifExtractTable(key []byte) ([]byte, []byte, error) { return extractTableFromRedisKey(key) }

// VerifPurgeOldCheckpoint runs the real purge on a directory of checkpoint-named sub-directories.
func VerifPurgeOldCheckpoint(keepNum int, checkpointDir string, latestSnapIndex uint64) {
	purgeOldCheckpoint(keepNum, checkpointDir, latestSnapIndex)
}

// VerifSetLatestSnapIndex: what UpdateSnapshotState records (the index of the newest raft snapshot).
func (r *RockDB) VerifSetLatestSnapIndex(i uint64) { r.SetLatestSnapIndex(i) }
