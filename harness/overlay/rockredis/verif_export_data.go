// +build verif

package rockredis

import (
	"math"

	"github.com/youzan/ZanRedisDB/common"
	"github.com/youzan/ZanRedisDB/engine"
)

// VerifMetaInfo is the physical header of a key as stored right now (no clock involved).
type VerifMetaInfo struct {
	Exists   bool  // kv record / collection meta physically present with user data
	ExpireAt int64 // unix seconds, 0 = none (wait_compact policy only; local_deletion keeps no per-key value)
	Version  int64 // value version (generation) of the header, 0 under local_deletion
}

// VerifMeta reads the stored header of (data type, key) without any expiry check. dt is one of KVType, HashType,
// ListType, SetType, ZSetType; key is table:key (namespace already cut).
func (db *RockDB) VerifMeta(dt byte, key []byte) (VerifMetaInfo, error) {
	var mi VerifMetaInfo
	mk, err := encodeMetaKey(dt, key)
	if err != nil {
		return mi, err
	}
	v, err := db.GetBytes(mk)
	if err != nil || v == nil {
		return mi, err
	}
	if dt == KVType && len(v) >= tsLen {
		v = v[:len(v)-tsLen]
	}
	h, err := db.expiration.decodeRawValue(dt, v)
	if err != nil {
		return mi, err
	}
	if dt == KVType {
		mi.Exists = true
	} else {
		mi.Exists = len(h.UserData) > 0
	}
	mi.ExpireAt = int64(h.ExpireAt)
	mi.Version = h.ValueVersion
	return mi, nil
}

// VerifTimeEntry is one entry of the local_deletion time index (key type 101).
type VerifTimeEntry struct {
	DataType byte
	Key      []byte
	When     int64
}

// VerifTimeIndex lists the whole time index in key order.
func (db *RockDB) VerifTimeIndex() ([]VerifTimeEntry, error) {
	minKey := expEncodeTimeKey(NoneType, nil, 0)
	maxKey := expEncodeTimeKey(maxDataType, nil, math.MaxInt64)
	it, err := db.NewDBRangeLimitIterator(minKey, maxKey, common.RangeROpen, 0, -1, false)
	if err != nil || it == nil {
		return nil, err
	}
	defer it.Close()
	var out []VerifTimeEntry
	for ; it.Valid(); it.Next() {
		dt, k, when, derr := expDecodeTimeKey(it.Key())
		if derr != nil {
			continue
		}
		out = append(out, VerifTimeEntry{dt, append([]byte{}, k...), when})
	}
	return out, nil
}

// VerifLocalTTLScan runs one round of the local_deletion background scan right now (the body of the loop in
// localExpiration.applyExpiration: TTLChecker.check with the real clock, then commit of the batched buffer).
// Returns the number of index entries handed to the deleter, -1 if the policy has no local scan.
func (db *RockDB) VerifLocalTTLScan() (int, error) {
	lexp, ok := db.expiration.(*localExpiration)
	if !ok {
		return -1, nil
	}
	buf := newLocalBatchedBuffer(db, localBatchedBufSize)
	defer buf.Destroy()
	lexp.TTLChecker.setNextCheckTime(0, true)
	err := lexp.TTLChecker.check(buf, make(chan struct{}))
	n := len(buf.buff)
	buf.commit()
	return n, err
}

// VerifRawSkipPrefix: physical keys with one of these prefixes are left out of VerifRawHash / VerifRawDump. The harness puts
// the keys of its HyperLogLog values here: their stored form is a serialised sketch whose byte layout depends on map
// iteration order, so equal sketches have different bytes (they are compared through PFCOUNT instead).
var VerifRawSkipPrefix [][]byte

func verifRawSkip(k []byte) bool {
	for _, p := range VerifRawSkipPrefix {
		if len(k) >= len(p) && string(k[:len(p)]) == string(p) {
			return true
		}
	}
	return false
}

// VerifRawHash folds every physical key/value pair of the engine (whole key space, engine order) into an FNV-1a hash
// and returns it with the number of pairs. Used as the "nothing was written" fingerprint around failing commands.
func (db *RockDB) VerifRawHash() (uint64, int, error) {
	if db.hllCache != nil {
		db.hllCache.Flush() // HyperLogLog writes sit in a write-back cache: what is compared is the flushed state
	}
	it, err := db.rockEng.GetIterator(engine.IteratorOpts{})
	if err != nil {
		return 0, 0, err
	}
	defer it.Close()
	h := uint64(14695981039346656037)
	mix := func(b []byte) {
		for _, c := range b {
			h ^= uint64(c)
			h *= 1099511628211
		}
		h ^= 0xff
		h *= 1099511628211
	}
	n := 0
	for it.SeekToFirst(); it.Valid(); it.Next() {
		if verifRawSkip(it.RefKey()) {
			continue
		}
		mix(it.RefKey())
		mix(it.RefValue())
		n++
	}
	return h, n, nil
}

// VerifRawDump lists every physical pair (for diagnostics in violation texts).
func (db *RockDB) VerifRawDump() ([][2][]byte, error) {
	if db.hllCache != nil {
		db.hllCache.Flush()
	}
	it, err := db.rockEng.GetIterator(engine.IteratorOpts{})
	if err != nil {
		return nil, err
	}
	defer it.Close()
	var out [][2][]byte
	for it.SeekToFirst(); it.Valid(); it.Next() {
		if verifRawSkip(it.RefKey()) {
			continue
		}
		out = append(out, [2][]byte{it.Key(), it.Value()})
	}
	return out, nil
}

// VerifFlushHLL writes the dirty HyperLogLog items of the write-back cache into the engine (what Backup and Close do).
func (db *RockDB) VerifFlushHLL() {
	if db.hllCache != nil {
		db.hllCache.Flush()
	}
}
