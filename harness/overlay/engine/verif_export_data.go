// +build verif

package engine

// VerifSetMemTypeName selects the in-memory structure behind engine type "mem" for engines opened afterwards.
// The default ("radix") holds the single writer lock of the radix MemDB from the first Put/Delete of a write
// batch until its Commit/Clear, so a second open write batch blocks forever (DESIGN section 9, F13); "btree" and
// "skiplist" queue the operations and apply them on Commit.
func VerifSetMemTypeName(name string) bool {
	switch name {
	case "radix":
		useMemType = memTypeRadix
	case "btree":
		useMemType = memTypeBtree
	case "skiplist":
		useMemType = memTypeSkiplist
	default:
		return false
	}
	return true
}

func VerifMemTypeName() string {
	switch useMemType {
	case memTypeRadix:
		return "radix"
	case memTypeBtree:
		return "btree"
	default:
		return "skiplist"
	}
}
