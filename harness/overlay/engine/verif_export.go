// +build verif

package engine

// VerifSetMemType selects the in-memory structure behind engine_type "mem": 0 skiplist, 1 radix (default), 2 btree.
func VerifSetMemType(t int) { useMemType = memType(t) }
