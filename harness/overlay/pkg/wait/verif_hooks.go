// +build verif

package wait

import "sync/atomic"

// The harness can stop a Trigger between its two parts: tools/instrument inserts `verifTriggerGap(id, rd != nil)` right
// before the top-level `if rd != nil` of multList.Trigger (the registration is deleted, the result is not stored and the
// channel not signalled yet). Since fix 184e1b3 the shard lock is HELD at that point (before the fix it had been dropped):
// VerifShardLocked lets the harness see which of the two it is. Without a hook installed this is a no-op.
var verifTriggerGapHook atomic.Value // func(id uint64, registered bool)

// SetVerifTriggerGap installs (or, with nil, removes) the hook.
func SetVerifTriggerGap(f func(id uint64, registered bool)) { verifTriggerGapHook.Store(f) }

func verifTriggerGap(id uint64, registered bool) {
	if f, _ := verifTriggerGapHook.Load().(func(uint64, bool)); f != nil {
		f(id, registered)
	}
}

// VerifShardLocked reports whether the lock of the shard that holds id is taken right now (a TryLock probe; the caller
// must not be the holder).
func VerifShardLocked(w Wait, id uint64) bool {
	mw, ok := w.(multList)
	if !ok {
		return false
	}
	l := mw[id%uint64(len(mw))]
	if l.l.TryLock() {
		l.l.Unlock()
		return false
	}
	return true
}
