// +build verif

package wait

import "sync/atomic"

// The harness can stop a Trigger between its two parts: tools/instrument inserts `verifTriggerGap(id, rd != nil)` right
// after `w.l.Unlock()` of multList.Trigger (the registration is deleted, the result is not stored and the channel not
// signalled yet). Without a hook installed this is a no-op.
var verifTriggerGapHook atomic.Value // func(id uint64, registered bool)

// SetVerifTriggerGap installs (or, with nil, removes) the hook.
func SetVerifTriggerGap(f func(id uint64, registered bool)) { verifTriggerGapHook.Store(f) }

func verifTriggerGap(id uint64, registered bool) {
	if f, _ := verifTriggerGapHook.Load().(func(uint64, bool)); f != nil {
		f(id, registered)
	}
}
