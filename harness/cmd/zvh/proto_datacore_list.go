package main

import (
	"fmt"
	"math/rand"
	"strconv"
)

// datacorelist: the executor of protocol `data` (real KVNode, real leader-side handlers incl. preCheckListLength that
// answers lpop/rpop/ltrim on an empty list without raft, real apply path) driven by a generator restricted to the
// LIST family under the local-deletion layout, one entry per apply event, strictly increasing log time, well-formed
// commands, so that EVERY answer line is compared with the executable Lean storage model
// (lean/Driver/DataList.lean over lean/ZanVerif/Data/ListExec.lean) in diff mode.
func init() { register(&Proto{Name: "datacorelist", Gen: genDataCoreList, New: newData}) }

func genDataCoreList(rng *rand.Rand, tier string, emit func(string)) {
	sessions := 100
	if tier == "thorough" {
		sessions = 5000
	}
	keys := []string{"default:t:l", "default:t:l:x", "default:tt:l", "default:t:\x00", "default:t:ll", "default:t:l\xff"}
	vals := []string{"v", "", "1", "w\x00", "007", "v:w", "\xff", "vv"}
	idxs := []int{0, 1, -1, -2, 2, 3, -3, 4, -4, 5, -5, 6, -7, 10, -100, 100, 7, -6}
	h := func(ss ...string) string {
		out := ""
		for _, s := range ss {
			out += " " + hexs([]byte(s))
		}
		return out
	}
	for s := 0; s < sessions; s++ {
		if (tier != "thorough" && s == 1) || (tier == "thorough" && s%500 == 1) {
			// one session per quick run: a list beyond RangeDeleteNum (5000) elements, a trim that cuts more than 5000 elements from
			// the head (the DeleteRange path of ltrim), then pushes, pops and reads on what is left
			emit(fmt.Sprintf("open engine=%s policy=local now=%d sh=", []string{"mem", "pebble"}[rng.Intn(2)], dataNowFixed))
			ts := int64(1600000000000000000) + rng.Int63n(1e9)
			k := "default:t:big"
			total := 0
			for c := 0; c < 3; c++ {
				a := h("rpush", k)
				for j := 0; j < 1675; j++ {
					a += h(fmt.Sprintf("e%05d", total))
					total++
				}
				ts += 1000
				emit(fmt.Sprintf("w %d 1%s", ts, a))
			}
			step := func(args ...string) {
				ts += 1000
				emit(fmt.Sprintf("w %d 1%s", ts, h(args...)))
			}
			read := func(args ...string) { emit("r" + h(args...)) }
			step("ltrim", k, strconv.Itoa(5001+rng.Intn(15)), "-1") // head cut above RangeDeleteNum (5025 elements)
			read("llen", k)
			read("lindex", k, "0")
			read("lrange", k, "0", "-1")
			emit("inv")
			step("lpush", k, "h1", "h2")
			step("rpush", k, "t1")
			read("lrange", k, "0", "5")
			read("llen", k)
			step("lpop", k)
			emit("inv")
			emit("dump")
		}
		eng := "mem"
		if rng.Intn(5) == 0 {
			eng = "pebble"
		}
		emit(fmt.Sprintf("open engine=%s policy=local now=%d sh=", eng, dataNowFixed))
		ts := int64(1600000000000000000) + rng.Int63n(1e9)
		n := 20 + rng.Intn(80)
		ks := keys[:1+rng.Intn(3)]
		if rng.Intn(4) == 0 {
			ks = keys[:1+rng.Intn(len(keys))]
		}
		popHeavy := rng.Intn(3) == 0 // sessions in which lists are emptied and re-created often
		multi := rng.Intn(3) == 0    // sessions with apply events of several entries
		open := false                // an apply event is open (entries buffered)
		// generator-side bookkeeping of list lengths: ONLY steers the choice of indexes (most inside the list, the
		// rest at / beyond its ends); never used for an answer
		llen := map[string]int{}
		norm := func(l, a, b int) int {
			if a < 0 {
				a += l
			}
			if b < 0 {
				b += l
			}
			if a < 0 {
				a = 0
			}
			if a >= l || a > b {
				return 0
			}
			if b >= l {
				b = l - 1
			}
			return b - a + 1
		}
		for i := 0; i < n; i++ {
			k := ks[rng.Intn(len(ks))]
			v := func() string { return vals[rng.Intn(len(vals))] }
			ix := func() string {
				if l := llen[k]; l > 0 && rng.Intn(10) < 7 {
					return strconv.Itoa(rng.Intn(2*l+2) - l - 1) // -len-1 … len
				}
				if rng.Intn(10) == 0 {
					return strconv.Itoa(rng.Intn(201) - 100)
				}
				s := strconv.Itoa(idxs[rng.Intn(len(idxs))])
				if rng.Intn(25) == 0 && s[0] != '-' {
					s = "+" + s
				}
				return s
			}
			if rng.Intn(100) < 55 {
				ts += 1 + rng.Int63n(1e6)
				var a string
				r := rng.Intn(23)
				if r == 22 && rng.Intn(2) == 0 {
					r = rng.Intn(8)
				}
				if popHeavy && r < 8 && rng.Intn(2) == 0 {
					r = 8 + rng.Intn(6)
				}
				switch {
				case r < 4:
					a = h("lpush", k)
					c := 1 + rng.Intn(4)
					for j := 0; j < c; j++ {
						a += h(v())
					}
					llen[k] += c
				case r < 8:
					a = h("rpush", k)
					c := 1 + rng.Intn(4)
					for j := 0; j < c; j++ {
						a += h(v())
					}
					llen[k] += c
				case r < 11:
					a = h("lpop", k)
					if llen[k] > 0 {
						llen[k]--
					}
				case r < 14:
					a = h("rpop", k)
					if llen[k] > 0 {
						llen[k]--
					}
				case r < 18:
					a = h("lset", k, ix(), v())
				case r < 22:
					x, y := ix(), ix()
					a = h("ltrim", k, x, y)
					xi, _ := strconv.Atoi(x)
					yi, _ := strconv.Atoi(y)
					llen[k] = norm(llen[k], xi, yi)
				default:
					a = h("lclear", k)
					llen[k] = 0
				}
				// one write in eight stays buffered in the open apply event (the leader-side pre-checks of the following
				// writes do not see it: e.g. LPOP of a list that an earlier entry of the same event empties)
				if multi && rng.Intn(8) == 0 && i+1 < n {
					emit(fmt.Sprintf("w %d 0%s", ts, a))
					open = true
				} else {
					emit(fmt.Sprintf("w %d 1%s", ts, a))
					open = false
					if rng.Intn(4) == 0 {
						emit("inv")
					}
				}
			} else {
				var a string
				switch rng.Intn(8) {
				case 0:
					a = h("llen", k)
				case 1, 2, 3:
					a = h("lindex", k, ix())
				case 4, 5:
					a = h("lrange", k, ix(), ix())
				case 6:
					a = h("lrange", k, "0", "-1")
				case 7:
					a = h("lkeyexist", k)
				}
				emit("r" + a)
			}
		}
		if open { // close the open apply event
			ts++
			emit(fmt.Sprintf("w %d 1%s", ts, h("rpush", ks[0], vals[0])))
		}
		emit("inv")
		emit("dump")
		emit("end")
	}
}
