package main

import (
	"encoding/binary"
	"fmt"
	"math/rand"
	"sort"
	"strconv"
	"strings"

	"github.com/youzan/ZanRedisDB/common"
	"github.com/youzan/ZanRedisDB/rockredis"
)

// C10, compaction filter: "unexpired data is never removed" with the background compaction filter of the value-header
// policy (rockredis.go rockCompactFilter.Filter / lazyExpireCheck) running at arbitrary clocks over REAL stores.
// Certificate mode: the Lean driver (lean/Driver/CFilter.lean) recomputes every verdict of a sweep with the model
// Z.CFilter.filterD (over the regenerated decision expressions) from the raw entries listed in the answer line.
//
//	open <eng>                                    new store (policy compact = wait_compact + value_header_v1)
//	kv <hexraw> <tsNs> <durSec>                   SET (durSec 0) / SETEX through the store API with log timestamp tsNs
//	add <type> <hexraw> <tsNs> <hexmember>…       HSET / SADD / ZADD / RPUSH / SETBIT 1   (type: hash set zset list bitmap)
//	rem <type> <hexraw> <tsNs> <hexmember>        HDEL / SREM / ZREM / LPOP / SETBIT 0
//	expire <type> <hexraw> <tsNs> <durSec>        EXPIRE variant of the type (type may be kv)
//	persist <type> <hexraw> <tsNs>
//	clear <type> <hexraw> <tsNs>                  DEL / HCLEAR / SCLEAR / ZCLEAR / LCLEAR / BITCLEAR
//	sweep <tsSec>                                 the real filter, cached clock = tsSec, on EVERY raw engine entry
//	compact <tsSec> <salt>                        the same, and a salt-chosen subset of the rejected entries is physically
//	                                              removed (a partial compaction); live keys must read the same afterwards
//
// answer of sweep / compact: one record per raw entry, engine order, joined by ';':
//
//	<hexkey> <hexvalue> <ver|-> <=metahex|x|-> <drop|keep>
//
// ver = generation of a collection sub-key as convertCollDBKeyToRawKey decodes it, meta = the collection's meta value as
// encodeMetaKey + GetBytesNoLock find it (x = not found), '-' = not a sub-key (or not decodable).
func init() { register(&Proto{Name: "cfilter", Gen: genCFilter, New: newCFilter}) }

var cfTypes = []string{"kv", "hash", "set", "zset", "list", "bitmap"}

const cfLazySec = 172800
const cfMaxWhen = 4294967293 // largest expiry instant rawExpireAt admits (guard: when >= MaxUint32-1 is an overflow error)

func genCFilter(rng *rand.Rand, tier string, emit func(string)) {
	sessions := 90
	if tier == "thorough" {
		sessions = 1500
	}
	bases := []int64{1400000000, 1499999990, 1600000000, 1600000000, 4000000000, 4294700000}
	raws := []string{"t:a", "t:b", "t:a:b", "tt:a", "t:a\x00", "t0:\xff", "t:ab"}
	mems := []string{"m", "n", "m:n", "\x00\xff", "mm", "o"}
	for s := 0; s < sessions; s++ {
		eng := "mem"
		if rng.Intn(3) == 0 {
			eng = "pebble"
		}
		emit("open " + eng)
		B := bases[rng.Intn(len(bases))]
		ts := B*1000000000 + rng.Int63n(1000000000)
		clocks := []int64{B, B + 1, B + cfLazySec + 2}
		addClock := func(c int64) {
			if c > 0 {
				clocks = append(clocks, c)
			}
		}
		expiry := func(e int64) {
			for _, d := range []int64{-1, 0, 1, cfLazySec - 1, cfLazySec, cfLazySec + 1} {
				addClock(e + d)
			}
		}
		pickClock := func() int64 {
			switch rng.Intn(12) {
			case 0:
				return 4294967295 + cfLazySec + int64(rng.Intn(3))
			case 1:
				return 9000000000 + int64(rng.Intn(100))
			case 2:
				if rng.Intn(3) == 0 {
					return 9223372037 + int64(rng.Intn(5)) // ts*1e9 no longer fits int64: the generation guard wraps
				}
			}
			return clocks[rng.Intn(len(clocks))]
		}
		dur := func(now int64) int64 {
			var d int64
			switch rng.Intn(11) {
			case 0, 1:
				d = 1 + int64(rng.Intn(3))
			case 2:
				d = 100
			case 3:
				d = 90000
			case 4:
				d = cfLazySec + int64(rng.Intn(5)) - 2
			case 5, 6:
				d = cfMaxWhen - now - int64(rng.Intn(3))
			case 7:
				d = cfMaxWhen + 1 - now // rejected: overflow
			case 8, 9:
				d = 4294967296 - cfLazySec + rng.Int63n(cfLazySec-3) - now // the deadline e+48h does not fit 32 bits
			default:
				d = 1500000000 - now + int64(rng.Intn(3)) - 1 // around minExpiredPossible (small eras only)
			}
			if d <= 0 {
				d = 1 + int64(rng.Intn(5))
			}
			return d
		}
		steps := 28 + rng.Intn(30)
		for i := 0; i < steps; i++ {
			switch rng.Intn(12) {
			case 0: // same log timestamp
			case 1:
				ts -= rng.Int63n(2500000000) // a leader change may move the log clock backwards
			case 2:
				ts += (cfLazySec + rng.Int63n(3) - 1) * 1000000000
			default:
				ts += rng.Int63n(3000000000)
			}
			now := ts / 1000000000
			tp := cfTypes[rng.Intn(len(cfTypes))]
			if rng.Intn(3) > 0 && tp == "bitmap" {
				tp = cfTypes[rng.Intn(len(cfTypes)-1)]
			}
			if rng.Intn(5) == 0 {
				tp = "kv"
			}
			raw := hexs([]byte(raws[rng.Intn(len(raws))]))
			mem := hexs([]byte(mems[rng.Intn(len(mems))]))
			switch r := rng.Intn(100); {
			case r < 34:
				if tp == "kv" {
					d := int64(0)
					if rng.Intn(4) > 0 {
						d = dur(now)
						expiry(now + d)
					}
					emit(fmt.Sprintf("kv %s %d %d", raw, ts, d))
				} else {
					line := fmt.Sprintf("add %s %s %d %s", tp, raw, ts, mem)
					for j := rng.Intn(3); j > 0; j-- {
						line += " " + hexs([]byte(mems[rng.Intn(len(mems))]))
					}
					emit(line)
					for _, d := range []int64{cfLazySec - 1, cfLazySec, cfLazySec + 1} {
						addClock(now + d)
					}
				}
			case r < 54:
				d := dur(now)
				expiry(now + d)
				emit(fmt.Sprintf("expire %s %s %d %d", tp, raw, ts, d))
			case r < 58:
				emit(fmt.Sprintf("persist %s %s %d", tp, raw, ts))
			case r < 68:
				emit(fmt.Sprintf("clear %s %s %d", tp, raw, ts))
			case r < 74:
				emit(fmt.Sprintf("rem %s %s %d %s", tp, raw, ts, mem))
			case r < 94:
				emit(fmt.Sprintf("sweep %d", pickClock()))
			default:
				emit(fmt.Sprintf("compact %d %d", pickClock(), rng.Intn(1000)))
			}
		}
		for j := 0; j < 5; j++ {
			emit(fmt.Sprintf("sweep %d", clocks[rng.Intn(len(clocks))]))
		}
		emit(fmt.Sprintf("compact %d %d", clocks[rng.Intn(len(clocks))], rng.Intn(1000)))
		emit(fmt.Sprintf("sweep %d", 4294967295+cfLazySec+1))
	}
}

// header of a stored value / collection meta, decoded here (not by the code under test): version byte 1, ExpireAt
// uint32 BE, ValueVersion int64 BE
func cfHeader(b []byte) (e uint64, ver int64, ok bool) {
	if len(b) < 13 || b[0] != 1 {
		return 0, 0, false
	}
	return uint64(binary.BigEndian.Uint32(b[1:5])), int64(binary.BigEndian.Uint64(b[5:13])), true
}

var cfValueType = map[byte]string{rockredis.KVType: "kv", rockredis.HSizeType: "hash-meta", rockredis.LMetaType: "list-meta",
	rockredis.SSizeType: "set-meta", rockredis.ZSizeType: "zset-meta", rockredis.BitmapMetaType: "bitmap-meta"}
var cfSubType = map[byte]string{rockredis.HashType: "hash", rockredis.ListType: "list", rockredis.SetType: "set",
	rockredis.ZSetType: "zset", rockredis.ZScoreType: "zscore", rockredis.BitmapType: "bitmap"}
var cfStoreType = map[string]byte{"kv": rockredis.KVType, "hash": rockredis.HashType, "set": rockredis.SetType, "zset": rockredis.ZSetType,
	"list": rockredis.ListType, "bitmap": rockredis.BitmapType}

func newCFilter(c *Ctx) func(string) string {
	var n *dnode
	known := map[string]bool{} // "type hexraw" ever written
	closeN := func() {
		if n != nil {
			n.close()
			n = nil
		}
	}
	atExit = append(atExit, closeN)
	res := func(v int64, err error) string {
		if err != nil {
			return "err:" + errClass(err.Error())
		}
		return "int:" + strconv.FormatInt(v, 10)
	}
	// logical content through the store's read API (reads decide expiry by the wall clock)
	content := func(tp string, raw []byte) string {
		var ss []string
		switch tp {
		case "kv":
			v, err := n.kv.KVGet(raw)
			if err != nil {
				return "!" + errClass(err.Error())
			}
			if v == nil {
				return ""
			}
			return "=" + hexs(v)
		case "hash":
			_, vs, err := n.kv.HGetAll(raw)
			if err != nil {
				return "!" + errClass(err.Error())
			}
			for _, r := range vs {
				ss = append(ss, hexs(r.Rec.Key)+"="+hexs(r.Rec.Value))
			}
			sort.Strings(ss)
		case "set":
			vs, err := n.kv.SMembers(raw)
			if err != nil {
				return "!" + errClass(err.Error())
			}
			for _, m := range vs {
				ss = append(ss, hexs(m))
			}
			sort.Strings(ss)
		case "zset":
			vs, err := n.kv.ZRange(raw, 0, -1)
			if err != nil {
				return "!" + errClass(err.Error())
			}
			for _, p := range vs {
				ss = append(ss, hexs(p.Member)+"="+strconv.FormatFloat(p.Score, 'g', -1, 64))
			}
		case "list":
			vs, err := n.kv.LRange(raw, 0, -1)
			if err != nil {
				return "!" + errClass(err.Error())
			}
			for _, m := range vs {
				ss = append(ss, hexs(m))
			}
		case "bitmap":
			for _, off := range cfBitOffsets {
				b, err := n.kv.BitGetV2(raw, off)
				if err != nil {
					return "!" + errClass(err.Error())
				}
				ss = append(ss, strconv.FormatInt(b, 10))
			}
			if strings.Join(ss, "") == strings.Repeat("0", len(cfBitOffsets)) {
				return ""
			}
		}
		return strings.Join(ss, ",")
	}
	type entry struct {
		k, v []byte
		drop bool
	}
	// the filter on every raw entry; oracle on every verdict
	sweep := func(line string, tsSec int64) ([]entry, string) {
		kvs, err := n.kv.VerifRawDump()
		if err != nil {
			return nil, "err:dump"
		}
		var out []entry
		var recs []string
		// second, independent view of "live member": the (sub-key type, table, versioned key) prefixes the READ path serves
		// at clock tsSec — for every collection written in this session whose meta (found under the meta key built HERE)
		// is not expired: the write path's encodeVerKey of its key and the meta's generation. The entries are then
		// decoded with the read path's sub-key decoders, not with the filter's convertCollDBKeyToRawKey / encodeMetaKey.
		raws := map[string][]byte{}
		for _, p := range kvs {
			raws[string(p[0])] = p[1]
		}
		served := map[string]string{}
		for kk := range known {
			p := strings.SplitN(kk, " ", 2)
			mt, ok := cfMetaTypeOf[p[0]]
			if !ok {
				continue
			}
			raw := unhex(p[1])
			table, rk, err := rockredis.VerifExtractTable(raw)
			if err != nil {
				continue
			}
			mv, ok := raws[string(append(append([]byte{mt}, "meta:"...), raw...))]
			if !ok {
				continue
			}
			e, hver, hok := cfHeader(mv)
			if !hok || (e != 0 && e <= uint64(tsSec)) {
				continue
			}
			for _, st := range cfSubTypesOf[p[0]] {
				served[string([]byte{st})+string(table)+"\x00"+string(rockredis.VerifEncodeVerKey(rk, hver))] = fmt.Sprintf("%s %q generation %d ExpireAt %d", p[0], raw, hver, e)
			}
		}
		for _, p := range kvs {
			k, v := p[0], p[1]
			drop := n.kv.VerifCompactFilter(tsSec, k, v)
			if now := n.kv.VerifCompactFilterClock(); now != tsSec {
				c.Violation("harness", fmt.Sprintf("%s: the filter replaced its cached clock %d by %d", line, tsSec, now))
			}
			verS, metaS := "-", "-"
			name := "other"
			dead, why := false, ""
			tag, young := "", false // coverage only: which situation the entry is in
			if len(k) > 0 {
				if nm, ok := cfValueType[k[0]]; ok {
					name = nm
					e, _, hok := cfHeader(v)
					dead = hok && e != 0 && e <= uint64(tsSec)
					why = fmt.Sprintf("header ok=%v ExpireAt=%d", hok, e)
					tag = cfExpTag(hok, e, tsSec)
				} else if nm, ok := cfSubType[k[0]]; ok {
					name = nm
					dt, raw, ver, derr := rockredis.VerifConvertCollDBKeyToRawKey(k)
					why = "sub-key does not decode"
					if derr == nil {
						verS = strconv.FormatInt(ver, 10)
						young = ver/1000000000+cfLazySec >= tsSec-1 // coverage only (to the second)
						why = fmt.Sprintf("generation %d of %q, no meta key", ver, raw)
						if mk, merr := rockredis.VerifEncodeMetaKey(dt, raw); merr == nil {
							mv, gerr := n.kv.VerifGetBytesNoLock(mk)
							switch {
							case gerr != nil:
								why = "meta read failed: " + gerr.Error()
							case mv == nil:
								metaS = "x"
								dead, why = true, "meta absent"
								tag = "meta-absent"
							default:
								metaS = "=" + fmt.Sprintf("%x", mv)
								e, hver, hok := cfHeader(mv)
								dead = hok && (hver != ver || (e != 0 && e <= uint64(tsSec)))
								why = fmt.Sprintf("generation %d of %q; meta header ok=%v generation=%d ExpireAt=%d", ver, raw, hok, hver, e)
								if hok && hver != ver {
									tag = "stale-generation"
								} else {
									tag = cfExpTag(hok, e, tsSec)
								}
							}
						}
					}
				}
			}
			if len(k) > 0 && cfSubType[k[0]] != "" {
				who, rp := "", false
				if tb, vk, ok := cfReadPathDecode(k); ok {
					who, rp = served[string(k[:1])+string(tb)+"\x00"+string(vk)]
				}
				switch {
				case verS == "-" && !rp:
					c.Note("orphan-sub-key:" + name) // not decodable as a versioned sub-key and not served by any read
				case rp == dead:
					c.Note("oracle-views-differ:" + name) // the two statements of "live" disagree (0 on the unchanged tree)
				}
				if drop && rp {
					c.Violation("filter-drops-live:"+name, fmt.Sprintf("%s: the compaction filter at clock %d removes key=%x value=%x, a sub-key the read path serves for %s", line, tsSec, k, v, who))
				}
			}
			switch {
			case drop && !dead:
				c.Violation("filter-drops-live:"+name, fmt.Sprintf("%s: the compaction filter at clock %d removes live entry key=%x value=%x (%s)", line, tsSec, k, v, why))
			case drop:
				c.Note("dropped:" + name)
				c.Note("dropped-because:" + tag)
			case dead:
				c.Note("kept-dead:" + name) // lazy: allowed, counted only
				if young {
					tag += "+young-generation"
				}
				c.Note("kept-dead-because:" + tag)
			default:
				c.Note("kept-live:" + name)
			}
			out = append(out, entry{k, v, drop})
			d := "keep"
			if drop {
				d = "drop"
			}
			recs = append(recs, hexs(k)+" "+hexs(v)+" "+verS+" "+metaS+" "+d)
		}
		if len(recs) == 0 {
			return out, "empty"
		}
		return out, strings.Join(recs, ";")
	}
	return func(line string) string {
		f := strings.Fields(line)
		if f[0] == "open" && len(f) == 2 {
			closeN()
			var err error
			n, err = openNode(f[1], "compact")
			if err != nil {
				return "err:open"
			}
			known = map[string]bool{}
			return "ok"
		}
		if n == nil {
			return "err:not-open"
		}
		num := func(i int) int64 {
			if i >= len(f) {
				return 0
			}
			v, _ := strconv.ParseInt(f[i], 10, 64)
			return v
		}
		switch f[0] {
		case "kv":
			if len(f) != 4 {
				return "bad-op"
			}
			raw, ts, d := unhex(f[1]), num(2), num(3)
			known["kv "+f[1]] = true
			if d == 0 {
				return res(0, n.kv.KVSet(ts, raw, []byte("v")))
			}
			return res(0, n.kv.SetEx(ts, raw, d, []byte("w")))
		case "add", "rem":
			if len(f) < 5 {
				return "bad-op"
			}
			raw, ts := unhex(f[2]), num(3)
			known[f[1]+" "+f[2]] = true
			var tot int64
			for i, hx := range f[4:] {
				m := unhex(hx)
				var v int64
				var err error
				switch f[0] + " " + f[1] {
				case "add hash":
					v, err = n.kv.HSet(ts, false, raw, m, []byte("v"))
				case "add set":
					v, err = n.kv.SAdd(ts, raw, m)
				case "add zset":
					v, err = n.kv.ZAdd(ts, raw, common.ScorePair{Score: float64(len(m)) + float64(i)/4, Member: m})
				case "add list":
					v, err = n.kv.RPush(ts, raw, m)
				case "add bitmap":
					v, err = n.kv.BitSetV2(ts, raw, cfBitOffset(m), 1)
				case "rem hash":
					v, err = n.kv.HDel(ts, raw, m)
				case "rem set":
					v, err = n.kv.SRem(ts, raw, m)
				case "rem zset":
					v, err = n.kv.ZRem(ts, raw, m)
				case "rem list":
					var b []byte
					b, err = n.kv.LPop(ts, raw)
					v = int64(len(b))
				case "rem bitmap":
					v, err = n.kv.BitSetV2(ts, raw, cfBitOffset(m), 0)
				default:
					return "bad-op"
				}
				if err != nil {
					return "err:" + errClass(err.Error())
				}
				tot += v
			}
			return res(tot, nil)
		case "expire", "persist", "clear":
			if len(f) < 4 {
				return "bad-op"
			}
			raw, ts, d := unhex(f[2]), num(3), num(4)
			switch f[0] + " " + f[1] {
			case "expire kv":
				return res(n.kv.Expire(ts, raw, d))
			case "expire hash":
				return res(n.kv.HExpire(ts, raw, d))
			case "expire set":
				return res(n.kv.SExpire(ts, raw, d))
			case "expire zset":
				return res(n.kv.ZExpire(ts, raw, d))
			case "expire list":
				return res(n.kv.LExpire(ts, raw, d))
			case "expire bitmap":
				return res(n.kv.BitExpire(ts, raw, d))
			case "persist kv":
				return res(n.kv.Persist(ts, raw))
			case "persist hash":
				return res(n.kv.HPersist(ts, raw))
			case "persist set":
				return res(n.kv.SPersist(ts, raw))
			case "persist zset":
				return res(n.kv.ZPersist(ts, raw))
			case "persist list":
				return res(n.kv.LPersist(ts, raw))
			case "persist bitmap":
				return res(n.kv.BitPersist(ts, raw))
			case "clear kv":
				return res(n.kv.DelKeys(raw))
			case "clear hash":
				return res(n.kv.HClear(ts, raw))
			case "clear set":
				return res(n.kv.SClear(ts, raw))
			case "clear zset":
				return res(n.kv.ZClear(ts, raw))
			case "clear list":
				return res(n.kv.LClear(ts, raw))
			case "clear bitmap":
				return res(n.kv.BitClear(ts, raw))
			}
			return "bad-op"
		case "sweep":
			tsSec := num(1)
			if len(f) != 2 || tsSec <= 0 {
				return "bad-op"
			}
			_, ans := sweep(line, tsSec)
			return ans
		case "compact":
			tsSec, salt := num(1), num(2)
			if len(f) != 3 || tsSec <= 0 {
				return "bad-op"
			}
			var ks []string
			for k := range known {
				ks = append(ks, k)
			}
			sort.Strings(ks)
			before := map[string]string{}
			preExp := map[string]int64{} // stored expiry second before the compaction; -1 = unreadable
			for _, k := range ks {
				p := strings.SplitN(k, " ", 2)
				before[k] = content(p[0], unhex(p[1]))
				preExp[k] = -1
				if mi, err := n.kv.VerifMeta(cfStoreType[p[0]], unhex(p[1])); err == nil {
					preExp[k] = mi.ExpireAt
					if p[0] == "bitmap" && !mi.Exists {
						// without a bitmap meta GETBIT serves the bits of the STRING of the same name: its expiry counts
						preExp[k] = -1
						if ki, err := n.kv.VerifMeta(rockredis.KVType, unhex(p[1])); err == nil {
							preExp[k] = ki.ExpireAt
						}
					}
				}
			}
			ents, ans := sweep(line, tsSec)
			var del [][]byte
			for i, e := range ents {
				if e.drop && (uint64(salt)*2654435761+uint64(i)*40503)%4 != 0 {
					del = append(del, e.k)
				}
			}
			if err := n.kv.VerifRawDelete(del); err != nil {
				return "err:rawdelete"
			}
			c.notes["compact-removed-entries"] += len(del)
			for _, k := range ks {
				p := strings.SplitN(k, " ", 2)
				raw := unhex(p[1])
				after := content(p[0], raw)
				// a key that is not expired at the compaction clock reads the same before and after
				if e := preExp[k]; (e == 0 || e > tsSec) && after != before[k] {
					c.Violation("filter-drops-live:visible-"+p[0], fmt.Sprintf("%s: %s %q (ExpireAt %d) read [%s] before and [%s] after the compaction at clock %d",
						line, p[0], raw, e, before[k], after, tsSec))
				}
				if before[k] != "" && after == before[k] {
					c.Note("compact-visible-unchanged:" + p[0])
				}
			}
			return ans
		}
		return "bad-op"
	}
}

// coverage tag of a header's expiry relative to the sweep clock
func cfExpTag(hok bool, e uint64, tsSec int64) string {
	switch {
	case !hok:
		return "no-header"
	case e == 0:
		return "no-expiry"
	case e > uint64(tsSec):
		return "unexpired"
	case e <= 1500000000:
		return "expired-tiny-instant"
	case e+cfLazySec >= uint64(tsSec):
		return "expired-within-48h"
	}
	return "expired-long-ago"
}

var cfMetaTypeOf = map[string]byte{"hash": rockredis.HSizeType, "set": rockredis.SSizeType, "zset": rockredis.ZSizeType,
	"list": rockredis.LMetaType, "bitmap": rockredis.BitmapMetaType}
var cfSubTypesOf = map[string][]byte{"hash": {rockredis.HashType}, "set": {rockredis.SetType}, "zset": {rockredis.ZSetType, rockredis.ZScoreType},
	"list": {rockredis.ListType}, "bitmap": {rockredis.BitmapType}}

// (table, versioned key) of a collection sub-key by the decoder the READ path of its type uses
func cfReadPathDecode(k []byte) (table, verKey []byte, ok bool) {
	var err error
	switch k[0] {
	case rockredis.HashType, rockredis.SetType, rockredis.ZSetType:
		_, table, verKey, _, err = rockredis.VerifDecodeCollSubKey(k)
	case rockredis.ListType:
		table, verKey, _, err = rockredis.VerifLDecodeListKey(k)
	case rockredis.ZScoreType:
		table, verKey, _, _, err = rockredis.VerifZDecodeScoreKey(k)
	case rockredis.BitmapType:
		table, verKey, _, err = rockredis.VerifDecodeBitmapKey(k)
	default:
		return nil, nil, false
	}
	return table, verKey, err == nil
}

var cfBitOffsets = []int64{0, 5, 9000, 70001}

func cfBitOffset(m []byte) int64 {
	s := 0
	for _, b := range m {
		s += int(b)
	}
	return cfBitOffsets[s%len(cfBitOffsets)]
}
