package main

import (
	"fmt"
	"math/rand"
)

// datacore: the executor of protocol `data` (real KVNode, real leader-side handlers, real apply path) driven by a
// generator restricted to the commands that the executable Lean storage model covers (hash family, local-deletion
// layout, one entry per apply event, strictly increasing log time, well-formed commands), so that EVERY answer
// line is compared with the Lean model in diff mode.
func init() { register(&Proto{Name: "datacore", Gen: genDataCore, New: newData}) }

func genDataCore(rng *rand.Rand, tier string, emit func(string)) {
	sessions := 120
	if tier == "thorough" {
		sessions = 6000
	}
	keys := []string{"default:t:h", "default:t:h:x", "default:tt:h", "default:t:\x00", "default:t:hh"}
	fields := []string{"f", "", "g", "f:g", "\x00\xff", "ff", "f\x00"}
	vals := []string{"1", "", "v", "w\x00", "007"}
	h := func(ss ...string) string {
		out := ""
		for _, s := range ss {
			out += " " + hexs([]byte(s))
		}
		return out
	}
	for s := 0; s < sessions; s++ {
		eng := "mem"
		if rng.Intn(5) == 0 {
			eng = "pebble"
		}
		emit(fmt.Sprintf("open engine=%s policy=local now=%d sh=", eng, dataNowFixed))
		ts := int64(1600000000000000000) + rng.Int63n(1e9)
		n := 20 + rng.Intn(80)
		ks := keys[:2+rng.Intn(len(keys)-1)]
		for i := 0; i < n; i++ {
			k := ks[rng.Intn(len(ks))]
			f := func() string { return fields[rng.Intn(len(fields))] }
			v := func() string { return vals[rng.Intn(len(vals))] }
			if rng.Intn(100) < 45 {
				ts += 1 + rng.Int63n(1e6)
				var a string
				switch r := rng.Intn(20); {
				case r < 7:
					a = h("hset", k, f(), v())
				case r < 9:
					a = h("hsetnx", k, f(), v())
				case r < 13:
					a = h("hmset", k)
					for j := 0; j < 1+rng.Intn(4); j++ {
						a += h(f(), v())
					}
				case r < 18:
					a = h("hdel", k)
					for j := 0; j < 1+rng.Intn(3); j++ {
						a += h(f())
					}
				default:
					a = h("hclear", k)
				}
				emit(fmt.Sprintf("w %d 1%s", ts, a))
				if rng.Intn(4) == 0 {
					emit("inv")
				}
			} else {
				var a string
				switch rng.Intn(9) {
				case 0, 1:
					a = h("hget", k, f())
				case 2:
					a = h("hmget", k, f(), f(), f())
				case 3:
					a = h("hlen", k)
				case 4:
					a = h("hgetall", k)
				case 5:
					a = h("hkeys", k)
				case 6:
					a = h("hvals", k)
				case 7:
					a = h("hexists", k, f())
				case 8:
					a = h("hkeyexist", k)
				}
				emit("r" + a)
			}
		}
		emit("dump")
		emit("end")
	}
}
