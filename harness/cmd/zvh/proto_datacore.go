package main

import (
	"fmt"
	"math/rand"
)

// datacore: the executor of protocol `data` (real KVNode, real leader-side handlers, real apply path) driven by a
// generator restricted to the commands that the executable Lean storage model covers (hash family incl. HINCRBY,
// local-deletion layout, strictly increasing log time, well-formed commands), so that EVERY answer line is compared with
// the Lean model in diff mode. Most apply events hold one entry; about one write in ten is an event of 2-5 hash writes
// on one key (`w <ts> 0 …` lines closed by a `w <ts> 1 …` line).
func init() { register(&Proto{Name: "datacore", Gen: genDataCore, New: newData}) }

// field values that HINCRBY meets: int64 boundaries, the forms strconv.ParseInt(·, 10, 64) accepts ("+5", "-0", "007")
// and refuses (" 5", "5 ", "0x10", "1_0", "1.5", "1e3", empty, sign only, non-ASCII digit), out of range by one,
// very long digit strings (out of range / leading zeros in range)
var dcIntVals = []string{"0", "1", "-1", "12", "41", "9223372036854775807", "9223372036854775806", "-9223372036854775808",
	"-9223372036854775807", "4611686018427387904", "-4611686018427387904", "+5", "-0", "+0", "007", "-007", " 5", "5 ", "0x10",
	"1_0", "1.5", "1e3", "", "abc", "-", "+", "\xd9\xa1", "9223372036854775808", "-9223372036854775809",
	"99999999999999999999999999999999999999", "-99999999999999999999999999999999999999",
	"000000000000000000000000000000000012", "18446744073709551616", "18446744073709551615"}

// increments: mostly small and well-formed; extremes; the same accepted / refused forms (the increment is parsed by the
// apply handler, so an ill-formed one is answered at apply time)
var dcDeltas = []string{"9223372036854775807", "-9223372036854775808", "4611686018427387904", "-4611686018427387904",
	"9223372036854775806", "+5", "-0", "007", " 5", "5 ", "", "abc", "0x10", "1.0", "99999999999999999999",
	"-9223372036854775809", "9223372036854775808", "00000000000000000000001"}

func dcDelta(rng *rand.Rand) string {
	if rng.Intn(100) < 60 {
		return []string{"1", "-1", "0", "5", "-3", "10", "2"}[rng.Intn(7)]
	}
	return dcDeltas[rng.Intn(len(dcDeltas))]
}

// dcIncrSeq: HSET f v / HINCRBY f d / HDEL f / HINCRBY f d' (each step kept with probability 3/4, so that shorter
// variants occur too), on one key and one field
func dcIncrSeq(rng *rand.Rand, k, f string) []string {
	var out []string
	steps := []string{
		dcHex("hset", k, f, dcIntVals[rng.Intn(len(dcIntVals))]),
		dcHex("hincrby", k, f, dcDelta(rng)),
		dcHex("hdel", k, f),
		dcHex("hincrby", k, f, dcDelta(rng)),
	}
	for _, st := range steps {
		if rng.Intn(4) != 0 {
			out = append(out, st)
		}
	}
	if len(out) == 0 {
		out = append(out, steps[1])
	}
	return out
}

func genDataCore(rng *rand.Rand, tier string, emit func(string)) {
	sessions := 120
	if tier == "thorough" {
		sessions = 6000
	}
	keys := []string{"default:t:h", "default:t:h:x", "default:tt:h", "default:t:\x00", "default:t:hh"}
	fields := []string{"f", "", "g", "f:g", "\x00\xff", "ff", "f\x00"}
	vals := []string{"1", "", "v", "w\x00", "007"}
	h := func(ss ...string) string {
		out := ""
		for _, s := range ss {
			out += " " + hexs([]byte(s))
		}
		return out
	}
	for s := 0; s < sessions; s++ {
		eng := "mem"
		if rng.Intn(5) == 0 {
			eng = "pebble"
		}
		emit(fmt.Sprintf("open engine=%s policy=local now=%d sh=", eng, dataNowFixed))
		ts := int64(1600000000000000000) + rng.Int63n(1e9)
		n := 20 + rng.Intn(80)
		ks := keys[:2+rng.Intn(len(keys)-1)]
		for i := 0; i < n; i++ {
			k := ks[rng.Intn(len(ks))]
			f := func() string { return fields[rng.Intn(len(fields))] }
			v := func() string {
				if rng.Intn(100) < 45 {
					return dcIntVals[rng.Intn(len(dcIntVals))]
				}
				return vals[rng.Intn(len(vals))]
			}
			one := func() string {
				var a string
				switch r := rng.Intn(25); {
				case r < 7:
					a = h("hset", k, f(), v())
				case r < 9:
					a = h("hsetnx", k, f(), v())
				case r < 13:
					a = h("hmset", k)
					for j := 0; j < 1+rng.Intn(4); j++ {
						a += h(f(), v())
					}
				case r < 18:
					a = h("hdel", k)
					for j := 0; j < 1+rng.Intn(3); j++ {
						a += h(f())
					}
				case r < 23:
					a = h("hincrby", k, f(), dcDelta(rng))
				default:
					a = h("hclear", k)
				}
				return a
			}
			if rng.Intn(100) < 45 {
				var ev []string // the entries of this apply event
				seq := false
				switch r := rng.Intn(100); {
				case r < 8:
					ev, seq = dcIncrSeq(rng, k, f()), rng.Intn(2) == 0
				case r < 16:
					for j := 2 + rng.Intn(4); j > 0; j-- {
						ev = append(ev, one())
					}
				default:
					ev = []string{one()}
				}
				for j, a := range ev {
					ts += 1 + rng.Int63n(1e6)
					b := 0
					if j == len(ev)-1 || seq {
						b = 1 // seq: the same commands as single-entry events
					}
					emit(fmt.Sprintf("w %d %d%s", ts, b, a))
					if b == 0 && rng.Intn(6) == 0 {
						emit("r" + h("hget", k, f())) // reads inside an open event see the applied state only
					}
				}
				if rng.Intn(4) == 0 {
					emit("inv")
				}
			} else {
				var a string
				switch rng.Intn(9) {
				case 0, 1:
					a = h("hget", k, f())
				case 2:
					a = h("hmget", k, f(), f(), f())
				case 3:
					a = h("hlen", k)
				case 4:
					a = h("hgetall", k)
				case 5:
					a = h("hkeys", k)
				case 6:
					a = h("hvals", k)
				case 7:
					a = h("hexists", k, f())
				case 8:
					a = h("hkeyexist", k)
				}
				emit("r" + a)
			}
		}
		emit("dump")
		emit("end")
	}
}
