package main

import (
	"bytes"
	"encoding/binary"
	"fmt"
	"io/ioutil"
	"math/rand"
	"os"
	"strconv"
	"strings"

	"github.com/youzan/ZanRedisDB/common"
	"github.com/youzan/ZanRedisDB/engine"
)

// C20: every selectable engine against the Lean sorted-map reference + iterator wrapper model.
//
//	open                                  fresh engines (rocksdb, pebble, mem radix/btree/skiplist)
//	put k v | del k | delrange a b | merge k n     buffered in one write batch per engine
//	commit | clear
//	get k | exist k
//	iter <min|*> <max|*> <type 0..3> <offset> <count> <rev>   keys (and values) through NewDBRangeLimitIteratorWithOpts
func init() { register(&Proto{Name: "engine", Gen: genEngine, New: newEngine}) }

type engInst struct {
	name string
	eng  engine.KVEngine
	wb   engine.WriteBatch
	dir  string
	memT int
	bufs [][]byte // the caller-side key / value buffers of the open batch (overwritten after the batch was written)
}

// ---- the harness's own reference: a sorted map + an ideal bounded cursor implementing engine.Iterator.
// The REAL wrapper (engine.NewDBRangeLimitIteratorWithOpts) runs on top of it; this is what the Lean
// wrapper model is compared with. Every real engine is compared with it by the oracle.
type refKV struct{ k, v []byte }
type refEngine struct {
	kvs   []refKV // sorted by key
	batch []func(*refEngine)
}

// refUnbounded is the same store handing out cursors that IGNORE the bounds of the options (as the in-memory engine
// does): the real wrapper on top of it must answer what it answers over the bounded cursor
// (Lean: C20_iter_spec_unbounded_engine, the repaired fallback of the reverse start position)
type refUnbounded struct{ r *refEngine }

func (u refUnbounded) GetIterator(opts engine.IteratorOpts) (engine.Iterator, error) {
	return &refIter{pos: -1, view: append([]refKV{}, u.r.kvs...)}, nil
}

func (r *refEngine) find(k []byte) (int, bool) {
	lo, hi := 0, len(r.kvs)
	for lo < hi {
		m := (lo + hi) / 2
		if bytes.Compare(r.kvs[m].k, k) < 0 {
			lo = m + 1
		} else {
			hi = m
		}
	}
	return lo, lo < len(r.kvs) && bytes.Equal(r.kvs[lo].k, k)
}
func (r *refEngine) put(k, v []byte) {
	i, ok := r.find(k)
	if ok {
		r.kvs[i].v = v
		return
	}
	r.kvs = append(r.kvs, refKV{})
	copy(r.kvs[i+1:], r.kvs[i:])
	r.kvs[i] = refKV{k, v}
}
func (r *refEngine) del(k []byte) {
	if i, ok := r.find(k); ok {
		r.kvs = append(r.kvs[:i], r.kvs[i+1:]...)
	}
}
func (r *refEngine) delRange(a, b []byte) {
	var out []refKV
	for _, kv := range r.kvs {
		if bytes.Compare(kv.k, a) >= 0 && bytes.Compare(kv.k, b) < 0 {
			continue
		}
		out = append(out, kv)
	}
	r.kvs = out
}
func (r *refEngine) get(k []byte) []byte {
	if i, ok := r.find(k); ok {
		return r.kvs[i].v
	}
	return nil
}

type refIter struct {
	view []refKV
	pos  int // valid iff 0 <= pos < len(view)
}

func (r *refEngine) GetIterator(opts engine.IteratorOpts) (engine.Iterator, error) {
	it := &refIter{pos: -1}
	for _, kv := range r.kvs {
		if opts.Min != nil && bytes.Compare(kv.k, opts.Min) < 0 {
			continue
		}
		if opts.Max != nil {
			c := bytes.Compare(kv.k, opts.Max)
			if c > 0 || (c == 0 && opts.Type&common.RangeROpen > 0) {
				continue
			}
		}
		it.view = append(it.view, kv)
	}
	return it, nil
}
func (it *refIter) Valid() bool { return it.pos >= 0 && it.pos < len(it.view) }
func (it *refIter) Next() {
	if it.Valid() {
		it.pos++
	}
}
func (it *refIter) Prev() {
	if it.Valid() {
		it.pos--
	}
}
func (it *refIter) Seek(k []byte) {
	it.pos = len(it.view)
	for i, kv := range it.view {
		if bytes.Compare(kv.k, k) >= 0 {
			it.pos = i
			return
		}
	}
}
func (it *refIter) SeekForPrev(k []byte) {
	it.pos = -1
	for i, kv := range it.view {
		if bytes.Compare(kv.k, k) <= 0 {
			it.pos = i
		}
	}
}
func (it *refIter) SeekToFirst() { it.pos = 0 }
func (it *refIter) SeekToLast()  { it.pos = len(it.view) - 1 }
func (it *refIter) Close()       {}
func (it *refIter) RefKey() []byte {
	return it.view[it.pos].k
}
func (it *refIter) Key() []byte      { return it.view[it.pos].k }
func (it *refIter) RefValue() []byte { return it.view[it.pos].v }
func (it *refIter) Value() []byte    { return it.view[it.pos].v }
func (it *refIter) NoTimestamp(byte) {}

var engPrefixes = []string{"aaa", "aab", "ab\x00"}

// engFixed: sessions whose keys all have the same length (no key is a prefix of another one): the radix structure's
// known mis-ordering of prefix-related keys cannot occur there, so its divergences are not set aside (class mem-radix-clean)
var engFixed = false

func engKey(rng *rand.Rand) []byte {
	p := engPrefixes[rng.Intn(len(engPrefixes))]
	if engFixed {
		suf := []string{"\x00\x00", "\x00\x01", "1\x00", "10", "2\xff", "\xff\xff", "ab", "b\x00", "\xff\x00", "11"}[rng.Intn(10)]
		return []byte(p + suf)
	}
	if rng.Intn(3) > 0 {
		p = engPrefixes[0]
	}
	suf := []string{"", "\x00", "\x00\x00", "1", "1\x00", "10", "2", "2\xff", "\xff", "\xff\xff", "a", "ab", "b"}[rng.Intn(13)]
	return []byte(p + suf)
}

func genEngine(rng *rand.Rand, tier string, emit func(string)) {
	sessions, per := 30, 120
	if tier == "thorough" {
		sessions, per = 600, 250
	}
	for s := 0; s < sessions; s++ {
		emit("open")
		engFixed = s%3 == 2
		inBatchPut := false
		for i := 0; i < per; i++ {
			r := rng.Intn(20)
			if engFixed && r == 8 && inBatchPut {
				emit("commit") // keep the session free of the radix in-batch put+delete-range trigger
				inBatchPut = false
			}
			if r < 6 {
				inBatchPut = true
			} else if r >= 10 && r < 14 {
				inBatchPut = false
			}
			switch {
			case r < 6:
				emit(fmt.Sprintf("put %s %s", hexs(engKey(rng)), hexs([]byte(fmt.Sprintf("v%d", rng.Intn(5))))))
			case r < 8:
				emit(fmt.Sprintf("del %s", hexs(engKey(rng))))
			case r < 9:
				a, b := engKey(rng), engKey(rng)
				if bytes.Compare(a, b) > 0 { // the data mapping only issues ordered ranges; RocksDB rejects start > end
					a, b = b, a
				}
				emit(fmt.Sprintf("delrange %s %s", hexs(a), hexs(b)))
			case r < 10:
				emit(fmt.Sprintf("merge %s %d", hexs([]byte("cnt"+string(rune('0'+rng.Intn(3))))), rng.Intn(1000)))
			case r < 13:
				emit("commit")
			case r < 14:
				emit("clear")
			case r < 15:
				emit(fmt.Sprintf("get %s", hexs(engKey(rng))))
			case r < 16:
				if rng.Intn(2) == 0 {
					emit(fmt.Sprintf("get %s", hexs([]byte("cnt"+string(rune('0'+rng.Intn(3)))))))
				} else {
					emit(fmt.Sprintf("exist %s", hexs(engKey(rng))))
				}
			default:
				mn, mx := "*", "*"
				if rng.Intn(6) > 0 {
					mn = hexs(engKey(rng))
				}
				if rng.Intn(6) > 0 {
					mx = hexs(engKey(rng))
				}
				off := 0
				if rng.Intn(3) == 0 {
					off = rng.Intn(4)
				}
				if rng.Intn(30) == 0 {
					off = -1
				}
				cnt := -1
				if rng.Intn(2) == 0 {
					cnt = rng.Intn(5)
				}
				emit(fmt.Sprintf("iter %s %s %d %d %d %d", mn, mx, []int{0, 1, 16, 17}[rng.Intn(4)], off, cnt, rng.Intn(2)))
			}
		}
		emit("commit")
		emit("iter * * 0 0 -1 0")
	}
	engFixed = false
}

func newEngine(c *Ctx) func(string) string {
	var engs []*engInst
	closeAll := func() {
		for _, e := range engs {
			if e.wb != nil {
				e.wb.Destroy()
			}
			e.eng.CloseAll()
			os.RemoveAll(e.dir)
		}
		engs = nil
	}
	open := func() string {
		closeAll()
		for _, spec := range []struct {
			name, et string
			memT     int
		}{{"rocksdb", "rocksdb", 0}, {"pebble", "pebble", 0}, {"mem-radix", "mem", 1}, {"mem-btree", "mem", 2}, {"mem-skiplist", "mem", 0}} {
			dir, _ := ioutil.TempDir("", "zvh-eng")
			cfg := engine.NewRockConfig()
			cfg.DataDir = dir
			cfg.EngineType = spec.et
			cfg.EnableTableCounter = true
			if spec.et == "mem" {
				engine.VerifSetMemType(spec.memT)
			}
			eng, err := engine.NewKVEng(cfg)
			if err != nil {
				return "err:new:" + spec.name
			}
			if err := eng.OpenEng(); err != nil {
				return "err:open:" + spec.name
			}
			engs = append(engs, &engInst{name: spec.name, eng: eng, dir: dir, memT: spec.memT})
		}
		return "ok"
	}
	var ref *refEngine
	trigInBatch := false     // this session committed a batch in which a delete-range covered a key put earlier in the same batch
	var pendingPuts [][]byte // keys put in the open batch
	pendingTrig := false
	var seenKeys [][]byte // keys written in this session
	prefixTaint := false  // two keys of this session are prefix-related (radix known finding (b))
	noteKey := func(k []byte) {
		for _, o := range seenKeys {
			if bytes.Equal(o, k) {
				return
			}
			if bytes.HasPrefix(o, k) || bytes.HasPrefix(k, o) {
				prefixTaint = true
			}
		}
		seenKeys = append(seenKeys, append([]byte{}, k...))
	}
	opTaint := false // this op's bounds are prefix-related to a key of the session (same radix finding)
	boundTaint := func(b []byte) {
		for _, o := range seenKeys {
			if !bytes.Equal(o, b) && (bytes.HasPrefix(o, b) || bytes.HasPrefix(b, o)) {
				opTaint = true
			}
		}
	}
	var tagger func(string) string // classifies one engine's deviating answer (set per op)
	// f runs on every real engine; refAns is the reference's answer, which is the line that is printed.
	// Every engine that deviates from the reference is an oracle violation.
	each := func(refAns string, f func(e *engInst) string, skipRocks bool, opclass string) string {
		for _, e := range engs {
			if skipRocks && e.name == "rocksdb" {
				continue
			}
			if strings.HasPrefix(e.name, "mem") {
				engine.VerifSetMemType(e.memT)
			}
			o := quiet(func() string { return f(e) })
			if o != refAns {
				tag := ""
				if e.name == "mem-radix" && trigInBatch {
					tag += " [after in-batch put+delrange]"
				}
				if tagger != nil {
					tag += tagger(o)
				}
				name := e.name
				if name == "mem-radix" && !trigInBatch && !pendingTrig && !prefixTaint && !opTaint {
					name = "mem-radix-clean"
				}
				c.Violation("engine-diverge:"+name+":"+opclass, fmt.Sprintf("%s answered %s, reference %s%s", e.name, o, refAns, tag))
			}
		}
		return refAns
	}
	return func(line string) string {
		f := strings.Fields(line)
		switch f[0] {
		case "open":
			ref = &refEngine{}
			trigInBatch, pendingPuts, pendingTrig = false, nil, false
			seenKeys, prefixTaint = nil, false
			return open()
		case "put", "del", "delrange", "merge":
			if ref == nil {
				return "err:not-open"
			}
			switch f[0] {
			case "put":
				k, v := unhex(f[1]), unhex(f[2])
				ref.batch = append(ref.batch, func(r *refEngine) { r.put(k, v) })
				pendingPuts = append(pendingPuts, k)
				noteKey(k)
			case "del":
				k := unhex(f[1])
				ref.batch = append(ref.batch, func(r *refEngine) { r.del(k) })
			case "delrange":
				a, b := unhex(f[1]), unhex(f[2])
				ref.batch = append(ref.batch, func(r *refEngine) { r.delRange(a, b) })
				for _, pk := range pendingPuts {
					if bytes.Compare(pk, a) >= 0 && bytes.Compare(pk, b) < 0 {
						pendingTrig = true
					}
				}
			case "merge":
				k := unhex(f[1])
				noteKey(k)
				n, _ := strconv.ParseUint(f[2], 10, 64)
				ref.batch = append(ref.batch, func(r *refEngine) {
					var cur uint64
					if v := r.get(k); len(v) >= 8 {
						cur = binary.LittleEndian.Uint64(v)
					}
					buf := make([]byte, 8)
					binary.LittleEndian.PutUint64(buf, cur+n)
					r.put(k, buf)
				})
			}
			return each("ok", func(e *engInst) string {
				if e.wb == nil {
					e.wb = e.eng.NewWriteBatch()
				}
				// caller-side buffers WITH SPARE CAPACITY (as a caller that builds keys in a scratch buffer has them); they are
				// overwritten once the batch has been written (see commit): an engine must not depend on them after Write returned
				own := func(b []byte) []byte {
					x := make([]byte, len(b), len(b)+16)
					copy(x, b)
					e.bufs = append(e.bufs, x)
					return x
				}
				switch f[0] {
				case "put":
					e.wb.Put(own(unhex(f[1])), own(unhex(f[2])))
				case "del":
					e.wb.Delete(own(unhex(f[1])))
				case "delrange":
					e.wb.DeleteRange(own(unhex(f[1])), own(unhex(f[2])))
				case "merge":
					n, _ := strconv.ParseUint(f[2], 10, 64)
					buf := make([]byte, 8)
					binary.LittleEndian.PutUint64(buf, n)
					e.wb.Merge(own(unhex(f[1])), own(buf))
				}
				return "ok"
			}, false, "batch")
		case "commit":
			if ref == nil {
				return "err:not-open"
			}
			for _, op := range ref.batch {
				op(ref)
			}
			ref.batch = nil
			if pendingTrig {
				trigInBatch = true
			}
			pendingPuts, pendingTrig = nil, false
			return each("ok", func(e *engInst) string {
				if e.wb == nil {
					return "ok"
				}
				err := e.eng.Write(e.wb)
				e.wb.Clear()
				for _, b := range e.bufs { // the caller reuses its buffers
					b = b[:cap(b)]
					for i := range b {
						b[i] = 0xEE
					}
				}
				e.bufs = nil
				if err != nil {
					c.Note("commit-error:" + e.name + ":" + strings.SplitN(err.Error(), ":", 2)[0])
					return "err"
				}
				return "ok"
			}, false, "commit")
		case "clear":
			if ref == nil {
				return "err:not-open"
			}
			ref.batch = nil
			pendingPuts, pendingTrig = nil, false
			return each("ok", func(e *engInst) string {
				if e.wb != nil {
					e.wb.Clear()
				}
				return "ok"
			}, false, "clear")
		case "get":
			if ref == nil {
				return "err:not-open"
			}
			ra := "nil"
			if v := ref.get(unhex(f[1])); v != nil {
				ra = hexs(v)
			}
			return each(ra, func(e *engInst) string {
				v, err := e.eng.GetBytes(unhex(f[1]))
				if err != nil {
					return "err"
				}
				if v == nil {
					return "nil"
				}
				return hexs(v)
			}, false, "get")
		case "exist":
			if ref == nil {
				return "err:not-open"
			}
			return each(fmt.Sprint(ref.get(unhex(f[1])) != nil), func(e *engInst) string {
				ok, err := e.eng.Exist(unhex(f[1]))
				if err != nil {
					return "err"
				}
				return fmt.Sprint(ok)
			}, false, "exist")
		case "iter":
			var mn, mx []byte
			if f[1] != "*" {
				mn = unhex(f[1])
			}
			if f[2] != "*" {
				mx = unhex(f[2])
			}
			opTaint = false
			if mn != nil {
				boundTaint(mn)
			}
			if mx != nil {
				boundTaint(mx)
			}
			defer func() { opTaint = false }()
			tp, _ := strconv.Atoi(f[3])
			off, _ := strconv.Atoi(f[4])
			cnt, _ := strconv.Atoi(f[5])
			rev := f[6] == "1"
			// rocksdb uses a 3-byte prefix extractor: only ranges inside one prefix are defined for it
			skipRocks := mn == nil || mx == nil || len(mn) < 3 || len(mx) < 3 || !bytes.Equal(mn[:3], mx[:3])
			if skipRocks {
				c.Note("iter-without-rocksdb")
			} else {
				c.Note("iter-with-rocksdb")
			}
			cls := fmt.Sprintf("iter:rev=%v:type=%d", rev, tp)
			if ref == nil {
				return "err:not-open"
			}
			runIter := func(ig engine.IteratorGetter, mxc []byte) string {
				opts := engine.IteratorOpts{Range: engine.Range{Min: mn, Max: mxc, Type: uint8(tp)},
					Limit: engine.Limit{Offset: off, Count: cnt}, Reverse: rev}
				it, err := engine.NewDBRangeLimitIteratorWithOpts(ig, opts)
				if err != nil {
					return "err"
				}
				var sb strings.Builder
				n := 0
				for ; it.Valid(); it.Next() {
					if n > 0 {
						sb.WriteByte(',')
					}
					sb.WriteString(hexs(it.Key()) + "=" + hexs(it.Value()))
					n++
					if n > 1000 {
						break
					}
				}
				it.Close()
				return "[" + sb.String() + "]"
			}
			refAns := quiet(func() string { return runIter(ref, mx) })
			if unb := quiet(func() string { return runIter(refUnbounded{ref}, mx) }); unb != refAns {
				c.Violation("wrapper-unbounded-cursor:"+cls, fmt.Sprintf("%s: the wrapper over a cursor that ignores the bounds answers %.300s, over the bounded cursor %.300s", line, unb, refAns))
			} else {
				c.Note("wrapper-unbounded-cursor:agrees")
			}
			tagger = func(o string) string {
				// reverse iteration whose first key lies above Max (the SeekToFirst fallback on an unbounded cursor)
				if rev && mx != nil && len(o) > 2 {
					first := strings.SplitN(strings.SplitN(o[1:], "=", 2)[0], ",", 2)[0]
					if bytes.Compare(unhex(first), mx) > 0 {
						return " [reverse: first key above Max]"
					}
				}
				// reverse, right-closed: exactly the key equal to Max is missing (a strict SeekForPrev)
				if rev && mx != nil && tp&int(common.RangeROpen) == 0 && ref.get(mx) != nil {
					return " [reverse: key equal to Max missing]"
				}
				return ""
			}
			defer func() { tagger = nil }()
			return each(refAns, func(e *engInst) string {
				// the caller's Max slice has spare capacity: the engines append a 0 byte for closed ranges
				var mxc []byte
				spare := []byte("XYZ")
				if mx != nil {
					buf := append(append([]byte{}, mx...), spare...)
					mxc = buf[:len(mx)]
					defer func() {
						if !bytes.Equal(buf[len(mx):], spare) {
							c.Note("caller-max-buffer-overwritten:" + e.name)
						}
					}()
				}
				return runIter(e.eng, mxc)
			}, skipRocks, cls)
		}
		return "bad-op"
	}
}
