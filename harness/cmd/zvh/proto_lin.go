package main

import (
	"bufio"
	"bytes"
	"fmt"
	"io"
	"io/ioutil"
	"log"
	"math/rand"
	"net"
	"os"
	"path"
	"path/filepath"
	"runtime"
	"sort"
	"strconv"
	"strings"
	"sync"
	"sync/atomic"
	"syscall"
	"time"

	"github.com/absolute8511/redcon"
	"github.com/youzan/ZanRedisDB/common"
	"github.com/youzan/ZanRedisDB/engine"
	"github.com/youzan/ZanRedisDB/node"
	"github.com/youzan/ZanRedisDB/rockredis"
	"github.com/youzan/ZanRedisDB/server"
	"github.com/youzan/ZanRedisDB/slow"
	"github.com/youzan/ZanRedisDB/transport/rafthttp"
)

// Protocol lin (C04, certificate mode): acknowledged writes are totally ordered and never lost.
//
//	hist seed=<n> replicas=3 clients=<c> ops=<k> faults=<spec> [anynode=<pct>]
//
// runs one concurrent history against a REAL 3-replica namespace (three server.Server instances in this process:
// real raft over the rafthttp loopback transport, WAL, snapshots, pebble engine, temp dirs) and answers one line
// holding the whole history, the per-replica apply traces and the final dump of every replica (grammar: see
// linAnswerGrammar). The cluster is started at the first hist line and kept for the following ones (fresh keys
// per history). Odd-numbered clients are real TCP clients of the server's redis port (own RESP connection per replica),
// even-numbered ones call Server.serverRedis (the redis entry point: routing, leader check of reads, write path, reply
// encoding) on their own goroutine with an in-memory redcon.Conn. Either way the harness learns the raft request id of
// each operation: node.KVNode.VerifOnRegister reports every id on the proposing goroutine – the client's own, or the
// server goroutine of its connection (learnt by a one-command handshake per connection) – and the certificate order is
// the raft index at which that id was applied (apply hook). Like the SDK, clients talk to the leader; 15% of the
// commands that always go through raft are sent to a random replica (followers forward proposals).
//
// fault spec: "none" or items joined by '+', triggered when <n> operations have completed:
//
//	xl@<n>        transfer leadership to the next running replica
//	sf@<n>~<m>    graceful stop of a follower, restart after <m> more completed operations
//	sl@<n>~<m>    graceful stop of the leader, restart after <m> more completed operations
//
// (one replica down at a time; a majority always stays up).
const linAnswerGrammar = `
answer  := "H " k " " c { ";" rec }          one line, records separated by ';'
rec     := "O " id " " client " " inv " " res " " st " " cmd " " key " " a1 " " a2 " " reply
         | "T " replica { " " event }         apply trace of one replica, in the order the hook fired
         | "D " replica " " applied " " v0 " " v1 " " v2 " " v3      final dump (keys k0..k3) and applied index
         | "S " id { " " id }                 local answers the Go oracle found stale (each one is an oracle violation);
                                              the certificate checker sets exactly these aside and checks everything else
st      := "ok" | "fail"                      fail = error reply / no reply: outcome unknown
inv,res := nanoseconds on the harness's monotonic clock (res = "-" never happens: a failure has its stamp too)
cmd     := incr | getset | setnx | get | hincrby | lpush | lpop | sadd ;  key := k0 (string) k1 (hash) k2 (list) k3 (set)
reply   := "i" int | "b" text | "n" | "s" text | "-"        ("-" iff st = fail)
event   := "a" index "." term "." tag | "s" index           s = state machine reset to that index (restore / clean)
tag     := "o" id {"+o" id} (operations of this history) | "x" hex (another request) | "-" (entry without requests)
v0      := "n" | "b" text ;  v1 := "h:" [f "=" int {"," …}] ;  v2 := "l:" [v {"," v}] ;  v3 := "z:" [m {"," m}]
         | "F " class                         the Go oracle reported a violation of that class in this history
error   := "err " reason                       the harness could not produce a history (treated as a failure)
`

func init() {
	register(&Proto{Name: "lin", Gen: genLin, New: newLin})
}

func genLin(rng *rand.Rand, tier string, emit func(string)) {
	hists, ops, clients := 3, 300, 4
	if tier == "thorough" {
		hists, ops, clients = 20, 1500, 6
	}
	for h := 0; h < hists; h++ {
		var items []string
		nf := 2 + rng.Intn(2)
		if tier == "thorough" {
			nf = 4 + rng.Intn(5)
		}
		at := ops / 12
		for i := 0; i < nf; i++ {
			at += ops/(nf+2)/2 + rng.Intn(ops/(nf+2))
			if at > ops*9/10 {
				break
			}
			m := ops/20 + rng.Intn(ops/8)
			switch k := rng.Intn(10); {
			case h == 0 && i == 0: // every run has at least one of each early on
				items = append(items, fmt.Sprintf("xl@%d", at))
			case h == 0 && i == 1:
				items = append(items, fmt.Sprintf("sf@%d~%d", at, m))
				at += m
			case h == 1 && i == 0:
				items = append(items, fmt.Sprintf("sl@%d~%d", at, m))
				at += m
			case k < 4:
				items = append(items, fmt.Sprintf("xl@%d", at))
			case k < 7:
				items = append(items, fmt.Sprintf("sf@%d~%d", at, m))
				at += m
			default:
				items = append(items, fmt.Sprintf("sl@%d~%d", at, m))
				at += m
			}
		}
		spec := "none"
		if len(items) > 0 {
			spec = strings.Join(items, "+")
		}
		emit(fmt.Sprintf("hist seed=%d replicas=3 clients=%d ops=%d faults=%s", rng.Intn(1<<30), clients, ops, spec))
	}
}

// ---------------------------------------------------------------------------------------------------------------
// in-memory redcon.Conn

type memConn struct {
	toks   []string // reply tokens in the order written
	closed bool
}

func (c *memConn) RemoteAddr() string             { return "verif" }
func (c *memConn) Close() error                   { c.closed = true; return nil }
func (c *memConn) WriteError(msg string)          { c.toks = append(c.toks, "E"+msg) }
func (c *memConn) WriteString(str string)         { c.toks = append(c.toks, "s"+str) }
func (c *memConn) WriteBulk(bulk []byte)          { c.toks = append(c.toks, "b"+string(bulk)) }
func (c *memConn) WriteBulkString(bulk string)    { c.toks = append(c.toks, "b"+bulk) }
func (c *memConn) WriteInt(num int)               { c.toks = append(c.toks, "i"+strconv.Itoa(num)) }
func (c *memConn) WriteInt64(num int64)           { c.toks = append(c.toks, "i"+strconv.FormatInt(num, 10)) }
func (c *memConn) WriteArray(count int)           { c.toks = append(c.toks, "*"+strconv.Itoa(count)) }
func (c *memConn) WriteNull()                     { c.toks = append(c.toks, "n") }
func (c *memConn) WriteRaw(data []byte)           { c.toks = append(c.toks, "r"+string(data)) }
func (c *memConn) Context() interface{}           { return nil }
func (c *memConn) SetContext(v interface{})       {}
func (c *memConn) SetReadBuffer(bytes int)        {}
func (c *memConn) Detach() redcon.DetachedConn    { return nil }
func (c *memConn) ReadPipeline() []redcon.Command { return nil }
func (c *memConn) PeekPipeline() []redcon.Command { return nil }
func (c *memConn) NetConn() net.Conn              { return nil }
func (c *memConn) Flush() error                   { return nil }

func mkCmd(args ...string) redcon.Command {
	bs := make([][]byte, len(args))
	for i, a := range args {
		bs[i] = []byte(a)
	}
	return common.BuildCommand(bs)
}

type linQuietLogger struct{}

func (linQuietLogger) Output(int, string) error        { return nil }
func (linQuietLogger) OutputErr(int, string) error     { return nil }
func (linQuietLogger) OutputWarning(int, string) error { return nil }

func quietLogs() {
	if os.Getenv("VERIF_LOG") != "" {
		return
	}
	q := linQuietLogger{}
	server.SetLogger(common.LOG_ERR, q)
	node.SetLogger(common.LOG_ERR, q)
	rockredis.SetLogger(common.LOG_ERR, q)
	engine.SetLogger(common.LOG_ERR, q)
	slow.SetLogger(common.LOG_ERR, q)
	rafthttp.SetLogger(common.LOG_ERR, q)
	log.SetOutput(ioutil.Discard)
	// wal, snap and pkg/fileutil log to the process's stdout unconditionally; zvh writes its results to files
	if f, err := os.OpenFile(os.DevNull, os.O_WRONLY, 0); err == nil {
		syscall.Dup2(int(f.Fd()), 1)
	}
}

func goid() uint64 {
	var b [64]byte
	n := runtime.Stack(b[:], false)
	s := b[len("goroutine "):n]
	i := bytes.IndexByte(s, ' ')
	if i < 0 {
		return 0
	}
	id, _ := strconv.ParseUint(string(s[:i]), 10, 64)
	return id
}

// freePorts hands out ports from a range below the kernel's ephemeral range, starting at a cursor derived from the
// process id: two harness processes running at the same time (two checks in parallel) then use different ports, and no
// outgoing connection of any process can take one between this test-bind and the server's own bind.
var portCursor = 10000 + (os.Getpid()*7919)%20000

func freePorts(n int) ([]int, error) {
	var ps []int
	for tries := 0; len(ps) < n && tries < 5000; tries++ {
		p := portCursor
		portCursor++
		if portCursor >= 30000 {
			portCursor = 10000
		}
		l, err := net.Listen("tcp", "127.0.0.1:"+strconv.Itoa(p))
		if err != nil {
			continue
		}
		l.Close()
		l2, err := net.Listen("tcp", ":"+strconv.Itoa(p)) // servers bind the wildcard address
		if err != nil {
			continue
		}
		l2.Close()
		ps = append(ps, p)
	}
	if len(ps) < n {
		return nil, fmt.Errorf("no free ports")
	}
	return ps, nil
}

// ---------------------------------------------------------------------------------------------------------------
// the cluster

type linFakeCI struct {
	snapSyncs []common.SnapshotSyncInfo
}

func (ci *linFakeCI) GetClusterName() string { return "verif-lin" }
func (ci *linFakeCI) GetSnapshotSyncInfo(fullNS string) ([]common.SnapshotSyncInfo, error) {
	return ci.snapSyncs, nil
}
func (ci *linFakeCI) UpdateMeForNamespaceLeader(fullNS string) (bool, error) { return false, nil }

const linNS = "default-0"

type linReplica struct {
	id        uint64
	srv       *server.Server
	nsConf    *node.NamespaceConfig
	redisPort int
	up        int32 // namespace node running
}

func (r *linReplica) node() *node.NamespaceNode {
	if atomic.LoadInt32(&r.up) == 0 {
		return nil
	}
	return r.srv.GetNamespaceFromFullName(linNS)
}

type traceEv struct {
	kind  byte // 'a' | 's'
	index uint64
	term  uint64
	ids   []uint64
}

type linCluster struct {
	dir  string
	reps []*linReplica

	mu      sync.Mutex
	traces  map[uint64][]traceEv // by replica id
	byGoid  map[uint64]*linOp    // operation currently executed on a goroutine (a client's, or the server goroutine of its TCP connection)
	reqToOp map[uint64]int       // raft request id -> operation id of the current history

	hsMu      sync.Mutex      // one TCP handshake at a time
	hsPending *linTCPConn     // connection whose server-side goroutine is being learnt
	known     map[uint64]bool // goroutines already attributed
}

func (cl *linCluster) onRegister(reqID uint64) {
	g := goid()
	cl.mu.Lock()
	if op := cl.byGoid[g]; op != nil {
		cl.reqToOp[reqID] = op.id
		op.reqs++
	} else if cl.hsPending != nil && cl.hsPending.goid == 0 && !cl.known[g] {
		// the only proposal from an unattributed goroutine while a handshake is in progress: that connection's goroutine
		cl.hsPending.goid = g
		cl.known[g] = true
	}
	cl.mu.Unlock()
}

// ---------------------------------------------------------------------------------------------------------------
// TCP clients: a plain RESP connection to the server's redis port. redcon serves every connection on one goroutine,
// commands of a connection one after the other; the harness learns that goroutine once per connection (handshake: one
// INCR on a side key while no other connection is being introduced) and from then on attributes every request id
// registered on it to the operation the client has outstanding on that connection.

type linTCPConn struct {
	c      net.Conn
	rd     *bufio.Reader
	goid   uint64
	broken bool // an I/O error: the reply stream can no longer be trusted
}

func (t *linTCPConn) do(args ...string) (string, error) {
	var b bytes.Buffer
	fmt.Fprintf(&b, "*%d\r\n", len(args))
	for _, a := range args {
		fmt.Fprintf(&b, "$%d\r\n%s\r\n", len(a), a)
	}
	t.c.SetDeadline(time.Now().Add(15 * time.Second))
	if _, err := t.c.Write(b.Bytes()); err != nil {
		return "", err
	}
	line, err := t.rd.ReadString('\n')
	if err != nil || len(line) < 3 {
		return "", fmt.Errorf("read: %v", err)
	}
	body := strings.TrimRight(line[1:], "\r\n")
	switch line[0] {
	case '+':
		return "s" + body, nil
	case '-':
		return "E" + body, nil
	case ':':
		return "i" + body, nil
	case '$':
		n, _ := strconv.Atoi(body)
		if n < 0 {
			return "n", nil
		}
		buf := make([]byte, n+2)
		if _, err := io.ReadFull(t.rd, buf); err != nil {
			return "", err
		}
		return "b" + string(buf[:n]), nil
	}
	return "", fmt.Errorf("unexpected reply %q", line)
}

// tcpConn returns the client's connection to a replica, introducing a new one if needed (nil: use the in-process path).
func (cl *linCluster) tcpConn(conns map[uint64]*linTCPConn, r *linReplica, prefix string) *linTCPConn {
	if t := conns[r.id]; t != nil {
		return t
	}
	c, err := net.DialTimeout("tcp", "127.0.0.1:"+strconv.Itoa(r.redisPort), 2*time.Second)
	if err != nil {
		return nil
	}
	t := &linTCPConn{c: c, rd: bufio.NewReader(c)}
	cl.hsMu.Lock()
	cl.mu.Lock()
	cl.hsPending = t
	cl.mu.Unlock()
	_, err = t.do("incr", prefix+"hs")
	cl.mu.Lock()
	cl.hsPending = nil
	cl.mu.Unlock()
	cl.hsMu.Unlock()
	if err != nil || t.goid == 0 { // no proposal was made (no leader, …): try again at the next operation
		c.Close()
		return nil
	}
	conns[r.id] = t
	return t
}

func startLinCluster(engineType string) (*linCluster, error) {
	quietLogs()
	// stale directories of killed runs
	if old, _ := filepath.Glob(filepath.Join(os.TempDir(), "zvh-lin-*")); old != nil {
		for _, d := range old {
			if fi, err := os.Stat(d); err == nil && time.Since(fi.ModTime()) > 2*time.Hour {
				os.RemoveAll(d)
			}
		}
	}
	dir, err := ioutil.TempDir("", "zvh-lin-")
	if err != nil {
		return nil, err
	}
	cl := &linCluster{dir: dir, traces: map[uint64][]traceEv{}, byGoid: map[uint64]*linOp{}, reqToOp: map[uint64]int{}, known: map[uint64]bool{}}
	node.VerifApplyTrace = func(ns string, replica uint64, index uint64, term uint64, ids []uint64) {
		cl.mu.Lock()
		cl.traces[replica] = append(cl.traces[replica], traceEv{'a', index, term, ids})
		cl.mu.Unlock()
	}
	node.VerifRestoreTrace = func(ns string, replica uint64, kind string, index uint64) {
		cl.mu.Lock()
		cl.traces[replica] = append(cl.traces[replica], traceEv{'s', index, 0, nil})
		cl.mu.Unlock()
	}
	const n = 3
	ports, err := freePorts(4 * n)
	if err != nil {
		return nil, err
	}
	var seeds []node.ReplicaInfo
	ci := &linFakeCI{}
	for i := 0; i < n; i++ {
		seeds = append(seeds, node.ReplicaInfo{NodeID: uint64(1 + i), ReplicaID: uint64(1 + i),
			RaftAddr: "http://127.0.0.1:" + strconv.Itoa(ports[4*i])})
		ci.snapSyncs = append(ci.snapSyncs, common.SnapshotSyncInfo{NodeID: uint64(1 + i), ReplicaID: uint64(1 + i),
			RemoteAddr: "127.0.0.1", HttpAPIPort: strconv.Itoa(ports[4*i+2]), DataRoot: path.Join(dir, strconv.Itoa(i))})
	}
	for i := 0; i < n; i++ {
		d := path.Join(dir, strconv.Itoa(i))
		os.MkdirAll(d, 0700)
		ioutil.WriteFile(path.Join(d, "myid"), []byte(strconv.Itoa(1+i)), common.FILE_PERM)
		opts := server.ServerConfig{
			ClusterID: "verif-lin", DataDir: d, BroadcastAddr: "127.0.0.1", MetricAddr: "127.0.0.1:0", ProfilePort: -1,
			LocalRaftAddr: seeds[i].RaftAddr, RedisAPIPort: ports[4*i+1], HttpAPIPort: ports[4*i+2], GrpcAPIPort: ports[4*i+3],
			TickMs: 100, ElectionTick: 5, KeepBackup: 3,
		}
		opts.RocksDBOpts.EngineType = engineType
		nsConf := node.NewNSConfig()
		nsConf.Name = linNS
		nsConf.BaseName = "default"
		nsConf.EngType = rockredis.EngType
		nsConf.PartitionNum = 1
		nsConf.SnapCount = 40
		nsConf.SnapCatchup = 10
		nsConf.Replicator = n
		nsConf.RaftGroupConf.GroupID = 1000
		nsConf.RaftGroupConf.SeedNodes = seeds
		nsConf.ExpirationPolicy = common.WaitCompactExpirationPolicy
		nsConf.DataVersion = common.ValueHeaderV1Str
		srv, err := server.NewServer(opts)
		if err != nil {
			return nil, err
		}
		srv.GetNsMgr().SetIClusterInfo(ci)
		nn, err := srv.InitKVNamespace(uint64(1+i), nsConf, false)
		if err != nil {
			return nil, err
		}
		nn.Node.VerifOnRegister(cl.onRegister)
		srv.Start()
		cl.reps = append(cl.reps, &linReplica{id: uint64(1 + i), srv: srv, nsConf: nsConf, redisPort: ports[4*i+1], up: 1})
	}
	if _, err := cl.waitLeader(45 * time.Second); err != nil {
		cl.destroy()
		return nil, err
	}
	return cl, nil
}

func (cl *linCluster) leader() *linReplica {
	for _, r := range cl.reps {
		if nn := r.node(); nn != nil && nn.IsReady() && nn.Node.IsLead() {
			return r
		}
	}
	return nil
}

func (cl *linCluster) waitLeader(d time.Duration) (*linReplica, error) {
	t0 := time.Now()
	for time.Since(t0) < d {
		if l := cl.leader(); l != nil {
			return l, nil
		}
		time.Sleep(10 * time.Millisecond)
	}
	return nil, fmt.Errorf("no leader after %v", d)
}

func (cl *linCluster) stopReplica(r *linReplica) {
	nn := r.node()
	if nn == nil {
		return
	}
	atomic.StoreInt32(&r.up, 0)
	nn.Close()
	for i := 0; i < 500; i++ { // the stop callback deregisters it asynchronously
		if _, still := r.srv.GetNsMgr().GetNamespaces()[linNS]; !still {
			break
		}
		time.Sleep(10 * time.Millisecond)
	}
}

func (cl *linCluster) startReplica(r *linReplica) error {
	nn, err := r.srv.InitKVNamespace(r.id, r.nsConf, true)
	for i := 0; i < 300 && err == node.ErrNamespaceAlreadyExist; i++ {
		time.Sleep(10 * time.Millisecond)
		nn, err = r.srv.InitKVNamespace(r.id, r.nsConf, true)
	}
	if err != nil {
		return err
	}
	nn.Node.VerifOnRegister(cl.onRegister)
	if err := nn.Start(false); err != nil {
		return err
	}
	atomic.StoreInt32(&r.up, 1)
	return nil
}

// settle waits until every replica is up, there is a leader and all replicas have applied the leader's commit index.
func (cl *linCluster) settle(d time.Duration) (uint64, error) {
	t0 := time.Now()
	var last uint64
	stable := 0
	why := ""
	for time.Since(t0) < d {
		time.Sleep(50 * time.Millisecond)
		l := cl.leader()
		if l == nil {
			stable, why = 0, "no leader"
			continue
		}
		ci := l.node().Node.GetRaftStatus().Commit
		same := true
		for _, r := range cl.reps {
			nn := r.node()
			if nn == nil || !nn.IsReady() || nn.Node.GetAppliedIndex() != ci {
				same = false
				why = fmt.Sprintf("replica %d not at commit %d", r.id, ci)
			}
		}
		if same && ci == last {
			stable++
			if stable >= 3 {
				return ci, nil
			}
		} else {
			stable = 0
		}
		last = ci
	}
	return 0, fmt.Errorf("cluster did not settle in %v: %s", d, why)
}

func (cl *linCluster) destroy() {
	done := make(chan struct{})
	go func() {
		for _, r := range cl.reps {
			if nn := r.node(); nn != nil {
				nn.Close()
			}
		}
		close(done)
	}()
	select {
	case <-done:
	case <-time.After(5 * time.Second):
	}
	for i := 0; i < 20; i++ { // a checkpoint still being written can re-create files while we delete
		os.RemoveAll(cl.dir)
		if _, err := os.Stat(cl.dir); os.IsNotExist(err) {
			break
		}
		time.Sleep(100 * time.Millisecond)
	}
}

// ---------------------------------------------------------------------------------------------------------------
// one history

type linOp struct {
	id     int
	client int
	spec   specOp // key is k0..k3
	inv    int64
	res    int64
	ok     bool
	reply  string
	reqs   int
	// diagnostics only
	target        uint64
	targetLead    bool
	targetApplied uint64
}

var linKinds = map[string]byte{"k0": 'b', "k1": 'h', "k2": 'l', "k3": 'z'}

func genLinOps(rng *rand.Rand, k, clients int) []*linOp {
	ops := make([]*linOp, k)
	for i := range ops {
		o := &linOp{id: i + 1, client: i % clients}
		switch w := rng.Intn(100); {
		case w < 20:
			o.spec = specOp{"incr", "k0", "-", "-"}
		case w < 30:
			o.spec = specOp{"getset", "k0", strconv.Itoa(1000000 + 1000*(i+1)), "-"}
		case w < 35:
			o.spec = specOp{"setnx", "k0", strconv.Itoa(500000 + i), "-"}
		case w < 50:
			o.spec = specOp{"get", "k0", "-", "-"}
		case w < 65:
			o.spec = specOp{"hincrby", "k1", "f" + strconv.Itoa(rng.Intn(2)), strconv.Itoa(rng.Intn(13) - 3)}
		case w < 77:
			o.spec = specOp{"lpush", "k2", "v" + strconv.Itoa(i+1), "-"}
		case w < 87:
			o.spec = specOp{"lpop", "k2", "-", "-"}
		default:
			o.spec = specOp{"sadd", "k3", "m" + strconv.Itoa(rng.Intn(10)), "-"}
		}
		ops[i] = o
	}
	return ops
}

// exec runs one client command: over the TCP connection t when given, else through Server.serverRedis on this goroutine.
func (cl *linCluster) exec(r *linReplica, t *linTCPConn, prefix string, o specOp) (string, bool) {
	args := []string{o.Cmd, prefix + o.Key}
	if o.A != "-" {
		args = append(args, o.A)
	}
	if o.B != "-" {
		args = append(args, o.B)
	}
	conn := &memConn{}
	if t != nil {
		tok, err := t.do(args...)
		if err != nil {
			conn.closed, t.broken = true, true
		} else {
			conn.toks = []string{tok}
		}
	} else {
		r.srv.VerifServeRedis(conn, mkCmd(args...))
	}
	if conn.closed || len(conn.toks) != 1 || conn.toks[0][0] == 'E' || conn.toks[0][0] == '*' || conn.toks[0][0] == 'r' {
		return "-", false
	}
	if o.Cmd == "lpop" && conn.toks[0] == "b" {
		// An LPOP that went through raft and found the list empty at apply time answers an EMPTY BULK STRING, while
		// the same command answered by the local length pre-check answers nil (redis: nil). No element is ever the
		// empty string here, so both mean "no element"; the certificate uses nil, the occurrence is counted.
		return "n", true
	}
	return conn.toks[0], true
}

// dump reads the four keys through the node's own read handlers (no leader check: every replica is read).
func (cl *linCluster) dump(r *linReplica, prefix string) (string, error) {
	nn := r.node()
	if nn == nil {
		return "", fmt.Errorf("replica %d is down", r.id)
	}
	return cl.dumpNode(nn, prefix)
}

func (cl *linCluster) dumpNode(nn *node.NamespaceNode, prefix string) (string, error) {
	read := func(name string, args ...string) ([]string, error) {
		h, ok := nn.Node.GetHandler(name)
		if !ok {
			return nil, fmt.Errorf("no handler %s", name)
		}
		conn := &memConn{}
		h(conn, mkCmd(append([]string{name}, args...)...))
		for _, t := range conn.toks {
			if t[0] == 'E' {
				return nil, fmt.Errorf("%s: %s", name, t[1:])
			}
		}
		return conn.toks, nil
	}
	var out []string
	t, err := read("get", prefix+"k0")
	if err != nil || len(t) != 1 {
		return "", fmt.Errorf("get: %v %v", t, err)
	}
	out = append(out, t[0])
	t, err = read("hgetall", prefix+"k1")
	if err != nil || len(t) < 1 || len(t)%2 != 1 {
		return "", fmt.Errorf("hgetall: %v %v", t, err)
	}
	var fs []string
	for i := 1; i+1 < len(t); i += 2 {
		fs = append(fs, t[i][1:]+"="+t[i+1][1:])
	}
	sort.Strings(fs)
	out = append(out, "h:"+strings.Join(fs, ","))
	t, err = read("lrange", prefix+"k2", "0", "-1")
	if err != nil || len(t) < 1 {
		return "", fmt.Errorf("lrange: %v %v", t, err)
	}
	var vs []string
	for _, x := range t[1:] {
		vs = append(vs, x[1:])
	}
	out = append(out, "l:"+strings.Join(vs, ","))
	t, err = read("smembers", prefix+"k3")
	if err != nil || len(t) < 1 {
		return "", fmt.Errorf("smembers: %v %v", t, err)
	}
	var ms []string
	for _, x := range t[1:] {
		ms = append(ms, x[1:])
	}
	sort.Strings(ms)
	out = append(out, "z:"+strings.Join(ms, ","))
	return strings.Join(out, " "), nil
}

type linFault struct {
	kind string
	at   int
	dur  int
}

func parseFaults(spec string) []linFault {
	var fs []linFault
	if spec == "none" || spec == "" {
		return nil
	}
	for _, it := range strings.Split(spec, "+") {
		var f linFault
		p := strings.SplitN(it, "@", 2)
		if len(p) != 2 {
			continue
		}
		f.kind = p[0]
		q := strings.SplitN(p[1], "~", 2)
		f.at, _ = strconv.Atoi(q[0])
		if len(q) == 2 {
			f.dur, _ = strconv.Atoi(q[1])
		}
		fs = append(fs, f)
	}
	sort.SliceStable(fs, func(i, j int) bool { return fs[i].at < fs[j].at })
	return fs
}

func linKV(line string) map[string]string {
	m := map[string]string{}
	for _, f := range strings.Fields(line)[1:] {
		if p := strings.SplitN(f, "=", 2); len(p) == 2 {
			m[p[0]] = p[1]
		}
	}
	return m
}

func newLin(c *Ctx) func(string) string {
	var cl *linCluster
	var startErr error
	hn := 0
	atExit = append(atExit, func() {
		if cl != nil {
			cl.destroy()
		}
	})
	return func(line string) string {
		if !strings.HasPrefix(line, "hist ") {
			return "bad-op"
		}
		if cl == nil && startErr == nil {
			eng := os.Getenv("VERIF_LIN_ENGINE")
			if eng == "" {
				eng = "pebble"
			}
			for attempt := 0; attempt < 3; attempt++ { // start-up time-outs under machine load: try again
				cl, startErr = startLinCluster(eng)
				if startErr == nil {
					break
				}
				c.Note("harness-timeout-retried")
				cl = nil
			}
		}
		if startErr != nil {
			c.Violation("harness", "cluster start: "+startErr.Error())
			return "err cluster-start " + startErr.Error()
		}
		hn++
		a := linKV(line)
		seed, _ := strconv.ParseInt(a["seed"], 10, 64)
		k, _ := strconv.Atoi(a["ops"])
		clients, _ := strconv.Atoi(a["clients"])
		if clients < 1 {
			clients = 1
		}
		if k < 1 {
			k = 1
		}
		anynode, _ := strconv.Atoi(a["anynode"])
		return cl.history(c, hn, seed, k, clients, parseFaults(a["faults"]), anynode)
	}
}

// localAnswerable: commands the node may answer from its local state (reads, and writes that find nothing to do).
func localAnswerable(cmd string) bool {
	return cmd == "get" || cmd == "setnx" || cmd == "lpop" || cmd == "sadd"
}

func (cl *linCluster) history(c *Ctx, hn int, seed int64, k, clients int, faults []linFault, anynode int) string {
	rng := rand.New(rand.NewSource(seed))
	ops := genLinOps(rng, k, clients)
	prefix := fmt.Sprintf("default:lin:h%d_", hn)
	if _, err := cl.settle(60 * time.Second); err != nil {
		c.Violation("harness", err.Error())
		return "err settle-before " + err.Error()
	}
	cl.mu.Lock()
	start := map[uint64]int{}
	for _, r := range cl.reps {
		start[r.id] = len(cl.traces[r.id])
	}
	cl.reqToOp = map[uint64]int{}
	cl.byGoid = map[uint64]*linOp{}
	cl.mu.Unlock()

	var completed int64
	var cmu sync.Mutex // Ctx is not safe for concurrent use
	note := func(k string) { cmu.Lock(); c.Note(k); cmu.Unlock() }
	viol := func(class, what string) { cmu.Lock(); c.Violation(class, what); cmu.Unlock() }
	t0 := time.Now()
	var wg sync.WaitGroup
	for ci := 0; ci < clients; ci++ {
		wg.Add(1)
		go func(ci int) {
			defer wg.Done()
			g := goid()
			cl.mu.Lock()
			cl.known[g] = true
			cl.mu.Unlock()
			// odd clients are real TCP clients of the redis port, even ones call the server's redis entry point in-process
			useTCP := ci%2 == 1 && os.Getenv("VERIF_LIN_NOTCP") == ""
			conns := map[uint64]*linTCPConn{}
			defer func() {
				for _, t := range conns {
					t.c.Close()
				}
			}()
			crng := rand.New(rand.NewSource(seed*131 + int64(ci)))
			for i := ci; i < len(ops); i += clients {
				o := ops[i]
				l, _ := cl.waitLeader(8 * time.Second)
				target := l
				// like the SDK, clients talk to the leader; proposals that always go through raft are also sent to
				// followers (15%), which forward them. anynode=<pct> additionally sends the locally answerable
				// commands to any replica (they are then served from possibly lagging follower state).
				pct := 15
				if localAnswerable(o.spec.Cmd) {
					pct = anynode
				}
				if target == nil || (o.spec.Cmd != "get" && crng.Intn(100) < pct) {
					var ups []*linReplica
					for _, r := range cl.reps {
						if r.node() != nil {
							ups = append(ups, r)
						}
					}
					if len(ups) > 0 {
						target = ups[crng.Intn(len(ups))]
					}
				}
				if target == nil {
					target = cl.reps[0]
				}
				var t *linTCPConn
				if useTCP {
					t = cl.tcpConn(conns, target, prefix)
				}
				og := g
				if t != nil {
					og = t.goid
					note("lin-op-tcp")
				} else {
					note("lin-op-inproc")
				}
				cl.mu.Lock()
				cl.byGoid[og] = o
				cl.mu.Unlock()
				o.target = target.id
				if nn := target.node(); nn != nil {
					o.targetLead, o.targetApplied = nn.Node.IsLead(), nn.Node.GetAppliedIndex()
				}
				o.inv = int64(time.Since(t0))
				o.reply, o.ok = cl.exec(target, t, prefix, o.spec)
				o.res = int64(time.Since(t0))
				cl.mu.Lock()
				delete(cl.byGoid, og)
				cl.mu.Unlock()
				if t != nil && !o.ok && o.reply == "-" && t.broken {
					t.c.Close()
					delete(conns, target.id)
				}
				if o.ok {
					if o.spec.Cmd == "lpop" && o.reply == "n" && o.reqs > 0 {
						note("lin-lpop-empty-bulk-instead-of-nil")
					}
					note("lin-op-ok:" + o.spec.Cmd)
				} else {
					note("lin-op-fail")
					time.Sleep(20 * time.Millisecond)
				}
				atomic.AddInt64(&completed, 1)
			}
		}(ci)
	}
	clientsDone := make(chan struct{})
	go func() { wg.Wait(); close(clientsDone) }()

	// fault schedule
	faultsDone := make(chan struct{})
	go func() {
		defer close(faultsDone)
		waitFor := func(n int) bool { // false when the clients finished first
			for atomic.LoadInt64(&completed) < int64(n) {
				select {
				case <-clientsDone:
					return false
				case <-time.After(5 * time.Millisecond):
				}
			}
			return true
		}
		for _, f := range faults {
			if !waitFor(f.at) {
				note("lin-fault-skipped")
				return
			}
			l, _ := cl.waitLeader(10 * time.Second)
			if l == nil {
				note("lin-fault-noleader")
				continue
			}
			var others []*linReplica
			for _, r := range cl.reps {
				if r != l && r.node() != nil {
					others = append(others, r)
				}
			}
			switch f.kind {
			case "xl":
				if len(others) > 0 {
					to := others[rng.Intn(len(others))]
					err := l.node().Node.TransferLeadership(to.id)
					if err != nil {
						note("lin-fault-xl-err")
					} else {
						note("lin-fault-xl")
					}
				}
			case "sf", "sl":
				victim := l
				if f.kind == "sf" {
					if len(others) == 0 {
						continue
					}
					victim = others[rng.Intn(len(others))]
				}
				cl.stopReplica(victim)
				note("lin-fault-" + f.kind)
				waitFor(f.at + f.dur)
				if err := cl.startReplica(victim); err != nil {
					viol("harness", fmt.Sprintf("restart of replica %d failed: %v", victim.id, err))
				}
			}
		}
	}()
	<-clientsDone
	<-faultsDone
	for _, r := range cl.reps { // a restart that failed above is retried once
		if r.node() == nil {
			cl.startReplica(r)
		}
	}
	if _, err := cl.settle(90 * time.Second); err != nil {
		c.Violation("harness", err.Error())
		return "err settle-after " + err.Error()
	}
	if node.VerifApplyHookCalls() == 0 {
		c.Violation("harness", "the apply-trace hook is not in this build (tools/instrument could not anchor trace:apply)")
		return "err no-apply-hook"
	}

	// ---- canonical answer
	var sb strings.Builder
	fmt.Fprintf(&sb, "H %d %d", k, clients)
	for _, o := range ops {
		st := "ok"
		if !o.ok {
			st = "fail"
		}
		fmt.Fprintf(&sb, ";O %d %d %d %d %s %s %s %s %s %s", o.id, o.client, o.inv, o.res, st, o.spec.Cmd, o.spec.Key, o.spec.A, o.spec.B, o.reply)
	}
	cl.mu.Lock()
	type ev struct {
		kind  byte
		index uint64
		term  uint64
		tag   string
	}
	traces := map[uint64][]ev{}
	for _, r := range cl.reps {
		fmt.Fprintf(&sb, ";T %d", r.id)
		for _, e := range cl.traces[r.id][start[r.id]:] {
			if e.kind == 's' {
				fmt.Fprintf(&sb, " s%d", e.index)
				traces[r.id] = append(traces[r.id], ev{'s', e.index, 0, ""})
				continue
			}
			tag := "-"
			if len(e.ids) > 0 {
				var ts []string
				foreign := false
				for _, id := range e.ids {
					if op, ok := cl.reqToOp[id]; ok {
						ts = append(ts, "o"+strconv.Itoa(op))
					} else {
						foreign = true
					}
				}
				if foreign {
					tag = fmt.Sprintf("x%x", e.ids[0])
				} else {
					tag = strings.Join(ts, "+")
				}
			}
			fmt.Fprintf(&sb, " a%d.%d.%s", e.index, e.term, tag)
			traces[r.id] = append(traces[r.id], ev{'a', e.index, e.term, tag})
		}
	}
	cl.mu.Unlock()
	dumps := map[uint64]string{}
	for _, r := range cl.reps {
		d, err := cl.dump(r, prefix)
		if err != nil {
			c.Violation("harness", "dump: "+err.Error())
			return "err dump " + err.Error()
		}
		ai := r.node().Node.GetAppliedIndex()
		dumps[r.id] = fmt.Sprintf("%d %s", ai, d)
		fmt.Fprintf(&sb, ";D %d %d %s", r.id, ai, d)
	}

	// ---- Go-side oracle (independent of the Lean checker). Every property violation is also told to the certificate
	// checker (record F; stale local answers: record S): the Lean driver answers "ok" when it AGREES with the oracle.
	flagged := ""
	pviol := func(class, what string) {
		c.Violation(class, what)
		if flagged == "" && class != "stale-local-answer" {
			flagged = class
		}
	}
	type ent struct {
		term uint64
		tag  string
	}
	merged := map[uint64]ent{}
	for _, r := range cl.reps {
		var last uint64
		have := false
		for _, e := range traces[r.id] {
			if e.kind == 's' {
				last, have = e.index, true
				continue
			}
			if have && e.index <= last {
				pviol("applied-twice", fmt.Sprintf("h%d seed=%d replica %d applied index %d after index %d without a restore", hn, seed, r.id, e.index, last))
			}
			last, have = e.index, true
			if m, ok := merged[e.index]; ok {
				if m.term != e.term || m.tag != e.tag {
					pviol("replica-diverge", fmt.Sprintf("h%d seed=%d index %d: %d.%s vs replica %d: %d.%s", hn, seed, e.index, m.term, m.tag, r.id, e.term, e.tag))
				}
			} else {
				merged[e.index] = ent{e.term, e.tag}
			}
		}
	}
	for _, r := range cl.reps[1:] {
		if dumps[r.id] != dumps[cl.reps[0].id] {
			pviol("replica-diverge", fmt.Sprintf("h%d seed=%d final state of replica %d {%s} differs from replica %d {%s}", hn, seed, r.id, dumps[r.id], cl.reps[0].id, dumps[cl.reps[0].id]))
		}
	}
	var idxs []uint64
	for i := range merged {
		idxs = append(idxs, i)
	}
	sort.Slice(idxs, func(i, j int) bool { return idxs[i] < idxs[j] })
	appliedAt := map[int]uint64{}
	var witness []*linOp
	for _, i := range idxs {
		tag := merged[i].tag
		if !strings.HasPrefix(tag, "o") {
			continue
		}
		for _, t := range strings.Split(tag, "+") {
			id, _ := strconv.Atoi(t[1:])
			if prev, dup := appliedAt[id]; dup {
				pviol("applied-twice", fmt.Sprintf("h%d seed=%d operation %d (%v) applied at index %d and at index %d", hn, seed, id, ops[id-1].spec, prev, i))
				continue
			}
			appliedAt[id] = i
			witness = append(witness, ops[id-1])
		}
	}
	// replay of the applied order; states[p] = store before witness[p]
	st := specStore{}
	states := []specStore{st.clone()}
	for _, o := range witness {
		want := st.apply(o.spec)
		if o.ok && o.reply != want {
			pviol("wrong-reply", fmt.Sprintf("h%d seed=%d operation %d (%v) at index %d answered %s, sequential replay of the log gives %s", hn, seed, o.id, o.spec, appliedAt[o.id], o.reply, want))
		}
		states = append(states, st.clone())
	}
	// answered without a raft entry: legitimate only for replies that say "nothing written" (GET; SETNX on an existing
	// key, LPOP on an empty list, SADD of a present member are answered from the local state of the node asked)
	var reads []*linOp
	for _, o := range ops {
		if _, applied := appliedAt[o.id]; applied || !o.ok {
			continue
		}
		noop := o.spec.Cmd == "get" || (o.spec.Cmd == "setnx" && o.reply == "i0") || (o.spec.Cmd == "lpop" && o.reply == "n") ||
			(o.spec.Cmd == "sadd" && o.reply == "i0")
		if o.reqs > 0 || !noop {
			pviol("acked-lost", fmt.Sprintf("h%d seed=%d acknowledged operation %d (%v => %s, %d proposals) was applied by no replica", hn, seed, o.id, o.spec, o.reply, o.reqs))
		} else {
			c.Note("lin-local-answer:" + o.spec.Cmd)
			reads = append(reads, o)
		}
	}
	// Each local answer must be explained by SOME position of the applied order allowed by real time (after every
	// operation answered before its invocation); greedy earliest placement in invocation order is complete for a
	// fixed order of the writes. The Lean driver does the same search and then checks the whole order.
	sort.SliceStable(reads, func(i, j int) bool { return reads[i].inv < reads[j].inv })
	type placedRead struct {
		res int64
		pos int
	}
	var placed []placedRead
	var stale []string
	for _, r := range reads {
		lo := 0
		var after *linOp
		for j, x := range witness {
			if x.ok && x.res < r.inv {
				lo, after = j+1, x
			}
		}
		for _, q := range placed {
			if q.res < r.inv && q.pos > lo {
				lo = q.pos
			}
		}
		pos := -1
		for p := lo; p <= len(witness); p++ {
			if states[p].peek(r.spec) == r.reply {
				pos = p
				break
			}
		}
		if pos < 0 {
			stale = append(stale, strconv.Itoa(r.id))
			why := ""
			if after != nil {
				why = fmt.Sprintf("; operation %d (%v => %s, index %d) had been acknowledged by replica %d at %dns", after.id, after.spec, after.reply, appliedAt[after.id], after.target, after.res)
			}
			if r.spec.Cmd == "get" {
				// C04 speaks about writes; a stale plain read is counted, set aside (record S) and not reported as a violation
				c.Note(fmt.Sprintf("observation:stale-local-read:leader=%v", r.targetLead))
				continue
			}
			pviol("stale-local-answer", fmt.Sprintf("h%d seed=%d operation %d (%v => %s) invoked at %dns on replica %d (leader=%v, its applied index %d) is explained by no state at or after position %d of the applied order%s",
				hn, seed, r.id, r.spec, r.reply, r.inv, r.target, r.targetLead, r.targetApplied, lo, why))
			continue
		}
		placed = append(placed, placedRead{r.res, pos})
	}
	if len(stale) > 0 {
		// told to the certificate checker: it sets exactly these aside (each is reported above) and checks all the rest
		fmt.Fprintf(&sb, ";S %s", strings.Join(stale, " "))
	}
	wantDump := strings.Join([]string{st.dumpKey("k0", 'b'), st.dumpKey("k1", 'h'), st.dumpKey("k2", 'l'), st.dumpKey("k3", 'z')}, " ")
	for _, r := range cl.reps {
		got := strings.SplitN(dumps[r.id], " ", 2)[1]
		if got != wantDump {
			cls := "final-state-mismatch"
			// an acknowledged unique element that is gone is reported under its own class
			for _, o := range ops {
				if o.ok && o.spec.Cmd == "sadd" && !strings.Contains(","+strings.Fields(got)[3][2:]+",", ","+o.spec.A+",") {
					cls = "acked-lost"
				}
			}
			pviol(cls, fmt.Sprintf("h%d seed=%d replica %d serves {%s}, replay of the applied log gives {%s}", hn, seed, r.id, got, wantDump))
		}
	}
	if flagged != "" {
		fmt.Fprintf(&sb, ";F %s", flagged)
	}
	c.Note("lin-history")
	return sb.String()
}
